(* C11 — which buckets a mutation must dirty (bucket-level model, BModel.v).

   insert: after a successful insert every token of the document is owned by a bucket that is
   dirty, lists the token and records the document in doc_ids — whether the posting push
   appended an entry or was a no-op on a stale identical (id, freq) pair.  (The next flush
   therefore rewrites that bucket's doc_tokens snapshot with the document's length.)
   remove: afterwards no bucket records the document in doc_ids, and every bucket that did is
   dirty. *)
From Coq Require Import List String Bool Arith ZArith Lia.
From Verif Require Import Bm25.Model Bm25.BModel Bm25.ProofsQuery Bm25.ProofsHist.
Import ListNotations.
Open Scope list_scope.

Lemma zlookup_zset (A : Type) k k' (v : A) l :
  zlookup k' (zset k v l) = if Z.eqb k k' then Some v else zlookup k' l.
Proof.
  induction l as [|[a w] r IH]; simpl.
  - reflexivity.
  - destruct (Z.eqb_spec a k); subst; simpl.
    + destruct (Z.eqb_spec k k'); reflexivity.
    + rewrite IH. destruct (Z.eqb_spec a k'); subst; auto.
      destruct (Z.eqb_spec k k'); subst; [congruence|reflexivity].
Qed.

Lemma bget_bupd_default b' bid f bs :
  bget b' (bupd_default bid f bs) =
  if Z.eqb bid b' then Some (f (match bget bid bs with Some b => b | None => bucket_default end))
  else bget b' bs.
Proof. unfold bupd_default, bget. apply zlookup_zset. Qed.

Lemma sadd_In x t l : In x (sadd t l) <-> x = t \/ In x l.
Proof.
  unfold sadd. destruct (smem t l) eqn:E.
  - apply smem_In in E. split; auto. intros [->|]; auto.
  - rewrite in_app_iff. simpl. intuition.
Qed.

Lemma slookup_snoc_other (A : Type) t tok (v : A) l : t <> tok -> slookup t (l ++ [(tok, v)]) = slookup t l.
Proof.
  intros Hn. induction l as [|[a w] r IH]; simpl.
  - destruct (String.eqb_spec tok t); [congruence|reflexivity].
  - destruct (String.eqb a t); auto.
Qed.

Lemma slookup_snoc_same (A : Type) t (v : A) l : slookup t l = None -> slookup t (l ++ [(t, v)]) = Some v.
Proof.
  induction l as [|[a w] r IH]; simpl; intros H.
  - rewrite String.eqb_refl. reflexivity.
  - destruct (String.eqb a t); [discriminate|auto].
Qed.

Lemma slookup_sset_other (A : Type) t tok (v : A) l : t <> tok -> slookup t (sset tok v l) = slookup t l.
Proof.
  intros Hn. induction l as [|[a w] r IH]; simpl; auto.
  destruct (String.eqb_spec a tok); subst; simpl.
  - destruct (String.eqb_spec tok t); [congruence|reflexivity].
  - destruct (String.eqb a t); auto.
Qed.

Lemma slookup_sset_same (A : Type) t (v x : A) l : slookup t l = Some x -> slookup t (sset t v l) = Some v.
Proof.
  induction l as [|[a w] r IH]; simpl; intros H; [discriminate|].
  destruct (String.eqb_spec a t); subst; simpl.
  - rewrite String.eqb_refl. reflexivity.
  - destruct (String.eqb_spec a t); [congruence|auto].
Qed.

Section PB.
  Variable tokenize : string -> list string.
  Notation toks := (toks tokenize).
  Notation freqs := (freqs tokenize).

  (* bucket [bid] is dirty, lists [tok] and records [id] *)
  Definition good (id : docid) (bs : list (Z * bucket)) (bid : Z) (tok : token) : Prop :=
    exists bk, bget bid bs = Some bk /\ bk_dirty bk = true /\ In id (bk_docs bk) /\ In tok (bk_tokens bk).

  (* ---------------------------------------------------------------- phase 1 *)
  Lemma uv_push_has id f es : In id (map fst (uv_push (id, f) es)).
  Proof.
    unfold uv_push. destruct (existsb (entry_eqb (id, f)) es) eqn:E.
    - apply existsb_exists in E as (x & Hx & Ex). unfold entry_eqb in Ex.
      apply andb_true_iff in Ex as [E1 _]. apply Z.eqb_eq in E1. simpl in E1.
      apply in_map_iff. exists x. split; auto.
    - rewrite map_app, in_app_iff. right. simpl. auto.
  Qed.

  Lemma phase1_step id start ps upd tok f :
    let r := ins_phase1 id start (ps, upd) (tok, f) in
    (forall u, In u upd -> In u (snd r)) /\
    (forall t, t <> tok -> slookup t (fst r) = slookup t ps) /\
    (exists b0 vac es, In (b0, tok, vac) (snd r) /\ slookup tok (fst r) = Some (b0, es) /\ In id (map fst es)).
  Proof.
    unfold ins_phase1. simpl fst. destruct (slookup tok ps) as [[b es]|] eqn:E; simpl.
    - split; [intros u Hu; apply in_or_app; auto|]. split.
      + intros t Ht. apply slookup_sset_other; auto.
      + exists b, false, (uv_push (id, f) es). split; [apply in_or_app; right; left; reflexivity|].
        split; [eapply slookup_sset_same; eauto|apply uv_push_has].
    - split; [intros u Hu; apply in_or_app; auto|]. split.
      + intros t Ht. apply slookup_snoc_other; auto.
      + exists start, true, [(id, f)]. split; [apply in_or_app; right; left; reflexivity|].
        split; [apply slookup_snoc_same; auto|left; reflexivity].
  Qed.

  Lemma phase1_fold id start fs : forall acc,
      NoDup (map fst fs) ->
      let r := fold_left (ins_phase1 id start) fs acc in
      (forall u, In u (snd acc) -> In u (snd r)) /\
      (forall t, ~ In t (map fst fs) -> slookup t (fst r) = slookup t (fst acc)) /\
      (forall tok, In tok (map fst fs) ->
                   exists b0 vac es, In (b0, tok, vac) (snd r) /\ slookup tok (fst r) = Some (b0, es) /\ In id (map fst es)).
  Proof.
    induction fs as [|[tok f] fs IH]; intros [ps upd] N; cbv zeta.
    - cbn [fold_left map fst snd]. repeat split; auto. intros tok [].
    - inversion N as [|? ? Nt Nr]; subst.
      cbn [fold_left].
      pose proof (phase1_step id start ps upd tok f) as S. cbv zeta in S.
      destruct (ins_phase1 id start (ps, upd) (tok, f)) as [ps1 upd1].
      destruct S as (S1 & S2 & b0 & vac & es & S3 & S4 & S5).
      pose proof (IH (ps1, upd1) Nr) as I. cbv zeta in I. destruct I as (I1 & I2 & I3).
      cbn [fst snd map] in *.
      split; [intros u Hu; apply I1, S1, Hu|]. split.
      + intros t Ht. rewrite I2 by (intros X; apply Ht; right; exact X). apply S2. intros ->. apply Ht. left. reflexivity.
      + intros t [<-|Ht].
        * exists b0, vac, es. split; [apply I1; auto|]. split; auto. rewrite I2 by auto. exact S4.
        * apply I3; auto.
  Qed.

  (* ---------------------------------------------------------------- phases 2 and 3 on buckets *)
  Lemma phase2_mono id final bs u bid tok : good id bs bid tok -> good id (ins_phase2 id final bs u) bid tok.
  Proof.
    intros (bk & G1 & G2 & G3 & G4). destruct u as [[b0 t] vac]. unfold ins_phase2, good.
    rewrite bget_bupd_default. destruct (Z.eqb_spec b0 bid); [|exists bk; auto].
    subst b0. rewrite G1. eexists; split; [reflexivity|].
    destruct (smem t (bk_tokens bk)); simpl; [rewrite zadd_In; auto|].
    destruct (negb vac || Z.eqb (final t) bid); simpl; [rewrite zadd_In, in_app_iff; auto|auto].
  Qed.

  Lemma phase2_est id final bs b0 tok vac :
    is_migrated final (b0, tok, vac) = false -> good id (ins_phase2 id final bs (b0, tok, vac)) b0 tok.
  Proof.
    intros M. unfold ins_phase2, good. rewrite bget_bupd_default, Z.eqb_refl.
    eexists; split; [reflexivity|].
    set (b := match bget b0 bs with Some b => b | None => bucket_default end).
    destruct (smem tok (bk_tokens b)) eqn:E; simpl.
    - rewrite zadd_In. apply smem_In in E. auto.
    - assert (K : negb vac || Z.eqb (final tok) b0 = true).
      { unfold is_migrated in M. destruct vac; simpl in *; auto. apply negb_false_iff in M. exact M. }
      rewrite K. simpl. rewrite zadd_In, in_app_iff. simpl. auto.
  Qed.

  Lemma phase2_fold_mono id final upd : forall bs bid tok,
      good id bs bid tok -> good id (fold_left (ins_phase2 id final) upd bs) bid tok.
  Proof. induction upd; intros; simpl; auto. apply IHupd, phase2_mono; auto. Qed.

  Lemma phase2_fold_est id final upd : forall bs b0 tok vac,
      In (b0, tok, vac) upd -> is_migrated final (b0, tok, vac) = false ->
      good id (fold_left (ins_phase2 id final) upd bs) b0 tok.
  Proof.
    induction upd as [|x r IH]; intros bs b0 tok vac [] M; simpl.
    - subst x. apply phase2_fold_mono, phase2_est; auto.
    - eapply IH; eauto.
  Qed.

  Lemma phase3_mono id final bs u bid tok : good id bs bid tok -> good id (ins_phase3_bucket id final bs u) bid tok.
  Proof.
    intros (bk & G1 & G2 & G3 & G4). destruct u as [[b0 t] vac]. unfold ins_phase3_bucket, good.
    rewrite bget_bupd_default. destruct (Z.eqb_spec (final t) bid); [|exists bk; auto].
    rewrite e, G1. eexists; split; [reflexivity|]. simpl. rewrite zadd_In, sadd_In. auto.
  Qed.

  Lemma phase3_est id final bs b0 tok vac : good id (ins_phase3_bucket id final bs (b0, tok, vac)) (final tok) tok.
  Proof.
    unfold ins_phase3_bucket, good. rewrite bget_bupd_default, Z.eqb_refl.
    eexists; split; [reflexivity|]. simpl. rewrite zadd_In, sadd_In. auto.
  Qed.

  Lemma phase3_fold_mono id final l : forall bs bid tok,
      good id bs bid tok -> good id (fold_left (ins_phase3_bucket id final) l bs) bid tok.
  Proof. induction l; intros; simpl; auto. apply IHl, phase3_mono; auto. Qed.

  Lemma phase3_fold_est id final l : forall bs b0 tok vac,
      In (b0, tok, vac) l -> good id (fold_left (ins_phase3_bucket id final) l bs) (final tok) tok.
  Proof.
    induction l as [|x r IH]; intros bs b0 tok vac []; simpl.
    - subst x. apply phase3_fold_mono, phase3_est.
    - eapply IH; eauto.
  Qed.

  (* ---------------------------------------------------------------- phase 3 on postings *)
  Definition tok_of (u : upd_t) : token := snd (fst u).

  Lemma phase3_post_step final ps b0 t vac tok :
      slookup tok (ins_phase3_post final ps (b0, t, vac)) =
      match slookup tok ps with
      | Some (b, es) => Some (if String.eqb t tok then final tok else b, es)
      | None => None
      end.
  Proof.
    unfold ins_phase3_post.
    destruct (String.eqb_spec t tok) as [->|Hn].
    - destruct (slookup tok ps) as [[bt est]|] eqn:Et.
      + erewrite slookup_sset_same; eauto.
      + rewrite Et. reflexivity.
    - destruct (slookup t ps) as [[bt est]|] eqn:Et.
      + rewrite slookup_sset_other by auto. destruct (slookup tok ps) as [[b es]|]; reflexivity.
      + destruct (slookup tok ps) as [[b es]|]; reflexivity.
  Qed.

  Lemma phase3_post_fold final l : forall ps tok,
      slookup tok (fold_left (ins_phase3_post final) l ps) =
      match slookup tok ps with
      | Some (b, es) => Some (if existsb (fun u => String.eqb (tok_of u) tok) l then final tok else b, es)
      | None => None
      end.
  Proof.
    induction l as [|[[b0 t] vac] r IH]; intros ps tok; cbn [fold_left existsb].
    - destruct (slookup tok ps) as [[b es]|]; reflexivity.
    - rewrite IH, phase3_post_step.
      destruct (slookup tok ps) as [[b es]|]; auto.
      unfold tok_of at 2. cbn [fst snd].
      destruct (String.eqb t tok); destruct (existsb _ r); reflexivity.
  Qed.

  (* ---------------------------------------------------------------- the theorem for insert *)
  Theorem b_insert_dirties_owners s id text place s' :
    b_insert tokenize s id text place = (s', InsOk) ->
    forall tok, In tok (toks text) ->
      exists bid es, slookup tok (bs_post s') = Some (bid, es) /\ In id (map fst es) /\
                     good id (bs_buckets s') bid tok.
  Proof.
    unfold b_insert. destruct (is_nil (freqs text)); [discriminate|].
    destruct (blive s id); [discriminate|].
    intros H tok Htok. inversion H; subst s'; clear H. simpl.
    set (start := bs_max s).
    set (final := fun tok0 : token => match slookup tok0 place with Some b => b | None => start end).
    set (p1 := fold_left (ins_phase1 id start) (freqs text) (bs_post s, [])).
    assert (N : NoDup (map fst (freqs text))) by (rewrite freqs_keys; apply sdedup_NoDup).
    destruct (phase1_fold id start (freqs text) (bs_post s, []) N) as (_ & _ & P3). fold p1 in P3.
    destruct (P3 tok) as (b0 & vac & es & U & L & Hid).
    { rewrite freqs_keys. apply sdedup_In. exact Htok. }
    rewrite phase3_post_fold, L.
    destruct (existsb (fun u => String.eqb (tok_of u) tok) (filter (is_migrated final) (snd p1))) eqn:Em.
    - (* the token was migrated: its final bucket *)
      exists (final tok), es. split; auto. split; auto.
      apply existsb_exists in Em as ([[b' t'] vac'] & Hin & Et). unfold tok_of in Et. simpl in Et.
      apply String.eqb_eq in Et. subst t'.
      eapply phase3_fold_est. exact Hin.
    - (* it stayed where phase 1 put it *)
      exists b0, es. split; auto. split; auto.
      apply phase3_fold_mono. eapply phase2_fold_est; [exact U|].
      destruct (is_migrated final (b0, tok, vac)) eqn:M; auto.
      exfalso. rewrite <- not_true_iff_false in Em. apply Em. apply existsb_exists.
      exists (b0, tok, vac). split; [apply filter_In; auto|]. unfold tok_of. simpl. apply String.eqb_refl.
  Qed.

  (* ---------------------------------------------------------------- remove *)
  Lemma zremove_In x d l : In x (zremove d l) <-> In x l /\ x <> d.
  Proof.
    unfold zremove. rewrite filter_In, negb_true_iff. split; intros [H1 H2]; split; auto.
    - intros ->. rewrite Z.eqb_refl in H2. discriminate.
    - apply Z.eqb_neq. auto.
  Qed.

  (* after remove(id, any text) no bucket records the document any more, and every bucket that
     recorded it just before the final sweep — in particular every bucket whose committed object
     may still list the document's length — is dirty *)
  Theorem b_remove_forgets_document s id text s' r :
    b_remove tokenize s id text = (s', r) ->
    forall bid bk, In (bid, bk) (bs_buckets s') -> ~ In id (bk_docs bk).
  Proof.
    unfold b_remove.
    match goal with |- context [fold_left ?f (freqs text) ?a] => destruct (fold_left f (freqs text) a) as [post1 upd] end.
    intros H. inversion H; subst s'; clear H. simpl.
    intros bid bk Hin. apply in_map_iff in Hin as ([b0 k0] & Heq & _).
    simpl in Heq. destruct (zmem id (bk_docs k0)) eqn:Em.
    - inversion Heq; subst. simpl. rewrite zremove_In. tauto.
    - inversion Heq; subst. apply zmem_false. exact Em.
  Qed.

End PB.
