(* C11 — pinned statements only.  Each is closed by [exact] of a lemma proved in
   Bm25/Proofs*.v / Bm25/Persist.v and followed by Print Assumptions.

   [tokenize] (the tokenizer) is universally quantified in every statement: it is an oracle.
   Score values never appear: a hit carries the integer total_cmp key of the score the
   implementation computed and its NaN flag. *)
From Coq Require Import List String Bool Arith ZArith Permutation Sorting.Sorted.
From Verif Require Import Common.ObjStore Common.CommitPoint gen.Gen_Bm25.
From Verif Require Import Bm25.Model Bm25.ProofsRank Bm25.ProofsQuery Bm25.ProofsHist Bm25.ProofsSpec
     Bm25.Persist Bm25.Run Bm25.BModel Bm25.ProofsBucket.
Import ListNotations.
Open Scope list_scope.

(* ---------------------------------------------------------------------------------------------
   1. execute_query = set denotation, for every index state and every query tree (no depth bound)
   --------------------------------------------------------------------------------------------- *)
Theorem C11_exec_query_is_set_denotation :
  forall tokenize (s : state) (q : query) (d : docid),
    NoDup (map fst (doc_tokens s)) ->
    (In d (exec tokenize s q false) <-> denote tokenize s q d = true) /\
    NoDup (exec tokenize s q false).
Proof. intros. split; [apply exec_denote|apply exec_NoDup]; auto. Qed.
Print Assumptions C11_exec_query_is_set_denotation.

(* the positives / negatives split of score_and: whatever mix of NOT and non-NOT operands, in
   whatever order, an AND of at least one operand returns exactly the documents every operand
   (read with execute_query(.., false)) returns; and the value handed to a parent AND for a NOT
   operand (negated_not = true) is the operand's own match set *)
Theorem C11_negated_not_returns_operand_matches :
  forall tokenize (s : state) (q : query) (d : docid),
    NoDup (map fst (doc_tokens s)) ->
    (In d (exec tokenize s (QNot q) true) <-> denote tokenize s q d = true).
Proof. intros tokenize s q d N. destruct (exec_spec_all tokenize s N (QNot q)) as (_ & B & _). apply B. Qed.
Print Assumptions C11_negated_not_returns_operand_matches.

(* over every history (incl. remove with non-original text, re-insert, purge_ids, compaction,
   flush+load): *)
Theorem C11_query_denotes_over_histories :
  forall tokenize (h : list op) (q : query) (d : docid),
    (In d (exec tokenize (run tokenize h) q false) <-> denote tokenize (run tokenize h) q d = true) /\
    NoDup (exec tokenize (run tokenize h) q false).
Proof. intros. split; [apply query_denotes|apply query_no_duplicates]. Qed.
Print Assumptions C11_query_denotes_over_histories.

(* stale postings never match: every returned document is indexed at that point of the history *)
Theorem C11_results_are_indexed_documents :
  forall tokenize (h : list op) (q : query) (d : docid),
    In d (exec tokenize (run tokenize h) q false) -> zlookup d (spec_run tokenize h) <> None.
Proof. exact results_are_indexed. Qed.
Print Assumptions C11_results_are_indexed_documents.

(* no false negative, for every history: an indexed document whose text shares a token with the
   query text is returned *)
Theorem C11_term_query_complete :
  forall tokenize (h : list op) (t : string) (d : docid) (text : string) (tok : token),
    zlookup d (spec_run tokenize h) = Some text ->
    In tok (toks tokenize text) -> In tok (toks tokenize t) ->
    In d (exec tokenize (run tokenize h) (QTerm t) false).
Proof. exact term_complete. Qed.
Print Assumptions C11_term_query_complete.

(* exactness.  FULL STATEMENT (false of the code, see C11_exact_retrieval_refuted and
   known_findings.json class stale-reinsert-ghost):
     forall h q d, In d (exec (run h) q false) <-> sdenote (spec_run h) q d = true.
   Proved for every history in which each remove() of an indexed document is given a text
   covering the original tokens ([clean]); such histories still contain removes of absent ids
   with arbitrary text, re-inserts, purges, compactions and reloads. *)
Theorem C11_exact_retrieval_unless_stale_reinsert :
  forall tokenize (h : list op),
    clean tokenize h ->
    forall (q : query) (d : docid),
      In d (exec tokenize (run tokenize h) q false) <-> sdenote tokenize (spec_run tokenize h) q d = true.
Proof. exact query_exact_clean. Qed.
Print Assumptions C11_exact_retrieval_unless_stale_reinsert.

Theorem C11_exact_retrieval_refuted :
  exists (h : list op) (d : docid),
    In d (exec ws_tokens (run ws_tokens h) (QTerm "red") false) /\
    sdenote ws_tokens (spec_run ws_tokens h) (QTerm "red") d = false.
Proof.
  exists [OInsert 1%Z "red blue"; OInsert 2%Z "blue"; ORemove 1%Z "blue"; OInsert 1%Z "gold"], 1%Z.
  vm_compute. split; [left; reflexivity|reflexivity].
Qed.
Print Assumptions C11_exact_retrieval_refuted.

(* the same answers after flush + load *)
Theorem C11_reload_same_answers :
  forall tokenize (h : list op) (q : query) (d : docid),
    In d (exec tokenize (reload (run tokenize h)) q false) <-> In d (exec tokenize (run tokenize h) q false).
Proof. exact reload_same_answers. Qed.
Print Assumptions C11_reload_same_answers.

(* ---------------------------------------------------------------------------------------------
   1b. which buckets a mutation must dirty (bucket-level model BModel.v; the placement of new
       tokens is an arbitrary oracle [place])
   --------------------------------------------------------------------------------------------- *)
(* after a successful insert every token of the document is owned by a bucket that is dirty, lists
   the token and records the document in doc_ids — also when the posting push was a no-op on a
   stale identical (id, freq) pair, so the next flush rewrites that bucket's doc_tokens snapshot *)
(* [good id buckets bid tok] := bucket [bid] exists, is dirty, records [id] in doc_ids and lists [tok] *)
Theorem C11_insert_dirties_every_owner_bucket :
  forall tokenize (s : bstate) (id : docid) (text : string) (place : list (token * Z)) (s' : bstate),
    b_insert tokenize s id text place = (s', InsOk) ->
    forall tok, In tok (toks tokenize text) ->
      exists bid es,
        slookup tok (bs_post s') = Some (bid, es) /\ In id (map fst es) /\ good id (bs_buckets s') bid tok.
Proof. exact b_insert_dirties_owners. Qed.
Print Assumptions C11_insert_dirties_every_owner_bucket.

(* after remove(id, any text) no bucket records the document any more (every bucket that did was
   rewritten as dirty by the final sweep of remove) *)
Theorem C11_remove_clears_doc_ids :
  forall tokenize (s : bstate) (id : docid) (text : string) (s' : bstate) (r : bool),
    b_remove tokenize s id text = (s', r) ->
    forall bid bk, In (bid, bk) (bs_buckets s') -> ~ In id (bk_docs bk).
Proof. exact b_remove_forgets_document. Qed.
Print Assumptions C11_remove_clears_doc_ids.

(* C11_reload_same_answers above is about the whole-index model.  FULL bucket-level statement, NOT
   proved (partial): for every history in which no flush happens while a live document has a posting
   entry in a bucket whose doc_ids lacks it (the stale-reinsert classes),
     denote (abs (b_load (b_flush s))) q d = denote (abs s) q d.
   What is proved is the per-mutation part above; the rest is tied to the implementation by the
   per-step comparison of the bucket bookkeeping, by comparing bucket-level and whole-index model
   after every step (Run.models_agree) and by the live = reloaded oracle at every flush. *)
Example C11_bucket_reload_nonvacuous :
  let s1 := fst (b_insert ws_tokens b_new 1%Z "red fox" [("red", 0%Z); ("fox", 0%Z)]) in
  let s2 := b_flush s1 in
  let s3 := b_flush (fst (b_remove ws_tokens s2 1%Z "salt")) in       (* stale entries stay *)
  let s4 := fst (b_insert ws_tokens s3 1%Z "red fox" []) in           (* both pushes are no-ops *)
  dirty_buckets s3 = [] /\ dirty_buckets s4 = [0%Z] /\
  exec ws_tokens (abs (b_load (b_flush s4))) (QTerm "fox") false = [1%Z] /\
  bs_docs (b_load (b_flush s4)) = [(1%Z, 2)].
Proof. vm_compute. repeat split; reflexivity. Qed.

(* ---------------------------------------------------------------------------------------------
   3. counters
   --------------------------------------------------------------------------------------------- *)
Theorem C11_counters_follow_documents :
  forall tokenize (h : list op),
    total_tokens (run tokenize h) = Z.of_nat (nsum (map snd (doc_tokens (run tokenize h)))) /\
    (0 <= total_tokens (run tokenize h))%Z /\
    (forall d, live (run tokenize h) d = true <-> zlookup d (spec_run tokenize h) <> None).
Proof. exact counters. Qed.
Print Assumptions C11_counters_follow_documents.

(* ---------------------------------------------------------------------------------------------
   2. ranking
   --------------------------------------------------------------------------------------------- *)
Theorem C11_compare_scored_docs_total_order :
  (forall a b, hle a b \/ hle b a) /\
  (forall a b c, hle a b -> hle b c -> hle a c) /\
  (forall a b, hle a b -> hle b a -> h_id a = h_id b).
Proof. exact (conj hle_total (conj hle_trans hle_antisym_id)). Qed.
Print Assumptions C11_compare_scored_docs_total_order.

(* top_k_results k = the first k of the fully sorted list, for every select_nth_unstable_by that
   meets its documented contract *)
Theorem C11_top_k_is_sorted_prefix :
  forall (select_nth : nat -> list hit -> list hit),
    (forall n l, Permutation (select_nth n l) l) ->
    (forall n l x y, In x (firstn (S n) (select_nth n l)) -> In y (skipn (S n) (select_nth n l)) -> hle x y) ->
    forall k l, NoDup (map h_id l) ->
                top_k select_nth k l = firstn k (hit_sort l) /\
                top_k select_nth k l = firstn k (top_k select_nth (S k) l) /\
                StronglySorted hle (top_k select_nth k l).
Proof.
  intros sel P S k l N. split; [apply top_k_spec; auto|]. split; [apply top_k_prefix; auto|apply top_k_sorted; auto].
Qed.
Print Assumptions C11_top_k_is_sorted_prefix.

(* repeated queries agree: the list does not depend on the iteration order of the score map nor
   on which admissible select_nth runs *)
Theorem C11_top_k_repeatable :
  forall sel sel' k l l',
    (forall n l, Permutation (sel n l) l) ->
    (forall n l x y, In x (firstn (S n) (sel n l)) -> In y (skipn (S n) (sel n l)) -> hle x y) ->
    (forall n l, Permutation (sel' n l) l) ->
    (forall n l x y, In x (firstn (S n) (sel' n l)) -> In y (skipn (S n) (sel' n l)) -> hle x y) ->
    Permutation l l' -> NoDup (map h_id l) ->
    top_k sel k l = top_k sel' k l'.
Proof. exact top_k_perm. Qed.
Print Assumptions C11_top_k_repeatable.

(* ---------------------------------------------------------------------------------------------
   4. flush / load under crashes (stated over the write order extracted from the source)
   --------------------------------------------------------------------------------------------- *)
Theorem C11_flush_generation_is_fresh :
  forall (s : pstate) b g,
    PInv s -> has_dirty s || has_pending s = true ->
    In (b, g) (p_manifest s) -> (g < flush_generation s)%Z.
Proof.
  intros s b g I D Hin. pose proof (flush_generation_fresh s I D). destruct I as [_ H2].
  specialize (H2 _ _ Hin). apply Z.le_lt_trans with (p_last_saved s); auto.
Qed.
Print Assumptions C11_flush_generation_is_fresh.

Theorem C11_flush_crash_prefix_atomic :
  forall (payload : Type) (content : pstate -> Z -> payload) (h : list pop),
    let '(s, st) := p_run payload content p_new [] h in
    forall k,
      CommitPoint.read path_eq_dec PMeta (@refs payload) (ObjStore.crash path_eq_dec k (flush_steps payload content s) st)
      = CommitPoint.read path_eq_dec PMeta (@refs payload) st
      \/
      CommitPoint.read path_eq_dec PMeta (@refs payload) (ObjStore.crash path_eq_dec k (flush_steps payload content s) st)
      = CommitPoint.read path_eq_dec PMeta (@refs payload)
          (ObjStore.apply path_eq_dec st (flush_steps payload content s)).
Proof. exact flush_crash_atomic_any_history. Qed.
Print Assumptions C11_flush_crash_prefix_atomic.

(* the monitor run on the implementation's recorded write logs is sound *)
Theorem C11_flush_log_monitor_sound :
  forall (payload : Type) committed existing log obs (st : ObjStore.store path (obj payload)) (pl : payload),
    wf_flush_log committed existing log obs = true ->
    reach path_eq_dec PMeta (@refs payload) st = @refs payload (OMeta payload committed) ->
    forall k,
      CommitPoint.read path_eq_dec PMeta (@refs payload) (ObjStore.crash path_eq_dec k (log_steps payload pl log obs) st)
      = CommitPoint.read path_eq_dec PMeta (@refs payload) st
      \/
      CommitPoint.read path_eq_dec PMeta (@refs payload) (ObjStore.crash path_eq_dec k (log_steps payload pl log obs) st)
      = CommitPoint.read path_eq_dec PMeta (@refs payload) (ObjStore.apply path_eq_dec st (log_steps payload pl log obs)).
Proof. intros. eapply wf_flush_log_atomic; eauto. Qed.
Print Assumptions C11_flush_log_monitor_sound.

(* ---------------------------------------------------------------------------------------------
   generated facts the model's transcription rests on (re-extracted from the source every run)
   --------------------------------------------------------------------------------------------- *)
Theorem C11_gen_source_shape :
  flush_order = [FWriteBuckets; FCommitMeta; FPublishSaved] /\
  flush_meta_commits = 1 /\
  flush_generation_expr = "meta.stats.version"%string /\
  flush_forces_fresh_version = true /\
  obsolete_is_committed_minus_new = true /\
  manifest_dirty_new_clean_committed = true /\
  load_reads_manifest_objects = true /\
  load_prunes_entries_without_length = true /\
  compare_scrutinee_is_nan_pair = true /\
  compare_arms = [("true", "true", "a.0.cmp(&b.0)");
                  ("true", "false", "std::cmp::Ordering::Greater");
                  ("false", "true", "std::cmp::Ordering::Less");
                  ("false", "false", "b.1.total_cmp(&a.1).then_with(|| a.0.cmp(&b.0))")]%string /\
  top_k_steps = ["select_nth"; "truncate"; "sort"]%string /\
  top_k_selects_only_when_longer = true /\
  and_partitions_on_not = true /\
  and_skips_first_negative_when_no_positive = true /\
  and_subtracts_negated_operand = true /\
  not_evaluates_operand_unnegated = true /\
  not_complements_within_doc_tokens = true /\
  term_filters_through_doc_tokens = true /\
  term_accumulates_in_sorted_token_order = true /\
  noise_token_max_len = 1 /\
  gate_sides = [("insert", "read"); ("remove", "read"); ("purge_ids", "read"); ("compact_buckets", "write")]%string.
Proof. repeat split; reflexivity. Qed.
Print Assumptions C11_gen_source_shape.

(* ---------------------------------------------------------------------------------------------
   non-vacuity
   --------------------------------------------------------------------------------------------- *)
Example C11_history_nonvacuous :
  let h := [OInsert 1%Z "red blue"; OInsert 2%Z "blue fox"; OInsert 3%Z "gold";
            ORemove 2%Z "blue fox"; OInsert 2%Z "red fox fox"; OPurge [3%Z]; OReload] in
  clean ws_tokens h /\
  exec ws_tokens (run ws_tokens h) (QAnd [QTerm "red"; QNot (QTerm "blue")]) false = [2%Z] /\
  exec ws_tokens (run ws_tokens h) (QAnd [QNot (QTerm "gold"); QNot (QTerm "fox")]) false = [1%Z] /\
  total_tokens (run ws_tokens h) = 5%Z.
Proof.
  vm_compute. repeat split; auto; intros orig H; inversion H; subst; intros x Hx; exact Hx.
Qed.

Example C11_rank_nonvacuous :
  top_k sel 2 [mkHit 3%Z 10%Z false; mkHit 1%Z 10%Z false; mkHit 2%Z 7%Z true; mkHit 5%Z 12%Z false]
  = [mkHit 5%Z 12%Z false; mkHit 1%Z 10%Z false].
Proof. vm_compute. reflexivity. Qed.

Example C11_flush_nonvacuous :
  let s := p_mutate [0%Z; 1%Z] (p_flush (p_mutate [0%Z] p_new)) in
  has_dirty s = true /\ new_manifest s = [(0, 3); (1, 3)]%Z /\ obsolete s = [(0, 2)]%Z /\
  wf_flush_log [(0, 2)]%Z [(0, 2)]%Z [WBucket 0%Z 3%Z; WBucket 1%Z 3%Z; WMeta [(0, 3); (1, 3)]%Z] [(0, 2)]%Z = true /\
  wf_flush_log [(0, 2)]%Z [(0, 2)]%Z [WBucket 0%Z 2%Z; WMeta [(0, 2)]%Z] [] = false.
Proof. vm_compute. repeat split; reflexivity. Qed.
