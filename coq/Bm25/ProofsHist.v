(* C11 — invariants over every history of insert / remove / purge_ids / compact / reload:
   counters, completeness of the postings for every indexed document, and — for histories
   in which every remove() of an indexed document is given a text covering the original
   tokens — exactness (no stale entry). *)
From Coq Require Import List String Bool Arith ZArith Lia.
From Verif Require Import Bm25.Model Bm25.ProofsQuery.
Import ListNotations.
Open Scope list_scope.

(* ------------------------------------------------------------------ association lists *)
Ltac seqb :=
  repeat match goal with
         | |- context [String.eqb ?x ?y] => destruct (String.eqb_spec x y); subst; simpl
         | H : context [String.eqb ?x ?y] |- _ => destruct (String.eqb_spec x y); subst; simpl in H
         end.
Ltac zeqb :=
  repeat match goal with
         | |- context [Z.eqb ?x ?y] => destruct (Z.eqb_spec x y); subst; simpl
         | H : context [Z.eqb ?x ?y] |- _ => destruct (Z.eqb_spec x y); subst; simpl in H
         end.

Lemma slookup_sset (A : Type) k t (v : A) l :
  slookup k (sset t v l) =
  if String.eqb t k then (match slookup t l with Some _ => Some v | None => None end) else slookup k l.
Proof.
  induction l as [|[a w] r IH]; simpl.
  - destruct (String.eqb t k); auto.
  - destruct (String.eqb_spec a t); subst; simpl.
    + destruct (String.eqb_spec t k); subst; simpl; auto.
    + destruct (String.eqb_spec a k); subst; simpl.
      * destruct (String.eqb_spec t k); subst; [congruence|auto].
      * exact IH.
Qed.

Lemma slookup_snoc (A : Type) k t (v : A) l :
  slookup k (l ++ [(t, v)]) =
  match slookup k l with Some x => Some x | None => if String.eqb t k then Some v else None end.
Proof.
  induction l as [|[a w] r IH]; simpl; auto.
  destruct (String.eqb a k); auto.
Qed.

Lemma slookup_sdelete (A : Type) k t (l : list (string * A)) :
  slookup k (sdelete t l) = if String.eqb t k then None else slookup k l.
Proof.
  induction l as [|[a w] r IH]; simpl.
  - destruct (String.eqb t k); auto.
  - destruct (String.eqb_spec a t); subst; simpl.
    + rewrite IH. destruct (String.eqb_spec t k); subst; simpl; auto.
    + destruct (String.eqb_spec a k); subst; simpl.
      * destruct (String.eqb_spec t k); subst; [congruence|auto].
      * exact IH.
Qed.

Lemma slookup_None_keys (A : Type) k (l : list (string * A)) :
  slookup k l = None <-> ~ In k (map fst l).
Proof.
  induction l as [|[a w] r IH]; simpl; [tauto|].
  destruct (String.eqb a k) eqn:E.
  - apply String.eqb_eq in E. split; [discriminate|]. intros H. exfalso. apply H. auto.
  - apply String.eqb_neq in E. rewrite IH. tauto.
Qed.

Lemma sset_keys (A : Type) t (v : A) l : map fst (sset t v l) = map fst l.
Proof.
  induction l as [|[a w] r IH]; simpl; auto.
  destruct (String.eqb a t); simpl; congruence.
Qed.

Lemma sdelete_keys_incl (A : Type) t (l : list (string * A)) k :
  In k (map fst (sdelete t l)) -> In k (map fst l).
Proof.
  induction l as [|[a w] r IH]; simpl; auto.
  destruct (String.eqb a t); simpl; intuition.
Qed.

Lemma sdelete_keys_NoDup (A : Type) t (l : list (string * A)) :
  NoDup (map fst l) -> NoDup (map fst (sdelete t l)).
Proof.
  induction l as [|[a w] r IH]; simpl; intros N; auto.
  inversion N; subst. destruct (String.eqb a t); simpl; auto.
  constructor; auto. intros H. apply sdelete_keys_incl in H. auto.
Qed.

Lemma slookup_In (A : Type) k (v : A) l : slookup k l = Some v -> In (k, v) l.
Proof.
  induction l as [|[a w] r IH]; simpl; [discriminate|].
  destruct (String.eqb a k) eqn:E.
  - apply String.eqb_eq in E. intros H. inversion H; subst. auto.
  - auto.
Qed.

(* filter_map with a key-preserving function *)
Lemma filter_map_keys_incl (A : Type) (f : string * A -> option (string * A)) l k :
  (forall p p', f p = Some p' -> fst p' = fst p) ->
  In k (map fst (filter_map f l)) -> In k (map fst l).
Proof.
  intros Hf. induction l as [|p r IH]; simpl; auto.
  destruct (f p) as [p'|] eqn:E; simpl; [|auto].
  intros [H|H]; auto. left. rewrite <- (Hf _ _ E). auto.
Qed.

Lemma filter_map_keys_NoDup (A : Type) (f : string * A -> option (string * A)) l :
  (forall p p', f p = Some p' -> fst p' = fst p) ->
  NoDup (map fst l) -> NoDup (map fst (filter_map f l)).
Proof.
  intros Hf. induction l as [|p r IH]; simpl; intros N; auto.
  inversion N; subst. destruct (f p) as [p'|] eqn:E; simpl; auto.
  constructor; auto. rewrite (Hf _ _ E). intros H. apply filter_map_keys_incl in H; auto.
Qed.

Lemma slookup_filter_map (A : Type) (f : string * A -> option (string * A)) l k :
  (forall p p', f p = Some p' -> fst p' = fst p) ->
  NoDup (map fst l) ->
  slookup k (filter_map f l) =
  match slookup k l with
  | Some v => match f (k, v) with Some p' => Some (snd p') | None => None end
  | None => None
  end.
Proof.
  intros Hf. induction l as [|[a w] r IH]; simpl; intros N; auto.
  inversion N; subst.
  destruct (String.eqb a k) eqn:E.
  - apply String.eqb_eq in E. subst a.
    destruct (f (k, w)) as [[a' w']|] eqn:Ef; simpl.
    + pose proof (Hf _ _ Ef) as K. simpl in K. subst a'. rewrite String.eqb_refl. reflexivity.
    + apply slookup_None_keys. intros H. apply filter_map_keys_incl in H; auto.
  - destruct (f (a, w)) as [[a' w']|] eqn:Ef; simpl; auto.
    pose proof (Hf _ _ Ef) as K. simpl in K. subst a'. rewrite E. auto.
Qed.

Lemma filter_len_le (A : Type) (f : A -> bool) l : List.length (filter f l) <= List.length l.
Proof. induction l as [|x r IH]; simpl; auto. destruct (f x); simpl; lia. Qed.

Lemma filter_length_eq (A : Type) (f : A -> bool) l :
  List.length (filter f l) = List.length l -> filter f l = l.
Proof.
  induction l as [|x r IH]; simpl; auto.
  destruct (f x); simpl; intros H.
  - f_equal. apply IH. lia.
  - pose proof (filter_len_le _ f r). lia.
Qed.

Lemma filter_all (A : Type) (f : A -> bool) l : (forall x, In x l -> f x = true) -> filter f l = l.
Proof.
  induction l as [|x r IH]; simpl; intros H; auto.
  rewrite (H x) by auto. f_equal. apply IH. auto.
Qed.

(* Z-keyed lists *)
Lemma zlookup_zdelete (A : Type) k d (l : list (Z * A)) :
  zlookup k (zdelete d l) = if Z.eqb d k then None else zlookup k l.
Proof.
  induction l as [|[a w] r IH]; simpl.
  - destruct (Z.eqb d k); auto.
  - destruct (Z.eqb_spec a d); subst; simpl.
    + rewrite IH. destruct (Z.eqb_spec d k); subst; simpl; auto.
    + destruct (Z.eqb_spec a k); subst; simpl.
      * destruct (Z.eqb_spec d k); subst; [congruence|auto].
      * exact IH.
Qed.

Lemma zlookup_filter_keys (A : Type) k (g : Z -> bool) (l : list (Z * A)) :
  zlookup k (filter (fun kv => g (fst kv)) l) = if g k then zlookup k l else None.
Proof.
  induction l as [|[a w] r IH]; simpl.
  - destruct (g k); auto.
  - destruct (g a) eqn:Ega; simpl.
    + destruct (Z.eqb a k) eqn:E.
      * apply Z.eqb_eq in E. subst a. rewrite Ega. reflexivity.
      * exact IH.
    + destruct (Z.eqb a k) eqn:E; auto.
      apply Z.eqb_eq in E. subst a. rewrite Ega in IH |- *. exact IH.
Qed.

Lemma zdelete_keys_incl (A : Type) d (l : list (Z * A)) k :
  In k (map fst (zdelete d l)) -> In k (map fst l).
Proof.
  induction l as [|[a w] r IH]; simpl; auto.
  destruct (Z.eqb a d); simpl; intuition.
Qed.

Lemma zdelete_keys_NoDup (A : Type) d (l : list (Z * A)) :
  NoDup (map fst l) -> NoDup (map fst (zdelete d l)).
Proof.
  induction l as [|[a w] r IH]; simpl; intros N; auto.
  inversion N; subst. destruct (Z.eqb a d); simpl; auto.
  constructor; auto. intros H. apply zdelete_keys_incl in H. auto.
Qed.

Lemma filter_keys_NoDup (A : Type) (g : Z * A -> bool) (l : list (Z * A)) :
  NoDup (map fst l) -> NoDup (map fst (filter g l)).
Proof.
  induction l as [|[a w] r IH]; simpl; intros N; auto.
  inversion N; subst. destruct (g (a, w)); simpl; auto.
  constructor; auto. intros H. apply in_map_iff in H as ([a' w'] & E & Hin). simpl in E. subst a'.
  apply filter_In in Hin. apply H1. apply in_map_iff. exists (a, w'). tauto.
Qed.

Lemma zlookup_None_keys (A : Type) k (l : list (Z * A)) :
  zlookup k l = None <-> ~ In k (map fst l).
Proof.
  induction l as [|[a w] r IH]; simpl; [tauto|].
  destruct (Z.eqb a k) eqn:E.
  - apply Z.eqb_eq in E. split; [discriminate|]. intros H. exfalso. apply H. auto.
  - apply Z.eqb_neq in E. rewrite IH. tauto.
Qed.

Lemma nsum_zdelete d n (l : list (Z * nat)) :
  NoDup (map fst l) -> zlookup d l = Some n ->
  nsum (map snd l) = n + nsum (map snd (zdelete d l)).
Proof.
  induction l as [|[a w] r IH]; simpl; intros N H; [discriminate|].
  inversion N; subst.
  destruct (Z.eqb a d) eqn:E.
  - apply Z.eqb_eq in E. subst a. inversion H; subst.
    assert (K : zdelete d r = r).
    { clear - H2. induction r as [|[b u] r IH]; simpl; auto. simpl in H2.
      destruct (Z.eqb b d) eqn:E.
      - apply Z.eqb_eq in E. subst. exfalso. apply H2. auto.
      - f_equal. apply IH. intuition. }
    rewrite K. reflexivity.
  - simpl. rewrite (IH H3 H). lia.
Qed.

Lemma zdelete_absent (A : Type) d (l : list (Z * A)) : zlookup d l = None -> zdelete d l = l.
Proof.
  induction l as [|[a w] r IH]; simpl; auto.
  destruct (Z.eqb a d); [discriminate|]. intros H. f_equal. auto.
Qed.

Lemma nsum_filter_split (g : Z * nat -> bool) (l : list (Z * nat)) :
  nsum (map snd l) = nsum (map snd (filter g l)) + nsum (map snd (filter (fun kv => negb (g kv)) l)).
Proof.
  induction l as [|x r IH]; simpl; auto.
  destruct (g x); simpl; lia.
Qed.

Section H.
  Variable tokenize : string -> list string.
  Notation toks := (toks tokenize).
  Notation freqs := (freqs tokenize).
  Notation live := (Model.live).
  Notation insert := (insert tokenize).
  Notation remove := (remove tokenize).
  Notation step := (step tokenize).
  Notation run := (run tokenize).
  Notation spec_step := (spec_step tokenize).
  Notation spec_run := (spec_run tokenize).

  (* ---------------------------------------------------------------- has_entry after each posting update *)
  Definition he (ps : list (token * list entry)) (tok : token) (d : docid) : bool :=
    match slookup tok ps with
    | Some es => existsb (fun e => Z.eqb (fst e) d) es
    | None => false
    end.

  Lemma has_entry_he s tok d : has_entry s tok d = he (postings s) tok d.
  Proof. reflexivity. Qed.

  Lemma existsb_uv_push e es d :
    existsb (fun x => Z.eqb (fst x) d) (uv_push e es) =
    existsb (fun x => Z.eqb (fst x) d) es || Z.eqb (fst e) d.
  Proof.
    unfold uv_push. destruct (existsb (entry_eqb e) es) eqn:E.
    - apply existsb_exists in E as (x & Hx & Ex). unfold entry_eqb in Ex.
      apply andb_true_iff in Ex as [E1 _]. apply Z.eqb_eq in E1.
      destruct (Z.eqb (fst e) d) eqn:Ed; [|rewrite orb_false_r; auto].
      rewrite orb_true_r. apply existsb_exists. exists x. split; auto. apply Z.eqb_eq. apply Z.eqb_eq in Ed. etransitivity; [symmetry; exact E1|exact Ed].
    - rewrite existsb_app. simpl. rewrite orb_false_r. reflexivity.
  Qed.

  Lemma he_post_push ps tok e k d :
    he (post_push tok e ps) k d = he ps k d || (String.eqb tok k && Z.eqb (fst e) d).
  Proof.
    unfold post_push, he. destruct (slookup tok ps) as [es|] eqn:E.
    - rewrite slookup_sset, E. destruct (String.eqb tok k) eqn:Ek.
      + apply String.eqb_eq in Ek. subst k. rewrite E. rewrite existsb_uv_push. reflexivity.
      + simpl. rewrite orb_false_r. reflexivity.
    - rewrite slookup_snoc. destruct (slookup k ps) as [es|] eqn:Ek.
      + destruct (String.eqb tok k) eqn:Etk.
        * apply String.eqb_eq in Etk. subst k. congruence.
        * simpl. rewrite orb_false_r. reflexivity.
      + destruct (String.eqb tok k); simpl; auto. rewrite orb_false_r. reflexivity.
  Qed.

  Lemma post_push_keys_NoDup ps tok e : NoDup (map fst ps) -> NoDup (map fst (post_push tok e ps)).
  Proof.
    unfold post_push. intros N. destruct (slookup tok ps) eqn:E.
    - rewrite sset_keys. auto.
    - rewrite map_app. simpl. apply NoDup_snoc; auto. apply slookup_None_keys. auto.
  Qed.

  Lemma he_fold_push id (fs : list (token * nat)) : forall ps k d,
      he (fold_left (fun ps tf => post_push (fst tf) (id, snd tf) ps) fs ps) k d
      = he ps k d || (smem k (map fst fs) && Z.eqb id d).
  Proof.
    induction fs as [|[t n] r IH]; intros ps k d; simpl.
    - rewrite orb_false_r. reflexivity.
    - rewrite IH, he_post_push. simpl. destruct (String.eqb t k); simpl.
      + destruct (Z.eqb id d); simpl; rewrite ?orb_true_r, ?orb_false_r; auto.
        rewrite andb_false_r, orb_false_r. reflexivity.
      + rewrite orb_false_r. reflexivity.
  Qed.

  Lemma fold_push_keys_NoDup id (fs : list (token * nat)) : forall ps,
      NoDup (map fst ps) ->
      NoDup (map fst (fold_left (fun ps tf => post_push (fst tf) (id, snd tf) ps) fs ps)).
  Proof.
    induction fs as [|[t n] r IH]; intros ps N; simpl; auto.
    apply IH. apply post_push_keys_NoDup. auto.
  Qed.

  Lemma existsb_filter_id (es : list entry) id d :
    existsb (fun e : entry => Z.eqb (fst e) d) (filter (fun e : entry => negb (Z.eqb (fst e) id)) es)
    = existsb (fun e : entry => Z.eqb (fst e) d) es && negb (Z.eqb id d).
  Proof.
    induction es as [|e r IH]; simpl; auto.
    destruct (Z.eqb_spec (fst e) id) as [E|E]; simpl; rewrite IH;
      destruct (Z.eqb_spec id d); destruct (Z.eqb_spec (fst e) d); simpl;
      rewrite ?andb_false_r, ?andb_true_r; auto; exfalso; lia.
  Qed.

  Lemma he_post_remove ps id tok k d :
    he (post_remove id tok ps) k d = he ps k d && negb (String.eqb tok k && Z.eqb id d).
  Proof.
    unfold post_remove, he. unfold entry, docid in *. destruct (slookup tok ps) as [es|] eqn:E.
    - cbv beta iota zeta. set (es' := @filter (Z * nat) _ es).
      assert (K : existsb (fun e : Z * nat => Z.eqb (fst e) d) es'
                  = existsb (fun e : Z * nat => Z.eqb (fst e) d) es && negb (Z.eqb id d))
        by (apply existsb_filter_id).
      assert (FL : List.length es' = List.length es -> es' = es) by (apply filter_length_eq).
      clearbody es'.
      destruct (Nat.eqb (List.length es') (List.length es)) eqn:El.
      + apply Nat.eqb_eq in El. apply FL in El. rewrite El in K.
        destruct (String.eqb_spec tok k) as [Ek|Ek]; simpl; [|rewrite andb_true_r; auto].
        subst k. rewrite E. exact K.
      + destruct (is_nil es') eqn:En.
        * rewrite slookup_sdelete.
          destruct (String.eqb_spec tok k) as [Ek|Ek]; simpl; [|rewrite andb_true_r; auto].
          subst k. rewrite E. apply is_nil_true in En. rewrite En in K. simpl in K. exact K.
        * rewrite slookup_sset, E.
          destruct (String.eqb_spec tok k) as [Ek|Ek]; simpl; [|rewrite andb_true_r; auto].
          subst k. rewrite E. exact K.
    - destruct (String.eqb_spec tok k) as [Ek|Ek]; simpl; [|rewrite andb_true_r; auto].
      subst k. rewrite E. reflexivity.
  Qed.

  Lemma post_remove_keys_NoDup ps id tok : NoDup (map fst ps) -> NoDup (map fst (post_remove id tok ps)).
  Proof.
    unfold post_remove. intros N. destruct (slookup tok ps); auto.
    destruct (Nat.eqb _ _); auto. destruct (is_nil _).
    - apply sdelete_keys_NoDup; auto.
    - rewrite sset_keys; auto.
  Qed.

  Lemma he_fold_remove id (fs : list (token * nat)) : forall ps k d,
      he (fold_left (fun ps tf => post_remove id (fst tf) ps) fs ps) k d
      = he ps k d && negb (smem k (map fst fs) && Z.eqb id d).
  Proof.
    induction fs as [|[t n] r IH]; intros ps k d; simpl.
    - rewrite andb_true_r. reflexivity.
    - rewrite IH, he_post_remove. simpl.
      destruct (he ps k d), (String.eqb t k), (smem k (map fst r)), (Z.eqb id d); reflexivity.
  Qed.

  Lemma fold_remove_keys_NoDup id (fs : list (token * nat)) : forall ps,
      NoDup (map fst ps) ->
      NoDup (map fst (fold_left (fun ps tf => post_remove id (fst tf) ps) fs ps)).
  Proof.
    induction fs as [|[t n] r IH]; intros ps N; simpl; auto.
    apply IH. apply post_remove_keys_NoDup. auto.
  Qed.

  Lemma existsb_filter_pred (es : list entry) (g : docid -> bool) d :
    existsb (fun e : entry => Z.eqb (fst e) d) (filter (fun e : entry => g (fst e)) es)
    = existsb (fun e : entry => Z.eqb (fst e) d) es && g d.
  Proof.
    induction es as [|e r IH]; simpl; auto.
    destruct (g (fst e)) eqn:Eg; simpl; rewrite IH;
      destruct (Z.eqb_spec (fst e) d) as [Ed|Ed]; simpl; auto;
      rewrite <- Ed, Eg; rewrite ?andb_false_r; reflexivity.
  Qed.

  Lemma purge_posting_key ids p p' : purge_posting ids p = Some p' -> fst p' = fst p.
  Proof.
    unfold purge_posting. destruct (Nat.eqb _ _); [intros H; inversion H; auto|].
    destruct (is_nil _); [discriminate|]. intros H; inversion H; auto.
  Qed.

  Lemma he_purge ps ids k d :
    NoDup (map fst ps) ->
    he (filter_map (purge_posting ids) ps) k d = he ps k d && negb (zmem d ids).
  Proof.
    intros N. unfold he. rewrite slookup_filter_map; auto; [|apply purge_posting_key].
    destruct (slookup k ps) as [es|]; auto.
    unfold purge_posting. cbn [fst snd]. unfold entry, docid in *.
    set (es' := @filter (Z * nat) _ es).
    assert (K : existsb (fun e : Z * nat => Z.eqb (fst e) d) es'
                = existsb (fun e : Z * nat => Z.eqb (fst e) d) es && negb (zmem d ids))
      by (apply (existsb_filter_pred es (fun x => negb (zmem x ids)) d)).
    assert (FL : List.length es' = List.length es -> es' = es) by (apply filter_length_eq).
    clearbody es'.
    destruct (Nat.eqb (List.length es') (List.length es)) eqn:El.
    - apply Nat.eqb_eq in El. apply FL in El. cbn [snd]. rewrite El in K. exact K.
    - destruct (is_nil es') eqn:En.
      + apply is_nil_true in En. rewrite En in K. simpl in K. exact K.
      + cbn [snd]. exact K.
  Qed.

  (* ---------------------------------------------------------------- the invariant *)
  Definition spec_ok (sp : spec) : Prop :=
    forall d text, zlookup d sp = Some text -> toks text <> [].

  Record Inv (s : state) (sp : spec) : Prop := {
    inv_docs_nodup : NoDup (map fst (doc_tokens s));
    inv_post_nodup : NoDup (map fst (postings s));
    inv_total : total_tokens s = Z.of_nat (nsum (map snd (doc_tokens s)));
    inv_live : forall d, live s d = true <-> zlookup d sp <> None;
    inv_complete : forall d text tok, zlookup d sp = Some text -> In tok (toks text) -> has_entry s tok d = true;
    inv_spec_ok : spec_ok sp
  }.
  Arguments inv_docs_nodup {s sp}.
  Arguments inv_post_nodup {s sp}.
  Arguments inv_total {s sp}.
  Arguments inv_live {s sp}.
  Arguments inv_complete {s sp}.
  Arguments inv_spec_ok {s sp}.

  (* no stale entry: every posting entry belongs to an indexed document whose text has the token *)
  Definition Exact (s : state) (sp : spec) : Prop :=
    forall tok d, has_entry s tok d = true -> exists text, zlookup d sp = Some text /\ In tok (toks text).

  (* a remove() of an indexed document that is given (at least) the original tokens *)
  Definition covering (sp : spec) (o : op) : Prop :=
    match o with
    | ORemove id text => forall orig, zlookup id sp = Some orig -> incl (toks orig) (toks text)
    | _ => True
    end.

  Lemma live_lookup s d : live s d = true <-> zlookup d (doc_tokens s) <> None.
  Proof. unfold Model.live. destruct (zlookup d (doc_tokens s)); split; congruence. Qed.

  Lemma smem_freqs k text : smem k (map fst (freqs text)) = true <-> In k (toks text).
  Proof. rewrite smem_In, freqs_keys, sdedup_In. tauto. Qed.

  Lemma Inv_empty : Inv empty_state [].
  Proof.
    constructor; simpl.
    - constructor.
    - constructor.
    - reflexivity.
    - intros d. unfold Model.live. simpl. split; [discriminate|intros H; exfalso; apply H; reflexivity].
    - intros d text tok H. discriminate.
    - intros d text H. discriminate.
  Qed.

  Lemma Exact_empty : Exact empty_state [].
  Proof. intros tok d H. discriminate. Qed.

  Lemma Inv_insert s sp id text : Inv s sp -> Inv (fst (insert s id text)) (spec_step sp (OInsert id text)).
  Proof.
    intros I. unfold Model.insert. simpl spec_step.
    destruct (is_nil (freqs text)) eqn:Ef; [exact I|].
    destruct (Model.live s id) eqn:El.
    { simpl. apply (inv_live I) in El. destruct (zlookup id sp); [exact I|congruence]. }
    assert (Hsp : zlookup id sp = None).
    { destruct (zlookup id sp) eqn:E; auto. assert (Model.live s id = true) by (apply (inv_live I); congruence). congruence. }
    rewrite Hsp. simpl.
    assert (Hnt : toks text <> []).
    { intros H. apply (freqs_nil tokenize) in H. congruence. }
    constructor; simpl.
    - constructor; [|apply (inv_docs_nodup I)].
      apply zlookup_None_keys. unfold Model.live in El. destruct (zlookup id (doc_tokens s)); congruence.
    - apply fold_push_keys_NoDup. apply (inv_post_nodup I).
    - rewrite (inv_total I). lia.
    - intros d. unfold Model.live. simpl. destruct (Z.eqb id d) eqn:E.
      + split; congruence.
      + apply (inv_live I).
    - intros d t tok Hl Hin. rewrite has_entry_he. simpl. rewrite he_fold_push.
      destruct (Z.eqb id d) eqn:E.
      + inversion Hl; subst t. apply Z.eqb_eq in E. subst d.
        apply orb_true_iff. right. rewrite andb_true_r. apply smem_freqs. auto.
      + apply orb_true_iff. left. apply (inv_complete I d t); auto.
    - intros d t. simpl. destruct (Z.eqb id d); [intros H; inversion H; subst; auto|apply (inv_spec_ok I)].
  Qed.

  Lemma Exact_insert s sp id text :
    Inv s sp -> Exact s sp -> Exact (fst (insert s id text)) (spec_step sp (OInsert id text)).
  Proof.
    intros I X. unfold Model.insert. simpl spec_step.
    destruct (is_nil (freqs text)) eqn:Ef; [exact X|].
    destruct (Model.live s id) eqn:El.
    { simpl. apply (inv_live I) in El. destruct (zlookup id sp); [exact X|congruence]. }
    assert (Hsp : zlookup id sp = None).
    { destruct (zlookup id sp) eqn:E; auto. assert (Model.live s id = true) by (apply (inv_live I); congruence). congruence. }
    rewrite Hsp. simpl. intros tok d. rewrite has_entry_he. simpl. rewrite he_fold_push.
    intros H. apply orb_true_iff in H as [H|H].
    - destruct (X tok d H) as (t & Ht & Hin). simpl. destruct (Z.eqb id d) eqn:E.
      + apply Z.eqb_eq in E. subst. congruence.
      + exists t; auto.
    - apply andb_true_iff in H as [H1 H2]. simpl. rewrite H2. exists text. split; auto. apply smem_freqs; auto.
  Qed.

  Lemma Inv_remove s sp id text : Inv s sp -> Inv (fst (remove s id text)) (spec_step sp (ORemove id text)).
  Proof.
    intros I. unfold Model.remove. simpl.
    constructor; simpl.
    - apply zdelete_keys_NoDup, (inv_docs_nodup I).
    - apply fold_remove_keys_NoDup, (inv_post_nodup I).
    - destruct (zlookup id (doc_tokens s)) as [n|] eqn:E.
      + pose proof (nsum_zdelete id n (doc_tokens s) (inv_docs_nodup I) E) as K. rewrite (inv_total I). unfold docid in *. lia.
      + rewrite zdelete_absent by auto. apply (inv_total I).
    - intros d. unfold Model.live. simpl. rewrite !zlookup_zdelete. destruct (Z.eqb id d).
      + split; congruence.
      + apply (inv_live I).
    - intros d t tok. rewrite zlookup_zdelete. destruct (Z.eqb id d) eqn:E; [discriminate|].
      intros Hl Hin. rewrite has_entry_he. simpl. rewrite he_fold_remove.
      rewrite E, andb_false_r. simpl. rewrite andb_true_r. apply (inv_complete I d t); auto.
    - intros d t. rewrite zlookup_zdelete. destruct (Z.eqb id d); [discriminate|apply (inv_spec_ok I)].
  Qed.

  Lemma Exact_remove s sp id text :
    Inv s sp -> Exact s sp -> covering sp (ORemove id text) ->
    Exact (fst (remove s id text)) (spec_step sp (ORemove id text)).
  Proof.
    intros I X C. unfold Model.remove. simpl. intros tok d. rewrite has_entry_he. simpl.
    rewrite he_fold_remove. intros H. apply andb_true_iff in H as [H1 H2].
    destruct (X tok d H1) as (t & Ht & Hin).
    rewrite zlookup_zdelete. destruct (Z.eqb id d) eqn:E.
    - exfalso. apply Z.eqb_eq in E. subst d. rewrite andb_true_r in H2. apply negb_true_iff in H2.
      assert (In tok (toks text)) by (apply (C t Ht); auto).
      apply smem_freqs in H. congruence.
    - exists t; auto.
  Qed.

  Lemma Inv_purge s sp ids : Inv s sp -> Inv (fst (purge_ids s ids)) (spec_step sp (OPurge ids)).
  Proof.
    intros I. unfold purge_ids. simpl spec_step.
    destruct (is_nil ids) eqn:En.
    { apply is_nil_true in En. subst ids. simpl.
      rewrite (filter_all _ _ sp) by auto. exact I. }
    simpl. constructor; simpl.
    - apply filter_keys_NoDup, (inv_docs_nodup I).
    - apply filter_map_keys_NoDup; [apply purge_posting_key|apply (inv_post_nodup I)].
    - pose proof (nsum_filter_split (fun kv => zmem (fst kv) ids) (doc_tokens s)) as K.
      rewrite (inv_total I). unfold docid in *. lia.
    - intros d. unfold Model.live. simpl.
      rewrite (zlookup_filter_keys _ d (fun k => negb (zmem k ids)) (doc_tokens s)).
      rewrite (zlookup_filter_keys _ d (fun k => negb (zmem k ids)) sp).
      destruct (zmem d ids); simpl; [split; congruence|apply (inv_live I)].
    - intros d t tok. rewrite (zlookup_filter_keys _ d (fun k => negb (zmem k ids)) sp).
      destruct (zmem d ids) eqn:E; simpl; [discriminate|].
      intros Hl Hin. rewrite has_entry_he. simpl. rewrite he_purge by apply (inv_post_nodup I).
      rewrite E. simpl. rewrite andb_true_r. apply (inv_complete I d t); auto.
    - intros d t. rewrite (zlookup_filter_keys _ d (fun k => negb (zmem k ids)) sp).
      destruct (zmem d ids); simpl; [discriminate|apply (inv_spec_ok I)].
  Qed.

  Lemma Exact_purge s sp ids :
    Inv s sp -> Exact s sp -> Exact (fst (purge_ids s ids)) (spec_step sp (OPurge ids)).
  Proof.
    intros I X. unfold purge_ids. simpl spec_step.
    destruct (is_nil ids) eqn:En.
    { apply is_nil_true in En. subst ids. simpl. rewrite (filter_all _ _ sp) by auto. exact X. }
    simpl. intros tok d. rewrite has_entry_he. simpl. rewrite he_purge by apply (inv_post_nodup I).
    intros H. apply andb_true_iff in H as [H1 H2]. destruct (X tok d H1) as (t & Ht & Hin).
    exists t. split; auto. rewrite (zlookup_filter_keys _ d (fun k => negb (zmem k ids)) sp). rewrite H2. auto.
  Qed.

  (* reload: the pruning function keeps keys *)
  Definition prune_posting (s : state) (p : token * list entry) : option (token * list entry) :=
    let es' := filter (fun e => Model.live s (fst e)) (snd p) in
    if is_nil es' then None else Some (fst p, es').

  Lemma prune_posting_key s p p' : prune_posting s p = Some p' -> fst p' = fst p.
  Proof. unfold prune_posting. destruct (is_nil _); [discriminate|]. intros H; inversion H; auto. Qed.

  Lemma he_prune s k d :
    NoDup (map fst (postings s)) ->
    he (filter_map (prune_posting s) (postings s)) k d = he (postings s) k d && Model.live s d.
  Proof.
    intros N. unfold he. rewrite slookup_filter_map; auto; [|apply prune_posting_key].
    destruct (slookup k (postings s)) as [es|]; auto.
    unfold prune_posting. cbn [fst snd]. unfold entry, docid in *.
    set (es' := @filter (Z * nat) _ es).
    assert (K : existsb (fun e : Z * nat => Z.eqb (fst e) d) es'
                = existsb (fun e : Z * nat => Z.eqb (fst e) d) es && Model.live s d)
      by (apply (existsb_filter_pred es (Model.live s) d)).
    clearbody es'.
    destruct (is_nil es') eqn:En.
    - apply is_nil_true in En. rewrite En in K. simpl in K. exact K.
    - cbn [snd]. exact K.
  Qed.

  Lemma reload_unfold s :
    reload s =
    let ps := filter_map (prune_posting s) (postings s) in
    let referenced d := existsb (fun p => existsb (fun e => Z.eqb (fst e) d) (snd p)) ps in
    let dt := filter (fun kv => referenced (fst kv)) (doc_tokens s) in
    mkState dt ps (Z.of_nat (nsum (map snd dt))).
  Proof. reflexivity. Qed.

  Lemma reload_keeps_docs s sp : Inv s sp -> doc_tokens (reload s) = doc_tokens s.
  Proof.
    intros I. rewrite reload_unfold. cbv zeta. simpl.
    apply filter_all. intros [d n] Hin. simpl.
    assert (Hl : Model.live s d = true).
    { apply live_In. apply in_map_iff. exists (d, n); auto. }
    pose proof Hl as Hl2. apply (inv_live I) in Hl2.
    destruct (zlookup d sp) as [t|] eqn:Et; [|congruence].
    destruct (toks t) as [|tok r] eqn:Etk; [exfalso; eapply (inv_spec_ok I); eauto|].
    assert (He : has_entry s tok d = true) by (apply (inv_complete I d t); auto; rewrite Etk; left; auto).
    assert (He' : he (filter_map (prune_posting s) (postings s)) tok d = true).
    { rewrite he_prune by apply (inv_post_nodup I). rewrite <- has_entry_he, He, Hl. reflexivity. }
    unfold he in He'. destruct (slookup tok (filter_map (prune_posting s) (postings s))) as [es|] eqn:Es; [|discriminate].
    apply existsb_exists. exists (tok, es). split; [apply slookup_In; auto|exact He'].
  Qed.

  Lemma Inv_reload s sp : Inv s sp -> Inv (reload s) sp.
  Proof.
    intros I. pose proof (reload_keeps_docs s sp I) as K.
    constructor.
    - rewrite K. apply (inv_docs_nodup I).
    - rewrite reload_unfold. simpl. apply filter_map_keys_NoDup; [apply prune_posting_key|apply (inv_post_nodup I)].
    - rewrite reload_unfold. reflexivity.
    - intros d. unfold Model.live. rewrite K. apply (inv_live I).
    - intros d t tok Hl Hin. rewrite has_entry_he. rewrite reload_unfold. simpl.
      rewrite he_prune by apply (inv_post_nodup I). rewrite <- has_entry_he.
      rewrite (inv_complete I d t tok Hl Hin). simpl. apply (inv_live I). congruence.
    - apply (inv_spec_ok I).
  Qed.

  Lemma Exact_reload s sp : Inv s sp -> Exact s sp -> Exact (reload s) sp.
  Proof.
    intros I X tok d. rewrite has_entry_he. rewrite reload_unfold. simpl.
    rewrite he_prune by apply (inv_post_nodup I). intros H. apply andb_true_iff in H as [H _].
    apply X. exact H.
  Qed.

  (* reload drops exactly the entries of documents that are not indexed *)
  Lemma reload_has_entry s sp tok d :
    Inv s sp -> has_entry (reload s) tok d = has_entry s tok d && Model.live s d.
  Proof.
    intros I. rewrite !has_entry_he. rewrite reload_unfold. simpl. apply he_prune, (inv_post_nodup I).
  Qed.

  Lemma Inv_step s sp o : Inv s sp -> Inv (step s o) (spec_step sp o).
  Proof.
    destruct o; simpl Model.step.
    - apply Inv_insert. - apply Inv_remove. - apply Inv_purge. - auto. - apply Inv_reload.
  Qed.

  Lemma Exact_step s sp o :
    Inv s sp -> Exact s sp -> covering sp o -> Exact (step s o) (spec_step sp o).
  Proof.
    destruct o; simpl Model.step; intros I X C.
    - apply Exact_insert; auto. - apply Exact_remove; auto. - apply Exact_purge; auto. - auto.
    - apply Exact_reload; auto.
  Qed.

  (* every remove() in the history covers the original text *)
  Fixpoint clean_from (sp : spec) (h : list op) : Prop :=
    match h with
    | [] => True
    | o :: r => covering sp o /\ clean_from (spec_step sp o) r
    end.
  Definition clean (h : list op) : Prop := clean_from [] h.

  Lemma Inv_fold h : forall s sp, Inv s sp -> Inv (fold_left step h s) (fold_left spec_step h sp).
  Proof. induction h as [|o r IH]; intros s sp I; simpl; auto. apply IH. apply Inv_step; auto. Qed.

  Lemma Exact_fold h : forall s sp,
      Inv s sp -> Exact s sp -> clean_from sp h -> Exact (fold_left step h s) (fold_left spec_step h sp).
  Proof.
    induction h as [|o r IH]; intros s sp I X C; simpl; auto.
    destruct C as [C1 C2]. apply IH; auto.
    - apply Inv_step; auto.
    - apply Exact_step; auto.
  Qed.

  Theorem Inv_run h : Inv (run h) (spec_run h).
  Proof. apply Inv_fold. apply Inv_empty. Qed.

  Theorem Exact_run h : clean h -> Exact (run h) (spec_run h).
  Proof. intros C. apply Exact_fold; auto. apply Inv_empty. apply Exact_empty. Qed.

End H.
