(* Store/Model.v — executable model of the immutable-generation layout shared by MetaStore and
   EncryptedStore (rs/anda_object_store/src/{sidecar,lib,encryption}.rs).  Shared by C07 and C08.

   Backend = Common.ObjStore over
     path  = meta/<key> | gen/<key>/<generation> | data/<key>          (sidecar.rs:268-294)
     obj   = payload (content id, length) | metadata document (generation pointer, authenticated
             payload value, logical e_tag)
   A wrapper operation is the list of backend mutations it performs, assembled by [op_steps] from an
   event list; the event lists used by the theorems are the ones tools/gen_flush.py extracts from the
   source (coq/gen/Gen_Flush.v).  No proofs here. *)
From Coq Require Import List String NArith Bool.
From Verif Require Import Common.ObjStore Common.CommitPoint.
Import ListNotations.
Open Scope list_scope.

Definition key := string.
Definition gen := string.
(* value of a payload object: (content id, length in bytes) *)
Definition val := (N * N)%type.

Inductive path :=
| PMeta (k : key)
| PGen (k : key) (g : gen)
| PData (k : key).

Record meta := mkMeta {
  m_gen : option gen;     (* None = legacy pre-0.10 layout: payload at data/<key> *)
  m_val : val;            (* the payload the document describes (size + hash / AES tags) *)
  m_tok : N               (* logical e_tag, canonical id *)
}.

Inductive obj :=
| OPay (v : val)
| OMeta (m : meta).

Definition path_eq_dec : forall a b : path, {a = b} + {a <> b}.
Proof. decide equality; apply string_dec. Defined.

Definition path_eqb (a b : path) : bool := if path_eq_dec a b then true else false.

Definition val_eqb (a b : val) : bool := N.eqb (fst a) (fst b) && N.eqb (snd a) (snd b).
Definition ogen_eqb (a b : option gen) : bool :=
  match a, b with
  | None, None => true
  | Some x, Some y => String.eqb x y
  | _, _ => false
  end.
Definition meta_eqb (a b : meta) : bool :=
  ogen_eqb (m_gen a) (m_gen b) && val_eqb (m_val a) (m_val b) && N.eqb (m_tok a) (m_tok b).
Definition obj_eqb (a b : obj) : bool :=
  match a, b with
  | OPay x, OPay y => val_eqb x y
  | OMeta x, OMeta y => meta_eqb x y
  | _, _ => false
  end.

Definition bstore := store path obj.
Definition bstep := step path obj.
Definition bget (s : bstore) (p : path) : option obj := get path_eq_dec s p.
Definition bapply (s : bstore) (l : list bstep) : bstore := apply path_eq_dec s l.
Definition bcrash (k : nat) (l : list bstep) (s : bstore) : bstore := crash path_eq_dec k l s.

(* sidecar.rs:289 payload_path *)
Definition ppath (k : key) (g : option gen) : path :=
  match g with Some g => PGen k g | None => PData k end.

(* the key a path belongs to *)
Definition pkey (p : path) : key :=
  match p with PMeta k => k | PGen k _ => k | PData k => k end.

(* what the commit point of key k references *)
Definition refs_k (k : key) (o : obj) : list path :=
  match o with OMeta m => [ppath k (m_gen m)] | OPay _ => [] end.

Definition read_k (k : key) (s : bstore) := read path_eq_dec (PMeta k) (refs_k k) s.

(* what a cold reader of key k gets (get_opts: resolve the pointer, fetch the payload, the size /
   hash / tags in the document must describe it) *)
Inductive rd :=
| RAbsent
| RVal (v : val) (tok : N)
| RDangling          (* pointer to a missing payload: listed but unreadable *)
| RCorrupt.          (* pointer to a payload the document does not describe: torn / truncated / undecryptable *)

Definition rd_of (r : option (obj * list (option obj))) : rd :=
  match r with
  | None => RAbsent
  | Some (OMeta m, [Some (OPay v)]) => if val_eqb v (m_val m) then RVal v (m_tok m) else RCorrupt
  | Some (OMeta m, _) => RDangling
  | Some (OPay _, _) => RCorrupt
  end.

Definition kread (k : key) (s : bstore) : rd := rd_of (read_k k s).

Definition rd_good (r : rd) : bool :=
  match r with RAbsent | RVal _ _ => true | _ => false end.

Definition rd_eqb (a b : rd) : bool :=
  match a, b with
  | RAbsent, RAbsent | RDangling, RDangling | RCorrupt, RCorrupt => true
  | RVal v t, RVal w u => val_eqb v w && N.eqb t u
  | _, _ => false
  end.

(* keys with a commit point (what list() enumerates: sidecar.rs:602-609) *)
Fixpoint meta_keys (s : bstore) : list key :=
  match s with
  | [] => []
  | (PMeta k, _) :: r => k :: meta_keys r
  | _ :: r => meta_keys r
  end.

Definition keyb_in (k : key) (l : list key) : bool := existsb (String.eqb k) l.

Fixpoint dedup (l : list key) : list key :=
  match l with
  | [] => []
  | k :: r => if keyb_in k r then dedup r else k :: dedup r
  end.

(* ------------------------------------------------------------------ events of one operation *)
Inductive ev :=
| EvSelfCheck      (* rename: from == to shortcut *)
| EvMint           (* new_generation() *)
| EvRegister       (* track_in_flight *)
| EvReadSrc        (* copy_payload: get_meta(from) *)
| EvReadMeta       (* update_meta_with / delete_object: fetch_meta_bytes inside the per-key section *)
| EvCheckPre       (* check_update_version *)
| EvPutPayload     (* store.put_opts(gen_path, payload) *)
| EvCopyPayload    (* store.copy_opts(src_path, dst_path) *)
| EvMpInit         (* store.put_multipart_opts(gen_path) *)
| EvMpComplete     (* inner.complete(): the generation object materialises *)
| EvPutMeta        (* store.put_opts(meta_path, document): THE commit point *)
| EvDelReplaced    (* best_effort_delete(replaced payload), guarded by old != new *)
| EvDelMeta        (* store.delete(meta_path): the commit point of a delete *)
| EvDelPayload     (* best_effort_delete(payload) after the commit point is gone *)
| EvUnregister.    (* guard dropped at return *)

Definition ev_eqb (a b : ev) : bool :=
  match a, b with
  | EvSelfCheck, EvSelfCheck | EvMint, EvMint | EvRegister, EvRegister | EvReadSrc, EvReadSrc
  | EvReadMeta, EvReadMeta | EvCheckPre, EvCheckPre | EvPutPayload, EvPutPayload
  | EvCopyPayload, EvCopyPayload | EvMpInit, EvMpInit | EvMpComplete, EvMpComplete
  | EvPutMeta, EvPutMeta | EvDelReplaced, EvDelReplaced | EvDelMeta, EvDelMeta
  | EvDelPayload, EvDelPayload | EvUnregister, EvUnregister => true
  | _, _ => false
  end.

Definition is_mutation (e : ev) : bool :=
  match e with
  | EvPutPayload | EvCopyPayload | EvMpComplete | EvPutMeta | EvDelReplaced | EvDelMeta | EvDelPayload => true
  | _ => false
  end.

Definition mutations (l : list ev) : list ev := filter is_mutation l.

Fixpoint evs_eqb (a b : list ev) : bool :=
  match a, b with
  | [], [] => true
  | x :: a', y :: b' => ev_eqb x y && evs_eqb a' b'
  | _, _ => false
  end.

(* one operation instance *)
Record octx := mkCtx {
  o_key : key;      (* the key whose commit point the operation switches *)
  o_gen : gen;      (* the generation minted for it *)
  o_val : val;      (* the payload it writes (put / multipart) *)
  o_tok : N;        (* the logical e_tag it publishes *)
  o_src : key       (* copy: source key *)
}.

Definition cur_meta (s : bstore) (k : key) : option meta :=
  match bget s (PMeta k) with Some (OMeta m) => Some m | _ => None end.

(* the payload object a key currently resolves to *)
Definition cur_payload (s : bstore) (k : key) : option val :=
  match cur_meta s k with
  | Some m => match bget s (ppath k (m_gen m)) with Some (OPay v) => Some v | _ => None end
  | None => None
  end.

(* the value the new document describes: the written payload, or for a copy the source's *)
Definition new_val (copy : bool) (s : bstore) (c : octx) : val :=
  if copy then match cur_meta s (o_src c) with Some m => m_val m | None => o_val c end
  else o_val c.

Definition new_meta (copy : bool) (s : bstore) (c : octx) : meta :=
  mkMeta (Some (o_gen c)) (new_val copy s c) (o_tok c).

(* Backend mutations of one event.  [s] is the backend at the start of the operation: the per-key
   critical section (moka and_try_compute_with, modelled as a mutex) keeps the key's commit point
   unchanged between the fetch and the put, and copy resolves the source before anything is written. *)
Definition interp (copy : bool) (s : bstore) (c : octx) (e : ev) : list bstep :=
  let k := o_key c in
  match e with
  | EvPutPayload | EvMpComplete => [Put (PGen k (o_gen c)) (OPay (o_val c))]
  | EvCopyPayload =>
      match cur_payload s (o_src c) with
      | Some v => [Put (PGen k (o_gen c)) (OPay v)]
      | None => []
      end
  | EvPutMeta => [Put (PMeta k) (OMeta (new_meta copy s c))]
  | EvDelReplaced =>
      match cur_meta s k with
      | Some cur => if path_eq_dec (ppath k (m_gen cur)) (PGen k (o_gen c)) then []
                    else [Del (ppath k (m_gen cur))]
      | None => []
      end
  | EvDelMeta => [Del (PMeta k)]
  | EvDelPayload =>
      match cur_meta s k with
      | Some cur => [Del (ppath k (m_gen cur))]
      | None => []
      end
  | _ => []
  end.

Definition op_steps (copy : bool) (evs : list ev) (s : bstore) (c : octx) : list bstep :=
  flat_map (interp copy s c) evs.

(* rename = copy (target context) then delete_object (source context), lib.rs:512-537 *)
Definition rename_steps (copy_evs del_evs : list ev) (s : bstore) (c : octx) : list bstep :=
  let l1 := op_steps true copy_evs s c in
  l1 ++ op_steps false del_evs (bapply s l1) (mkCtx (o_src c) (o_gen c) (o_val c) (o_tok c) (o_src c)).

(* canonical mutation orders the theorems are proved for; Gen_Flush must project onto them *)
Definition put_muts : list ev := [EvPutPayload; EvPutMeta; EvDelReplaced].
Definition mp_muts : list ev := [EvMpComplete; EvPutMeta; EvDelReplaced].
Definition copy_muts : list ev := [EvCopyPayload; EvPutMeta; EvDelReplaced].
Definition delete_muts : list ev := [EvDelMeta; EvDelPayload].

(* ------------------------------------------------------------------ monitor over a recorded log *)
(* A recorded backend mutation (what the harness's recording layer saw, in order). *)
Inductive lstep :=
| LPut (p : path) (o : obj)
| LDel (p : path)
| LCopy (src dst : path).

(* copy = put of what the source held at that moment *)
Fixpoint norm_log (s : bstore) (l : list lstep) : list bstep :=
  match l with
  | [] => []
  | LPut p o :: r => Put p o :: norm_log (put s p o) r
  | LDel p :: r => Del p :: norm_log (del path_eq_dec s p) r
  | LCopy a b :: r =>
      match bget s a with
      | Some o => Put b o :: norm_log (put s b o) r
      | None => norm_log s r          (* failed copy: no mutation *)
      end
  end.

Definition step_path (st : bstep) : path := touched st.

(* delete commit: quiet prefix, then Del ptr, then steps that leave the pointer alone *)
Fixpoint split_at_del (ptr : path) (l : list bstep) : option (list bstep * list bstep) :=
  match l with
  | [] => None
  | Del p :: r =>
      if path_eq_dec p ptr then Some ([], r)
      else match split_at_del ptr r with Some (a, b) => Some (Del p :: a, b) | None => None end
  | st :: r =>
      match split_at_del ptr r with Some (a, b) => Some (st :: a, b) | None => None end
  end.

Definition leaves (ptr : path) (st : bstep) : bool :=
  if path_eq_dec (touched st) ptr then false else true.

Definition wf_delete (k : key) (s : bstore) (l : list bstep) : bool :=
  match split_at_del (PMeta k) l with
  | None => false
  | Some (pre, post) =>
      forallb (quietb path_eq_dec (PMeta k) (reach path_eq_dec (PMeta k) (refs_k k) s)) pre
      && forallb (leaves (PMeta k)) post
  end.

(* per key: the log is a commit, invisible, or a delete *)
Definition key_ok (s : bstore) (l : list bstep) (k : key) : bool :=
  wf_commit path_eq_dec (PMeta k) (refs_k k) s l
  || wf_abort path_eq_dec (PMeta k) (refs_k k) s l
  || wf_delete k s l.

Definition log_keys (s : bstore) (l : list bstep) : list key :=
  dedup (map pkey (map (@touched path obj) l) ++ map pkey (map fst s)).

Definition log_ok (s : bstore) (l : list bstep) : bool :=
  forallb (key_ok s l) (log_keys s l).

(* every key with a commit point resolves to the payload its document describes *)
Definition consistentb (s : bstore) : bool :=
  forallb (fun k => rd_good (kread k s)) (dedup (meta_keys s)).

(* ------------------------------------------------------------------ collect_garbage events *)
Inductive gc_ev := GcFloor | GcMark | GcListGen | GcListData | GcCheckInFlight | GcRecheck | GcDelete.

Definition gc_ev_eqb (a b : gc_ev) : bool :=
  match a, b with
  | GcFloor, GcFloor | GcMark, GcMark | GcListGen, GcListGen | GcListData, GcListData
  | GcCheckInFlight, GcCheckInFlight | GcRecheck, GcRecheck | GcDelete, GcDelete => true
  | _, _ => false
  end.
