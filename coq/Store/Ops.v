(* Store/Ops.v — the wrapper operations of both wrappers as step lists over the generated call orders
   (coq/gen/Gen_Flush.v), and the facts about those orders the C08 theorems rest on. *)
From Coq Require Import List String NArith Bool Arith.
From Verif Require Import Common.ObjStore Common.CommitPoint Store.Model Store.Crash gen.Gen_Flush.
Import ListNotations.
Open Scope list_scope.

(* the wrapper operations, over both wrappers *)
Inductive wop := WPut (enc : bool) | WMultipart (enc : bool) | WCopy (enc : bool) | WRename (enc : bool) | WDelete.

Definition wop_steps (o : wop) (s : bstore) (c : octx) : list bstep :=
  match o with
  | WPut enc => put_steps (if enc then enc_put_events else meta_put_events) s c
  | WMultipart enc => put_steps (if enc then enc_multipart_events else meta_multipart_events) s c
  | WCopy enc => copy_steps (if enc then enc_copy_events else meta_copy_events) s c
  | WRename enc => rename_steps' (if enc then enc_copy_events else meta_copy_events) delete_events s c
  | WDelete => delete_steps delete_events s c
  end.

(* premises: the generation minted for the operation is not the one the key points at (fresh
   generation supply), and a rename has two distinct names (from == to is answered without any
   backend mutation, lib.rs:513) *)
Definition wop_pre (o : wop) (s : bstore) (c : octx) : Prop :=
  fresh_gen s c /\ match o with WRename _ => o_src c <> o_key c | _ => True end.

(* ---- generated facts the theorems rest on *)
Lemma gen_put_orders :
  mutations meta_put_events = put_muts /\ mutations enc_put_events = put_muts /\
  mutations meta_multipart_events = mp_muts /\ mutations enc_multipart_events = mp_muts /\
  mutations meta_copy_events = copy_muts /\ mutations enc_copy_events = copy_muts /\
  mutations delete_events = delete_muts.
Proof. repeat split; reflexivity. Qed.

Lemma wop_keyok o s c : wop_pre o s c -> forall k, KeyOK k s (wop_steps o s c).
Proof.
  destruct gen_put_orders as (A1 & A2 & A3 & A4 & A5 & A6 & A7).
  intros [F R] k. destruct o as [[|]|[|]|[|]|[|]|]; cbn [wop_steps].
  - apply put_keyok; auto.
  - apply put_keyok; auto.
  - apply put_keyok; auto.
  - apply put_keyok; auto.
  - apply copy_keyok; auto.
  - apply copy_keyok; auto.
  - apply rename_keyok; auto.
  - apply rename_keyok; auto.
  - apply delete_keyok; auto.
Qed.

