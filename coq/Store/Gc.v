(* Store/Gc.v — garbage collection racing in-process writers (C08, second half).

   A transition system over the backend, the in-flight registry (sidecar.rs:171-266), the set of
   generations ever minted, the pending (registered, not yet committed) writes, the pending
   best-effort reclaims and one collector.  An action is one backend call or one registry update of
   put / multipart / copy / delete / collect_garbage, so a run is an arbitrary interleaving of their
   steps, including crashes (cold restart: only the backend survives).

   The collector is the sweep loop of collect_garbage (sidecar.rs:896-918): for each candidate taken
   from a listing, (A) skip it when it is registered in flight, (B) re-read the commit point and skip
   it when referenced, (C) delete it.  The mark snapshot and the floor timestamp only remove
   candidates, so the candidate list is an arbitrary list of payload objects present at listing time. *)
From Coq Require Import List String NArith Bool Lia Arith.
From Verif Require Import Common.ObjStore Common.CommitPoint Store.Model Store.Crash.
Import ListNotations.
Open Scope list_scope.

Arguments path_eq_dec : simpl never.

Record pend := mkPend { p_key : key; p_gen : gen; p_val : val; p_tok : N; p_wrote : bool }.
Inductive gphase := GA | GB | GC.

Record sys := mkSys {
  st : bstore;
  infl : list (key * gen);
  used : list gen;
  pends : list pend;
  recl : list path;
  gcs : option (list path * gphase);
  gmark : list key      (* keys that had a commit point in the collector's mark snapshot *)
}.

(* which of the two sweep guards are effective; [cf_orphan_skip]: the re-check is skipped for candidates
   whose key had no commit point in the mark snapshot ("orphans") *)
Record cfg := mkCfg { cf_inflight : bool; cf_recheck : bool; cf_orphan_skip : bool }.

Inductive action :=
| AStart (k : key) (g : gen) (v : val) (tok : N)   (* new_generation + track_in_flight *)
| AWrite (k : key) (g : gen) (src : option key)    (* payload put / multipart complete / payload copy *)
| ACommit (k : key) (g : gen)                      (* fetch the commit point + put the new one (per-key section) *)
| AAbort (k : key) (g : gen)                       (* error / dropped upload before the commit: guard released *)
| ADrop (k : key) (g : gen)                        (* guard released after the commit *)
| AReclaim (p : path)                              (* best_effort_delete *)
| ADelete (k : key)                                (* delete_object: fetch + delete the commit point *)
| AGcMark                                          (* mark phase: snapshot of the keys with a commit point *)
| AGcList (cands : list path)
| AGcCheck | AGcRecheck | AGcDelete
| ACrash.

Definition kg_eq_dec : forall a b : key * gen, {a = b} + {a <> b}.
Proof. decide equality; apply string_dec. Defined.

Definition is_payload (p : path) : bool := match p with PMeta _ => false | _ => true end.

Definition pend_is (k : key) (g : gen) (q : pend) : bool :=
  String.eqb (p_key q) k && String.eqb (p_gen q) g.
Definition find_pend (k : key) (g : gen) (l : list pend) : option pend := find (pend_is k g) l.
Definition remove_pend (k : key) (g : gen) (l : list pend) : list pend :=
  filter (fun q => negb (pend_is k g q)) l.

Definition inflightb (s : sys) (p : path) : bool :=
  match p with
  | PGen k g => if in_dec kg_eq_dec (k, g) (infl s) then true else false
  | _ => false
  end.

(* is_referenced (sidecar.rs:926): the key's current document points at this payload *)
Definition referencedb (b : bstore) (p : path) : bool :=
  match p with
  | PMeta _ => true
  | _ => match cur_meta b (pkey p) with
         | Some m => path_eqb (ppath (pkey p) (m_gen m)) p
         | None => false
         end
  end.

Definition exec (cf : cfg) (s : sys) (a : action) : option sys :=
  match a with
  | AStart k g v tok =>
      if in_dec string_dec g (used s) then None
      else Some (mkSys (st s) ((k, g) :: infl s) (g :: used s)
                       (mkPend k g v tok false :: pends s) (recl s) (gcs s) (gmark s))
  | AWrite k g src =>
      match find_pend k g (pends s) with
      | Some q =>
          if p_wrote q then None else
          match (match src with None => Some (p_val q) | Some sk => cur_payload (st s) sk end) with
          | Some v =>
              Some (mkSys (put (st s) (PGen k g) (OPay v)) (infl s) (used s)
                          (mkPend k g v (p_tok q) true :: remove_pend k g (pends s)) (recl s) (gcs s) (gmark s))
          | None => None
          end
      | None => None
      end
  | ACommit k g =>
      match find_pend k g (pends s) with
      | Some q =>
          if p_wrote q then
            let old := match cur_meta (st s) k with
                       | Some m => if path_eq_dec (ppath k (m_gen m)) (PGen k g) then [] else [ppath k (m_gen m)]
                       | None => []
                       end in
            Some (mkSys (put (st s) (PMeta k) (OMeta (mkMeta (Some g) (p_val q) (p_tok q))))
                        (infl s) (used s) (remove_pend k g (pends s)) (old ++ recl s) (gcs s) (gmark s))
          else None
      | None => None
      end
  | AAbort k g =>
      match find_pend k g (pends s) with
      | Some _ => Some (mkSys (st s) (remove kg_eq_dec (k, g) (infl s)) (used s)
                              (remove_pend k g (pends s)) (recl s) (gcs s) (gmark s))
      | None => None
      end
  | ADrop k g =>
      match find_pend k g (pends s) with
      | Some _ => None
      | None => Some (mkSys (st s) (remove kg_eq_dec (k, g) (infl s)) (used s) (pends s) (recl s) (gcs s) (gmark s))
      end
  | AReclaim p =>
      if in_dec path_eq_dec p (recl s)
      then Some (mkSys (del path_eq_dec (st s) p) (infl s) (used s) (pends s)
                       (remove path_eq_dec p (recl s)) (gcs s) (gmark s))
      else None
  | ADelete k =>
      match cur_meta (st s) k with
      | Some m => Some (mkSys (del path_eq_dec (st s) (PMeta k)) (infl s) (used s) (pends s)
                              (ppath k (m_gen m) :: recl s) (gcs s) (gmark s))
      | None => None
      end
  | AGcMark => Some (mkSys (st s) (infl s) (used s) (pends s) (recl s) (gcs s) (dedup (meta_keys (st s))))
  | AGcList cands =>
      match gcs s with
      | Some _ => None
      | None =>
          if forallb (fun p => is_payload p && match bget (st s) p with Some _ => true | None => false end) cands
          then Some (mkSys (st s) (infl s) (used s) (pends s) (recl s) (Some (cands, GA)) (gmark s))
          else None
      end
  | AGcCheck =>
      match gcs s with
      | Some ([], _) => Some (mkSys (st s) (infl s) (used s) (pends s) (recl s) None (gmark s))
      | Some (p :: r, GA) =>
          if cf_inflight cf && inflightb s p
          then Some (mkSys (st s) (infl s) (used s) (pends s) (recl s) (Some (r, GA)) (gmark s))
          else Some (mkSys (st s) (infl s) (used s) (pends s) (recl s) (Some (p :: r, GB)) (gmark s))
      | _ => None
      end
  | AGcRecheck =>
      match gcs s with
      | Some (p :: r, GB) =>
          if cf_recheck cf && (negb (cf_orphan_skip cf) || keyb_in (pkey p) (gmark s)) && referencedb (st s) p
          then Some (mkSys (st s) (infl s) (used s) (pends s) (recl s) (Some (r, GA)) (gmark s))
          else Some (mkSys (st s) (infl s) (used s) (pends s) (recl s) (Some (p :: r, GC)) (gmark s))
      | _ => None
      end
  | AGcDelete =>
      match gcs s with
      | Some (p :: r, GC) =>
          Some (mkSys (del path_eq_dec (st s) p) (infl s) (used s) (pends s) (recl s) (Some (r, GA)) (gmark s))
      | _ => None
      end
  | ACrash => Some (mkSys (st s) [] (used s) [] [] None [])
  end.

Fixpoint run (cf : cfg) (s : sys) (l : list action) : option sys :=
  match l with
  | [] => Some s
  | a :: r => match exec cf s a with Some s' => run cf s' r | None => None end
  end.

(* the two guards in the order the code runs them *)
Fixpoint before (a b : gc_ev) (l : list gc_ev) : bool :=
  match l with
  | [] => false
  | x :: r => if gc_ev_eqb x a then existsb (gc_ev_eqb b) r
              else if gc_ev_eqb x b then false else before a b r
  end.

Definition cfg_of (sweep : list gc_ev) (recheck_unconditional : bool) : cfg :=
  mkCfg (before GcCheckInFlight GcRecheck sweep && before GcCheckInFlight GcDelete sweep)
        (before GcRecheck GcDelete sweep) (negb recheck_unconditional).

(* ------------------------------------------------------------------ invariant *)
Definition pend_path (q : pend) : path := PGen (p_key q) (p_gen q).

Definition gen_used (u : list gen) (p : path) : Prop :=
  match p with PGen _ g => In g u | _ => True end.

Record Inv (s : sys) : Prop := {
  inv_good : forall k, rd_good (kread k (st s)) = true;
  inv_used : forall k g, bget (st s) (PGen k g) <> None -> In g (used s);
  inv_pend : forall q, In q (pends s) ->
      In (p_key q, p_gen q) (infl s) /\ In (p_gen q) (used s) /\
      ~ In (pend_path q) (reach_k (p_key q) (st s)) /\
      (p_wrote q = true -> bget (st s) (pend_path q) = Some (OPay (p_val q))) /\
      ~ In (pend_path q) (recl s);
  inv_recl : forall p, In p (recl s) ->
      is_payload p = true /\ unreferenced (st s) p /\ gen_used (used s) p;
  inv_gc : forall cands ph, gcs s = Some (cands, ph) ->
      (forall p, In p cands -> is_payload p = true /\ gen_used (used s) p) /\
      (ph <> GA -> forall p r, cands = p :: r -> forall q, In q (pends s) -> pend_path q <> p) /\
      (ph = GC -> forall p r, cands = p :: r -> unreferenced (st s) p)
}.

(* ------------------------------------------------------------------ backend facts *)
Lemma bget_put_same (b : bstore) p o : bget (put b p o) p = Some o.
Proof. apply get_put_same. Qed.
Lemma bget_put_other (b : bstore) p q o : p <> q -> bget (put b p o) q = bget b q.
Proof. apply get_put_other. Qed.
Lemma bget_del_same (b : bstore) p : bget (del path_eq_dec b p) p = None.
Proof. apply get_del_same. Qed.
Lemma bget_del_other (b : bstore) p q : p <> q -> bget (del path_eq_dec b p) q = bget b q.
Proof. apply get_del_other. Qed.

Lemma payload_not_meta p k : is_payload p = true -> p <> PMeta k.
Proof. destruct p; simpl; congruence. Qed.

Lemma reach_put_payload (b : bstore) p o k : is_payload p = true -> reach_k k (put b p o) = reach_k k b.
Proof. intros H. unfold reach. rewrite get_put_other; auto. apply payload_not_meta; auto. Qed.

Lemma reach_del_payload (b : bstore) p k : is_payload p = true -> reach_k k (del path_eq_dec b p) = reach_k k b.
Proof. intros H. unfold reach. rewrite get_del_other; auto. apply payload_not_meta; auto. Qed.

Lemma reach_put_meta_same (b : bstore) k m : reach_k k (put b (PMeta k) (OMeta m)) = [ppath k (m_gen m)].
Proof. unfold reach. rewrite get_put_same. reflexivity. Qed.

Lemma reach_put_meta_other (b : bstore) k k' o : k' <> k -> reach_k k' (put b (PMeta k) o) = reach_k k' b.
Proof. intros H. unfold reach. rewrite get_put_other; auto. congruence. Qed.

Lemma reach_del_meta_same (b : bstore) k : reach_k k (del path_eq_dec b (PMeta k)) = [].
Proof. unfold reach. rewrite get_del_same. reflexivity. Qed.

Lemma reach_del_meta_other (b : bstore) k k' : k' <> k -> reach_k k' (del path_eq_dec b (PMeta k)) = reach_k k' b.
Proof. intros H. unfold reach. rewrite get_del_other; auto. congruence. Qed.

Lemma reach_cur_meta (b : bstore) k :
  reach_k k b = match bget b (PMeta k) with Some o => refs_k k o | None => [] end.
Proof. reflexivity. Qed.

Lemma cur_meta_reach (b : bstore) k m : cur_meta b k = Some m -> reach_k k b = [ppath k (m_gen m)].
Proof.
  unfold cur_meta. rewrite reach_cur_meta. destruct (bget b (PMeta k)) as [[v|m']|]; try discriminate.
  intros H; inversion H; subst. reflexivity.
Qed.

Lemma step_quiet_kread (b : bstore) (stp : bstep) :
  (forall k, quiet_k k b stp) -> forall k, kread k (apply_step path_eq_dec b stp) = kread k b.
Proof.
  intros Q k. unfold kread. f_equal.
  change (apply_step path_eq_dec b stp) with (bapply b [stp]). apply quiet_read. constructor; auto.
Qed.

Lemma put_unref_quiet (b : bstore) p o k : is_payload p = true -> unreferenced b p -> quiet_k k b (Put p o : bstep).
Proof.
  intros Hp U. split; simpl.
  - apply payload_not_meta; auto.
  - intro Hin. pose proof (pkey_reach _ _ _ Hin) as E. subst k. destruct p; simpl in *; try discriminate; tauto.
Qed.

Lemma unref_payload (b : bstore) p : is_payload p = true -> (unreferenced b p <-> ~ In p (reach_k (pkey p) b)).
Proof. destruct p; simpl; try discriminate; tauto. Qed.

Lemma kread_good_payload (b : bstore) k m :
  rd_good (kread k b) = true -> cur_meta b k = Some m -> bget b (ppath k (m_gen m)) <> None.
Proof.
  unfold kread, read_k, read, cur_meta, bget.
  destruct (get path_eq_dec b (PMeta k)) as [[v|m']|]; try discriminate.
  intros G H. inversion H; subst m'. simpl in G.
  destruct (get path_eq_dec b (ppath k (m_gen m))); [discriminate|]. simpl in G. discriminate.
Qed.

Lemma referencedb_false (b : bstore) p : is_payload p = true -> referencedb b p = false -> unreferenced b p.
Proof.
  intros Hp H. apply unref_payload; auto. intro Hin.
  destruct p as [k|k g|k]; simpl in *; try discriminate.
  - rewrite reach_cur_meta in Hin. unfold cur_meta in H.
    destruct (bget b (PMeta k)) as [[v|m]|]; simpl in Hin; try tauto.
    destruct Hin as [E|[]]. unfold path_eqb in H. rewrite E in H.
    destruct (path_eq_dec (PGen k g) (PGen k g)); congruence.
  - rewrite reach_cur_meta in Hin. unfold cur_meta in H.
    destruct (bget b (PMeta k)) as [[v|m]|]; simpl in Hin; try tauto.
    destruct Hin as [E|[]]. unfold path_eqb in H. rewrite E in H.
    destruct (path_eq_dec (PData k) (PData k)); congruence.
Qed.

(* ------------------------------------------------------------------ pending-set facts *)
Lemma pend_is_spec k g q : pend_is k g q = true <-> p_key q = k /\ p_gen q = g.
Proof. unfold pend_is. rewrite andb_true_iff, !String.eqb_eq. tauto. Qed.

Lemma find_pend_some k g l q : find_pend k g l = Some q -> In q l /\ p_key q = k /\ p_gen q = g.
Proof. intros H. apply find_some in H as [H1 H2]. apply pend_is_spec in H2. tauto. Qed.

Lemma find_pend_none k g l q : find_pend k g l = None -> In q l -> ~ (p_key q = k /\ p_gen q = g).
Proof.
  intros H Hin E. apply pend_is_spec in E. pose proof (find_none _ _ H q Hin) as F. congruence.
Qed.

Lemma remove_pend_in k g l q : In q (remove_pend k g l) <-> In q l /\ ~ (p_key q = k /\ p_gen q = g).
Proof.
  unfold remove_pend. rewrite filter_In, negb_true_iff. split; intros [H1 H2]; split; auto.
  - intro E. apply pend_is_spec in E. congruence.
  - destruct (pend_is k g q) eqn:E; auto. apply pend_is_spec in E. tauto.
Qed.

Lemma pend_path_neq k g q : ~ (p_key q = k /\ p_gen q = g) -> pend_path q <> PGen k g.
Proof. intros H E. unfold pend_path in E. inversion E. tauto. Qed.

(* ------------------------------------------------------------------ preservation *)
Definition full : cfg := mkCfg true true false.

#[local] Hint Resolve in_cons in_eq : core.

Ltac inv_split := constructor; cbn [st infl used pends recl gcs gmark].

Ltac split5 := split; [|split; [|split; [|split]]].
Ltac split3 := split; [|split].

Lemma unref_put_payload (b : bstore) p q o :
  is_payload p = true -> is_payload q = true -> unreferenced b p -> unreferenced (put b q o) p.
Proof. intros Hp Hq U. apply unref_payload; auto. rewrite reach_put_payload; auto. apply unref_payload; auto. Qed.

Lemma unref_del_payload (b : bstore) p q :
  is_payload p = true -> is_payload q = true -> unreferenced b p -> unreferenced (del path_eq_dec b q) p.
Proof. intros Hp Hq U. apply unref_payload; auto. rewrite reach_del_payload; auto. apply unref_payload; auto. Qed.

Lemma unref_put_meta (b : bstore) p k m :
  is_payload p = true -> unreferenced b p -> p <> ppath k (m_gen m) -> unreferenced (put b (PMeta k) (OMeta m)) p.
Proof.
  intros Hp U Hne. apply unref_payload; auto. destruct (string_dec (pkey p) k) as [E|Hk].
  - rewrite E, reach_put_meta_same. simpl. intros [Eq|[]]. auto.
  - rewrite reach_put_meta_other; auto. apply unref_payload; auto.
Qed.

Lemma unref_del_meta (b : bstore) p k :
  is_payload p = true -> unreferenced b p -> unreferenced (del path_eq_dec b (PMeta k)) p.
Proof.
  intros Hp U. apply unref_payload; auto. destruct (string_dec (pkey p) k) as [E|Hk].
  - rewrite E, reach_del_meta_same. simpl. tauto.
  - rewrite reach_del_meta_other; auto. apply unref_payload; auto.
Qed.

Lemma kread_del_unref (b : bstore) p :
  unreferenced b p -> forall k, kread k (del path_eq_dec b p) = kread k b.
Proof.
  intros U. change (del path_eq_dec b p) with (apply_step path_eq_dec b (Del p)).
  apply step_quiet_kread. intros k1. apply del_unreferenced_quiet; auto.
Qed.

Lemma used_del (s : sys) p :
  (forall k g, bget (st s) (PGen k g) <> None -> In g (used s)) ->
  forall k g, bget (del path_eq_dec (st s) p) (PGen k g) <> None -> In g (used s).
Proof.
  intros U k0 g0 H. destruct (path_eq_dec p (PGen k0 g0)) as [->|Hne].
  - rewrite bget_del_same in H. congruence.
  - rewrite bget_del_other in H; eauto.
Qed.

Theorem inv_step s a s' : Inv s -> exec full s a = Some s' -> Inv s'.
Proof.
  intros I E. destruct I as [G U P R C]. destruct a; simpl in E.
  - (* AStart *)
    destruct (in_dec string_dec g (used s)) as [|Hfresh]; [discriminate|]. inversion E; subst s'; clear E.
    inv_split.
    + exact G.
    + intros k0 g0 H. right. eauto.
    + intros q [<-|Hq].
      * unfold pend_path; cbn [p_key p_gen p_val p_wrote].
        split; [left; auto|]. split; [left; auto|]. split; [|split; [discriminate|]].
        -- intro Hin. rewrite reach_cur_meta in Hin.
           destruct (bget (st s) (PMeta k)) as [[v0|m0]|] eqn:Em; simpl in Hin; try tauto.
           destruct Hin as [Eq|[]].
           assert (Ec : cur_meta (st s) k = Some m0) by (unfold cur_meta; rewrite Em; auto).
           pose proof (kread_good_payload _ _ _ (G k) Ec) as Hp. rewrite Eq in Hp.
           apply Hfresh. eapply U; eauto.
        -- intro Hin. apply R in Hin as (_ & _ & Hu). simpl in Hu. auto.
      * destruct (P q Hq) as (P1 & P2 & P3 & P4 & P5).
        split; [right; auto|]. split; [right; auto|]. split; [exact P3|]. split; [exact P4|exact P5].
    + intros p Hp. destruct (R p Hp) as (R1 & R2 & R3). split; [exact R1|]. split; [exact R2|].
      destruct p; simpl in *; auto.
    + intros cands ph Hg. destruct (C cands ph Hg) as (C1 & C2 & C3). split; [|split; [|exact C3]].
      * intros p Hp. destruct (C1 p Hp) as [A B]. split; auto. destruct p; simpl in *; auto.
      * intros Hph p r -> q [<-|Hq]; [|eapply C2; eauto].
        unfold pend_path; cbn [p_key p_gen]. intro Eq. destruct (C1 p (or_introl eq_refl)) as [_ B]. subst p. simpl in B. auto.
  - (* AWrite *)
    destruct (find_pend k g (pends s)) as [q0|] eqn:Ef; [|discriminate].
    destruct (p_wrote q0); [discriminate|].
    destruct (find_pend_some _ _ _ _ Ef) as (Hq0 & Ek & Eg).
    destruct (P q0 Hq0) as (P1 & P2 & P3 & P4 & P5). unfold pend_path in P1, P2, P3, P4, P5. rewrite Ek, Eg in *.
    destruct (match src with Some sk => cur_payload (st s) sk | None => Some (p_val q0) end) as [v|]; [|discriminate].
    inversion E; subst s'; clear E.
    assert (Hun : unreferenced (st s) (PGen k g)) by (apply unref_payload; auto).
    inv_split.
    + intros k0. change (put (st s) (PGen k g) (OPay v)) with (apply_step path_eq_dec (st s) (Put (PGen k g) (OPay v))).
      rewrite step_quiet_kread; auto. intros k1. apply put_unref_quiet; auto.
    + intros k0 g0 H. destruct (path_eq_dec (PGen k g) (PGen k0 g0)) as [Eq|Hne].
      * inversion Eq; subst; auto.
      * rewrite bget_put_other in H; eauto.
    + intros q [<-|Hq].
      * unfold pend_path; cbn [p_key p_gen p_val p_wrote].
        split; [exact P1|]. split; [exact P2|]. split; [rewrite reach_put_payload; auto|].
        split; [intros _; apply bget_put_same | exact P5].
      * apply remove_pend_in in Hq as [Hq Hne]. destruct (P q Hq) as (Q1 & Q2 & Q3 & Q4 & Q5).
        split; [exact Q1|]. split; [exact Q2|]. split; [rewrite reach_put_payload; auto|]. split; [|exact Q5].
        intros W. rewrite bget_put_other; auto. apply not_eq_sym. apply pend_path_neq; auto.
    + intros p Hp. destruct (R p Hp) as (R1 & R2 & R3). split; [exact R1|]. split; [|exact R3].
      apply unref_put_payload; auto.
    + intros cands ph Hg. destruct (C cands ph Hg) as (C1 & C2 & C3). split; [exact C1|]. split.
      * intros Hph p r -> q [<-|Hq].
        -- unfold pend_path; cbn [p_key p_gen]. rewrite <- Ek, <- Eg. apply (C2 Hph p r eq_refl q0 Hq0).
        -- apply remove_pend_in in Hq as [Hq _]. eapply C2; eauto.
      * intros -> p r ->. specialize (C3 eq_refl p r eq_refl). destruct (C1 p (or_introl eq_refl)) as [A _].
        apply unref_put_payload; auto.
  - (* ACommit *)
    destruct (find_pend k g (pends s)) as [q0|] eqn:Ef; [|discriminate].
    destruct (p_wrote q0) eqn:Ew; [|discriminate].
    destruct (find_pend_some _ _ _ _ Ef) as (Hq0 & Ek & Eg).
    destruct (P q0 Hq0) as (P1 & P2 & P3 & P4 & P5). unfold pend_path in P1, P2, P3, P4, P5. rewrite Ek, Eg in *.
    specialize (P4 Ew). inversion E; subst s'; clear E.
    set (nm := mkMeta (Some g) (p_val q0) (p_tok q0)).
    set (old := match cur_meta (st s) k with
                | Some m => if path_eq_dec (ppath k (m_gen m)) (PGen k g) then [] else [ppath k (m_gen m)]
                | None => [] end).
    assert (Hold : forall p, In p old -> is_payload p = true /\ pkey p = k /\ p <> PGen k g /\
                                         In p (reach_k k (st s)) /\ bget (st s) p <> None).
    { intros p Hp. unfold old in Hp. destruct (cur_meta (st s) k) as [m|] eqn:Em; [|destruct Hp].
      destruct (path_eq_dec (ppath k (m_gen m)) (PGen k g)) as [|Hne]; [destruct Hp|].
      destruct Hp as [<-|[]]. split; [destruct (m_gen m); reflexivity|]. split; [destruct (m_gen m); reflexivity|].
      split; auto. split; [rewrite (cur_meta_reach _ _ _ Em); left; auto|]. eapply kread_good_payload; eauto. }
    inv_split.
    + intros k0. destruct (string_dec k0 k) as [->|Hne].
      * unfold kread, read_k, read. rewrite get_put_same. unfold refs_k, nm. cbn [m_gen ppath map].
        rewrite get_put_other by discriminate. fold (bget (st s) (PGen k g)). rewrite P4. cbn [rd_of m_val m_tok].
        rewrite val_eqb_refl. reflexivity.
      * rewrite <- (G k0). f_equal. unfold kread. f_equal.
        change (put (st s) (PMeta k) (OMeta nm)) with (bapply (st s) [Put (PMeta k) (OMeta nm)]).
        apply quiet_read. constructor; [|constructor]. apply quiet_other_key with (k := k); auto.
    + intros k0 g0 H. rewrite bget_put_other in H by discriminate. eauto.
    + intros q Hq. apply remove_pend_in in Hq as [Hq Hne]. destruct (P q Hq) as (Q1 & Q2 & Q3 & Q4 & Q5).
      split; [exact Q1|]. split; [exact Q2|]. split; [|split].
      * destruct (string_dec (p_key q) k) as [Ekq|Hk].
        -- rewrite Ekq. rewrite reach_put_meta_same. unfold nm; cbn [m_gen ppath]. intros [Eq|[]].
           unfold pend_path in Eq. inversion Eq. apply Hne. auto.
        -- rewrite reach_put_meta_other; auto.
      * intros W. rewrite bget_put_other by (unfold pend_path; discriminate). auto.
      * intro Hin. apply in_app_or in Hin as [Hin|Hin]; auto.
        destruct (Hold _ Hin) as (_ & Hk & _ & Hr & _).
        unfold pend_path in Hk. simpl in Hk. rewrite Hk in Q3. auto.
    + intros p Hp. apply in_app_or in Hp as [Hp|Hp].
      * destruct (Hold _ Hp) as (A & Hk & Hne & Hr & Hex). split; [exact A|]. split.
        -- apply unref_payload; auto. rewrite Hk, reach_put_meta_same. unfold nm; cbn [m_gen ppath]. intros [Eq|[]]. auto.
        -- destruct p; simpl in *; auto. eapply U; eauto.
      * destruct (R p Hp) as (R1 & R2 & R3). split; [exact R1|]. split; [|exact R3].
        apply unref_put_meta; auto. unfold nm; cbn [m_gen ppath]. intro Eq. subst p. auto.
    + intros cands ph Hg. destruct (C cands ph Hg) as (C1 & C2 & C3). split; [exact C1|]. split.
      * intros Hph p r -> q Hq. apply remove_pend_in in Hq as [Hq _]. eapply C2; eauto.
      * intros -> p r ->. specialize (C3 eq_refl p r eq_refl). destruct (C1 p (or_introl eq_refl)) as [A _].
        apply unref_put_meta; auto. unfold nm; cbn [m_gen ppath]. intro Eq.
        assert (Hph : GC <> GA) by discriminate.
        apply (C2 Hph p r eq_refl q0 Hq0). unfold pend_path. rewrite Ek, Eg. auto.
  - (* AAbort *)
    destruct (find_pend k g (pends s)) as [q0|] eqn:Ef; [|discriminate]. inversion E; subst s'; clear E.
    inv_split.
    + exact G.
    + exact U.
    + intros q Hq. apply remove_pend_in in Hq as [Hq Hne]. destruct (P q Hq) as (Q1 & Q2 & Q3 & Q4 & Q5).
      split; [|split; [exact Q2|split; [exact Q3|split; [exact Q4|exact Q5]]]].
      apply in_in_remove; auto. intro Eq. inversion Eq. tauto.
    + exact R.
    + intros cands ph Hg. destruct (C cands ph Hg) as (C1 & C2 & C3). split; [exact C1|]. split; [|exact C3].
      intros Hph p r -> q Hq. apply remove_pend_in in Hq as [Hq _]. eapply C2; eauto.
  - (* ADrop *)
    destruct (find_pend k g (pends s)) as [q0|] eqn:Ef; [discriminate|]. inversion E; subst s'; clear E.
    inv_split.
    + exact G.
    + exact U.
    + intros q Hq. destruct (P q Hq) as (Q1 & Q2 & Q3 & Q4 & Q5).
      split; [|split; [exact Q2|split; [exact Q3|split; [exact Q4|exact Q5]]]].
      apply in_in_remove; auto. intro Eq. inversion Eq. eapply find_pend_none; eauto.
    + exact R.
    + exact C.
  - (* AReclaim *)
    destruct (in_dec path_eq_dec p (recl s)) as [Hin|]; [|discriminate]. inversion E; subst s'; clear E.
    destruct (R p Hin) as (Rp1 & Rp2 & Rp3).
    inv_split.
    + intros k0. rewrite kread_del_unref; auto.
    + apply used_del; auto.
    + intros q Hq. destruct (P q Hq) as (Q1 & Q2 & Q3 & Q4 & Q5).
      split; [exact Q1|]. split; [exact Q2|]. split; [|split].
      * rewrite reach_del_payload; auto.
      * intros W. rewrite bget_del_other; auto. intro Eq. subst p. auto.
      * intro H. apply in_remove in H as [H _]. auto.
    + intros p0 Hp0. apply in_remove in Hp0 as [Hp0 _]. destruct (R p0 Hp0) as (R1 & R2 & R3).
      split; [exact R1|]. split; [|exact R3]. apply unref_del_payload; auto.
    + intros cands ph Hg. destruct (C cands ph Hg) as (C1 & C2 & C3). split; [exact C1|]. split; [exact C2|].
      intros -> p0 r ->. specialize (C3 eq_refl p0 r eq_refl). destruct (C1 p0 (or_introl eq_refl)) as [A _].
      apply unref_del_payload; auto.
  - (* ADelete *)
    destruct (cur_meta (st s) k) as [m|] eqn:Em; [|discriminate]. inversion E; subst s'; clear E.
    assert (Hpay : is_payload (ppath k (m_gen m)) = true) by (destruct (m_gen m); reflexivity).
    assert (Hpk : pkey (ppath k (m_gen m)) = k) by (destruct (m_gen m); reflexivity).
    inv_split.
    + intros k0. destruct (string_dec k0 k) as [->|Hne].
      * unfold kread, read_k, read. rewrite get_del_same. reflexivity.
      * rewrite <- (G k0). unfold kread. f_equal. f_equal.
        change (del path_eq_dec (st s) (PMeta k)) with (bapply (st s) [Del (PMeta k)]).
        apply quiet_read. constructor; [|constructor]. apply quiet_other_key with (k := k); auto.
    + apply used_del; auto.
    + intros q Hq. destruct (P q Hq) as (Q1 & Q2 & Q3 & Q4 & Q5).
      split; [exact Q1|]. split; [exact Q2|]. split; [|split].
      * destruct (string_dec (p_key q) k) as [Ekq|Hk].
        -- rewrite Ekq, reach_del_meta_same. simpl. tauto.
        -- rewrite reach_del_meta_other; auto.
      * intros W. rewrite bget_del_other by (unfold pend_path; discriminate). auto.
      * intros [Eq|Hin]; auto. apply Q3. rewrite <- Eq.
        assert (Hkq : p_key q = k) by (rewrite Eq in Hpk; exact Hpk).
        rewrite Hkq. rewrite (cur_meta_reach _ _ _ Em). left; auto.
    + intros p [<-|Hp].
      * split; [exact Hpay|]. split.
        -- apply unref_payload; auto. rewrite Hpk, reach_del_meta_same. simpl. tauto.
        -- destruct (m_gen m) as [g0|] eqn:Eg; simpl; auto.
           apply (U k g0). pose proof (kread_good_payload _ _ _ (G k) Em) as H. rewrite Eg in H. exact H.
      * destruct (R p Hp) as (R1 & R2 & R3). split; [exact R1|]. split; [|exact R3]. apply unref_del_meta; auto.
    + intros cands ph Hg. destruct (C cands ph Hg) as (C1 & C2 & C3). split; [exact C1|]. split; [exact C2|].
      intros -> p r ->. specialize (C3 eq_refl p r eq_refl). destruct (C1 p (or_introl eq_refl)) as [A _].
      apply unref_del_meta; auto.
  - (* AGcMark *)
    inversion E; subst s'; clear E. inv_split; [exact G | exact U | exact P | exact R | exact C].
  - (* AGcList *)
    destruct (gcs s) eqn:Eg; [discriminate|].
    destruct (forallb _ cands) eqn:Ef; [|discriminate]. inversion E; subst s'; clear E.
    inv_split; [exact G | exact U | exact P | exact R |].
    intros cands0 ph H. inversion H; subst. split; [|split; congruence].
    intros p Hp. rewrite forallb_forall in Ef. specialize (Ef p Hp). apply andb_true_iff in Ef as [A B].
    split; auto. destruct p as [|k0 g0|]; simpl; auto. apply (U k0 g0).
    destruct (bget (st s) (PGen k0 g0)); congruence.
  - (* AGcCheck *)
    destruct (gcs s) as [[cands ph]|] eqn:Eg; [|discriminate].
    destruct (C cands ph eq_refl) as (C1 & C2 & C3).
    destruct cands as [|p r].
    + inversion E; subst s'; clear E. inv_split; [exact G | exact U | exact P | exact R |]. intros; discriminate.
    + destruct ph; try discriminate. simpl in E.
      destruct (inflightb s p) eqn:Ei; inversion E; subst s'; clear E; (inv_split; [exact G | exact U | exact P | exact R |]).
      * intros cands0 ph0 H. inversion H; subst. split; [|split; congruence].
        intros p0 Hp0. apply C1. right; auto.
      * intros cands0 ph0 H. inversion H; subst. split; [exact C1|]. split; [|congruence].
        intros _ p0 r0 Eq q Hq Epath. inversion Eq; subst.
        destruct (P q Hq) as (Q1 & _). unfold pend_path in Ei. simpl in Ei.
        destruct (in_dec kg_eq_dec (p_key q, p_gen q) (infl s)); congruence.
  - (* AGcRecheck *)
    destruct (gcs s) as [[cands ph]|] eqn:Eg; [|discriminate].
    destruct (C cands ph eq_refl) as (C1 & C2 & C3).
    destruct cands as [|p r]; [discriminate|]. destruct ph; try discriminate. simpl in E.
    destruct (referencedb (st s) p) eqn:Er; inversion E; subst s'; clear E; (inv_split; [exact G | exact U | exact P | exact R |]).
    + intros cands0 ph0 H. inversion H; subst. split; [|split; congruence].
      intros p0 Hp0. apply C1. right; auto.
    + intros cands0 ph0 H. inversion H; subst. split; [exact C1|]. split.
      * intros _ p0 r0 Eq. inversion Eq; subst. apply (C2 ltac:(discriminate) p0 r0 eq_refl).
      * intros _ p0 r0 Eq. inversion Eq; subst. apply referencedb_false; auto. apply C1. left; auto.
  - (* AGcDelete *)
    destruct (gcs s) as [[cands ph]|] eqn:Eg; [|discriminate].
    destruct (C cands ph eq_refl) as (C1 & C2 & C3).
    destruct cands as [|p r]; [discriminate|]. destruct ph; try discriminate. inversion E; subst s'; clear E.
    destruct (C1 p (or_introl eq_refl)) as [Hpay _].
    specialize (C3 eq_refl p r eq_refl). specialize (C2 ltac:(discriminate) p r eq_refl).
    inv_split.
    + intros k0. rewrite kread_del_unref; auto.
    + apply used_del; auto.
    + intros q Hq. destruct (P q Hq) as (Q1 & Q2 & Q3 & Q4 & Q5).
      split; [exact Q1|]. split; [exact Q2|]. split; [|split; [|exact Q5]].
      * rewrite reach_del_payload; auto.
      * intros W. rewrite bget_del_other; auto. apply not_eq_sym. apply C2; auto.
    + intros p0 Hp0. destruct (R p0 Hp0) as (R1 & R2 & R3). split; [exact R1|]. split; [|exact R3].
      apply unref_del_payload; auto.
    + intros cands0 ph0 H. inversion H; subst. split; [|split; congruence].
      intros p0 Hp0. apply C1. right; auto.
  - (* ACrash *)
    inversion E; subst s'; clear E. inv_split; [exact G | exact U | | | ]; try (intros ? []); try (intros; discriminate).
Qed.

Theorem inv_run acts : forall s s', Inv s -> run full s acts = Some s' -> Inv s'.
Proof.
  induction acts as [|a r IH]; intros s s' I H; simpl in H.
  - inversion H; subst; auto.
  - destruct (exec full s a) as [s1|] eqn:E; [|discriminate]. apply (IH s1 s'); [eapply inv_step; eauto | exact H].
Qed.

(* any cold start over a sound backend whose generation objects were all minted earlier *)
Lemma inv_init (b : bstore) (u : list gen) :
  (forall k, rd_good (kread k b) = true) ->
  (forall k g, bget b (PGen k g) <> None -> In g u) ->
  Inv (mkSys b [] u [] [] None []).
Proof. intros G U. constructor; simpl; auto; try (intros; tauto); try (intros; discriminate). Qed.

(* what a collector delete does to readers: nothing *)
Theorem gc_delete_invisible s s' :
  Inv s -> exec full s AGcDelete = Some s' -> forall k, kread k (st s') = kread k (st s).
Proof.
  intros I E k. simpl in E. destruct (gcs s) as [[cands ph]|] eqn:Eg; [|discriminate].
  destruct cands as [|p r]; [discriminate|]. destruct ph; try discriminate. inversion E; subst; clear E. simpl.
  destruct (inv_gc _ I _ _ Eg) as (C1 & _ & C3).
  change (del path_eq_dec (st s) p) with (apply_step path_eq_dec (st s) (Del p)).
  apply step_quiet_kread. intros k1. apply del_unreferenced_quiet. apply (C3 eq_refl p r eq_refl).
Qed.

(* and a collector's delete never removes the payload a pending writer is about to commit *)
Theorem gc_spares_pending s s' q :
  Inv s -> exec full s AGcDelete = Some s' -> In q (pends s) -> p_wrote q = true ->
  bget (st s') (pend_path q) = Some (OPay (p_val q)).
Proof.
  intros I E Hq W. pose proof (inv_step _ _ _ I E) as I'.
  assert (Hq' : In q (pends s')).
  { simpl in E. destruct (gcs s) as [[cands ph]|]; [|discriminate].
    destruct cands; [discriminate|]. destruct ph; try discriminate. inversion E; subst. exact Hq. }
  destruct (inv_pend _ I' q Hq') as (_ & _ & _ & H & _). auto.
Qed.
