(* Store/CondRead.v — a conditional read (get_opts with read preconditions) racing with commits of the
   same key.  The read resolves the key's document, fetches the payload the document points at and, when
   that payload is gone (the generation was replaced and reclaimed by a concurrent commit), re-resolves
   once.  Where the preconditions are evaluated — in every iteration, on the document that iteration
   resolved, or once before the loop — is a parameter; the source's choice is a generated fact. *)
From Coq Require Import List ZArith Bool.
From Verif Require Import Store.GetOpts.
Import ListNotations.

(* one commit of the key: its logical token, its logical timestamp, its bytes *)
Record commit := mkCommit { c_tag : Z; c_lm : Z; c_val : Z }.

Inductive answer := AServed (c : commit) | APre (r : pre_result) | ANotFound.

(* what the backend answers to each step of one read: any two commits, any payload availability *)
Record env := mkEnv {
  first_doc : option commit;        (* get_meta: the commit point as the first iteration resolved it *)
  first_payload_found : bool;       (* that commit's payload is still there when fetched *)
  second_doc : option commit;       (* refresh_meta after NotFound: the commit point re-resolved *)
  second_payload_found : bool
}.

(* the verdict of the wrapper's check_get_preconditions on a commit *)
Definition pre (o : gopts) (c : commit) : pre_result :=
  fst (check_get_preconditions o (c_tag c) (Some (c_lm c))).

Definition cond_read (check_in_loop : bool) (o : gopts) (e : env) : answer :=
  match first_doc e with
  | None => ANotFound
  | Some c1 =>
      match pre o c1 with
      | POk =>
          if first_payload_found e then AServed c1
          else match second_doc e with
               | None => ANotFound
               | Some c2 =>
                   match (if check_in_loop then pre o c2 else POk) with
                   | POk => if second_payload_found e then AServed c2 else ANotFound
                   | r => APre r
                   end
               end
      | r => APre r
      end
  end.

Definition resolved (e : env) (c : commit) : Prop := first_doc e = Some c \/ second_doc e = Some c.

(* with the check inside the loop the answer is the reference's verdict on ONE commit the read resolved:
   served bytes belong to a commit that passes, a refusal is the verdict on a resolved commit *)
Theorem cond_read_one_commit :
  forall (o : gopts) (e : env),
    match cond_read true o e with
    | AServed c => resolved e c /\ ref_check o (c_tag c) (c_lm c) = POk
    | APre r => r <> POk /\ exists c, resolved e c /\ ref_check o (c_tag c) (c_lm c) = r
    | ANotFound => True
    end.
Proof.
  intros o e. unfold cond_read, resolved.
  destruct (first_doc e) as [c1|] eqn:F; [|exact I].
  assert (P1 : pre o c1 = ref_check o (c_tag c1) (c_lm c1)) by apply get_preconditions_conform.
  destruct (pre o c1) eqn:E1.
  - destruct (first_payload_found e).
    + split; [left; reflexivity | congruence].
    + destruct (second_doc e) as [c2|] eqn:S; [|exact I].
      assert (P2 : pre o c2 = ref_check o (c_tag c2) (c_lm c2)) by apply get_preconditions_conform.
      destruct (pre o c2) eqn:E2.
      * destruct (second_payload_found e); [|exact I]. split; [right; reflexivity | congruence].
      * split; [discriminate|]. exists c2. split; [right; reflexivity | congruence].
      * split; [discriminate|]. exists c2. split; [right; reflexivity | congruence].
  - split; [discriminate|]. exists c1. split; [left; reflexivity | congruence].
  - split; [discriminate|]. exists c1. split; [left; reflexivity | congruence].
Qed.

(* checking once before the loop: a read conditioned on the first commit's token serves the second commit *)
Definition witness_opts : gopts := mkG (Some (TList [1%Z])) None None None.
Definition witness_env : env :=
  mkEnv (Some (mkCommit 1 10 100)) false (Some (mkCommit 2 20 200)) true.

Theorem cond_read_check_once_refuted :
  exists o e c, cond_read false o e = AServed c /\ ref_check o (c_tag c) (c_lm c) = PPrecondition /\
                first_doc e <> Some c.
Proof.
  exists witness_opts, witness_env, (mkCommit 2 20 200). repeat split; try reflexivity. discriminate.
Qed.

(* the same input with the check inside the loop is refused *)
Example cond_read_witness_in_loop : cond_read true witness_opts witness_env = APre PPrecondition.
Proof. reflexivity. Qed.
