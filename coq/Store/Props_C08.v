(* Store/Props_C08.v — pinned statements for C08 (wrapper writes are atomic under crashes; garbage
   collection is safe).  The step lists are assembled from the event orders tools/gen_flush.py extracts
   from rs/anda_object_store/src/{sidecar,lib,encryption}.rs on every run (coq/gen/Gen_Flush.v). *)
From Coq Require Import List String NArith Bool Arith.
From Verif Require Import Common.ObjStore Common.CommitPoint Store.Model Store.Crash Store.Gc Store.Ops gen.Gen_Flush.
Import ListNotations.
Open Scope list_scope.
Open Scope string_scope.

Theorem C08_generated_orders :
  mutations meta_put_events = put_muts /\ mutations enc_put_events = put_muts /\
  mutations meta_multipart_events = mp_muts /\ mutations enc_multipart_events = mp_muts /\
  mutations meta_copy_events = copy_muts /\ mutations enc_copy_events = copy_muts /\
  mutations delete_events = delete_muts /\
  meta_rename_order = ["SELF"; "COPY"; "DELETE"] /\ enc_rename_order = ["SELF"; "COPY"; "DELETE"] /\
  reclaim_guarded_by_neq = true /\ replaced_from_fresh_read = true /\ commit_in_key_section = true /\
  (* every writer registers its generation before the payload reaches the backend and keeps the guard
     until after the pointer switch *)
  Forall (fun evs => evs_eqb (filter (fun e => ev_eqb e EvRegister || is_mutation e || ev_eqb e EvUnregister) evs)
                             (EvRegister :: mutations evs ++ [EvUnregister]) = true)
         [meta_put_events; enc_put_events; meta_multipart_events; enc_multipart_events; meta_copy_events; enc_copy_events] /\
  meta_uploader_holds_guard = true /\ enc_uploader_holds_guard = true /\
  meta_copy_holds_guard = true /\ enc_copy_holds_guard = true /\
  guard_registers = true /\ guard_drop_unregisters = true /\
  gc_recheck_reads_backend = true /\ cfg_of gc_sweep gc_recheck_unconditional = full.
Proof. repeat split; try reflexivity. repeat constructor. Qed.
Print Assumptions C08_generated_orders.

(* (1) a crash after ANY number j of backend steps of ANY wrapper operation leaves EVERY key reading,
   in full, what it read before the operation or what it reads after the complete operation *)
Theorem C08_crash_atomic :
  forall (o : wop) (s : bstore) (c : octx), wop_pre o s c ->
  forall (j : nat) (k : key),
    kread k (bcrash j (wop_steps o s c) s) = kread k s \/
    kread k (bcrash j (wop_steps o s c) s) = kread k (bapply s (wop_steps o s c)).
Proof. intros o s c H j k. apply kread_atomic. apply wop_keyok. exact H. Qed.
Print Assumptions C08_crash_atomic.

(* (2) and that state is never a mixture: from a backend where every commit point describes the
   payload it points at, no crash point produces a listed key that is dangling (unreadable),
   truncated or undecryptable (document and payload of different commits) *)
Theorem C08_crash_never_unreadable :
  forall (o : wop) (s : bstore) (c : octx), wop_pre o s c ->
  (forall k, rd_good (kread k s) = true) ->
  forall (j : nat) (k : key), rd_good (kread k (bcrash j (wop_steps o s c) s)) = true.
Proof.
  destruct gen_put_orders as (A1 & A2 & A3 & A4 & A5 & A6 & A7).
  intros o s c [F R] G j. destruct o as [[|]|[|]|[|]|[|]|]; cbn [wop_steps].
  - apply put_good; auto.
  - apply put_good; auto.
  - apply put_good; auto.
  - apply put_good; auto.
  - apply copy_good; auto.
  - apply copy_good; auto.
  - apply rename_good; auto.
  - apply rename_good; auto.
  - apply delete_good; auto.
Qed.
Print Assumptions C08_crash_never_unreadable.

(* (3) what the complete operations commit *)
Theorem C08_put_commits_new_value :
  forall (enc mp : bool) (s : bstore) (c : octx),
    let o := if mp then WMultipart enc else WPut enc in
    kread (o_key c) (bapply s (wop_steps o s c)) = RVal (o_val c) (o_tok c) /\
    forall k, k <> o_key c -> kread k (bapply s (wop_steps o s c)) = kread k s.
Proof.
  destruct gen_put_orders as (A1 & A2 & A3 & A4 & A5 & A6 & A7).
  intros enc mp s c. destruct mp, enc; cbv zeta; cbn [wop_steps]; (split; [apply put_result; auto | intros k Hk; apply other_keys_unchanged; auto]).
Qed.
Print Assumptions C08_put_commits_new_value.

Theorem C08_delete_present_or_absent :
  forall (s : bstore) (c : octx) (j : nat),
    kread (o_key c) (bcrash j (wop_steps WDelete s c) s) = kread (o_key c) s \/
    kread (o_key c) (bcrash j (wop_steps WDelete s c) s) = RAbsent.
Proof.
  destruct gen_put_orders as (A1 & A2 & A3 & A4 & A5 & A6 & A7).
  intros s c j. cbn [wop_steps].
  destruct (kread_atomic (o_key c) s (delete_steps delete_events s c) (delete_keyok _ s c A7 (o_key c)) j) as [E|E]; auto.
  destruct (cur_meta s (o_key c)) as [m|] eqn:Em.
  - right. rewrite E. apply (delete_result delete_events s c m A7 Em).
  - left. rewrite E. unfold delete_steps. rewrite Em. reflexivity.
Qed.
Print Assumptions C08_delete_present_or_absent.

(* (4) rename = copy then delete of the source: at every crash point the source still reads its value
   or the target already reads it — never both names absent *)
Theorem C08_rename_never_both_absent :
  forall (enc : bool) (s : bstore) (c : octx) (v : val) (t : N),
    o_src c <> o_key c -> fresh_gen s c -> kread (o_src c) s = RVal v t ->
    forall j, let s' := bcrash j (wop_steps (WRename enc) s c) s in
              kread (o_src c) s' = RVal v t \/ kread (o_key c) s' = RVal v (o_tok c).
Proof.
  destruct gen_put_orders as (A1 & A2 & A3 & A4 & A5 & A6 & A7).
  intros enc s c v t Hne F Hs j. destruct enc; cbv zeta; cbn [wop_steps]; apply rename_never_both_absent; auto.
Qed.
Print Assumptions C08_rename_never_both_absent.

(* (5) the monitor judging FaultStore's recorded mutation logs is sound *)
Theorem C08_monitor_sound :
  forall (s : bstore) (l : list bstep), log_ok s l = true ->
  forall (j : nat) (k : key),
    kread k (bcrash j l s) = kread k s \/ kread k (bcrash j l s) = kread k (bapply s l).
Proof. intros s l H j k. apply kread_atomic. apply log_ok_sound. exact H. Qed.
Print Assumptions C08_monitor_sound.

(* (6) collect_garbage, sequentially (also after any crash): deleting payloads that no commit point
   references changes no read, at any prefix of its deletes *)
Theorem C08_gc_sequential_invisible :
  forall (s : bstore) (l : list bstep),
    Forall (fun st : bstep => exists p, st = Del p /\ unreferenced s p) l ->
    forall j k, kread k (bcrash j l s) = kread k s.
Proof. exact gc_log_invisible. Qed.
Print Assumptions C08_gc_sequential_invisible.

(* (7) collect_garbage racing in-process writers: for EVERY interleaving of the steps of any number of
   puts / multipart uploads / copies / deletes, one collector and crashes (runs of the transition system
   of Store/Gc.v with the sweep guards in the order the code has them), from any sound cold start,
   every commit point keeps describing a present payload, *)
Theorem C08_gc_safe :
  forall (b : bstore) (u : list gen) (acts : list action) (s : sys),
    (forall k, rd_good (kread k b) = true) ->
    (forall k g, bget b (PGen k g) <> None -> In g u) ->
    run (cfg_of gc_sweep gc_recheck_unconditional) (mkSys b [] u [] [] None []) acts = Some s ->
    forall k, rd_good (kread k (st s)) = true.
Proof.
  intros b u acts s G U R. change (cfg_of gc_sweep gc_recheck_unconditional) with full in R.
  apply (inv_good _ (inv_run acts _ _ (inv_init b u G U) R)).
Qed.
Print Assumptions C08_gc_safe.

(* every delete the collector issues leaves every key reading the same, *)
Theorem C08_gc_delete_invisible :
  forall (b : bstore) (u : list gen) (acts : list action) (s s' : sys),
    (forall k, rd_good (kread k b) = true) ->
    (forall k g, bget b (PGen k g) <> None -> In g u) ->
    run (cfg_of gc_sweep gc_recheck_unconditional) (mkSys b [] u [] [] None []) acts = Some s ->
    exec (cfg_of gc_sweep gc_recheck_unconditional) s AGcDelete = Some s' ->
    forall k, kread k (st s') = kread k (st s).
Proof.
  intros b u acts s s' G U R E. change (cfg_of gc_sweep gc_recheck_unconditional) with full in *.
  apply gc_delete_invisible; auto. apply (inv_run acts _ _ (inv_init b u G U) R).
Qed.
Print Assumptions C08_gc_delete_invisible.

(* and it never removes the payload of a write whose pointer switch is still pending *)
Theorem C08_gc_spares_pending_writes :
  forall (b : bstore) (u : list gen) (acts : list action) (s s' : sys) (q : pend),
    (forall k, rd_good (kread k b) = true) ->
    (forall k g, bget b (PGen k g) <> None -> In g u) ->
    run (cfg_of gc_sweep gc_recheck_unconditional) (mkSys b [] u [] [] None []) acts = Some s ->
    exec (cfg_of gc_sweep gc_recheck_unconditional) s AGcDelete = Some s' ->
    In q (pends s) -> p_wrote q = true ->
    bget (st s') (PGen (p_key q) (p_gen q)) = Some (OPay (p_val q)).
Proof.
  intros b u acts s s' q G U R E Hq W. change (cfg_of gc_sweep gc_recheck_unconditional) with full in *.
  apply (gc_spares_pending s s' q); auto. apply (inv_run acts _ _ (inv_init b u G U) R).
Qed.
Print Assumptions C08_gc_spares_pending_writes.

(* the in-flight guard is necessary: without it (re-check only) a collector that listed the payload of
   a pending put deletes it after the put's pointer switch, and the key dangles *)
Definition refute_trace : list action :=
  [AStart "a" "g1" (1, 1)%N 1%N; AWrite "a" "g1" None; AGcList [PGen "a" "g1"]; AGcCheck; AGcRecheck;
   ACommit "a" "g1"; AGcDelete].

Theorem C08_gc_without_inflight_refuted :
  exists acts s, run (mkCfg false true false) (mkSys [] [] [] [] [] None []) acts = Some s /\
                 kread "a" (st s) = RDangling.
Proof. exists refute_trace. eexists. split; vm_compute; reflexivity. Qed.
Print Assumptions C08_gc_without_inflight_refuted.

(* the same schedule with the guard in place: the collector skips the candidate *)
Example C08_gc_guard_nonvacuous :
  exists s, run (cfg_of gc_sweep gc_recheck_unconditional) (mkSys [] [] [] [] [] None [])
                [AStart "a" "g1" (1, 1)%N 1%N; AWrite "a" "g1" None; AGcList [PGen "a" "g1"]; AGcCheck;
                 ACommit "a" "g1"; AGcCheck; ADrop "a" "g1"] = Some s /\
            kread "a" (st s) = RVal (1, 1)%N 1%N /\ gcs s = None.
Proof. eexists. split; [vm_compute; reflexivity|]. split; vm_compute; reflexivity. Qed.

(* the re-check is necessary as well: the candidate list is a stale snapshot *)
Theorem C08_gc_without_recheck_refuted :
  exists acts s, run (mkCfg true false false) (mkSys [] [] [] [] [] None []) acts = Some s /\
                 kread "a" (st s) = RDangling.
Proof.
  exists [AStart "a" "g1" (1, 1)%N 1%N; AWrite "a" "g1" None; ACommit "a" "g1"; ADrop "a" "g1";
          AGcList [PGen "a" "g1"]; AGcCheck; AGcRecheck; AGcDelete].
  eexists. split; vm_compute; reflexivity.
Qed.
Print Assumptions C08_gc_without_recheck_refuted.

(* and the re-check must not be skipped for "orphans" (candidates whose key had no commit point in the mark
   snapshot): a key created between the mark phase and the sweep — its writer has committed and released
   its registration by then — would lose its payload.  Both guards are on; only the exemption differs. *)
Theorem C08_gc_orphan_skip_refuted :
  exists acts s, run (mkCfg true true true) (mkSys [] [] [] [] [] None []) acts = Some s /\
                 kread "a" (st s) = RDangling /\ infl s = [] /\ pends s = [].
Proof.
  exists [AStart "a" "g1" (1, 1)%N 1%N; AGcMark; AWrite "a" "g1" None; ACommit "a" "g1"; ADrop "a" "g1";
          AGcList [PGen "a" "g1"]; AGcCheck; AGcRecheck; AGcDelete].
  eexists. split; [vm_compute; reflexivity|]. split; [vm_compute; reflexivity|]. split; reflexivity.
Qed.
Print Assumptions C08_gc_orphan_skip_refuted.

(* the same schedule under the code's configuration: the re-check sees the new commit point and skips *)
Example C08_gc_orphan_recheck_nonvacuous :
  exists s, run (cfg_of gc_sweep gc_recheck_unconditional) (mkSys [] [] [] [] [] None [])
                [AStart "a" "g1" (1, 1)%N 1%N; AGcMark; AWrite "a" "g1" None; ACommit "a" "g1"; ADrop "a" "g1";
                 AGcList [PGen "a" "g1"]; AGcCheck; AGcRecheck] = Some s /\
            kread "a" (st s) = RVal (1, 1)%N 1%N /\ gcs s = Some ([], GA).
Proof. eexists. split; [vm_compute; reflexivity|]. split; vm_compute; reflexivity. Qed.

(* ---- non-vacuity: a concrete overwrite of a legacy (pre-0.10) object, crash points included *)
Definition ex_store : bstore :=
  [(PMeta "a", OMeta (mkMeta None (7, 3)%N 5%N)); (PData "a", OPay (7, 3)%N);
   (PMeta "b", OMeta (mkMeta (Some "g0") (8, 1)%N 6%N)); (PGen "b" "g0", OPay (8, 1)%N)].
Definition ex_ctx : octx := mkCtx "a" "g1" (9, 4)%N 10%N "b".

Example C08_crash_atomic_nonvacuous :
  wop_pre (WPut false) ex_store ex_ctx /\
  List.length (wop_steps (WPut false) ex_store ex_ctx) = 3 /\
  map (fun j => kread "a" (bcrash j (wop_steps (WPut false) ex_store ex_ctx) ex_store)) [0; 1; 2; 3]
  = [RVal (7, 3)%N 5%N; RVal (7, 3)%N 5%N; RVal (9, 4)%N 10%N; RVal (9, 4)%N 10%N] /\
  log_ok ex_store (wop_steps (WPut false) ex_store ex_ctx) = true /\
  wop_pre (WRename true) ex_store ex_ctx /\
  List.length (wop_steps (WRename true) ex_store ex_ctx) = 5 /\
  map (fun j => (kread "b" (bcrash j (wop_steps (WRename true) ex_store ex_ctx) ex_store),
                 kread "a" (bcrash j (wop_steps (WRename true) ex_store ex_ctx) ex_store))) [0; 2; 4; 5]
  = [(RVal (8, 1)%N 6%N, RVal (7, 3)%N 5%N); (RVal (8, 1)%N 6%N, RVal (8, 1)%N 10%N);
     (RAbsent, RVal (8, 1)%N 10%N); (RAbsent, RVal (8, 1)%N 10%N)].
Proof.
  split; [split; [intros cur H; vm_compute in H; inversion H; subst; discriminate | exact I]|].
  split; [reflexivity|]. split; [vm_compute; reflexivity|]. split; [vm_compute; reflexivity|].
  split; [split; [intros cur H; vm_compute in H; inversion H; subst; discriminate | discriminate]|].
  split; [reflexivity|]. vm_compute; reflexivity.
Qed.
