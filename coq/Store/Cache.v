(* Store/Cache.v — the metadata cache of one key under concurrent callers (C07, "concurrent callers per
   key", "cold and warm metadata cache").

   Commits of a key are numbered; [doc] is the version of the commit point on the backend (a delete is a
   commit too), [cache] the version of the cached document if any, [acked] the last commit whose call has
   returned.  moka's per-key compute section (sidecar.rs: and_try_compute_with in get_meta, refresh_meta,
   update_meta_with, delete_object) is a mutex [sect]; a commit publishes its document to the cache in the
   same step that leaves the section (Op::Put / Op::Remove).  A listing reads the commit point WITHOUT the
   section (listing_entry); [cf_list_inserts] says whether it then inserts what it read into the cache.
   Any number of callers: an action is one step of some caller. *)
From Coq Require Import List Arith Bool Lia.
Import ListNotations.

Inductive sect_state :=
| SWriter (put_done : bool) (v : nat)     (* update_meta_with / delete_object, minted version v *)
| SLoader (loaded : option nat).          (* get_meta miss / refresh_meta *)

Record cst := mkC {
  doc : nat;
  cache : option nat;
  acked : nat;
  next : nat;
  sect : option sect_state;
  lfetched : list nat        (* documents fetched by listings that have not finished yet *)
}.

Record ccfg := mkCC { cf_list_inserts : bool; cf_load_in_section : bool }.

Inductive cact :=
| CWAcquire | CWPut | CWRelease (remove : bool) | CWAbort
| CLAcquire | CLLoad | CLRelease (nop : bool)
| CLoadOutside            (* only when loads are NOT serialised: read the document, insert it later *)
| CEvict
| CListFetch | CListFinish (v : nat).

Fixpoint remove1 (v : nat) (l : list nat) : list nat :=
  match l with [] => [] | x :: r => if Nat.eqb x v then r else x :: remove1 v r end.

Definition cexec (cf : ccfg) (s : cst) (a : cact) : option cst :=
  match a, sect s with
  | CWAcquire, None => Some (mkC (doc s) (cache s) (acked s) (S (next s)) (Some (SWriter false (next s))) (lfetched s))
  | CWPut, Some (SWriter false v) => Some (mkC v (cache s) (acked s) (next s) (Some (SWriter true v)) (lfetched s))
  | CWRelease rm, Some (SWriter true v) =>
      Some (mkC (doc s) (if rm then None else Some v) v (next s) None (lfetched s))
  | CWAbort, Some (SWriter false v) => Some (mkC (doc s) (cache s) (acked s) (next s) None (lfetched s))
  | CLAcquire, None => Some (mkC (doc s) (cache s) (acked s) (next s) (Some (SLoader None)) (lfetched s))
  | CLLoad, Some (SLoader None) => Some (mkC (doc s) (cache s) (acked s) (next s) (Some (SLoader (Some (doc s)))) (lfetched s))
  | CLRelease nop, Some (SLoader (Some v)) =>
      Some (mkC (doc s) (match cache s with Some c => if nop then Some c else Some v | None => Some v end)
                (acked s) (next s) None (lfetched s))
  | CLoadOutside, _ =>
      if cf_load_in_section cf then None
      else Some (mkC (doc s) (cache s) (acked s) (next s) (sect s) (doc s :: lfetched s))
  | CEvict, _ => Some (mkC (doc s) None (acked s) (next s) (sect s) (lfetched s))
  | CListFetch, _ => Some (mkC (doc s) (cache s) (acked s) (next s) (sect s) (doc s :: lfetched s))
  | CListFinish v, _ =>
      if existsb (Nat.eqb v) (lfetched s)
      then Some (mkC (doc s) (if cf_list_inserts cf then Some v else cache s) (acked s) (next s) (sect s)
                     (remove1 v (lfetched s)))
      else None
  | _, _ => None
  end.

Fixpoint crun (cf : ccfg) (s : cst) (l : list cact) : option cst :=
  match l with
  | [] => Some s
  | a :: r => match cexec cf s a with Some s' => crun cf s' r | None => None end
  end.

(* what the code does: listings do not touch the cache, loads happen inside the section *)
Definition code_cfg (list_inserts load_in_section : bool) : ccfg := mkCC list_inserts load_in_section.
Definition good_cfg : ccfg := mkCC false true.

(* the cached document is never older than the last acknowledged commit, never newer than the commit
   point; outside a writer's window it IS the commit point *)
Definition CInv (s : cst) : Prop :=
  acked s <= doc s /\ doc s < next s /\
  (forall c, cache s = Some c -> acked s <= c <= doc s) /\
  match sect s with
  | Some (SWriter true v) => doc s = v
  | Some (SWriter false v) => doc s < v /\ v < next s /\ (forall c, cache s = Some c -> c = doc s)
  | Some (SLoader (Some v)) => v = doc s /\ (forall c, cache s = Some c -> c = doc s)
  | _ => forall c, cache s = Some c -> c = doc s
  end.

Ltac cfin C D :=
  unfold CInv; simpl;
  repeat match goal with
         | |- _ /\ _ => split
         | |- forall _, _ => intro
         | H : Some _ = Some _ |- _ => inversion H; subst; clear H
         | H : None = Some _ |- _ => discriminate H
         end;
  try lia;
  try (match goal with H : cache _ = Some ?c |- _ => pose proof (C c H); lia end).

Theorem cinv_step s a s' : CInv s -> cexec good_cfg s a = Some s' -> CInv s'.
Proof.
  intros (A & B & C & D) E. unfold cexec in E.
  destruct a as [| |rm| | | |nop| | | |lv];
    destruct (sect s) as [[[|] v|[ld|]]|] eqn:Es; simpl in E; try discriminate;
    try (destruct (existsb (Nat.eqb lv) (lfetched s)); [|discriminate]);
    inversion E; subst s'; clear E.
  all: try (cfin C D; fail).
  all: try (destruct D as (D1 & D2 & D3); cfin C D; try (match goal with H : cache _ = Some ?c |- _ => pose proof (C c H); pose proof (D3 c H); lia end); fail).
  all: try (destruct D as (D1 & D2); cfin C D; try (match goal with H : cache _ = Some ?c |- _ => pose proof (C c H); pose proof (D2 c H); lia end); fail).
  all: try (cfin C D; try (match goal with H : cache _ = Some ?c |- _ => pose proof (C c H); pose proof (D c H); lia end); fail).
  all: try (destruct rm; cfin C D; fail).
  destruct D as (D1 & D2). subst ld. destruct (cache s) as [c0|] eqn:Ec.
  - pose proof (C c0 eq_refl). pose proof (D2 c0 eq_refl). destruct nop; cfin C D.
  - cfin C D.
Qed.

Theorem cinv_run l : forall s s', CInv s -> crun good_cfg s l = Some s' -> CInv s'.
Proof.
  induction l as [|a r IH]; intros s s' I H; simpl in H.
  - inversion H; subst; auto.
  - destruct (cexec good_cfg s a) as [s1|] eqn:E; [|discriminate]. apply (IH s1 s'); auto. eapply cinv_step; eauto.
Qed.

Lemma cinv_init d : CInv (mkC d None d (S d) None []).
Proof. unfold CInv; simpl. repeat split; try lia; intros; discriminate. Qed.
