(* Store/Cas.v — the wrappers against a reference in-memory object store (C07).

   Reference: a map key -> (value, token) with the semantics of object_store::memory::InMemory for put
   (Overwrite / Create / Update), multipart, copy, rename and delete; the token of a commit is supplied
   from outside (opaque).  Wrapper: the same operations on the backend of Store/Model.v — precondition
   decision as coded (update_meta_with + check_update_version), then the operation's step list.
   Documented differences built into the reference: no object versions; delete of a missing key and
   rename of a key onto itself follow the wrapper's documented behaviour (NotFound / object untouched). *)
From Coq Require Import List String NArith Bool Lia Arith.
From Verif Require Import Common.ObjStore Common.CommitPoint Store.Model Store.Crash.
Import ListNotations.
Open Scope list_scope.

Arguments path_eq_dec : simpl never.

Definition rstore := key -> option (val * N).
Definition rupd (r : rstore) (k : key) (x : option (val * N)) : rstore :=
  fun k' => if string_dec k' k then x else r k'.

Inductive pmode := MOverwrite | MCreate | MUpdate (tag : option N).
Inductive hop :=
| HPut (k : key) (v : val) (m : pmode)
| HMultipart (k : key) (v : val)
| HCopy (from to : key) (create : bool)
| HRename (from to : key) (create : bool)
| HDelete (k : key).
Inductive outcome := OOk | OAlreadyExists | OPrecondition | ONotFound.

Definition is_some {A} (o : option A) : bool := match o with Some _ => true | None => false end.

(* ------------------------------------------------------------------ reference *)
Definition ref_step (r : rstore) (t : N) (op : hop) : rstore * outcome :=
  match op with
  | HPut k v MOverwrite => (rupd r k (Some (v, t)), OOk)
  | HPut k v MCreate =>
      match r k with Some _ => (r, OAlreadyExists) | None => (rupd r k (Some (v, t)), OOk) end
  | HPut k v (MUpdate tag) =>
      match r k with
      | None => (r, OPrecondition)
      | Some (_, cur) =>
          match tag with
          | Some e => if N.eqb cur e then (rupd r k (Some (v, t)), OOk) else (r, OPrecondition)
          | None => (r, OPrecondition)
          end
      end
  | HMultipart k v => (rupd r k (Some (v, t)), OOk)
  | HCopy from to create =>
      match r from with
      | None => (r, ONotFound)
      | Some (v, _) => if create && is_some (r to) then (r, OAlreadyExists)
                       else (rupd r to (Some (v, t)), OOk)
      end
  | HRename from to create =>
      match r from with
      | None => (r, ONotFound)
      | Some (v, _) =>
          if string_dec from to then (r, if create then OAlreadyExists else OOk)
          else if create && is_some (r to) then (r, OAlreadyExists)
          else (rupd (rupd r to (Some (v, t))) from None, OOk)
      end
  | HDelete k => match r k with None => (r, ONotFound) | Some _ => (rupd r k None, OOk) end
  end.

(* ------------------------------------------------------------------ wrapper *)
(* update_meta_with(create) + the closure of put_opts: the decision taken on the freshly read document *)
Definition put_decide (s : bstore) (k : key) (m : pmode) : option outcome :=
  match cur_meta s k, m with
  | Some _, MCreate => Some OAlreadyExists
  | Some cur, MUpdate tag =>
      match tag with
      | Some e => if N.eqb (m_tok cur) e then None else Some OPrecondition
      | None => Some OPrecondition
      end
  | None, MUpdate _ => Some OPrecondition
  | _, _ => None
  end.

Lemma put_result' evs s k g v t src :
  mutations evs = put_muts \/ mutations evs = mp_muts ->
  kread k (bapply s (put_steps evs s (mkCtx k g v t src))) = RVal v t.
Proof. intros H. exact (put_result evs s (mkCtx k g v t src) H). Qed.

Lemma copy_result' evs s to g v0 t from v ts :
  mutations evs = copy_muts -> kread from s = RVal v ts ->
  kread to (bapply s (copy_steps evs s (mkCtx to g v0 t from))) = RVal v t.
Proof. intros H Hr. exact (copy_result evs s (mkCtx to g v0 t from) v ts H Hr). Qed.

Lemma delete_result' evs s k g v t src m :
  mutations evs = delete_muts -> cur_meta s k = Some m ->
  kread k (bapply s (delete_steps evs s (mkCtx k g v t src))) = RAbsent.
Proof. intros H Hm. exact (delete_result evs s (mkCtx k g v t src) m H Hm). Qed.

Lemma others_unchanged' copy evs s k g v t src k' :
  k' <> k -> kread k' (bapply s (op_steps copy evs s (mkCtx k g v t src))) = kread k' s.
Proof. intros H. exact (other_keys_unchanged copy evs s (mkCtx k g v t src) k' H). Qed.

Section Wrapper.
  Variables put_evs mp_evs copy_evs del_evs : list ev.
  Hypothesis Hput : mutations put_evs = put_muts.
  Hypothesis Hmp : mutations mp_evs = mp_muts.
  Hypothesis Hcopy : mutations copy_evs = copy_muts.
  Hypothesis Hdel : mutations del_evs = delete_muts.

  Definition w_step (s : bstore) (g : gen) (t : N) (op : hop) : bstore * outcome :=
    match op with
    | HPut k v m =>
        match put_decide s k m with
        | Some e => (s, e)
        | None => (bapply s (put_steps put_evs s (mkCtx k g v t k)), OOk)
        end
    | HMultipart k v => (bapply s (put_steps mp_evs s (mkCtx k g v t k)), OOk)
    | HCopy from to create =>
        match cur_payload s from with
        | None => (s, ONotFound)
        | Some v =>
            if create && is_some (cur_meta s to)
            then (put s (PGen to g) (OPay v), OAlreadyExists)   (* the copied generation stays as garbage *)
            else (bapply s (copy_steps copy_evs s (mkCtx to g v t from)), OOk)
        end
    | HRename from to create =>
        match cur_payload s from with
        | None => (s, ONotFound)
        | Some v =>
            if string_dec from to then (s, if create then OAlreadyExists else OOk)
            else if create && is_some (cur_meta s to)
            then (put s (PGen to g) (OPay v), OAlreadyExists)
            else (bapply s (rename_steps' copy_evs del_evs s (mkCtx to g v t from)), OOk)
        end
    | HDelete k =>
        match cur_meta s k with
        | None => (s, ONotFound)
        | Some _ => (bapply s (delete_steps del_evs s (mkCtx k g (0, 0)%N 0%N k)), OOk)
        end
    end.

  Definition abs (s : bstore) : rstore :=
    fun k => match kread k s with RVal v t => Some (v, t) | _ => None end.

  Definition target (op : hop) : key :=
    match op with
    | HPut k _ _ | HMultipart k _ | HDelete k => k
    | HCopy _ to _ | HRename _ to _ => to
    end.

  Definition fresh_for (s : bstore) (g : gen) (op : hop) : Prop :=
    forall cur, cur_meta s (target op) = Some cur -> m_gen cur <> Some g.

  (* ---- reading the abstraction off the raw backend *)
  Lemma good_meta_abs s k m :
    rd_good (kread k s) = true -> cur_meta s k = Some m -> kread k s = RVal (m_val m) (m_tok m).
  Proof.
    unfold kread, read_k, read, cur_meta, bget.
    destruct (get path_eq_dec s (PMeta k)) as [[pv|m']|]; try discriminate.
    intros G H. inversion H; subst m'. simpl in *.
    destruct (get path_eq_dec s (ppath k (m_gen m))) as [[w|m2]|]; simpl in *; try discriminate.
    destruct (val_eqb w (m_val m)) eqn:E; simpl in *; try discriminate.
    apply val_eqb_eq in E. subst. reflexivity.
  Qed.

  Lemma nometa_absent s k : rd_good (kread k s) = true -> cur_meta s k = None -> kread k s = RAbsent.
  Proof.
    unfold kread, read_k, read, cur_meta, bget.
    destruct (get path_eq_dec s (PMeta k)) as [[pv|m']|]; simpl; try discriminate; auto.
  Qed.

  Lemma abs_meta s k : rd_good (kread k s) = true ->
    abs s k = match cur_meta s k with Some m => Some (m_val m, m_tok m) | None => None end.
  Proof.
    intros G. unfold abs. destruct (cur_meta s k) as [m|] eqn:E.
    - rewrite (good_meta_abs s k m G E). reflexivity.
    - rewrite (nometa_absent s k G E). reflexivity.
  Qed.

  Lemma good_payload_meta s k v :
    rd_good (kread k s) = true -> cur_payload s k = Some v ->
    exists m, cur_meta s k = Some m /\ m_val m = v.
  Proof.
    intros G H. destruct (good_payload_rval s k v G H) as [t Hr].
    destruct (kread_val_payload s k v t Hr) as (m & A & _ & B & _). eauto.
  Qed.

  Lemma good_meta_payload s k m :
    rd_good (kread k s) = true -> cur_meta s k = Some m -> cur_payload s k = Some (m_val m).
  Proof.
    intros G H. pose proof (good_meta_abs s k m G H) as Hr.
    destruct (kread_val_payload _ _ _ _ Hr) as (m' & A & B & _). exact B.
  Qed.

  Lemma abs_ext_upd s s' k x :
    abs s' k = x -> (forall k', k' <> k -> kread k' s' = kread k' s) ->
    forall k', abs s' k' = rupd (abs s) k x k'.
  Proof.
    intros A O k'. unfold rupd. destruct (string_dec k' k) as [->|Hne]; auto.
    unfold abs. rewrite O; auto.
  Qed.

  Lemma put_payload_fresh_invisible s k g v :
    (forall cur, cur_meta s k = Some cur -> m_gen cur <> Some g) ->
    forall k', kread k' (put s (PGen k g) (OPay v)) = kread k' s.
  Proof.
    intros F k'. unfold kread. f_equal.
    change (put s (PGen k g) (OPay v)) with (bapply s [Put (PGen k g) (OPay v)]).
    apply quiet_read. constructor; [|constructor]. split; simpl; [discriminate|].
    intro Hin. pose proof (pkey_reach _ _ _ Hin) as E. simpl in E. subst k'.
    apply (fresh_not_reach s (mkCtx k g v 0%N k)); auto.
  Qed.

  Lemma garbage_invisible s k g v :
    (forall cur, cur_meta s k = Some cur -> m_gen cur <> Some g) -> all_good s ->
    all_good (put s (PGen k g) (OPay v)) /\ forall k', abs (put s (PGen k g) (OPay v)) k' = abs s k'.
  Proof.
    intros F G. split.
    - intros k'. rewrite put_payload_fresh_invisible; auto.
    - intros k'. unfold abs. rewrite put_payload_fresh_invisible; auto.
  Qed.

  (* ---- one call: same outcome, same abstract store, soundness preserved *)
  Theorem w_refines s g t op :
    all_good s -> fresh_for s g op ->
    (all_good (fst (w_step s g t op)) /\
     forall k, abs (fst (w_step s g t op)) k = fst (ref_step (abs s) t op) k)
    /\ snd (w_step s g t op) = snd (ref_step (abs s) t op).
  Proof.
    intros G F. destruct op as [k v m|k v|from to create|from to create|k]; simpl.
    - (* put *)
      unfold fresh_for in F; simpl in F.
      assert (Hok : all_good (bapply s (put_steps put_evs s (mkCtx k g v t k))) /\
                    forall k', abs (bapply s (put_steps put_evs s (mkCtx k g v t k))) k' = rupd (abs s) k (Some (v, t)) k').
      { split.
        - apply op_good_final. apply put_good; auto.
        - apply abs_ext_upd.
          + unfold abs. rewrite (put_result' put_evs s k g v t k); auto.
          + intros k' Hne. unfold put_steps. apply others_unchanged'. exact Hne. }
      unfold put_decide. rewrite (abs_meta s k (G k)).
      destruct (cur_meta s k) as [cur|] eqn:Ec; destruct m as [| |[e|]]; simpl; auto.
      destruct (N.eqb (m_tok cur) e); simpl; auto.
    - (* multipart *)
      unfold fresh_for in F; simpl in F. split; [split|reflexivity].
      + apply op_good_final. apply put_good; auto.
      + apply abs_ext_upd.
        * unfold abs. rewrite (put_result' mp_evs s k g v t k); auto.
        * intros k' Hne. unfold put_steps. apply others_unchanged'. exact Hne.
    - (* copy *)
      unfold fresh_for in F; simpl in F.
      rewrite (abs_meta s from (G from)), (abs_meta s to (G to)).
      destruct (cur_payload s from) as [v|] eqn:Ep.
      + destruct (good_payload_meta s from v (G from) Ep) as (ms & Hms & Hv). rewrite Hms, Hv.
        assert (Eis : is_some (match cur_meta s to with Some m => Some (m_val m, m_tok m) | None => None end)
                      = is_some (cur_meta s to)) by (destruct (cur_meta s to); reflexivity).
        rewrite Eis. destruct (create && is_some (cur_meta s to)) eqn:Ec; simpl.
        * destruct (garbage_invisible s to g v F G) as [A B]. split; [split|reflexivity]; auto.
        * destruct (good_payload_rval s from v (G from) Ep) as [ts Hr].
          split; [split|reflexivity].
          -- apply op_good_final. apply copy_good; auto.
          -- apply abs_ext_upd.
             ++ unfold abs. rewrite (copy_result' copy_evs s to g v t from v ts Hcopy Hr). reflexivity.
             ++ intros k' Hne. unfold copy_steps. cbn [o_src]. rewrite Ep. apply others_unchanged'. exact Hne.
      + destruct (cur_meta s from) as [ms|] eqn:Hms.
        * rewrite (good_meta_payload s from ms (G from) Hms) in Ep. discriminate.
        * simpl. auto.
    - (* rename *)
      unfold fresh_for in F; simpl in F.
      rewrite (abs_meta s from (G from)), (abs_meta s to (G to)).
      destruct (cur_payload s from) as [v|] eqn:Ep.
      + destruct (good_payload_meta s from v (G from) Ep) as (ms & Hms & Hv). rewrite Hms, Hv.
        destruct (string_dec from to) as [Eq|Hne]; [simpl; auto|].
        destruct (good_payload_rval s from v (G from) Ep) as [ts Hr].
        set (c := mkCtx to g v t from).
        assert (Hren : create && is_some (cur_meta s to) = false ->
                       all_good (bapply s (rename_steps' copy_evs del_evs s c)) /\
                       forall k', abs (bapply s (rename_steps' copy_evs del_evs s c)) k'
                                  = rupd (rupd (abs s) to (Some (v, t))) from None k').
        { intros _. split.
          - apply op_good_final. apply rename_good; auto.
          - unfold rename_steps'. change (cur_payload s (o_src c)) with (cur_payload s from). rewrite Ep.
            set (l1 := copy_steps copy_evs s c).
            assert (G1 : all_good (bapply s l1)) by (apply op_good_final; apply copy_good; auto).
            assert (A1 : forall k', abs (bapply s l1) k' = rupd (abs s) to (Some (v, t)) k').
            { apply abs_ext_upd.
              - unfold abs, l1, c. rewrite (copy_result' copy_evs s to g v t from v ts Hcopy Hr). reflexivity.
              - intros k' Hk. unfold l1, copy_steps, c. cbn [o_src]. rewrite Ep. apply others_unchanged'. exact Hk. }
            unfold bapply. rewrite apply_app. fold (bapply s l1).
            fold (bapply (bapply s l1) (delete_steps del_evs (bapply s l1) (src_ctx c))).
            assert (Hm1 : exists m1, cur_meta (bapply s l1) from = Some m1).
            { pose proof (A1 from) as H. unfold rupd in H. destruct (string_dec from to); [contradiction|].
              rewrite (abs_meta _ from (G1 from)) in H. rewrite (abs_meta s from (G from)), Hms in H.
              destruct (cur_meta (bapply s l1) from); [eauto|discriminate]. }
            destruct Hm1 as [m1 Hm1].
            intros k'. unfold rupd at 1. destruct (string_dec k' from) as [->|Hk].
            + unfold abs, src_ctx, c. cbn [o_src o_gen o_val o_tok]. rewrite (delete_result' del_evs (bapply s l1) from g v t from m1 Hdel Hm1). reflexivity.
            + unfold abs, delete_steps, src_ctx, c. cbn [o_key o_src o_gen o_val o_tok]. rewrite Hm1.
              rewrite (others_unchanged' false del_evs (bapply s l1) from g v t from k' Hk).
              apply A1. }
        assert (Eis : is_some (match cur_meta s to with Some m => Some (m_val m, m_tok m) | None => None end)
                      = is_some (cur_meta s to)) by (destruct (cur_meta s to); reflexivity).
        rewrite Eis. destruct (create && is_some (cur_meta s to)) eqn:Ec; simpl.
        * destruct (garbage_invisible s to g v F G) as [A B]. split; [split|reflexivity]; auto.
        * destruct (Hren eq_refl) as [A B]. split; [split|reflexivity]; auto.
      + destruct (cur_meta s from) as [ms|] eqn:Hms.
        * rewrite (good_meta_payload s from ms (G from) Hms) in Ep. discriminate.
        * simpl. auto.
    - (* delete *)
      rewrite (abs_meta s k (G k)).
      destruct (cur_meta s k) as [m|] eqn:Em; simpl; auto.
      split; [split|reflexivity].
      + apply op_good_final. apply delete_good; auto.
      + apply abs_ext_upd.
        * unfold abs. rewrite (delete_result' del_evs s k g (0, 0)%N 0%N k m Hdel Em). reflexivity.
        * intros k' Hne. unfold delete_steps. cbn [o_key]. rewrite Em. apply others_unchanged'. exact Hne.
  Qed.

  (* ---- compare-and-swap and create, on the wrapper itself *)
  Theorem cas_iff_current s g t k v e :
    all_good s ->
    (snd (w_step s g t (HPut k v (MUpdate (Some e)))) = OOk <-> exists v0, abs s k = Some (v0, e)).
  Proof.
    intros G. simpl. unfold put_decide. rewrite (abs_meta s k (G k)).
    destruct (cur_meta s k) as [cur|]; simpl.
    - destruct (N.eqb (m_tok cur) e) eqn:E; simpl.
      + apply N.eqb_eq in E. subst. split; eauto.
      + apply N.eqb_neq in E. split; [discriminate|]. intros [v0 H]. inversion H. congruence.
    - split; [discriminate|]. intros [v0 H]. discriminate.
  Qed.

  Theorem create_iff_absent s g t k v :
    all_good s ->
    (snd (w_step s g t (HPut k v MCreate)) = OOk <-> abs s k = None).
  Proof.
    intros G. simpl. unfold put_decide. rewrite (abs_meta s k (G k)).
    destruct (cur_meta s k) as [cur|]; simpl; split; auto; discriminate.
  Qed.

  Theorem update_without_tag_fails s g t k v :
    snd (w_step s g t (HPut k v (MUpdate None))) = OPrecondition.
  Proof. simpl. unfold put_decide. destruct (cur_meta s k); reflexivity. Qed.
  (* ---- histories: each call comes with the generation minted for it and the token it would publish *)
  Fixpoint wrun (s : bstore) (h : list (gen * N * hop)) : bstore * list outcome :=
    match h with
    | [] => (s, [])
    | (g, t, op) :: r =>
        let s' := fst (w_step s g t op) in
        (fst (wrun s' r), snd (w_step s g t op) :: snd (wrun s' r))
    end.

  Fixpoint refrun (r : rstore) (h : list (gen * N * hop)) : rstore * list outcome :=
    match h with
    | [] => (r, [])
    | (g, t, op) :: rest =>
        let r' := fst (ref_step r t op) in
        (fst (refrun r' rest), snd (ref_step r t op) :: snd (refrun r' rest))
    end.

  (* the freshness oracle: the generation minted for a call is never the one its target points at *)
  Fixpoint fresh_hist (s : bstore) (h : list (gen * N * hop)) : Prop :=
    match h with
    | [] => True
    | (g, t, op) :: r => fresh_for s g op /\ fresh_hist (fst (w_step s g t op)) r
    end.

  Lemma ref_step_ext r1 r2 t op :
    (forall k, r1 k = r2 k) ->
    snd (ref_step r1 t op) = snd (ref_step r2 t op) /\
    forall k, fst (ref_step r1 t op) k = fst (ref_step r2 t op) k.
  Proof.
    intros E. destruct op as [k v m|k v|from to create|from to create|k]; simpl.
    - destruct m as [| |[e|]]; simpl; try rewrite <- (E k).
      + split; auto. intros k0. unfold rupd. destruct (string_dec k0 k); auto.
      + destruct (r1 k); simpl; split; auto. intros k0. unfold rupd. destruct (string_dec k0 k); auto.
      + destruct (r1 k) as [[v0 cur]|]; simpl; [|split; auto].
        destruct (N.eqb cur e); simpl; split; auto. intros k0. unfold rupd. destruct (string_dec k0 k); auto.
      + destruct (r1 k) as [[v0 cur]|]; simpl; split; auto.
    - split; auto. intros k0. unfold rupd. destruct (string_dec k0 k); auto.
    - rewrite <- (E from), <- (E to). destruct (r1 from) as [[v0 t0]|]; simpl; [|split; auto].
      destruct (create && is_some (r1 to)); simpl; split; auto.
      intros k0. unfold rupd. destruct (string_dec k0 to); auto.
    - rewrite <- (E from), <- (E to). destruct (r1 from) as [[v0 t0]|]; simpl; [|split; auto].
      destruct (string_dec from to); simpl; [split; auto|].
      destruct (create && is_some (r1 to)); simpl; split; auto.
      intros k0. unfold rupd. destruct (string_dec k0 from); auto. destruct (string_dec k0 to); auto.
    - rewrite <- (E k). destruct (r1 k); simpl; split; auto.
      intros k0. unfold rupd. destruct (string_dec k0 k); auto.
  Qed.

  Lemma refrun_ext h : forall r1 r2,
    (forall k, r1 k = r2 k) ->
    snd (refrun r1 h) = snd (refrun r2 h) /\ forall k, fst (refrun r1 h) k = fst (refrun r2 h) k.
  Proof.
    induction h as [|[[g t] op] rest IH]; intros r1 r2 E; simpl; [split; auto|].
    destruct (ref_step_ext r1 r2 t op E) as [A B].
    destruct (IH _ _ B) as [C D]. split; [rewrite A, C; reflexivity | exact D].
  Qed.

  Theorem run_refines h : forall s,
    all_good s -> fresh_hist s h ->
    snd (wrun s h) = snd (refrun (abs s) h) /\
    (forall k, abs (fst (wrun s h)) k = fst (refrun (abs s) h) k) /\
    all_good (fst (wrun s h)).
  Proof.
    induction h as [|[[g t] op] rest IH]; intros s G F; simpl; [auto|].
    destruct F as [F1 F2]. destruct (w_refines s g t op G F1) as [[G' A] O].
    destruct (IH _ G' F2) as (O' & A' & G'').
    destruct (refrun_ext rest _ _ A) as [E1 E2].
    split; [rewrite O, O', E1; reflexivity|]. split; auto.
    intros k. rewrite A'. apply E2.
  Qed.
End Wrapper.

(* ------------------------------------------------------------------ tokens along a history *)
Section Tokens.
  (* the fresh-name oracle: the generation (MetaStore, copies) / nonce (EncryptedStore) of the n-th call *)
  Variable gen_of : nat -> gen.
  Hypothesis gen_of_inj : forall a b, gen_of a = gen_of b -> a = b.
  (* e_tag = H(commit id || rest): a collision-free hash separates different commit ids *)
  Variable tokfn : gen -> N -> N.
  Hypothesis tokfn_inj : forall g x g' x', tokfn g x = tokfn g' x' -> g = g'.

  (* the token the n-th call would publish: over the payload for put, over the source's token for copy *)
  Definition tok_of (r : rstore) (n : nat) (op : hop) : N :=
    match op with
    | HPut _ v _ | HMultipart _ v => tokfn (gen_of n) (fst v)
    | HCopy from _ _ | HRename from _ _ =>
        tokfn (gen_of n) (match r from with Some (_, t) => t | None => 0%N end)
    | HDelete _ => tokfn (gen_of n) 0%N
    end.

  Fixpoint rrun (r : rstore) (n : nat) (h : list hop) : rstore * list (nat * N) :=
    match h with
    | [] => (r, [])
    | op :: rest =>
        let t := tok_of r n op in
        let '(r', o) := ref_step r t op in
        let '(rf, toks) := rrun r' (S n) rest in
        (rf, match o, op with
             | OOk, HDelete _ => toks
             | OOk, HRename from to _ => if string_dec from to then toks else (n, t) :: toks
             | OOk, _ => (n, t) :: toks
             | _, _ => toks
             end)
    end.

  Lemma rrun_indices h : forall r n i t, In (i, t) (snd (rrun r n h)) -> n <= i /\ exists x, t = tokfn (gen_of i) x.
  Proof.
    induction h as [|op rest IH]; intros r n i t Hin; simpl in Hin; [destruct Hin|].
    destruct (ref_step r (tok_of r n op) op) as [r' o] eqn:E.
    destruct (rrun r' (S n) rest) as [rf toks] eqn:E2. simpl in Hin.
    assert (Hrest : In (i, t) toks -> n <= i /\ exists x, t = tokfn (gen_of i) x).
    { intros H. specialize (IH r' (S n) i t). rewrite E2 in IH. simpl in IH. destruct (IH H) as [A B]. split; [lia|auto]. }
    assert (Hhead : (i, t) = (n, tok_of r n op) -> n <= i /\ exists x, t = tokfn (gen_of i) x).
    { intros H. inversion H; subst. split; [lia|]. destruct op; simpl; eauto. }
    destruct o; auto; destruct op; auto; try (destruct Hin as [H|H]; auto).
    destruct (string_dec from to); auto. destruct Hin as [H|H]; auto.
  Qed.

  Lemma rrun_sorted h : forall r n, NoDup (map fst (snd (rrun r n h))).
  Proof.
    induction h as [|op rest IH]; intros r n; simpl; [constructor|].
    destruct (ref_step r (tok_of r n op) op) as [r' o] eqn:E.
    specialize (IH r' (S n)). pose proof (rrun_indices rest r' (S n)) as Hi.
    destruct (rrun r' (S n) rest) as [rf toks] eqn:E2. simpl in *.
    assert (Hc : NoDup (n :: map fst toks)).
    { constructor; auto. intro Hin. apply in_map_iff in Hin as ([i t] & Hf & Hin). simpl in Hf. subst i.
      destruct (Hi n t Hin) as [A _]. lia. }
    destruct o; auto; destruct op; auto. destruct (string_dec from to); auto.
  Qed.

  (* tokens never repeat: across commits and across keys, whatever the bytes *)
  Theorem tokens_never_repeat h r n : NoDup (map snd (snd (rrun r n h))).
  Proof.
    pose proof (rrun_sorted h r n) as Hs. pose proof (rrun_indices h r n) as Hi.
    induction (snd (rrun r n h)) as [|[i t] l IH]; simpl; [constructor|].
    inversion Hs as [|? ? Hn Hs']; subst. constructor.
    - intro Hin. apply in_map_iff in Hin as ([j t'] & Ht & Hin). simpl in Ht. subst t'.
      destruct (Hi i t (or_introl eq_refl)) as [_ [x Hx]].
      destruct (Hi j t (or_intror Hin)) as [_ [y Hy]].
      rewrite Hx in Hy. apply tokfn_inj in Hy. apply gen_of_inj in Hy. subst j.
      apply Hn. simpl. apply in_map_iff. exists (i, t). auto.
    - apply IH; auto. intros j t' H. apply Hi. right; auto.
  Qed.
End Tokens.
