(* Store/GetOpts.v — read-side pure functions of the wrappers, transcribed (C07):
     check_update_version      rs/anda_object_store/src/lib.rs:652-692
     check_get_preconditions   lib.rs:710-763        vs  object_store GetOptions::check_preconditions
     validate_ranges           lib.rs:765-787
     GetRange::as_range        object_store util.rs:238-265 (reference)
     range -> chunk span       encryption.rs:653-670,712-714 (get_opts) and 764-769 (get_ranges)
   Tokens are canonical numbers; dates are integers (ms); u64 arithmetic is modelled on Z with the
   checked / saturating operations spelled out. *)
From Coq Require Import List ZArith Bool Lia.
Import ListNotations.
Open Scope Z_scope.

(* ------------------------------------------------------------------ conditional update *)
Definition oeqb (a b : option Z) : bool :=
  match a, b with Some x, Some y => Z.eqb x y | None, None => true | _, _ => false end.

Inductive upd_result := UOk | UMissingETag | UETagMismatch | UVersionMismatch.

(* generations (internal) and caller-supplied versions are compared as opaque ids *)
Definition check_update_version (cur_tag cur_gen upd_tag upd_version : option Z) : upd_result :=
  match upd_tag with
  | None => UMissingETag
  | Some expected =>
      if negb (oeqb cur_tag (Some expected)) then UETagMismatch
      else match upd_version with
           | Some v => if negb (oeqb cur_gen (Some v)) then UVersionMismatch else UOk
           | None => UOk
           end
  end.

(* ------------------------------------------------------------------ read preconditions *)
(* an If-Match / If-None-Match header: "*" or a comma separated list of tags *)
Inductive tagpat := TStar | TList (l : list Z).

Record gopts := mkG {
  if_match : option tagpat;
  if_none_match : option tagpat;
  if_modified_since : option Z;
  if_unmodified_since : option Z
}.

Inductive pre_result := POk | PPrecondition | PNotModified.

Definition all_differ (l : list Z) (t : Z) : bool := forallb (fun x => negb (Z.eqb x t)) l.
Definition any_equal (l : list Z) (t : Z) : bool := existsb (fun x => Z.eqb x t) l.

(* the reference: GetOptions::check_preconditions against ObjectMeta {e_tag, last_modified} *)
Definition ref_check (o : gopts) (etag lm : Z) : pre_result :=
  let r1 :=
    match if_match o with
    | Some TStar => POk
    | Some (TList l) => if all_differ l etag then PPrecondition else POk
    | None => match if_unmodified_since o with
              | Some d => if lm >? d then PPrecondition else POk
              | None => POk
              end
    end in
  match r1 with
  | POk =>
      match if_none_match o with
      | Some TStar => PNotModified
      | Some (TList l) => if any_equal l etag then PNotModified else POk
      | None => match if_modified_since o with
                | Some d => if lm <=? d then PNotModified else POk
                | None => POk
                end
      end
  | r => r
  end.

(* the wrapper: returns the verdict and the options it leaves for the backend.  [lm = None] is a
   pre-0.10 document without a logical timestamp: date conditions are then left to the backend. *)
Definition check_get_preconditions (o : gopts) (etag : Z) (lm : option Z) : pre_result * gopts :=
  let unmod0 := if_unmodified_since o in
  let mod0 := if_modified_since o in
  (* if_match *)
  let '(r1, unmod1) :=
    match if_match o with
    | Some pat =>
        (match pat with
         | TStar => POk
         | TList l => if all_differ l etag then PPrecondition else POk
         end, None)
    | None =>
        match lm with
        | Some l => match unmod0 with
                    | Some d => (if l >? d then PPrecondition else POk, None)
                    | None => (POk, None)
                    end
        | None => (POk, unmod0)
        end
    end in
  match r1 with
  | POk =>
      let '(r2, mod1) :=
        match if_none_match o with
        | Some pat =>
            (match pat with
             | TStar => PNotModified
             | TList l => if any_equal l etag then PNotModified else POk
             end, None)
        | None =>
            match lm with
            | Some l => match mod0 with
                        | Some d => (if l <=? d then PNotModified else POk, None)
                        | None => (POk, None)
                        end
            | None => (POk, mod0)
            end
        end in
      (r2, mkG None None mod1 unmod1)
  | r => (r, mkG None None mod0 unmod1)
  end.

(* with a logical timestamp the wrapper answers exactly what the reference answers ... *)
Theorem get_preconditions_conform o etag lm :
  fst (check_get_preconditions o etag (Some lm)) = ref_check o etag lm.
Proof.
  unfold check_get_preconditions, ref_check.
  destruct (if_match o) as [[|l]|]; destruct (if_none_match o) as [[|l']|];
    destruct (if_unmodified_since o); destruct (if_modified_since o); simpl;
    repeat match goal with |- context [if ?b then _ else _] => destruct b; simpl end; reflexivity.
Qed.

(* ... and when it answers OK nothing conditional is left for the backend to re-decide *)
Theorem get_preconditions_consumed o etag lm r o' :
  check_get_preconditions o etag (Some lm) = (r, o') -> r = POk ->
  if_match o' = None /\ if_none_match o' = None /\ if_modified_since o' = None /\ if_unmodified_since o' = None.
Proof.
  unfold check_get_preconditions.
  destruct (if_match o) as [[|l]|]; destruct (if_none_match o) as [[|l']|];
    destruct (if_unmodified_since o); destruct (if_modified_since o); simpl;
    repeat match goal with |- context [if ?b then _ else _] => destruct b; simpl end;
    intros H E; inversion H; subst; try discriminate; simpl; auto.
Qed.

(* RFC 9110 13.2.2 as coded: an ETag condition silences the date condition of the same kind, and a
   failed If-Match / If-Unmodified-Since wins over If-None-Match / If-Modified-Since *)
Theorem precondition_precedence o etag lm :
  (if_match o <> None ->
   forall d, fst (check_get_preconditions (mkG (if_match o) (if_none_match o) (if_modified_since o) d) etag (Some lm))
             = fst (check_get_preconditions o etag (Some lm))) /\
  (if_none_match o <> None ->
   forall d, fst (check_get_preconditions (mkG (if_match o) (if_none_match o) d (if_unmodified_since o)) etag (Some lm))
             = fst (check_get_preconditions o etag (Some lm))) /\
  (forall l, if_match o = Some (TList l) -> all_differ l etag = true ->
             fst (check_get_preconditions o etag (Some lm)) = PPrecondition) /\
  (if_match o = None -> forall d, if_unmodified_since o = Some d -> lm > d ->
             fst (check_get_preconditions o etag (Some lm)) = PPrecondition).
Proof.
  repeat split.
  - intros H d. unfold check_get_preconditions; simpl. destruct (if_match o) as [[|l]|]; [| |congruence]; reflexivity.
  - intros H d. unfold check_get_preconditions; simpl.
    destruct (if_none_match o) as [[|l]|]; [| |congruence];
      destruct (if_match o) as [[|l0]|]; destruct (if_unmodified_since o); simpl;
      repeat match goal with |- context [if ?b then _ else _] => destruct b; simpl end; reflexivity.
  - intros l H A. unfold check_get_preconditions. rewrite H, A. reflexivity.
  - intros H d Hd Hlt. unfold check_get_preconditions. rewrite H, Hd.
    assert (E : (lm >? d) = true) by (apply Z.gtb_lt; lia). rewrite E. reflexivity.
Qed.

(* ------------------------------------------------------------------ ranges *)
Inductive vr_result := VOk | VStartTooLarge | VEndBeforeStart | VEndTooLarge.

Fixpoint validate_ranges (ranges : list (Z * Z)) (len : Z) : vr_result :=
  match ranges with
  | [] => VOk
  | (s, e) :: r =>
      if s >=? len then VStartTooLarge
      else if e <=? s then VEndBeforeStart
      else if e >? len then VEndTooLarge
      else validate_ranges r len
  end.

Theorem validate_ranges_spec ranges len :
  validate_ranges ranges len = VOk <-> Forall (fun '(s, e) => s < e <= len) ranges.
Proof.
  induction ranges as [|[s e] r IH]; simpl.
  - split; auto.
  - destruct (s >=? len) eqn:A; [split; [discriminate| intros H; inversion H; subst; lia]|].
    destruct (e <=? s) eqn:B; [split; [discriminate| intros H; inversion H; subst; lia]|].
    destruct (e >? len) eqn:C; [split; [discriminate| intros H; inversion H; subst; lia]|].
    rewrite IH. split; intros H.
    + constructor; auto. lia.
    + inversion H; auto.
Qed.

Inductive grange := GBounded (s e : Z) | GOffset (o : Z) | GSuffix (n : Z).
Inductive ar_result := AOk (s e : Z) | AInconsistent | AStartTooLarge.

(* object_store GetRange::as_range *)
Definition as_range (r : grange) (len : Z) : ar_result :=
  match r with
  | GBounded s e =>
      if e <=? s then AInconsistent
      else if s >=? len then AStartTooLarge
      else if e >? len then AOk s len else AOk s e
  | GOffset o => if o >=? len then AStartTooLarge else AOk o len
  | GSuffix n => AOk (Z.max 0 (len - n)) len
  end.

Lemma as_range_within r len s e :
  0 <= len -> (match r with GBounded a b => 0 <= a /\ 0 <= b | GOffset a => 0 <= a | GSuffix a => 0 <= a end) ->
  as_range r len = AOk s e -> 0 <= s <= e /\ e <= len.
Proof.
  intros Hl Hr. destruct r; simpl;
    repeat match goal with |- context [if ?b then _ else _] => destruct b eqn:?; simpl end;
    intros H; inversion H; subst; lia.
Qed.

(* ------------------------------------------------------------------ range -> chunk span *)
Definition U64MAX : Z := 2 ^ 64 - 1.

(* encryption.rs:659-667 (get_opts): checked_div / checked_add / checked_mul, unwrap_or(u64::MAX), min(size) *)
Definition rr_start (cs s : Z) : Z := (s / cs) * cs.
Definition rr_end (cs e size : Z) : Z :=
  let idx := (if e =? 0 then 0 else e - 1) / cs in     (* saturating_sub(1), division by cs >= 1 *)
  let idx1 := idx + 1 in
  let m := if idx1 >? U64MAX then U64MAX else
           let x := idx1 * cs in if x >? U64MAX then U64MAX else x in
  Z.min m size.
(* encryption.rs:764-768 (get_ranges): saturating_add / saturating_mul *)
Definition span_end (cs e size : Z) : Z :=
  let idx1 := Z.min U64MAX ((e - 1) / cs + 1) in
  Z.min (Z.min U64MAX (idx1 * cs)) size.
Definition start_idx (cs s : Z) : Z := rr_start cs s / cs.
Definition start_offset (cs s : Z) : Z := s - rr_start cs s.

(* what the wrapper asks the backend for, and how it trims: (fetch_start, fetch_end, first chunk index,
   offset in the first chunk, number of plaintext bytes) *)
Definition chunk_plan (cs size s e : Z) : Z * Z * Z * Z * Z :=
  (rr_start cs s, rr_end cs e size, start_idx cs s, start_offset cs s, e - s).

Theorem chunk_span_correct cs size s e :
  1 <= cs <= U64MAX -> 0 <= s < e -> e <= size -> size <= U64MAX ->
  let a := rr_start cs s in
  let b := rr_end cs e size in
  (* covers the request, inside the object *)
  a <= s /\ e <= b /\ b <= size /\
  (* chunk aligned: starts on a chunk boundary, ends on one or at the end of the object *)
  a mod cs = 0 /\ (b mod cs = 0 \/ b = size) /\
  (* minimal: no whole chunk is fetched on either side of the request *)
  s - a < cs /\ (b - e < cs) /\
  (* trimming the decrypted span at [start_offset, start_offset + (e - s)) is the request *)
  start_idx cs s * cs = a /\ 0 <= start_offset cs s < cs /\
  a + start_offset cs s = s /\ a + start_offset cs s + (e - s) = e /\ start_offset cs s + (e - s) <= b - a /\
  (* the multi-range path computes the same span *)
  span_end cs e size = b.
Proof.
  intros Hcs Hse Hes Hsz. unfold rr_end, span_end, start_idx, start_offset, U64MAX in *. unfold rr_start in *.
  assert (He0 : (e =? 0) = false) by (apply Z.eqb_neq; lia). rewrite He0.
  assert (Hcs0 : cs > 0) by lia.
  pose proof (Z_div_mod_eq_full s cs) as Ds. pose proof (Z.mod_pos_bound s cs ltac:(lia)) as Ms.
  pose proof (Z_div_mod_eq_full (e - 1) cs) as De. pose proof (Z.mod_pos_bound (e - 1) cs ltac:(lia)) as Me.
  set (qs := s / cs) in *. set (qe := (e - 1) / cs) in *.
  assert (Hqe : 0 <= qe) by (unfold qe; apply Z.div_pos; lia).
  assert (Hqs : 0 <= qs) by (unfold qs; apply Z.div_pos; lia).
  assert (Hqe2 : qe <= 2 ^ 64 - 1) by nia.
  assert (Hmod : (qs * cs) mod cs = 0) by (apply Z.mod_mul; lia).
  assert (Hdiv : qs * cs / cs = qs) by (apply Z.div_mul; lia).
  assert (Hmod2 : ((qe + 1) * cs) mod cs = 0) by (apply Z.mod_mul; lia).
  destruct (qe + 1 >? 2 ^ 64 - 1) eqn:O1.
  - (* idx + 1 overflows: impossible unless qe = MAX, then the span is capped by size *)
    apply Z.gtb_lt in O1.
    assert (qe = 2 ^ 64 - 1) by lia.
    assert (cs = 1) by nia.
    rewrite (Z.min_l (2 ^ 64 - 1) (qe + 1)) by lia. subst cs.
    rewrite !Z.mul_1_r in *. rewrite Z.mod_1_r in *.
    rewrite Z.min_r by lia. rewrite (Z.min_l (2 ^ 64 - 1) (2 ^ 64 - 1)) by lia. rewrite (Z.min_r (2 ^ 64 - 1) size) by lia.
    repeat split; try lia; try (rewrite Hdiv; lia); try (right; lia).
  - rewrite Z.gtb_ltb in O1. apply Z.ltb_ge in O1.
    rewrite (Z.min_r (2 ^ 64 - 1) (qe + 1)) by lia.
    destruct ((qe + 1) * cs >? 2 ^ 64 - 1) eqn:O2.
    + apply Z.gtb_lt in O2. rewrite (Z.min_l (2 ^ 64 - 1) ((qe + 1) * cs)) by lia.
      rewrite (Z.min_r (2 ^ 64 - 1) size) by lia.
      repeat split; try lia; try (rewrite Hdiv; lia); try (right; lia).
    + rewrite Z.gtb_ltb in O2. apply Z.ltb_ge in O2. rewrite (Z.min_r (2 ^ 64 - 1) ((qe + 1) * cs)) by lia.
      destruct (Z.le_ge_cases ((qe + 1) * cs) size) as [L|L].
      * rewrite Z.min_l by lia. repeat split; try lia; try (rewrite Hdiv; lia); try (left; assumption).
      * rewrite Z.min_r by lia. repeat split; try lia; try (rewrite Hdiv; lia); try (right; lia).
Qed.

(* on byte lists: trimming the chunk-aligned span gives exactly the requested bytes *)
Lemma skipn_skipn' (A : Type) (l : list A) : forall a b, skipn a (skipn b l) = skipn (a + b) l.
Proof.
  induction l as [|x l IH]; intros a b.
  - rewrite !skipn_nil. reflexivity.
  - destruct b; simpl.
    + rewrite Nat.add_0_r. reflexivity.
    + rewrite IH. replace (a + S b)%nat with (S (a + b)) by lia. reflexivity.
Qed.

Lemma slice_of_span (A : Type) (pt : list A) (a b s e : nat) :
  (a <= s)%nat -> (s <= e)%nat -> (e <= b)%nat ->
  firstn (e - s) (skipn (s - a) (firstn (b - a) (skipn a pt))) = firstn (e - s) (skipn s pt).
Proof.
  intros H1 H2 H3.
  rewrite skipn_firstn_comm. rewrite firstn_firstn.
  rewrite skipn_skipn'. replace (s - a + a)%nat with s by lia.
  f_equal. lia.
Qed.
