(* Store/Props_C07.v — pinned statements for C07 (the store wrappers behave as a conforming object
   store with real compare-and-swap).  Operation step lists come from coq/gen/Gen_Flush.v. *)
From Coq Require Import List String NArith ZArith Bool Arith.
From Verif Require Import Common.ObjStore Common.CommitPoint Store.Model Store.Crash Store.Cas Store.GetOpts Store.Cache Store.CondRead gen.Gen_Flush.
Import ListNotations.
Open Scope list_scope.
Open Scope string_scope.

(* the wrapper model instantiated with the call orders extracted from the source *)
Definition meta_step := w_step meta_put_events meta_multipart_events meta_copy_events delete_events.
Definition enc_step := w_step enc_put_events enc_multipart_events enc_copy_events delete_events.
Definition meta_run := wrun meta_put_events meta_multipart_events meta_copy_events delete_events.
Definition enc_run := wrun enc_put_events enc_multipart_events enc_copy_events delete_events.

Theorem C07_generated_facts :
  mutations meta_put_events = put_muts /\ mutations enc_put_events = put_muts /\
  mutations meta_multipart_events = mp_muts /\ mutations enc_multipart_events = mp_muts /\
  mutations meta_copy_events = copy_muts /\ mutations enc_copy_events = copy_muts /\
  mutations delete_events = delete_muts /\
  (* the precondition check runs on the freshly read document, before the payload and the pointer *)
  Forall (fun evs => evs_eqb (filter (fun e => ev_eqb e EvReadMeta || ev_eqb e EvCheckPre || ev_eqb e EvPutPayload || ev_eqb e EvPutMeta) evs)
                             [EvReadMeta; EvCheckPre; EvPutPayload; EvPutMeta] = true) [meta_put_events; enc_put_events] /\
  commit_in_key_section = true /\ create_rejects_existing = true /\ create_forwards_mode = true /\
  check_update_order = ["missing_etag"; "etag_mismatch"; "version_mismatch"] /\
  get_precondition_order = ["if_match"; "if_unmodified_since"; "if_none_match"; "if_modified_since"] /\
  etag_condition_clears_date = true /\ date_comparisons_as_modelled = true /\
  validate_ranges_order = ["start>=len"; "end<=start"; "end>len"] /\
  etag_seeded_by_commit_id = true /\
  listing_inserts_cache = false /\ loads_in_key_section = true /\
  (* get_opts: the read preconditions are evaluated in every iteration of the stale-pointer retry loop, on the
     document that iteration resolved; nothing is resolved or checked before the loop *)
  meta_get_opts_order = ["LOOP"; "RESOLVE"; "CHECK"; "FETCH"; "REFRESH"] /\
  enc_get_opts_order = ["LOOP"; "RESOLVE"; "CHECK"; "FETCH"; "REFRESH"] /\
  meta_get_check_in_retry_loop = true /\ enc_get_check_in_retry_loop = true.
Proof. repeat split; try reflexivity. repeat constructor. Qed.
Print Assumptions C07_generated_facts.

(* (1) PARTIAL — full statement: every object-store call (incl. ranged / conditional reads and the list
   variants) returns what the reference returns, up to a bijection on tokens.  Proved here: for every
   history of put (all modes) / multipart / copy / rename (both target modes) / delete calls, the outcomes
   are the reference's and after every call every key reads the reference's value AND token; ranged and
   conditional reads and listings are functions of that (size, token) plus the transcribed pure functions
   below, and are compared with InMemory by the correspondence run. *)
Theorem C07_wrapper_refines_ref_partial :
  forall (enc : bool) (h : list (gen * N * hop)) (s : bstore),
    all_good s ->
    fresh_hist (if enc then enc_put_events else meta_put_events)
               (if enc then enc_multipart_events else meta_multipart_events)
               (if enc then enc_copy_events else meta_copy_events) delete_events s h ->
    let w := (if enc then enc_run else meta_run) s h in
    snd w = snd (refrun (abs s) h) /\
    (forall k, abs (fst w) k = fst (refrun (abs s) h) k) /\
    all_good (fst w).
Proof.
  intros enc h s G F. destruct enc; cbv zeta; apply run_refines; auto; reflexivity.
Qed.
Print Assumptions C07_wrapper_refines_ref_partial.

(* (2) compare-and-swap is real: a conditional update succeeds iff its token is the one the key
   currently holds — by (1) the token the reference stored at the latest commit of that key *)
Theorem C07_cas_iff_latest :
  forall (enc : bool) (s : bstore) (g : gen) (t : N) (k : key) (v : val) (e : N),
    all_good s ->
    (snd ((if enc then enc_step else meta_step) s g t (HPut k v (MUpdate (Some e)))) = OOk
     <-> exists v0, abs s k = Some (v0, e)).
Proof. intros enc s g t k v e G. destruct enc; apply cas_iff_current; auto. Qed.
Print Assumptions C07_cas_iff_latest.

Theorem C07_create_iff_absent :
  forall (enc : bool) (s : bstore) (g : gen) (t : N) (k : key) (v : val),
    all_good s ->
    (snd ((if enc then enc_step else meta_step) s g t (HPut k v MCreate)) = OOk <-> abs s k = None).
Proof. intros enc s g t k v G. destruct enc; apply create_iff_absent; auto. Qed.
Print Assumptions C07_create_iff_absent.

(* (3) tokens never repeat — across commits and keys, even for identical bytes, incl. copy / rename /
   multipart and A -> B -> A.  Premises (Section hypotheses of Store/Cas.v): the generation / nonce supply
   never repeats (gen_of injective) and the hash separates different commit ids (tokfn g x = tokfn g' x'
   -> g = g'; SHA3-256 collision freedom over the fixed-length generation prefix). *)
Theorem C07_tokens_never_repeat :
  forall (gen_of : nat -> gen) (tokfn : gen -> N -> N),
    (forall a b, gen_of a = gen_of b -> a = b) ->
    (forall g x g' x', tokfn g x = tokfn g' x' -> g = g') ->
    forall (h : list hop) (r : rstore) (n : nat),
      NoDup (map snd (snd (rrun gen_of tokfn r n h))).
Proof. intros gen_of tokfn H1 H2 h r n. apply tokens_never_repeat; auto. Qed.
Print Assumptions C07_tokens_never_repeat.

(* hence a token captured before an A -> B -> A rewrite of the same bytes is rejected afterwards *)
Example C07_aba_rejected :
  let h := [("g1", 11%N, HPut "k" (1, 3)%N MOverwrite);
            ("g2", 12%N, HPut "k" (2, 3)%N MOverwrite);
            ("g3", 13%N, HPut "k" (1, 3)%N MOverwrite);
            ("g4", 14%N, HPut "k" (5, 1)%N (MUpdate (Some 11%N)));
            ("g5", 15%N, HPut "k" (6, 1)%N (MUpdate (Some 13%N)));
            ("g6", 16%N, HCopy "k" "j" true);
            ("g7", 17%N, HRename "j" "k" true);
            ("g8", 18%N, HRename "j" "k" false);
            ("g9", 19%N, HDelete "j")] in
  snd (meta_run [] h) = [OOk; OOk; OOk; OPrecondition; OOk; OOk; OAlreadyExists; OOk; ONotFound] /\
  snd (enc_run [] h) = snd (refrun (fun _ => None) h) /\
  abs (fst (meta_run [] h)) "k" = Some ((6, 1)%N, 18%N).
Proof. cbv zeta. split; [vm_compute; reflexivity|]. split; vm_compute; reflexivity. Qed.

(* (6) concurrent callers of one key, cold or warm cache: for EVERY interleaving of the steps of any number of
   committing callers (put / copy / multipart / delete), loading callers (get / head / get_ranges via
   get_meta, refresh_meta), listings and evictions — with the cache discipline extracted from the source
   (listings do not insert, loads run inside the per-key section) — the cached document is never older than
   the last acknowledged commit and never newer than the commit point, and whenever no caller is inside the
   key's section it IS the commit point: reads, heads and listings answered from it report the latest
   acknowledged commit's size, token and timestamp.  (moka's section is modelled as a mutex.) *)
Theorem C07_cache_never_stale_after_ack :
  forall (d : nat) (acts : list cact) (s : cst),
    crun (code_cfg listing_inserts_cache loads_in_key_section) (mkC d None d (S d) None []) acts = Some s ->
    (acked s <= doc s)%nat /\
    (forall c, cache s = Some c -> (acked s <= c <= doc s)%nat) /\
    (sect s = None -> forall c, cache s = Some c -> c = doc s).
Proof.
  intros d acts s R. change (code_cfg listing_inserts_cache loads_in_key_section) with good_cfg in R.
  destruct (cinv_run acts _ _ (cinv_init d) R) as (A & B & C & D).
  split; [exact A|]. split; [exact C|]. intros E. rewrite E in D. exact D.
Qed.
Print Assumptions C07_cache_never_stale_after_ack.

(* a listing that inserts the document it fetched outside the section breaks it: fetched before a commit,
   inserted after the commit returned, the cache holds a document older than the acknowledged commit *)
Theorem C07_listing_cache_insert_refuted :
  exists acts s, crun (mkCC true true) (mkC 0 None 0 1 None []) acts = Some s /\
                 sect s = None /\ cache s = Some 0%nat /\ acked s = 1%nat /\ doc s = 1%nat.
Proof.
  exists [CListFetch; CWAcquire; CWPut; CWRelease false; CListFinish 0]. eexists.
  split; [vm_compute; reflexivity|]. repeat split.
Qed.
Print Assumptions C07_listing_cache_insert_refuted.

Example C07_cache_nonvacuous :
  exists s, crun (code_cfg listing_inserts_cache loads_in_key_section) (mkC 0 None 0 1 None [])
                 [CListFetch; CLAcquire; CLLoad; CLRelease true; CWAcquire; CWPut; CWRelease false; CListFinish 0;
                  CEvict; CLAcquire; CLLoad; CLRelease false] = Some s /\ cache s = Some 1%nat /\ acked s = 1%nat.
Proof. eexists. split; [vm_compute; reflexivity|]. split; reflexivity. Qed.

(* (3c) a conditional read racing with commits of its key is answered against ONE commit: for every
   options, every pair of commits the two resolutions may see and every payload availability, served
   bytes belong to a resolved commit on which the reference check_preconditions passes, and a refusal is
   the reference's verdict on a resolved commit — with the placement of the check extracted from get_opts
   of both wrappers *)
Theorem C07_conditional_read_one_commit :
  forall (enc : bool) (o : gopts) (e : env),
    match cond_read (if enc then enc_get_check_in_retry_loop else meta_get_check_in_retry_loop) o e with
    | AServed c => resolved e c /\ ref_check o (c_tag c) (c_lm c) = POk
    | APre r => r <> POk /\ exists c, resolved e c /\ ref_check o (c_tag c) (c_lm c) = r
    | ANotFound => True
    end.
Proof. intros [|] o e; apply cond_read_one_commit. Qed.
Print Assumptions C07_conditional_read_one_commit.

(* evaluating the preconditions once, before the retry loop, is refuted: a read conditioned on the token
   of the commit it resolved first serves the bytes of the commit that replaced it *)
Theorem C07_conditional_read_check_once_refuted :
  exists o e c, cond_read false o e = AServed c /\ ref_check o (c_tag c) (c_lm c) = PPrecondition /\
                first_doc e <> Some c.
Proof. exact cond_read_check_once_refuted. Qed.
Print Assumptions C07_conditional_read_check_once_refuted.

Example C07_conditional_read_nonvacuous :
  cond_read true witness_opts witness_env = APre PPrecondition /\
  cond_read true (mkG None (Some (TList [3%Z])) None None) witness_env = AServed (mkCommit 2 20 200).
Proof. split; reflexivity. Qed.

(* (4) read preconditions: the wrapper answers exactly what the reference GetOptions::check_preconditions
   answers for the logical (e_tag, last_modified), consumes every condition it answered, and keeps the
   RFC 9110 13.2.2 precedence *)
Theorem C07_get_preconditions_conform :
  forall (o : gopts) (etag lm : Z),
    fst (check_get_preconditions o etag (Some lm)) = ref_check o etag lm /\
    (fst (check_get_preconditions o etag (Some lm)) = POk ->
     let o' := snd (check_get_preconditions o etag (Some lm)) in
     if_match o' = None /\ if_none_match o' = None /\ if_modified_since o' = None /\ if_unmodified_since o' = None).
Proof.
  intros o etag lm. split; [apply get_preconditions_conform|].
  intros H. cbv zeta. destruct (check_get_preconditions o etag (Some lm)) as [r o'] eqn:E. simpl in *.
  eapply get_preconditions_consumed; eauto.
Qed.
Print Assumptions C07_get_preconditions_conform.

Theorem C07_precondition_precedence :
  forall (o : gopts) (etag lm : Z),
  (if_match o <> None ->
   forall d, fst (check_get_preconditions (mkG (if_match o) (if_none_match o) (if_modified_since o) d) etag (Some lm))
             = fst (check_get_preconditions o etag (Some lm))) /\
  (if_none_match o <> None ->
   forall d, fst (check_get_preconditions (mkG (if_match o) (if_none_match o) d (if_unmodified_since o)) etag (Some lm))
             = fst (check_get_preconditions o etag (Some lm))) /\
  (forall l, if_match o = Some (TList l) -> all_differ l etag = true ->
             fst (check_get_preconditions o etag (Some lm)) = PPrecondition) /\
  (if_match o = None -> forall d, if_unmodified_since o = Some d -> (lm > d)%Z ->
             fst (check_get_preconditions o etag (Some lm)) = PPrecondition).
Proof. exact precondition_precedence. Qed.
Print Assumptions C07_precondition_precedence.

Theorem C07_validate_ranges_spec :
  forall (ranges : list (Z * Z)) (len : Z),
    validate_ranges ranges len = VOk <-> Forall (fun '(s, e) => (s < e <= len)%Z) ranges.
Proof. exact validate_ranges_spec. Qed.
Print Assumptions C07_validate_ranges_spec.

(* (5) EncryptedStore range -> chunk arithmetic, for every chunk size >= 1, object size and valid range
   within u64: the fetched ciphertext span is the minimal chunk-aligned cover of the request inside the
   object, the trimming offsets select exactly the requested plaintext, and the multi-range path computes
   the same span *)
Theorem C07_chunk_span_correct :
  forall cs size s e : Z,
  (1 <= cs <= U64MAX)%Z -> (0 <= s < e)%Z -> (e <= size)%Z -> (size <= U64MAX)%Z ->
  let a := rr_start cs s in
  let b := rr_end cs e size in
  (a <= s /\ e <= b /\ b <= size /\
   a mod cs = 0 /\ (b mod cs = 0 \/ b = size) /\
   s - a < cs /\ (b - e < cs) /\
   start_idx cs s * cs = a /\ 0 <= start_offset cs s < cs /\
   a + start_offset cs s = s /\ a + start_offset cs s + (e - s) = e /\ start_offset cs s + (e - s) <= b - a /\
   span_end cs e size = b)%Z.
Proof. exact chunk_span_correct. Qed.
Print Assumptions C07_chunk_span_correct.

Theorem C07_trimmed_span_is_request :
  forall (A : Type) (pt : list A) (a b s e : nat),
    (a <= s)%nat -> (s <= e)%nat -> (e <= b)%nat ->
    firstn (e - s)%nat (skipn (s - a)%nat (firstn (b - a)%nat (skipn a pt))) = firstn (e - s)%nat (skipn s pt).
Proof. exact slice_of_span. Qed.
Print Assumptions C07_trimmed_span_is_request.

Example C07_chunk_span_nonvacuous :
  chunk_plan 16 40 15 33 = (0, 40, 0, 15, 18)%Z /\ chunk_plan 7 21 7 14 = (7, 14, 1, 0, 7)%Z /\
  chunk_plan 1 5 4 5 = (4, 5, 4, 0, 1)%Z /\
  chunk_plan 65536 200000 65535 65537 = (0, 131072, 0, 65535, 2)%Z.
Proof. repeat split; vm_compute; reflexivity. Qed.
