(* Store/Run.v — executable checks evaluated by vm_compute on the harness's cases (C07, C08). *)
From Coq Require Import List String NArith Bool.
From Verif Require Import Common.ObjStore Common.CommitPoint Store.Model Store.Crash Store.Gc gen.Gen_Flush.
Import ListNotations.
Open Scope list_scope.

(* ---- C08 monitor: a recorded mutation log of one wrapper operation, judged against the backend
   it started from: sound start, per-key commit / invisible / delete shape, sound end. *)
Definition check_log (c : bstore * list lstep) : bool :=
  let '(pre, log) := c in
  let l := norm_log pre log in
  consistentb pre && log_ok pre l && consistentb (bapply pre l).

(* a collector's log: every step is a delete invisible to every key *)
Definition check_gclog (c : bstore * list lstep) : bool :=
  let '(pre, log) := c in
  let l := norm_log pre log in
  forallb (fun st => match st with Del _ => true | Put _ _ => false end) l
  && forallb (fun k => wf_abort path_eq_dec (PMeta k) (refs_k k) pre l) (log_keys pre l)
  && consistentb (bapply pre l).

(* ---- C08 correspondence: the step list the model assembles from the generated event order is the
   mutation log the real wrapper produced *)
Inductive opk := OpPut | OpMp | OpCopy | OpRename | OpDelete.

Definition model_steps (enc : bool) (op : opk) (pre : bstore) (c : octx) : list bstep :=
  match op with
  | OpPut => put_steps (if enc then enc_put_events else meta_put_events) pre c
  | OpMp => put_steps (if enc then enc_multipart_events else meta_multipart_events) pre c
  | OpCopy => copy_steps (if enc then enc_copy_events else meta_copy_events) pre c
  | OpRename => rename_steps' (if enc then enc_copy_events else meta_copy_events) delete_events pre c
  | OpDelete => delete_steps delete_events pre c
  end.

Definition step_eqb (a b : bstep) : bool :=
  match a, b with
  | Put p o, Put q u => path_eqb p q && obj_eqb o u
  | Del p, Del q => path_eqb p q
  | _, _ => false
  end.

Fixpoint steps_eqb (a b : list bstep) : bool :=
  match a, b with
  | [], [] => true
  | x :: a', y :: b' => step_eqb x y && steps_eqb a' b'
  | _, _ => false
  end.

Definition run_op (c : bool * opk * bstore * octx * list lstep) : list bstep :=
  let '(enc, op, pre, ctx, _) := c in model_steps enc op pre ctx.

Definition check_op (c : bool * opk * bstore * octx * list lstep) : bool :=
  let '(enc, op, pre, ctx, log) := c in
  steps_eqb (model_steps enc op pre ctx) (norm_log pre log).

(* ------------------------------------------------------------------ C07 *)
From Verif Require Import Store.Cas Store.GetOpts.
From Coq Require Import ZArith.

Definition outcome_eqb (a b : outcome) : bool :=
  match a, b with
  | OOk, OOk | OAlreadyExists, OAlreadyExists | OPrecondition, OPrecondition | ONotFound, ONotFound => true
  | _, _ => false
  end.

Fixpoint outs_eqb (a b : list outcome) : bool :=
  match a, b with
  | [], [] => true
  | x :: a', y :: b' => outcome_eqb x y && outs_eqb a' b'
  | _, _ => false
  end.

Definition entry_eqb (a b : option (val * N)) : bool :=
  match a, b with
  | None, None => true
  | Some (v, t), Some (w, u) => val_eqb v w && N.eqb t u
  | _, _ => false
  end.

(* linear-time form of Cas.wrun (which recomputes the tail for each projection) *)
Fixpoint wrun_fast (pe me ce de : list ev) (s : bstore) (h : list (gen * N * hop)) : bstore * list outcome :=
  match h with
  | [] => (s, [])
  | (g, t, op) :: r =>
      let '(s', o) := w_step pe me ce de s g t op in
      let '(sf, os) := wrun_fast pe me ce de s' r in
      (sf, o :: os)
  end.

Lemma wrun_fast_eq pe me ce de h : forall s, wrun_fast pe me ce de s h = wrun pe me ce de s h.
Proof.
  induction h as [|[[g t] op] r IH]; intros s; simpl; [reflexivity|].
  destruct (w_step pe me ce de s g t op) as [s' o] eqn:E. simpl.
  rewrite IH. destruct (wrun pe me ce de s' r); reflexivity.
Qed.

Definition hist_run (enc : bool) (h : list (gen * N * hop)) : bstore * list outcome :=
  if enc then wrun_fast enc_put_events enc_multipart_events enc_copy_events delete_events [] h
  else wrun_fast meta_put_events meta_multipart_events meta_copy_events delete_events [] h.

(* the history of mutating calls on an empty store: observed outcomes and final (value, token) per key *)
Definition run_hist (c : bool * list (gen * N * hop) * list outcome * list (key * option (val * N)))
  : list outcome * list (key * option (val * N)) :=
  let '(enc, h, _, finals) := c in
  let w := hist_run enc h in
  (snd w, map (fun kx => (fst kx, abs (fst w) (fst kx))) finals).

Definition check_hist (c : bool * list (gen * N * hop) * list outcome * list (key * option (val * N))) : bool :=
  let '(enc, h, outs, finals) := c in
  let w := hist_run enc h in
  outs_eqb (snd w) outs && forallb (fun kx => entry_eqb (abs (fst w) (fst kx)) (snd kx)) finals
  && consistentb (fst w).

Definition pre_eqb (a b : pre_result) : bool :=
  match a, b with POk, POk | PPrecondition, PPrecondition | PNotModified, PNotModified => true | _, _ => false end.

Definition check_pre (c : gopts * Z * Z * pre_result) : bool :=
  let '(o, etag, lm, obs) := c in pre_eqb (fst (check_get_preconditions o etag (Some lm))) obs.

(* the ciphertext range the encrypted wrapper requested from the backend *)
Definition check_span (c : Z * Z * Z * Z * Z * Z) : bool :=
  let '(cs, size, s, e, a, b) := c in
  Z.eqb (rr_start cs s) a && Z.eqb (rr_end cs e size) b && Z.eqb (span_end cs e size) b.
