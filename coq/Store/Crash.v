(* Store/Crash.v — crash atomicity of the wrapper operations (C08, first half).
   Per key k the generic theory Common.CommitPoint is instantiated at ptr := meta/<k>,
   refs := the payload path the document points at. *)
From Coq Require Import List String NArith Bool Lia Arith.
From Verif Require Import Common.ObjStore Common.CommitPoint Store.Model.
Import ListNotations.
Open Scope list_scope.

Arguments path_eq_dec : simpl never.

Notation reach_k k s := (reach path_eq_dec (PMeta k) (refs_k k) s).
Notation quiet_k k s := (quiet (O:=obj) (PMeta k) (reach_k k s)).

Definition WFC (k : key) (s : bstore) (l : list bstep) : Prop :=
  exists m', WellFormedCommit path_eq_dec (PMeta k) (refs_k k) s l m'.
Definition Quiet (k : key) (s : bstore) (l : list bstep) : Prop := Forall (quiet_k k s) l.
Definition WFD (k : key) (s : bstore) (l : list bstep) : Prop :=
  exists pre post, l = pre ++ Del (PMeta k) :: post /\
                   Forall (quiet_k k s) pre /\
                   Forall (fun st : bstep => touched st <> PMeta k) post.
Definition KeyOK (k : key) (s : bstore) (l : list bstep) : Prop :=
  WFC k s l \/ Quiet k s l \/ WFD k s l.

(* ------------------------------------------------------------------ small facts *)
Lemma val_eqb_eq a b : val_eqb a b = true <-> a = b.
Proof.
  destruct a as [a1 a2], b as [b1 b2]. unfold val_eqb. cbn [fst snd].
  rewrite andb_true_iff, !N.eqb_eq. split; [intros [-> ->]; auto | intros H; inversion H; auto].
Qed.

Lemma val_eqb_refl a : val_eqb a a = true.
Proof. apply val_eqb_eq; auto. Qed.

Lemma pkey_refs k o p : In p (refs_k k o) -> pkey p = k.
Proof. destruct o as [v|m]; simpl; [tauto|]. intros [<-|[]]. destruct (m_gen m); reflexivity. Qed.

Lemma pkey_reach k s p : In p (reach_k k s) -> pkey p = k.
Proof. unfold reach. destruct (get path_eq_dec s (PMeta k)); [apply pkey_refs | simpl; tauto]. Qed.

Lemma quiet_other_key k k' s (st : bstep) :
  pkey (touched st) = k -> k' <> k -> quiet_k k' s st.
Proof.
  intros Hk Hne. split.
  - intro E. rewrite E in Hk. simpl in Hk. congruence.
  - intro Hin. apply pkey_reach in Hin. congruence.
Qed.

Lemma Forall_firstn' (A : Type) (Q : A -> Prop) (l : list A) n : Forall Q l -> Forall Q (firstn n l).
Proof. revert n; induction l; intros n F; destruct n; simpl; auto. inversion F; subst; auto. Qed.

Lemma quiet_read k s l : Quiet k s l -> read_k k (bapply s l) = read_k k s.
Proof. intros. apply read_quiet. exact H. Qed.

Lemma get_apply_leaves (ptr : path) (l : list bstep) : forall s,
    Forall (fun st : bstep => touched st <> ptr) l -> bget (bapply s l) ptr = bget s ptr.
Proof.
  intros s F. apply get_apply_untouched. intros st Hin. rewrite Forall_forall in F. auto.
Qed.

(* ------------------------------------------------------------------ atomicity per key *)
Lemma wfd_after k (s0 : bstore) post n :
  Forall (fun st : bstep => touched st <> PMeta k) post ->
  read_k k (apply path_eq_dec (del path_eq_dec s0 (PMeta k)) (firstn n post)) = None.
Proof.
  intros F. unfold read_k, read.
  rewrite get_apply_untouched.
  - rewrite get_del_same. reflexivity.
  - intros st Hin. pose proof (Forall_firstn' _ _ post n F) as F'. rewrite Forall_forall in F'. auto.
Qed.

Theorem key_atomic k s l :
  KeyOK k s l ->
  forall j, read_k k (bcrash j l s) = read_k k s \/ read_k k (bcrash j l s) = read_k k (bapply s l).
Proof.
  intros [[m' W]|[Q|(pre & post & -> & Fpre & Fpost)]] j.
  - exact (commit_point_atomic W j).
  - left. unfold bcrash, crash. apply read_quiet. apply Forall_firstn'. exact Q.
  - destruct (le_lt_dec j (List.length pre)) as [Hj|Hj].
    + left. unfold bcrash. rewrite crash_app_l by auto. unfold crash.
      apply read_quiet. apply Forall_firstn'. exact Fpre.
    + right. unfold bcrash, bapply. rewrite crash_app_r by lia.
      remember (j - List.length pre) as i. destruct i as [|i]; [lia|].
      unfold crash. simpl firstn. rewrite apply_cons. simpl apply_step.
      rewrite (wfd_after k _ post i Fpost).
      rewrite apply_app, apply_cons. simpl apply_step.
      rewrite <- (firstn_all post) at 1.
      symmetry. apply (wfd_after k _ post (List.length post) Fpost).
Qed.

Corollary kread_atomic k s l :
  KeyOK k s l ->
  forall j, kread k (bcrash j l s) = kread k s \/ kread k (bcrash j l s) = kread k (bapply s l).
Proof. intros H j. unfold kread. destruct (key_atomic k s l H j) as [E|E]; rewrite E; auto. Qed.

(* No crash point exposes a state that neither the old nor the new store has: in particular never
   a dangling or mismatching pointer when both ends are sound. *)
Corollary crash_good s l :
  (forall k, KeyOK k s l) ->
  (forall k, rd_good (kread k s) = true) ->
  (forall k, rd_good (kread k (bapply s l)) = true) ->
  forall j k, rd_good (kread k (bcrash j l s)) = true.
Proof. intros OK G0 G1 j k. destruct (kread_atomic k s l (OK k) j) as [E|E]; rewrite E; auto. Qed.

(* ------------------------------------------------------------------ the monitor is sound *)
Lemma split_at_del_sound ptr l : forall a b,
    split_at_del ptr l = Some (a, b) -> l = a ++ Del ptr :: b.
Proof.
  induction l as [|st r IH]; intros a b H; simpl in H; [discriminate|].
  destruct st as [p o|p].
  - destruct (split_at_del ptr r) as [[a' b']|]; [|discriminate].
    inversion H; subst. simpl. f_equal. apply IH; auto.
  - destruct (path_eq_dec p ptr).
    + inversion H; subst. reflexivity.
    + destruct (split_at_del ptr r) as [[a' b']|]; [|discriminate].
      inversion H; subst. simpl. f_equal. apply IH; auto.
Qed.

Lemma key_ok_sound s l k : key_ok s l k = true -> KeyOK k s l.
Proof.
  unfold key_ok. rewrite !orb_true_iff. intros [[H|H]|H].
  - left. apply wf_commit_sound. exact H.
  - right; left. eapply forallb_quietb_sound; exact H.
  - right; right. unfold wf_delete in H.
    destruct (split_at_del (PMeta k) l) as [[pre post]|] eqn:E; [|discriminate].
    apply andb_true_iff in H as [H1 H2].
    exists pre, post. split; [apply split_at_del_sound; auto|]. split.
    + eapply forallb_quietb_sound; exact H1.
    + apply Forall_forall. intros st Hin. rewrite forallb_forall in H2. specialize (H2 st Hin).
      unfold leaves in H2. destruct (path_eq_dec (touched st) (PMeta k)); [discriminate|auto].
Qed.

Lemma keyb_in_spec k l : keyb_in k l = true <-> In k l.
Proof.
  unfold keyb_in. rewrite existsb_exists. split.
  - intros (x & Hin & E). apply String.eqb_eq in E. subst. auto.
  - intros. exists k. split; auto. apply String.eqb_refl.
Qed.

Lemma dedup_in k l : In k (dedup l) <-> In k l.
Proof.
  induction l as [|x r IH]; simpl; [tauto|].
  destruct (keyb_in x r) eqn:E.
  - rewrite IH. apply keyb_in_spec in E. split; auto. intros [->|]; auto.
  - simpl. rewrite IH. tauto.
Qed.

(* a key the log does not mention and the store does not hold is absent throughout *)
Lemma untouched_absent s l k :
  ~ In k (log_keys s l) -> Quiet k s l.
Proof.
  intros Hn. unfold log_keys in Hn. rewrite dedup_in, in_app_iff in Hn.
  apply Forall_forall. intros st Hin. apply quiet_other_key with (k := pkey (touched st)); auto.
  intro E. apply Hn. left. rewrite E. rewrite map_map. apply in_map_iff. exists st. auto.
Qed.

Theorem log_ok_sound s l : log_ok s l = true -> forall k, KeyOK k s l.
Proof.
  intros H k. destruct (in_dec string_dec k (log_keys s l)) as [Hin|Hn].
  - unfold log_ok in H. rewrite forallb_forall in H. apply key_ok_sound. auto.
  - right; left. apply untouched_absent. exact Hn.
Qed.

(* ------------------------------------------------------------------ operations *)
Lemma op_steps_mutations copy evs s c : op_steps copy evs s c = op_steps copy (mutations evs) s c.
Proof.
  unfold op_steps, mutations. induction evs as [|e r IH]; simpl; auto.
  destruct (is_mutation e) eqn:E; simpl; rewrite IH; auto.
  destruct e; simpl in E; try discriminate; reflexivity.
Qed.

Lemma interp_pkey copy s c e st : In st (interp copy s c e) -> pkey (touched st) = o_key c.
Proof.
  destruct e; simpl; try tauto.
  - intros [<-|[]]; reflexivity.
  - destruct (cur_payload s (o_src c)); simpl; [intros [<-|[]]; reflexivity | tauto].
  - intros [<-|[]]; reflexivity.
  - intros [<-|[]]; reflexivity.
  - destruct (cur_meta s (o_key c)) as [cur|]; simpl; [|tauto].
    destruct (path_eq_dec _ _); simpl; [tauto|]. intros [<-|[]]. simpl. destruct (m_gen cur); reflexivity.
  - intros [<-|[]]; reflexivity.
  - destruct (cur_meta s (o_key c)) as [cur|]; simpl; [|tauto].
    intros [<-|[]]. simpl. destruct (m_gen cur); reflexivity.
Qed.

Lemma op_steps_pkey copy evs s c st : In st (op_steps copy evs s c) -> pkey (touched st) = o_key c.
Proof.
  unfold op_steps. rewrite in_flat_map. intros (e & _ & H). eapply interp_pkey; eauto.
Qed.

Lemma op_steps_other copy evs s c k' : k' <> o_key c -> Quiet k' s (op_steps copy evs s c).
Proof.
  intros Hne. apply Forall_forall. intros st Hin.
  apply quiet_other_key with (k := o_key c); auto. eapply op_steps_pkey; eauto.
Qed.

(* the generation minted for the operation is not the one the key currently points at
   (new_generation: fresh per call — the freshness premise) *)
Definition fresh_gen (s : bstore) (c : octx) : Prop :=
  forall cur, cur_meta s (o_key c) = Some cur -> m_gen cur <> Some (o_gen c).

Lemma reach_cur s k :
  reach_k k s = match bget s (PMeta k) with Some o => refs_k k o | None => [] end.
Proof. reflexivity. Qed.

Lemma fresh_not_reach s c : fresh_gen s c -> ~ In (PGen (o_key c) (o_gen c)) (reach_k (o_key c) s).
Proof.
  intros F. rewrite reach_cur. destruct (bget s (PMeta (o_key c))) as [[v|m]|] eqn:E; simpl; try tauto.
  intros [H|[]]. specialize (F m). unfold cur_meta in F. rewrite E in F.
  destruct (m_gen m); simpl in H; try discriminate. inversion H; subst. apply (F eq_refl). reflexivity.
Qed.

Lemma del_replaced_quiet copy s c st :
  In st (interp copy s c EvDelReplaced) ->
  quiet (PMeta (o_key c)) [PGen (o_key c) (o_gen c)] st.
Proof.
  simpl. destruct (cur_meta s (o_key c)) as [cur|]; simpl; [|tauto].
  destruct (path_eq_dec _ _) as [|Hne]; simpl; [tauto|]. intros [<-|[]]. split; simpl.
  - destruct (m_gen cur); discriminate.
  - intros [E|[]]. apply Hne. auto.
Qed.

(* generic shape: one fresh payload write, the pointer switch, the guarded reclaim *)
Lemma commit_shape copy s c pay :
  fresh_gen s c ->
  WFC (o_key c) s
      (Put (PGen (o_key c) (o_gen c)) (OPay pay)
       :: Put (PMeta (o_key c)) (OMeta (new_meta copy s c))
       :: interp copy s c EvDelReplaced).
Proof.
  intros F. exists (OMeta (new_meta copy s c)).
  exists [Put (PGen (o_key c) (o_gen c)) (OPay pay)], (interp copy s c EvDelReplaced).
  split; [reflexivity|]. split.
  - constructor; [|constructor]. split; simpl; [discriminate|]. apply fresh_not_reach. exact F.
  - apply Forall_forall. intros st Hin. apply (del_replaced_quiet copy s c st Hin).
Qed.

Definition put_steps (evs : list ev) (s : bstore) (c : octx) := op_steps false evs s c.

Theorem put_keyok evs s c :
  mutations evs = put_muts \/ mutations evs = mp_muts ->
  fresh_gen s c -> forall k, KeyOK k s (put_steps evs s c).
Proof.
  intros Hm F k. unfold put_steps. rewrite op_steps_mutations.
  destruct (string_dec k (o_key c)) as [->|Hne].
  - left. destruct Hm as [-> | ->]; unfold op_steps; simpl; rewrite app_nil_r;
      apply (commit_shape false s c (o_val c) F).
  - right; left. apply op_steps_other. exact Hne.
Qed.

(* copy: no mutation at all unless the source resolves (copy_payload returns the error first) *)
Definition copy_steps (evs : list ev) (s : bstore) (c : octx) : list bstep :=
  match cur_payload s (o_src c) with
  | Some _ => op_steps true evs s c
  | None => []
  end.

Theorem copy_keyok evs s c :
  mutations evs = copy_muts ->
  fresh_gen s c -> forall k, KeyOK k s (copy_steps evs s c).
Proof.
  intros Hm F k. unfold copy_steps. destruct (cur_payload s (o_src c)) as [v|] eqn:E.
  - rewrite op_steps_mutations, Hm.
    destruct (string_dec k (o_key c)) as [->|Hne].
    + left. unfold op_steps; simpl. rewrite E. simpl. rewrite app_nil_r.
      apply (commit_shape true s c v F).
    + right; left. apply op_steps_other. exact Hne.
  - right; left. constructor.
Qed.

(* delete_object: NotFound without any mutation when the key has no commit point *)
Definition delete_steps (evs : list ev) (s : bstore) (c : octx) : list bstep :=
  match cur_meta s (o_key c) with
  | Some _ => op_steps false evs s c
  | None => []
  end.

Lemma delete_shape s c :
  WFD (o_key c) s (Del (PMeta (o_key c)) :: interp false s c EvDelPayload).
Proof.
  exists [], (interp false s c EvDelPayload). split; [reflexivity|]. split; [constructor|].
  apply Forall_forall. intros st Hin. simpl in Hin.
  destruct (cur_meta s (o_key c)) as [cur|]; simpl in Hin; [|tauto].
  destruct Hin as [<-|[]]. simpl. destruct (m_gen cur); discriminate.
Qed.

Theorem delete_keyok evs s c :
  mutations evs = delete_muts ->
  forall k, KeyOK k s (delete_steps evs s c).
Proof.
  intros Hm k. unfold delete_steps. destruct (cur_meta s (o_key c)) as [cur|] eqn:E.
  - rewrite op_steps_mutations, Hm.
    destruct (string_dec k (o_key c)) as [->|Hne].
    + right; right. unfold op_steps; simpl. rewrite app_nil_r. apply delete_shape.
    + right; left. apply op_steps_other. exact Hne.
  - right; left. constructor.
Qed.

(* ------------------------------------------------------------------ values after a complete operation *)
Lemma kread_put_new copy s c pay post :
  Forall (quiet (PMeta (o_key c)) [PGen (o_key c) (o_gen c)]) post ->
  pay = new_val copy s c ->
  kread (o_key c)
        (bapply s (Put (PGen (o_key c) (o_gen c)) (OPay pay)
                   :: Put (PMeta (o_key c)) (OMeta (new_meta copy s c)) :: post))
  = RVal pay (o_tok c).
Proof.
  intros Fpost ->. unfold kread, read_k, bapply.
  change (Put (PGen (o_key c) (o_gen c)) (OPay (new_val copy s c))
          :: Put (PMeta (o_key c)) (OMeta (new_meta copy s c)) :: post)
    with ([Put (PGen (o_key c) (o_gen c)) (OPay (new_val copy s c))]
          ++ Put (PMeta (o_key c)) (OMeta (new_meta copy s c)) :: post).
  rewrite commit_point_new_value.
  - unfold refs_k, new_meta. cbn [m_gen ppath map]. rewrite apply_cons, apply_nil. cbn [apply_step].
    rewrite get_put_same. cbn [rd_of m_val m_tok]. rewrite val_eqb_refl. reflexivity.
  - simpl. intros [E|[]]. discriminate.
  - exact Fpost.
Qed.

Theorem put_result evs s c :
  mutations evs = put_muts \/ mutations evs = mp_muts ->
  kread (o_key c) (bapply s (put_steps evs s c)) = RVal (o_val c) (o_tok c).
Proof.
  intros Hm. unfold put_steps. rewrite op_steps_mutations.
  destruct Hm as [-> | ->]; unfold op_steps; simpl; rewrite app_nil_r;
    (apply (kread_put_new false s c (o_val c)); [|reflexivity]);
    apply Forall_forall; intros st Hin; apply (del_replaced_quiet false s c st Hin).
Qed.

Theorem other_keys_unchanged copy evs s c k :
  k <> o_key c -> kread k (bapply s (op_steps copy evs s c)) = kread k s.
Proof. intros Hne. unfold kread. rewrite quiet_read; auto. apply op_steps_other. exact Hne. Qed.

(* the source of a copy is sound: its document describes the payload it points at *)
Lemma kread_val_payload s k v t :
  kread k s = RVal v t -> exists m, cur_meta s k = Some m /\ cur_payload s k = Some v /\ m_val m = v /\ m_tok m = t.
Proof.
  unfold kread, read_k, read, cur_payload, cur_meta, bget.
  destruct (get path_eq_dec s (PMeta k)) as [[pv|m]|]; simpl; try discriminate.
  destruct (get path_eq_dec s (ppath k (m_gen m))) as [[w|m2]|]; simpl; try discriminate.
  destruct (val_eqb w (m_val m)) eqn:E; try discriminate.
  intros H. inversion H; subst. apply val_eqb_eq in E. exists m. auto.
Qed.

Theorem copy_result evs s c v t :
  mutations evs = copy_muts ->
  kread (o_src c) s = RVal v t ->
  kread (o_key c) (bapply s (copy_steps evs s c)) = RVal v (o_tok c).
Proof.
  intros Hm Hsrc. destruct (kread_val_payload _ _ _ _ Hsrc) as (m & Hm1 & Hp & Hv & _).
  unfold copy_steps. rewrite Hp, op_steps_mutations, Hm. unfold op_steps; simpl. rewrite Hp. simpl.
  rewrite app_nil_r. apply (kread_put_new true s c v).
  - apply Forall_forall; intros st Hin; apply (del_replaced_quiet true s c st Hin).
  - unfold new_val. rewrite Hm1. auto.
Qed.

Theorem delete_result evs s c m :
  mutations evs = delete_muts ->
  cur_meta s (o_key c) = Some m ->
  kread (o_key c) (bapply s (delete_steps evs s c)) = RAbsent.
Proof.
  intros Hm Hc. unfold delete_steps. rewrite Hc, op_steps_mutations, Hm. unfold op_steps; simpl.
  rewrite app_nil_r. unfold kread, bapply.
  assert (F' : Forall (fun st : bstep => touched st <> PMeta (o_key c)) (interp false s c EvDelPayload)).
  { apply Forall_forall. intros st Hin. simpl in Hin. rewrite Hc in Hin. simpl in Hin.
    destruct Hin as [<-|[]]. simpl. destruct (m_gen m); discriminate. }
  pose proof (wfd_after (o_key c) s _ (List.length (interp false s c EvDelPayload)) F') as H.
  rewrite firstn_all in H. simpl in H. rewrite H. reflexivity.
Qed.

(* ------------------------------------------------------------------ rename *)
Definition src_ctx (c : octx) : octx := mkCtx (o_src c) (o_gen c) (o_val c) (o_tok c) (o_src c).

Definition rename_steps' (copy_evs del_evs : list ev) (s : bstore) (c : octx) : list bstep :=
  let l1 := copy_steps copy_evs s c in
  match cur_payload s (o_src c) with
  | Some _ => l1 ++ delete_steps del_evs (bapply s l1) (src_ctx c)
  | None => []
  end.

Lemma copy_steps_other evs s c k' : k' <> o_key c -> Quiet k' s (copy_steps evs s c).
Proof.
  intros. unfold copy_steps. destruct (cur_payload s (o_src c)); [apply op_steps_other; auto | constructor].
Qed.

Lemma delete_steps_pkey evs s c st : In st (delete_steps evs s c) -> pkey (touched st) = o_key c.
Proof. unfold delete_steps. destruct (cur_meta s (o_key c)); [apply op_steps_pkey | simpl; tauto]. Qed.

Lemma quiet_mono k s s' l :
  reach_k k s' = reach_k k s -> Quiet k s l -> Quiet k s' l.
Proof. intros E Q. unfold Quiet. rewrite E. exact Q. Qed.

Lemma reach_quiet k s l : Quiet k s l -> reach_k k (bapply s l) = reach_k k s.
Proof.
  intros Q. unfold reach. unfold bapply. rewrite get_apply_untouched; auto.
  intros st Hin. unfold Quiet in Q. rewrite Forall_forall in Q. apply (Q st Hin).
Qed.

Theorem rename_keyok copy_evs del_evs s c :
  mutations copy_evs = copy_muts -> mutations del_evs = delete_muts ->
  o_src c <> o_key c -> fresh_gen s c ->
  forall k, KeyOK k s (rename_steps' copy_evs del_evs s c).
Proof.
  intros Hc Hd Hne F k. unfold rename_steps'.
  destruct (cur_payload s (o_src c)) as [v|] eqn:Ep; [|right; left; constructor].
  set (l1 := copy_steps copy_evs s c).
  set (l2 := delete_steps del_evs (bapply s l1) (src_ctx c)).
  assert (Q1 : forall k', k' <> o_key c -> Quiet k' s l1) by (intros; apply copy_steps_other; auto).
  assert (P2 : forall st, In st l2 -> pkey (touched st) = o_src c)
    by (intros st Hin; apply (delete_steps_pkey del_evs _ (src_ctx c) st Hin)).
  destruct (string_dec k (o_key c)) as [->|Hk1].
  - (* target: commit, followed by steps on the source key *)
    left. unfold l1 at 1. unfold copy_steps. rewrite Ep, op_steps_mutations, Hc.
    unfold op_steps; simpl. rewrite Ep. simpl. rewrite app_nil_r.
    exists (OMeta (new_meta true s c)), [Put (PGen (o_key c) (o_gen c)) (OPay v)],
      (interp true s c EvDelReplaced ++ l2).
    split; [reflexivity|]. split.
    + constructor; [|constructor]. split; simpl; [discriminate|]. apply fresh_not_reach. exact F.
    + apply Forall_app. split.
      * apply Forall_forall. intros st Hin. apply (del_replaced_quiet true s c st Hin).
      * apply Forall_forall. intros st Hin. specialize (P2 st Hin). split.
        -- intro E2. rewrite E2 in P2. simpl in P2. congruence.
        -- simpl. intros [E2|[]]. rewrite <- E2 in P2. simpl in P2. congruence.
  - destruct (string_dec k (o_src c)) as [->|Hk2].
    + (* source: quiet copy, then the delete commit *)
      unfold l2. unfold delete_steps. simpl o_key.
      destruct (cur_meta (bapply s l1) (o_src c)) as [cur|] eqn:Ecur.
      * right; right. rewrite op_steps_mutations, Hd. unfold op_steps; simpl. rewrite app_nil_r.
        exists l1, (interp false (bapply s l1) (src_ctx c) EvDelPayload).
        split; [reflexivity|]. split; [apply Q1; auto|].
        apply Forall_forall. intros st Hin. simpl in Hin. rewrite Ecur in Hin. simpl in Hin.
        destruct Hin as [<-|[]]. simpl. destruct (m_gen cur); discriminate.
      * right; left. rewrite app_nil_r. apply Q1. auto.
    + right; left. apply Forall_app. split; [apply Q1; auto|].
      apply Forall_forall. intros st Hin. apply quiet_other_key with (k := o_src c); auto.
Qed.

(* rename never leaves both names absent: until the source's commit point is removed the source
   reads in full, and from the target's pointer switch on the target reads the source's value *)
Theorem rename_never_both_absent copy_evs del_evs s c v t :
  mutations copy_evs = copy_muts -> mutations del_evs = delete_muts ->
  o_src c <> o_key c -> fresh_gen s c ->
  kread (o_src c) s = RVal v t ->
  forall j, let s' := bcrash j (rename_steps' copy_evs del_evs s c) s in
            kread (o_src c) s' = RVal v t \/ kread (o_key c) s' = RVal v (o_tok c).
Proof.
  intros Hc Hd Hne F Hsrc j. destruct (kread_val_payload _ _ _ _ Hsrc) as (m & Hm1 & Hp & Hv & Ht).
  unfold rename_steps'. rewrite Hp.
  set (l1 := copy_steps copy_evs s c).
  set (l2 := delete_steps del_evs (bapply s l1) (src_ctx c)).
  assert (Q1 : Quiet (o_src c) s l1) by (apply copy_steps_other; auto).
  destruct (le_lt_dec j (List.length l1)) as [Hj|Hj]; cbv zeta.
  - left. unfold bcrash. rewrite crash_app_l by auto. unfold kread, crash.
    fold (bapply s (firstn j l1)). rewrite quiet_read; [exact Hsrc|]. apply Forall_firstn'. exact Q1.
  - right. unfold bcrash.
    replace (crash path_eq_dec j (l1 ++ l2) s)
      with (crash path_eq_dec (j - List.length l1) l2 (apply path_eq_dec s l1))
      by (symmetry; apply crash_app_r; apply Nat.lt_le_incl; exact Hj).
    unfold kread, crash.
    fold (bapply s l1). fold (bapply (bapply s l1) (firstn (j - List.length l1) l2)).
    rewrite quiet_read.
    + apply (copy_result copy_evs s c v t Hc Hsrc).
    + apply Forall_firstn'. apply Forall_forall. intros st Hin.
      apply quiet_other_key with (k := o_src c); auto.
      apply (delete_steps_pkey del_evs _ (src_ctx c) st Hin).
Qed.

(* ------------------------------------------------------------------ garbage collection, sequentially *)
(* every path GC deletes is a payload path no commit point references *)
Definition unreferenced (s : bstore) (p : path) : Prop :=
  match p with PMeta _ => False | _ => ~ In p (reach_k (pkey p) s) end.

Lemma del_unreferenced_quiet s p k : unreferenced s p -> quiet_k k s (Del p : bstep).
Proof.
  intros U. split; simpl.
  - destruct p; simpl in U; [tauto | discriminate | discriminate].
  - intro Hin. pose proof (pkey_reach _ _ _ Hin) as E. subst k.
    destruct p; simpl in *; tauto.
Qed.

(* ------------------------------------------------------------------ no crash point is unreadable *)
Definition all_good (s : bstore) : Prop := forall k, rd_good (kread k s) = true.
Definition op_good (l : list bstep) (s : bstore) : Prop := forall j, all_good (bcrash j l s).

Lemma op_good_final l s : op_good l s -> all_good (bapply s l).
Proof.
  intros H. specialize (H (List.length l)). unfold bcrash in H. rewrite crash_all in H by auto. exact H.
Qed.

Lemma seq_good l1 l2 s : op_good l1 s -> op_good l2 (bapply s l1) -> op_good (l1 ++ l2) s.
Proof.
  intros H1 H2 j. destruct (le_lt_dec j (List.length l1)) as [Hj|Hj].
  - unfold bcrash. rewrite crash_app_l by auto. apply H1.
  - unfold bcrash. rewrite crash_app_r by (apply Nat.lt_le_incl; exact Hj). apply H2.
Qed.

Lemma nil_good s : all_good s -> op_good [] s.
Proof. intros G j. unfold bcrash, crash. rewrite firstn_nil. exact G. Qed.

Lemma good_payload_rval s k v :
  rd_good (kread k s) = true -> cur_payload s k = Some v -> exists t, kread k s = RVal v t.
Proof.
  unfold kread, read_k, read, cur_payload, cur_meta, bget.
  destruct (get path_eq_dec s (PMeta k)) as [[pv|m]|]; simpl; try discriminate.
  destruct (get path_eq_dec s (ppath k (m_gen m))) as [[w|m2]|]; simpl; try discriminate.
  destruct (val_eqb w (m_val m)) eqn:E; simpl; try discriminate.
  intros _ H. inversion H; subst. eauto.
Qed.

Theorem put_good evs s c :
  mutations evs = put_muts \/ mutations evs = mp_muts ->
  fresh_gen s c -> all_good s -> op_good (put_steps evs s c) s.
Proof.
  intros Hm F G j k0. apply crash_good; auto.
  - intros k. apply put_keyok; auto.
  - intros k. destruct (string_dec k (o_key c)) as [->|Hne].
    + rewrite put_result; auto.
    + unfold put_steps. rewrite other_keys_unchanged; auto.
Qed.

Theorem copy_good evs s c :
  mutations evs = copy_muts ->
  fresh_gen s c -> all_good s -> op_good (copy_steps evs s c) s.
Proof.
  intros Hm F G j k0. apply crash_good; auto.
  - intros k. apply copy_keyok; auto.
  - intros k. destruct (cur_payload s (o_src c)) as [v|] eqn:Ep.
    + destruct (good_payload_rval _ _ _ (G (o_src c)) Ep) as [t Hr].
      destruct (string_dec k (o_key c)) as [->|Hne].
      * rewrite (copy_result evs s c v t Hm Hr). reflexivity.
      * unfold copy_steps. rewrite Ep. rewrite other_keys_unchanged; auto.
    + unfold copy_steps. rewrite Ep. apply G.
Qed.

Theorem delete_good evs s c :
  mutations evs = delete_muts ->
  all_good s -> op_good (delete_steps evs s c) s.
Proof.
  intros Hm G j k0. apply crash_good; auto.
  - intros k. apply delete_keyok; auto.
  - intros k. destruct (cur_meta s (o_key c)) as [m|] eqn:Em.
    + destruct (string_dec k (o_key c)) as [->|Hne].
      * rewrite (delete_result evs s c m Hm Em). reflexivity.
      * unfold delete_steps. rewrite Em. rewrite other_keys_unchanged; auto.
    + unfold delete_steps. rewrite Em. apply G.
Qed.

Theorem rename_good copy_evs del_evs s c :
  mutations copy_evs = copy_muts -> mutations del_evs = delete_muts ->
  fresh_gen s c -> all_good s -> op_good (rename_steps' copy_evs del_evs s c) s.
Proof.
  intros Hc Hd F G. unfold rename_steps'.
  destruct (cur_payload s (o_src c)); [|apply nil_good; auto].
  apply seq_good.
  - apply copy_good; auto.
  - apply delete_good; auto. apply op_good_final. apply copy_good; auto.
Qed.

(* sequential collection: deleting payloads no commit point references is invisible at every prefix *)
Theorem gc_log_invisible s l :
  Forall (fun st : bstep => exists p, st = Del p /\ unreferenced s p) l ->
  forall j k, kread k (bcrash j l s) = kread k s.
Proof.
  intros F j k. unfold kread, bcrash, crash. f_equal.
  change (apply path_eq_dec s (firstn j l)) with (bapply s (firstn j l)).
  apply quiet_read. apply Forall_firstn'. apply Forall_forall. intros st Hin.
  rewrite Forall_forall in F. destruct (F st Hin) as (p & -> & U). apply del_unreferenced_quiet; auto.
Qed.
