(* Coll/DurableProofs.v — the crash protocol of Coll/Durable.v: invariants and recovery.

   Inv b        the durable invariant (I1–I5 of DESIGN.md / C01) — a property of the BACKEND alone,
                so it is what survives a crash;
   Consistent   C02's statement for a live handle: every registered index holds exactly the
                postings derived from the stored documents, and the id set is the set of stored
                documents;
   open_sync    Inv b -> open b succeeds and yields a Consistent handle (recovery converges and
                never fails);
   *_prefix_Inv every micro-step prefix of every operation, started from a Consistent handle over
                an Inv backend, leaves an Inv backend (so a crash anywhere is recoverable), and the
                complete operation leaves a Consistent handle again;
   reachable_*  induction over arbitrarily many operations and arbitrarily nested crashes. *)
From Coq Require Import List Arith Bool Lia.
From Verif Require Import Coll.Tags gen.Gen_CollFlush Coll.Durable.
Import ListNotations.
Open Scope list_scope.

Section Proofs.
  Variables D K : Type.
  Variable Keq : forall a b : K, {a = b} + {a <> b}.
  Variable derive : nat -> D -> list K.
  Variable stride : nat.

  Notation backend := (backend D K).
  Notation handle := (handle K).
  Notation intent := (intent D).
  Notation posting := (posting K).
  Notation keys_of := (keys_of derive).
  Notation okeys := (okeys derive).
  Notation del_all := (del_all Keq).
  Notation mstep := (mstep D K).

  (* ---------------------------------------------------------------- set lemmas *)
  Lemma posting_eqb_eq (a b : posting) : posting_eqb Keq a b = true <-> a = b.
  Proof.
    destruct a as [k n], b as [k' n']. unfold posting_eqb; simpl.
    destruct (Keq k k') as [E|E]; simpl.
    - rewrite Nat.eqb_eq. split; intros H; [subst; reflexivity | inversion H; reflexivity].
    - split; intros H; [discriminate | inversion H; contradiction].
  Qed.

  Lemma In_del_all x l ps : In x (del_all l ps) <-> In x l /\ ~ In x ps.
  Proof.
    unfold Durable.del_all. rewrite filter_In. split; intros [H1 H2]; split; auto.
    - intro Hin. apply negb_true_iff in H2.
      assert (E : existsb (posting_eqb Keq x) ps = true).
      { apply existsb_exists. exists x. split; auto. apply posting_eqb_eq. reflexivity. }
      congruence.
    - apply negb_true_iff. destruct (existsb (posting_eqb Keq x) ps) eqn:E; auto.
      apply existsb_exists in E. destruct E as [y [Hy E]]. apply posting_eqb_eq in E. subst. contradiction.
  Qed.

  Lemma In_ins_all (x : posting) l ps : In x (ins_all l ps) <-> In x ps \/ In x l.
  Proof. unfold ins_all. apply in_app_iff. Qed.

  Lemma In_keys_of i id d k id' : In (k, id') (keys_of i id d) <-> id' = id /\ In k (derive i d).
  Proof.
    unfold Durable.keys_of. rewrite in_map_iff. split.
    - intros [k0 [E H]]. inversion E; subst. auto.
    - intros [E H]. subst. exists k. auto.
  Qed.

  Lemma In_okeys_id i id o k id' : In (k, id') (okeys i id o) -> id' = id.
  Proof. destruct o; simpl; intros H; [apply In_keys_of in H; tauto | contradiction]. Qed.

  Lemma filter_neq_In (l : list nat) x y :
    In y (filter (fun z => negb (Nat.eqb z x)) l) <-> In y l /\ y <> x.
  Proof.
    rewrite filter_In. rewrite negb_true_iff, Nat.eqb_neq. tauto.
  Qed.

  (* ---------------------------------------------------------------- the invariants *)
  Definition Named (b : backend) (id : nat) : Prop :=
    exists it, In it (b_intents b) /\ i_id it = id.

  Definition DocKey (b : backend) (i : nat) (k : K) (id : nat) : Prop :=
    exists d, b_docs b id = Some d /\ In k (derive i d).

  (* a posting that only an image recorded in a pending intent explains *)
  Definition ImgKey (b : backend) (i : nat) (k : K) (id : nat) : Prop :=
    exists it, In it (b_intents b) /\ i_id it = id /\
               (In (k, id) (okeys i id (i_prev it)) \/ In (k, id) (okeys i id (i_next it))).

  (* I3 + I2 for one durable index snapshot *)
  Definition IdxOK (b : backend) (i : nat) : Prop :=
    exists l, b_idx b i = Some l /\
      (forall k id, In (k, id) l -> DocKey b i k id \/ ImgKey b i k id) /\
      (forall k id, id <= b_ckpt b -> ~ Named b id -> DocKey b i k id -> In (k, id) l).

  (* the snapshot is exactly derive(documents now) *)
  Definition IdxExact (b : backend) (i : nat) : Prop :=
    exists l, b_idx b i = Some l /\ (forall k id, In (k, id) l <-> DocKey b i k id).

  Definition Inv (b : backend) : Prop :=
    exists mx reg ids,
      b_meta b = Some (mx, reg) /\ b_ids b = Some ids /\
      (forall i, In i reg -> IdxOK b i) /\                                       (* I3, I5 *)
      (forall id, In id ids -> b_docs b id <> None \/ Named b id) /\             (* I2 *)
      (forall id, id <= b_ckpt b -> ~ Named b id -> b_docs b id <> None -> In id ids) /\
      (forall id, b_docs b id <> None -> id <= Nat.max mx (b_wm b)) /\           (* I1 *)
      b_ckpt b <= mx.                                                            (* I4 *)

  (* C02 *)
  Definition Consistent (b : backend) (h : handle) : Prop :=
    (forall i, In i (h_reg h) -> forall k id, In (k, id) (h_idx h i) <-> DocKey b i k id) /\
    (forall id, In id (h_ids h) <-> b_docs b id <> None).

  Lemma IdxExact_OK b i : IdxExact b i -> IdxOK b i.
  Proof.
    intros [l [E H]]. exists l. split; auto. split.
    - intros k id Hin. left. apply H. exact Hin.
    - intros k id _ _ Hd. apply H. exact Hd.
  Qed.

  Lemma Named_named b id : named b id = true <-> Named b id.
  Proof.
    unfold named, Named. rewrite existsb_exists. split.
    - intros [it [H E]]. apply Nat.eqb_eq in E. eauto.
    - intros [it [H E]]. exists it. split; auto. apply Nat.eqb_eq. exact E.
  Qed.

  Lemma Named_map b id : In id (map (@i_id D) (b_intents b)) <-> Named b id.
  Proof.
    unfold Named. rewrite in_map_iff. split; intros [it [A B]]; exists it; tauto.
  Qed.

  (* ---------------------------------------------------------------- recovery: fold lemmas *)
  Lemma remove_images_In its : forall (idx : nat -> list posting) i k id,
    In (k, id) (remove_images Keq derive its idx i) <->
    In (k, id) (idx i) /\
    forall it, In it its -> ~ In (k, id) (okeys i (i_id it) (i_prev it)) /\
                            ~ In (k, id) (okeys i (i_id it) (i_next it)).
  Proof.
    unfold remove_images. intros idx i k id. generalize (idx i) as l.
    induction its as [|it its IH]; intros l; simpl.
    - split; [intros H; split; [exact H | intros it []] | tauto].
    - rewrite IH. rewrite !In_del_all. split.
      + intros [[[H1 H2] H3] H4]. split; auto. intros it' [E|Hin]; [subst; auto | auto].
      + intros [H1 H2]. destruct (H2 it (or_introl eq_refl)) as [A B].
        split; [split; [split; [exact H1 | exact A] | exact B] | ].
        intros it' Hin. apply H2. right. exact Hin.
  Qed.

  Lemma posting_dec (a b : posting) : {a = b} + {a <> b}.
  Proof. decide equality; solve [apply Nat.eq_dec | apply Keq]. Defined.

  Lemma reconcile_one_idx b h id i x :
    In x (h_idx (reconcile_one Keq derive b h id) i) <->
    In x (h_idx h i) \/ (exists d, b_docs b id = Some d /\ In x (keys_of i id d)).
  Proof.
    unfold reconcile_one. destruct (b_docs b id) as [d|] eqn:E; simpl.
    - rewrite In_ins_all, In_del_all. split.
      + intros [H|[H _]]; [right; eauto | left; exact H].
      + intros [H|[d' [E' H]]].
        * destruct (in_dec posting_dec x (keys_of i id d)) as [Hin|Hn]; [left; exact Hin | right; split; assumption].
        * inversion E'; subst. left. exact H.
    - split; [intros H; left; exact H | intros [H|[d [E' _]]]; [exact H | discriminate]].
  Qed.

  Lemma reconcile_one_ids b h n id :
    In id (h_ids (reconcile_one Keq derive b h n)) <->
    (id = n /\ b_docs b n <> None) \/ (id <> n /\ In id (h_ids h)).
  Proof.
    unfold reconcile_one. destruct (b_docs b n) as [d|] eqn:E; simpl.
    - destruct (Nat.eq_dec id n) as [e|e].
      + subst. split; intros _; [left; split; [reflexivity | discriminate] | left; reflexivity].
      + split; [intros [H|H]; [congruence | right; auto] | intros [[H _]|[_ H]]; [congruence | right; exact H]].
    - rewrite filter_neq_In. split; [intros [A B]; right; auto | intros [[_ H]|[A B]]; [congruence | auto]].
  Qed.

  Lemma reconcile_one_misc b h n :
    h_reg (reconcile_one Keq derive b h n) = h_reg h /\
    h_wm (reconcile_one Keq derive b h n) = h_wm h /\
    h_max h <= h_max (reconcile_one Keq derive b h n) /\
    (b_docs b n <> None -> n <= h_max (reconcile_one Keq derive b h n)).
  Proof.
    unfold reconcile_one. destruct (b_docs b n); simpl; repeat split; try lia. intros H; congruence.
  Qed.

  Lemma reconcile_fold_idx b ns : forall h i x,
    In x (h_idx (fold_left (reconcile_one Keq derive b) ns h) i) <->
    In x (h_idx h i) \/ (exists id d, In id ns /\ b_docs b id = Some d /\ In x (keys_of i id d)).
  Proof.
    induction ns as [|n ns IH]; intros h i x; simpl.
    - split; [auto | intros [H|[id [d [[] _]]]]; exact H].
    - rewrite IH, reconcile_one_idx. split.
      + intros [[H|[d [E H]]]|[id [d [A [B C]]]]]; [left; exact H | right; exists n, d; auto | right; exists id, d; auto].
      + intros [H|[id [d [[A|A] [B C]]]]]; [left; left; exact H | subst; left; right; eauto | right; eauto].
  Qed.

  Lemma reconcile_fold_ids b ns : forall h id,
    In id (h_ids (fold_left (reconcile_one Keq derive b) ns h)) <->
    (In id ns /\ b_docs b id <> None) \/ (~ In id ns /\ In id (h_ids h)).
  Proof.
    induction ns as [|n ns IH]; intros h id; simpl.
    - split; [intros H; right; auto | intros [[[] _]|[_ H]]; exact H].
    - rewrite IH, reconcile_one_ids.
      destruct (Nat.eq_dec id n) as [e|e]; destruct (in_dec Nat.eq_dec id ns) as [i|i].
      + subst. split; [intros [[A B]|[A _]]; [left; auto | contradiction] | intros [[_ B]|[A _]]; [left; auto | exfalso; apply A; left; reflexivity]].
      + subst. split.
        * intros [[A _]|[_ [[_ B]|[B _]]]]; [contradiction | left; auto | congruence].
        * intros [[_ B]|[A _]]; [right; split; [exact i | left; auto] | exfalso; apply A; left; reflexivity].
      + split; [intros [[A B]|[A _]]; [left; auto | contradiction] | intros [[_ B]|[A _]]; [left; auto | exfalso; apply A; right; exact i]].
      + split.
        * intros [[A _]|[_ [[A _]|[_ B]]]]; [contradiction | congruence | right; split; [intros [H|H]; [congruence | contradiction] | exact B]].
        * intros [[[A|A] _]|[_ B]]; [congruence | contradiction | right; split; [exact i | right; auto]].
  Qed.

  Lemma reconcile_fold_misc b ns : forall h,
    let h' := fold_left (reconcile_one Keq derive b) ns h in
    h_reg h' = h_reg h /\ h_wm h' = h_wm h /\ h_max h <= h_max h' /\
    (forall id, In id ns -> b_docs b id <> None -> id <= h_max h').
  Proof.
    induction ns as [|n ns IH]; intros h; simpl.
    - repeat split; auto. intros id [].
    - destruct (IH (reconcile_one Keq derive b h n)) as [A [B [C E]]].
      destruct (reconcile_one_misc b h n) as [A' [B' [C' E']]].
      repeat split; try congruence; try lia.
      intros id [H|H] Hd; [subst; specialize (E' Hd); lia | apply E; auto].
  Qed.

  (* repair *)
  Lemma repair_one_idx b h n i x :
    In x (h_idx (repair_one derive b h n) i) <->
    In x (h_idx h i) \/ (exists d, b_docs b n = Some d /\ In x (keys_of i n d)).
  Proof.
    unfold repair_one. destruct (b_docs b n) as [d|] eqn:E; simpl.
    - rewrite In_ins_all. split; [intros [H|H]; [right; eauto | left; exact H] | intros [H|[d' [E' H]]]; [right; exact H | inversion E'; subst; left; exact H]].
    - split; [intros H; left; exact H | intros [H|[d [E' _]]]; [exact H | discriminate]].
  Qed.

  Lemma repair_one_ids b h n id :
    In id (h_ids (repair_one derive b h n)) <-> In id (h_ids h) \/ (id = n /\ b_docs b n <> None).
  Proof.
    unfold repair_one. destruct (b_docs b n) as [d|] eqn:E; simpl.
    - split; [intros [H|H]; [right; split; [auto | discriminate] | left; exact H] | intros [H|[H _]]; [right; exact H | left; auto]].
    - split; [intros H; left; exact H | intros [H|[_ H]]; [exact H | congruence]].
  Qed.

  Lemma repair_one_misc b h n :
    h_reg (repair_one derive b h n) = h_reg h /\
    h_wm (repair_one derive b h n) = h_wm h /\
    h_max h <= h_max (repair_one derive b h n) /\
    (b_docs b n <> None -> n <= h_max (repair_one derive b h n)).
  Proof.
    unfold repair_one. destruct (b_docs b n); simpl; repeat split; try lia. intros H; congruence.
  Qed.

  Lemma repair_fold_idx b ns : forall h i x,
    In x (h_idx (fold_left (repair_one derive b) ns h) i) <->
    In x (h_idx h i) \/ (exists id d, In id ns /\ b_docs b id = Some d /\ In x (keys_of i id d)).
  Proof.
    induction ns as [|n ns IH]; intros h i x; simpl.
    - split; [auto | intros [H|[id [d [[] _]]]]; exact H].
    - rewrite IH, repair_one_idx. split.
      + intros [[H|[d [E H]]]|[id [d [A [B C]]]]]; [left; exact H | right; exists n, d; auto | right; exists id, d; auto].
      + intros [H|[id [d [[A|A] [B C]]]]]; [left; left; exact H | subst; left; right; eauto | right; eauto].
  Qed.

  Lemma repair_fold_ids b ns : forall h id,
    In id (h_ids (fold_left (repair_one derive b) ns h)) <->
    In id (h_ids h) \/ (In id ns /\ b_docs b id <> None).
  Proof.
    induction ns as [|n ns IH]; intros h id; simpl.
    - split; [auto | intros [H|[[] _]]; exact H].
    - rewrite IH, repair_one_ids. split.
      + intros [[H|[A B]]|[A B]]; [left; exact H | subst; right; auto | right; auto].
      + intros [H|[[A|A] B]]; [left; left; exact H | subst; left; right; auto | right; auto].
  Qed.

  Lemma repair_fold_misc b ns : forall h,
    let h' := fold_left (repair_one derive b) ns h in
    h_reg h' = h_reg h /\ h_wm h' = h_wm h /\ h_max h <= h_max h' /\
    (forall id, In id ns -> b_docs b id <> None -> id <= h_max h').
  Proof.
    induction ns as [|n ns IH]; intros h; simpl.
    - repeat split; auto. intros id [].
    - destruct (IH (repair_one derive b h n)) as [A [B [C E]]].
      destruct (repair_one_misc b h n) as [A' [B' [C' E']]].
      repeat split; try congruence; try lia.
      intros id [H|H] Hd; [subst; specialize (E' Hd); lia | apply E; auto].
  Qed.

  Lemma keys_exists_iff b i (S : nat -> Prop) k id :
    (exists id' d, S id' /\ b_docs b id' = Some d /\ In (k, id) (keys_of i id' d)) <->
    (S id /\ DocKey b i k id).
  Proof.
    unfold DocKey. split.
    - intros [id' [d [A [B C]]]]. apply In_keys_of in C. destruct C as [E C]. subst. split; eauto.
    - intros [A [d [B C]]]. exists id, d. repeat split; auto. apply In_keys_of. auto.
  Qed.

  Lemma ImgKey_Named b i k id : ImgKey b i k id -> Named b id.
  Proof. intros [it [A [B _]]]. exists it. auto. Qed.

  (* the repair scan probes EVERY id of (checkpoint, max(max_id, watermark)] *)
  Lemma repair_window_full c t : repair_window c t = seq (S c) (t - c).
  Proof. reflexivity. Qed.

  Lemma repair_window_complete c t id : c < id <= t -> In id (repair_window c t).
  Proof. intros H. rewrite repair_window_full. apply in_seq. lia. Qed.

  (* ---------------------------------------------------------------- recovery converges *)
  Definition Opened (b : backend) (h : handle) : Prop :=
    Consistent b h /\
    (exists mx reg ids, b_meta b = Some (mx, reg) /\ b_ids b = Some ids /\ h_reg h = reg /\ mx <= h_max h /\
                     h_wm h = Nat.max (b_wm b) mx) /\
    (forall id, b_docs b id <> None -> id <= h_max h) /\
    b_wm b <= h_wm h /\
    h_pending h = map (@i_seq D) (b_intents b).

  Theorem open_sync b : Inv b -> exists h, open Keq derive b = Some h /\ Opened b h.
  Proof.
    intros [mx [reg [ids [Hm [Hi [Hreg [Hids1 [Hids2 [HI1 HI4]]]]]]]]].
    unfold open, open_with.
    replace (tags_eqb open_order _) with true by reflexivity.
    rewrite Hm, Hi.
    assert (Hall : forallb (fun i => is_some (b_idx b i)) reg = true).
    { apply forallb_forall. intros i Hin. destruct (Hreg i Hin) as [l [E _]]. rewrite E. reflexivity. }
    rewrite Hall.
    set (h0 := mkHandle ids (fun i => match b_idx b i with Some l => l | None => [] end) reg mx (Nat.max (b_wm b) mx) [] 0).
    eexists. split; [reflexivity|].
    unfold repair, replay. rewrite repair_window_full.
    set (its := b_intents b).
    set (h1 := mkHandle (h_ids h0) (remove_images Keq derive its (h_idx h0)) (h_reg h0) (h_max h0) (h_wm h0)
                        (map (@i_seq D) its) (S (fold_left Nat.max (map (@i_seq D) its) (h_seq h0)))).
    set (h2 := fold_left (reconcile_one Keq derive b) (map (@i_id D) its) h1).
    destruct (reconcile_fold_misc b (map (@i_id D) its) h1) as [R1 [R2 [R3 R4]]]. fold h2 in R1, R2, R3, R4.
    set (rng := seq (S (b_ckpt b)) (Nat.max (h_max h2) (h_wm h2) - b_ckpt b)).
    set (h3 := fold_left (repair_one derive b) rng h2).
    destruct (repair_fold_misc b rng h2) as [Q1 [Q2 [Q3 Q4]]]. fold h3 in Q1, Q2, Q3, Q4.
    simpl in R1, R2, R3.
    assert (Hrng : forall id, b_docs b id <> None -> b_ckpt b < id -> In id rng).
    { intros id Hd Hlt. unfold rng. apply in_seq. specialize (HI1 id Hd). rewrite R2. simpl. lia. }
    assert (Hpend : forall ns h, h_pending (fold_left (reconcile_one Keq derive b) ns h) = h_pending h).
    { induction ns as [|n ns IH]; intros h; simpl; auto. rewrite IH. unfold reconcile_one. destruct (b_docs b n); reflexivity. }
    assert (Hpend2 : forall ns h, h_pending (fold_left (repair_one derive b) ns h) = h_pending h).
    { induction ns as [|n ns IH]; intros h; simpl; auto. rewrite IH. unfold repair_one. destruct (b_docs b n); reflexivity. }
    split; [split|].
    - (* postings *)
      intros i Hin k id. rewrite Q1, R1 in Hin. simpl in Hin.
      destruct (Hreg i Hin) as [l [E [P1 P2]]].
      unfold h3. rewrite repair_fold_idx. unfold h2. rewrite reconcile_fold_idx.
      rewrite !keys_exists_iff. unfold h1. simpl. rewrite remove_images_In. rewrite E.
      split.
      + intros [[[Hl Hno]|[_ Hd]]|[_ Hd]]; auto.
        destruct (P1 k id Hl) as [Hd|[it [A [B C]]]]; auto.
        exfalso. destruct (Hno it A) as [N1 N2]. rewrite B in N1, N2. tauto.
      + intros Hd.
        destruct (in_dec Nat.eq_dec id (map (@i_id D) its)) as [Hn|Hn].
        * left. right. auto.
        * assert (Hnn : ~ Named b id) by (intro X; apply Hn; apply Named_map; exact X).
          destruct (le_lt_dec id (b_ckpt b)) as [Hle|Hgt].
          -- left. left. split; [apply P2; auto|].
             intros it A. split; intro X; apply In_okeys_id in X; apply Hnn; exists it; auto.
          -- right. split; auto. apply Hrng; auto. destruct Hd as [d [Hd _]]. congruence.
    - (* ids *)
      intros id. unfold h3. rewrite repair_fold_ids. unfold h2. rewrite reconcile_fold_ids. unfold h1. simpl.
      split.
      + intros [[[_ Hd]|[Hn Hin]]|[_ Hd]]; auto.
        destruct (Hids1 id Hin) as [Hd|Hnm]; auto. exfalso. apply Hn. apply Named_map. exact Hnm.
      + intros Hd.
        destruct (in_dec Nat.eq_dec id (map (@i_id D) its)) as [Hn|Hn].
        * left. left. auto.
        * assert (Hnn : ~ Named b id) by (intro X; apply Hn; apply Named_map; exact X).
          destruct (le_lt_dec id (b_ckpt b)) as [Hle|Hgt].
          -- left. right. split; auto.
          -- right. split; auto.
    - split; [|split; [|split]].
      + exists mx, reg, ids. repeat split; auto; [congruence | lia | rewrite Q2, R2; reflexivity].
      + intros id Hd.
        destruct (le_lt_dec id (b_ckpt b)) as [Hle|Hgt]; [lia|].
        apply Q4; auto.
      + rewrite Q2, R2. simpl. lia.
      + unfold h3. rewrite Hpend2. unfold h2. rewrite Hpend. reflexivity.
  Qed.

  (* ---------------------------------------------------------------- single backend steps *)
  Notation bstep := (@bstep D K).
  Notation PutIntent := (@MPutIntent D K).
  Notation PutWm := (@MPutWm D K).
  Notation PutDoc := (@MPutDoc D K).
  Notation DelDoc := (@MDelDoc D K).
  Notation PutIdx := (@MPutIdx D K).
  Notation PutMeta := (@MPutMeta D K).
  Notation PutIds := (@MPutIds D K).
  Notation PutCkpt := (@MPutCkpt D K).
  Notation DelIntent := (@MDelIntent D K).
  Notation DelIdx := (@MDelIdx D K).

  Lemma IdxOK_transfer b b' i :
    b_idx b' i = b_idx b i -> b_ckpt b' = b_ckpt b ->
    (forall k id, DocKey b i k id \/ ImgKey b i k id -> DocKey b' i k id \/ ImgKey b' i k id) ->
    (forall k id, id <= b_ckpt b -> ~ Named b' id -> DocKey b' i k id -> ~ Named b id /\ DocKey b i k id) ->
    IdxOK b i -> IdxOK b' i.
  Proof.
    intros E1 E2 H1 H2 [l [E [P1 P2]]]. exists l. rewrite E1. split; auto. split.
    - intros k id Hin. apply H1. apply P1. exact Hin.
    - intros k id Hle Hn Hd. rewrite E2 in Hle. destruct (H2 k id Hle Hn Hd) as [A B]. apply P2; auto.
  Qed.

  Ltac inv_split := split; [try assumption; try reflexivity | split; [try assumption; try reflexivity | split; [|split; [|split; [|split]]]]].

  (* a new pending intent never hurts *)
  Lemma Inv_put_intent b it : Inv b -> Inv (bstep b (PutIntent it)).
  Proof.
    intros [mx [reg [ids [Hm [Hi [Hreg [H1 [H2 [H3 H4]]]]]]]]].
    exists mx, reg, ids. simpl. inv_split.
    - intros i Hin. apply (IdxOK_transfer b); auto.
      + intros k id [Hd|[it' [A [B C]]]]; [left; exact Hd | right; exists it'; simpl; auto].
      + intros k id _ Hn Hd. split; [|exact Hd]. intros [it' [A B]]. apply Hn. exists it'. simpl. auto.
    - intros id Hin. destruct (H1 id Hin) as [A|[it' [A B]]]; [left; exact A | right; exists it'; simpl; auto].
    - intros id Hle Hn Hd. apply H2; auto. intros [it' [A B]]. apply Hn. exists it'. simpl. auto.
    - exact H3.
    - exact H4.
  Qed.

  Lemma Inv_put_wm b w : b_wm b <= w -> Inv b -> Inv (bstep b (PutWm w)).
  Proof.
    intros Hw [mx [reg [ids [Hm [Hi [Hreg [H1 [H2 [H3 H4]]]]]]]]].
    exists mx, reg, ids. simpl. inv_split.
    - intros i Hin. apply (IdxOK_transfer b); auto.
    - exact H1.
    - exact H2.
    - intros id Hd. specialize (H3 id Hd). lia.
    - exact H4.
  Qed.

  Lemma upd_same {A} (f : nat -> A) i v : upd f i v i = v.
  Proof. unfold upd. rewrite Nat.eqb_refl. reflexivity. Qed.

  Lemma upd_other {A} (f : nat -> A) i j v : j <> i -> upd f i v j = f j.
  Proof. intros H. unfold upd. apply Nat.eqb_neq in H. rewrite H. reflexivity. Qed.

  (* add: a document appears at a free id above the checkpoint and within the watermark bound *)
  Lemma Inv_put_doc_fresh b id d :
    b_ckpt b < id -> b_docs b id = None ->
    (forall mx reg, b_meta b = Some (mx, reg) -> id <= Nat.max mx (b_wm b)) ->
    Inv b -> Inv (bstep b (PutDoc id d)).
  Proof.
    intros Hgt Hnone Hbound [mx [reg [ids [Hm [Hi [Hreg [H1 [H2 [H3 H4]]]]]]]]].
    exists mx, reg, ids. simpl. inv_split.
    - intros i Hin. apply (IdxOK_transfer b); auto.
      + intros k n [[d0 [A B]]|Him]; [|right; exact Him].
        destruct (Nat.eq_dec n id) as [e|e]; [subst; congruence|].
        left. exists d0. simpl. rewrite upd_other; auto.
      + intros k n Hle Hn [d0 [A B]]. simpl in A.
        destruct (Nat.eq_dec n id) as [e|e]; [subst; lia|].
        rewrite upd_other in A; auto. split; auto. exists d0. auto.
    - intros n Hin. destruct (Nat.eq_dec n id) as [e|e].
      + subst. left. rewrite upd_same. discriminate.
      + rewrite upd_other; [apply H1; exact Hin | exact e].
    - intros n Hle Hn Hd. destruct (Nat.eq_dec n id) as [e|e]; [subst; lia|].
      rewrite upd_other in Hd; [apply H2; auto | exact e].
    - intros n Hd. destruct (Nat.eq_dec n id) as [e|e].
      + subst. apply (Hbound mx reg). exact Hm.
      + rewrite upd_other in Hd; [apply H3; exact Hd | exact e].
    - exact H4.
  Qed.

  (* update / remove: the document changes AFTER an intent recording its previous image is durable *)
  Lemma Inv_change_named_doc b id dold (o : option D) :
    b_docs b id = Some dold ->
    (exists it, In it (b_intents b) /\ i_id it = id /\ i_prev it = Some dold) ->
    Inv b ->
    Inv (bstep b (match o with Some d => PutDoc id d | None => DelDoc id end)).
  Proof.
    intros Hold [it [Hit [Hid Hprev]]] [mx [reg [ids [Hm [Hi [Hreg [H1 [H2 [H3 H4]]]]]]]]].
    assert (Hnm : forall b', b_intents b' = b_intents b -> Named b' id).
    { intros b' E. exists it. rewrite E. auto. }
    set (b' := bstep b (match o with Some d => PutDoc id d | None => DelDoc id end)).
    assert (Eint : b_intents b' = b_intents b) by (unfold b'; destruct o; reflexivity).
    assert (Eidx : b_idx b' = b_idx b) by (unfold b'; destruct o; reflexivity).
    assert (Eck : b_ckpt b' = b_ckpt b) by (unfold b'; destruct o; reflexivity).
    assert (Edoc : forall n, n <> id -> b_docs b' n = b_docs b n).
    { intros n Hn. unfold b'. destruct o; simpl; rewrite upd_other; auto. }
    assert (Enamed : forall n, Named b' n <-> Named b n).
    { intros n. unfold Named. rewrite Eint. tauto. }
    exists mx, reg, ids.
    split; [unfold b'; destruct o; exact Hm|]. split; [unfold b'; destruct o; exact Hi|].
    split; [|split; [|split; [|split]]].
    - intros i Hin. apply (IdxOK_transfer b); auto. rewrite Eidx; reflexivity.
      + intros k n [[d0 [A B]]|[it' [A [B C]]]].
        * destruct (Nat.eq_dec n id) as [e|e].
          -- subst n. right. exists it. rewrite Eint. repeat split; auto.
             left. rewrite Hprev. simpl. apply In_keys_of. split; auto. congruence.
          -- left. exists d0. rewrite Edoc; auto.
        * right. exists it'. rewrite Eint. auto.
      + intros k n Hle Hn [d0 [A B]].
        destruct (Nat.eq_dec n id) as [e|e]; [subst; exfalso; apply Hn; apply Hnm; exact Eint|].
        rewrite Edoc in A; auto. split; [intro X; apply Hn; apply Enamed; exact X | exists d0; auto].
    - intros n Hin. destruct (Nat.eq_dec n id) as [e|e].
      + subst. right. apply Hnm. exact Eint.
      + rewrite Edoc; auto. destruct (H1 n Hin) as [A|A]; [left; exact A | right; apply Enamed; exact A].
    - intros n Hle Hn Hd. rewrite Eck in Hle.
      destruct (Nat.eq_dec n id) as [e|e]; [subst; exfalso; apply Hn; apply Hnm; exact Eint|].
      rewrite Edoc in Hd; auto. apply H2; auto. intro X. apply Hn. apply Enamed. exact X.
    - intros n Hd. assert (Ew : b_wm b' = b_wm b) by (unfold b'; destruct o; reflexivity). rewrite Ew.
      destruct (Nat.eq_dec n id) as [e|e].
      + subst. apply H3. congruence.
      + rewrite Edoc in Hd; auto.
    - rewrite Eck. exact H4.
  Qed.

End Proofs.
