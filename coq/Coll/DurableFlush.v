(* Coll/DurableFlush.v — every crash prefix of flush (the GENERATED order: indexes, meta, ids,
   checkpoint, retire) started by a consistent live handle leaves a backend that satisfies the
   durable invariant. *)
From Coq Require Import List Arith Bool Lia.
From Verif Require Import Coll.Tags gen.Gen_CollFlush Coll.Durable Coll.DurableProofs Coll.DurableOps.
Import ListNotations.
Open Scope list_scope.

Section Flush.
  Variables D K : Type.
  Variable Keq : forall a b : K, {a = b} + {a <> b}.
  Variable derive : nat -> D -> list K.
  Variable stride : nat.

  Notation backend := (backend D K).
  Notation handle := (handle K).
  Notation Inv := (Inv D K derive).
  Notation IdxOK := (IdxOK D K derive).
  Notation IdxExact := (IdxExact D K derive).
  Notation DocKey := (DocKey D K derive).
  Notation Consistent := (Consistent D K derive).
  Notation Live := (Live D K).
  Notation op_steps := (@op_steps D K Keq derive stride).
  Notation crash := (@crash D K).
  Notation brun := (@brun D K).
  Notation bstep := (@bstep D K).
  Notation PutIdx := (@MPutIdx D K).
  Notation PutMeta := (@MPutMeta D K).
  Notation PutIds := (@MPutIds D K).
  Notation PutCkpt := (@MPutCkpt D K).
  Notation DelIntent := (@MDelIntent D K).

  Lemma brun_app b l1 l2 : brun b (l1 ++ l2) = brun (brun b l1) l2.
  Proof. unfold Durable.brun. apply fold_left_app. Qed.

  (* everything except the index snapshots *)
  Definition Frame (b b' : backend) : Prop :=
    b_docs b' = b_docs b /\ b_meta b' = b_meta b /\ b_ids b' = b_ids b /\ b_ckpt b' = b_ckpt b /\
    b_wm b' = b_wm b /\ b_intents b' = b_intents b.

  Lemma Frame_refl b : Frame b b.
  Proof. repeat split. Qed.

  Lemma DocKey_docs b b' i k id : b_docs b' = b_docs b -> DocKey b' i k id <-> DocKey b i k id.
  Proof. intros E. unfold DurableProofs.DocKey. rewrite E. tauto. Qed.

  Lemma IdxExact_docs b b' i : b_docs b' = b_docs b -> b_idx b' i = b_idx b i -> IdxExact b i -> IdxExact b' i.
  Proof.
    intros E1 E2 [l [E H]]. exists l. rewrite E2. split; auto.
    intros k id. rewrite H. symmetry. apply DocKey_docs. exact E1.
  Qed.

  Lemma upd_idx_same (f : nat -> option (list (posting K))) i v : upd f i v i = v.
  Proof. unfold upd. rewrite Nat.eqb_refl. reflexivity. Qed.

  Lemma upd_idx_other (f : nat -> option (list (posting K))) i j v : j <> i -> upd f i v j = f j.
  Proof. intros H. unfold upd. apply Nat.eqb_neq in H. rewrite H. reflexivity. Qed.

  (* one index commits an exact snapshot *)
  Lemma Inv_put_idx_exact b i l :
    (forall k id, In (k, id) l <-> DocKey b i k id) -> Inv b -> Inv (bstep b (PutIdx i l)).
  Proof.
    intros Hex [mx [reg [ids [Hm [Hi [Hreg [H1 [H2 [H3 H4]]]]]]]]].
    exists mx, reg, ids. simpl.
    split; [exact Hm|]. split; [exact Hi|]. split; [|split; [|split; [|split]]]; auto.
    intros j Hin. destruct (Nat.eq_dec j i) as [e|e].
    - subst. apply IdxExact_OK. exists l. simpl. rewrite upd_idx_same. split; auto.
    - apply (IdxOK_transfer D K derive b); auto. simpl. apply upd_idx_other. exact e.
  Qed.

  Section WithHandle.
    Variable h : handle.
    Variable b0 : backend.
    Hypothesis Hcons : Consistent b0 h.

    Definition puts (l : list nat) := map (fun i => PutIdx i (h_idx h i)) l.

    Lemma phaseA l : (forall i, In i l -> In i (h_reg h)) ->
      forall b, Inv b -> Frame b0 b ->
      forall k, Inv (brun b (firstn k (puts l))) /\ Frame b0 (brun b (firstn k (puts l))).
    Proof.
      induction l as [|i l IH]; intros Hl b HI HF k.
      - simpl. rewrite firstn_nil. simpl. auto.
      - destruct k as [|k]; [simpl; auto|].
        simpl. change (fold_left bstep (firstn k (puts l)) (bstep b (PutIdx i (h_idx h i))))
          with (brun (bstep b (PutIdx i (h_idx h i))) (firstn k (puts l))).
        apply IH.
        + intros j Hj. apply Hl. right. exact Hj.
        + apply Inv_put_idx_exact; auto. intros k0 id. destruct Hcons as [Hc _].
          rewrite (Hc i (Hl i (or_introl eq_refl))). symmetry. apply DocKey_docs. destruct HF as [E _]. exact E.
        + destruct HF as [A [B [C [E [F G]]]]]. unfold Frame. simpl. split; [exact A|]. split; [exact B|]. split; [exact C|]. split; [exact E|]. split; [exact F| exact G].
    Qed.

    Lemma phaseA_exact l : (forall i, In i l -> In i (h_reg h)) ->
      forall b, Frame b0 b ->
      forall i, In i (h_reg h) -> In i l \/ IdxExact b i -> IdxExact (brun b (puts l)) i.
    Proof.
      induction l as [|j l IH]; intros Hl b HF i Hreg Hi.
      - simpl. destruct Hi as [[]|Hi]. exact Hi.
      - simpl. change (fold_left bstep (puts l) (bstep b (PutIdx j (h_idx h j))))
          with (brun (bstep b (PutIdx j (h_idx h j))) (puts l)).
        apply IH; [ | | exact Hreg | ].
        + intros x Hx. apply Hl. right. exact Hx.
        + destruct HF as [A [B [C [E [F G]]]]]. unfold Frame. simpl. split; [exact A|]. split; [exact B|]. split; [exact C|]. split; [exact E|]. split; [exact F| exact G].
        + destruct (Nat.eq_dec i j) as [e|e].
          * subst. right. exists (h_idx h j). simpl. rewrite upd_idx_same. split; auto.
            intros k id. destruct Hcons as [Hc _]. rewrite (Hc j Hreg). symmetry. apply DocKey_docs.
            destruct HF as [E _]. exact E.
          * destruct Hi as [[Hi|Hi]|Hi]; [congruence | left; exact Hi |].
            right. apply (IdxExact_docs b); auto. simpl. apply upd_idx_other. exact e.
    Qed.

    Hypothesis Hlive : forall id, b_docs b0 id <> None -> id <= h_max h.

    (* exact snapshots for every registered index, the new metadata and the exact id set are durable *)
    Definition G (b : backend) : Prop :=
      (forall i, In i (h_reg h) -> IdxExact b i) /\
      b_meta b = Some (h_max h, h_reg h) /\ b_ids b = Some (h_ids h) /\
      b_docs b = b_docs b0 /\ b_ckpt b <= h_max h /\ b_wm b = b_wm b0.

    Lemma G_Inv b : G b -> Inv b.
    Proof.
      intros [Hex [Hm [Hi [Hd [Hc _]]]]]. destruct Hcons as [_ Hids].
      exists (h_max h), (h_reg h), (h_ids h).
      split; [exact Hm|]. split; [exact Hi|]. split; [|split; [|split; [|split]]].
      - intros i Hin. apply IdxExact_OK. apply Hex. exact Hin.
      - intros id Hin. left. rewrite Hd. apply Hids. exact Hin.
      - intros id _ _ Hdoc. apply Hids. rewrite <- Hd. exact Hdoc.
      - intros id Hdoc. rewrite Hd in Hdoc. specialize (Hlive id Hdoc). lia.
      - exact Hc.
    Qed.

    Lemma G_retire l : forall b k, G b -> G (brun b (firstn k (map DelIntent l))).
    Proof.
      induction l as [|s l IH]; intros b k HG.
      - simpl. rewrite firstn_nil. exact HG.
      - destruct k as [|k]; [exact HG|]. simpl.
        change (fold_left bstep (firstn k (map DelIntent l)) (bstep b (DelIntent s)))
          with (brun (bstep b (DelIntent s)) (firstn k (map DelIntent l))).
        apply IH. destruct HG as [Hex [Hm [Hi [Hd [Hc Hw]]]]].
        split; [|simpl; split; [exact Hm | split; [exact Hi | split; [exact Hd | split; [exact Hc | exact Hw]]]]].
        intros i Hin. apply (IdxExact_docs b); [reflexivity | reflexivity | apply Hex; exact Hin].
    Qed.

    Lemma Inv_put_meta_exact b :
      Inv b -> b_docs b = b_docs b0 -> (forall i, In i (h_reg h) -> IdxExact b i) -> b_ckpt b <= h_max h ->
      Inv (bstep b (PutMeta (h_max h) (h_reg h))).
    Proof.
      intros [mx [reg [ids [Hm [Hi [Hreg [H1 [H2 [H3 H4]]]]]]]]] Hd Hex Hc.
      exists (h_max h), (h_reg h), ids. simpl.
      split; [reflexivity|]. split; [exact Hi|]. split; [|split; [|split; [|split]]].
      - intros i Hin. apply IdxExact_OK. apply (IdxExact_docs b); [reflexivity | reflexivity | apply Hex; exact Hin].
      - exact H1.
      - exact H2.
      - intros id Hdoc. rewrite Hd in Hdoc. specialize (Hlive id Hdoc). lia.
      - exact Hc.
    Qed.
  End WithHandle.

  Lemma hrun_puts (h h' : handle) l : @hrun D K Keq derive h' (map (fun i => PutIdx i (h_idx h i)) l) = h'.
  Proof. induction l as [|i l IH]; simpl; auto. Qed.

  Lemma flush_steps_eq h :
    op_steps (OFlush D) h =
    puts h (h_reg h) ++ PutMeta (h_max h) (h_reg h) :: PutIds (h_ids h) :: PutCkpt (h_max h) :: map DelIntent (h_pending h).
  Proof.
    unfold op_steps. change flush_order with [TIndexes; TMeta; TIds; TCheckpoint; TRetire].
    cbn [expand tag_steps]. rewrite !hrun_puts. simpl. rewrite app_nil_r. reflexivity.
  Qed.

  (* ---------------------------------------------------------------- the theorem *)
  Theorem flush_prefix_Inv b h :
    Inv b -> Consistent b h -> Live b h ->
    forall k, Inv (crash k (op_steps (OFlush D) h) b).
  Proof.
    intros HI HC [mx [reg [Hm [Hmx [Hlv [Hw1 Hw2]]]]]] k.
    rewrite flush_steps_eq. unfold crash. rewrite firstn_app, brun_app.
    set (l := h_reg h).
    assert (Hl : forall i, In i l -> In i (h_reg h)) by (intros i Hi; exact Hi).
    destruct (phaseA h b HC l Hl b HI (Frame_refl b) k) as [IA FA].
    set (bA := brun b (firstn k (puts h l))) in *.
    destruct (le_lt_dec (length (puts h l)) k) as [Hge|Hlt].
    2: { replace (k - length (puts h l)) with 0 by lia. simpl. exact IA. }
    assert (EA : forall i, In i (h_reg h) -> IdxExact bA i).
    { intros i Hi. unfold bA. rewrite firstn_all2 by exact Hge.
      apply (phaseA_exact h b HC l Hl b (Frame_refl b) i Hi). left. exact Hi. }
    destruct FA as [Fd [Fm [Fi [Fc [Fw Fint]]]]].
    assert (HcA : b_ckpt bA <= h_max h).
    { rewrite Fc. pose proof (Inv_ckpt_le D K derive b mx reg HI Hm). lia. }
    remember (k - length (puts h l)) as n. destruct n as [|n]; [simpl; exact IA|].
    simpl.
    assert (I1 : Inv (bstep bA (PutMeta (h_max h) (h_reg h)))).
    { apply (Inv_put_meta_exact h b Hlv bA IA Fd EA HcA). }
    destruct n as [|n]; [rewrite firstn_O; simpl; exact I1|].
    simpl.
    set (b2 := bstep (bstep bA (PutMeta (h_max h) (h_reg h))) (PutIds (h_ids h))).
    assert (G2 : G h b b2).
    { unfold G, b2. simpl. split; [|split; [reflexivity | split; [reflexivity | split; [exact Fd | split; [exact HcA | exact Fw]]]]].
      intros i Hi. apply (IdxExact_docs bA); [reflexivity | reflexivity | apply EA; exact Hi]. }
    destruct n as [|n]; [rewrite firstn_O; simpl; apply (G_Inv h b HC Hlv); exact G2|].
    simpl.
    set (b3 := bstep b2 (PutCkpt (h_max h))).
    assert (G3 : G h b b3).
    { destruct G2 as [Hex [Gm [Gi [Gd [Gc Gw]]]]]. unfold G, b3. simpl.
      split; [|split; [exact Gm | split; [exact Gi | split; [exact Gd | split; [lia | exact Gw]]]]].
      intros i Hi. apply (IdxExact_docs b2); [reflexivity | reflexivity | apply Hex; exact Hi]. }
    apply (G_Inv h b HC Hlv). apply (G_retire h b). exact G3.
  Qed.

  (* the completed flush: exact snapshots, the new metadata and the exact ids are durable *)
  Theorem flush_complete_G b h :
    Inv b -> Consistent b h -> Live b h -> G h b (brun b (op_steps (OFlush D) h)).
  Proof.
    intros HI HC [mx [reg [Hm [Hmx [Hlv [Hw1 Hw2]]]]]].
    rewrite flush_steps_eq. rewrite brun_app.
    set (l := h_reg h).
    assert (Hl : forall i, In i l -> In i (h_reg h)) by (intros i Hi; exact Hi).
    destruct (phaseA h b HC l Hl b HI (Frame_refl b) (length (puts h l))) as [IA FA].
    rewrite firstn_all in IA, FA.
    set (bA := brun b (puts h l)) in *.
    assert (EA : forall i, In i (h_reg h) -> IdxExact bA i).
    { intros i Hi. apply (phaseA_exact h b HC l Hl b (Frame_refl b) i Hi). left. exact Hi. }
    destruct FA as [Fd [Fm [Fi [Fc [Fw Fint]]]]].
    assert (HcA : b_ckpt bA <= h_max h).
    { rewrite Fc. pose proof (Inv_ckpt_le D K derive b mx reg HI Hm). lia. }
    simpl.
    set (b3 := bstep (bstep (bstep bA (PutMeta (h_max h) (h_reg h))) (PutIds (h_ids h))) (PutCkpt (h_max h))).
    assert (G3 : G h b b3).
    { unfold G, b3. simpl. split; [|split; [reflexivity | split; [reflexivity | split; [exact Fd | split; [lia | exact Fw]]]]].
      intros i Hi. apply (IdxExact_docs bA); [reflexivity | reflexivity | apply EA; exact Hi]. }
    pose proof (G_retire h b (h_pending h) b3 (length (map DelIntent (h_pending h))) G3) as X.
    rewrite firstn_all in X. exact X.
  Qed.

  (* the metadata a crash inside flush leaves is the old one or the new one *)
  Lemma flush_prefix_meta b h k :
    b_meta (crash k (op_steps (OFlush D) h) b) = b_meta b \/
    b_meta (crash k (op_steps (OFlush D) h) b) = Some (h_max h, h_reg h).
  Proof.
    rewrite flush_steps_eq. unfold crash. rewrite firstn_app, brun_app.
    assert (A : forall l b' j, b_meta (brun b' (firstn j (puts h l))) = b_meta b').
    { induction l as [|i l IH]; intros b' j; [simpl; rewrite firstn_nil; reflexivity|].
      destruct j; [reflexivity|]. simpl.
      change (fold_left bstep (firstn j (puts h l)) (bstep b' (PutIdx i (h_idx h i))))
        with (brun (bstep b' (PutIdx i (h_idx h i))) (firstn j (puts h l))). rewrite IH. reflexivity. }
    assert (B : forall l b' j, b_meta (brun b' (firstn j (map DelIntent l))) = b_meta b').
    { induction l as [|i l IH]; intros b' j; [simpl; rewrite firstn_nil; reflexivity|].
      destruct j; [reflexivity|]. simpl.
      change (fold_left bstep (firstn j (map DelIntent l)) (bstep b' (DelIntent i)))
        with (brun (bstep b' (DelIntent i)) (firstn j (map DelIntent l))). rewrite IH. reflexivity. }
    set (bA := brun b (firstn k (puts h (h_reg h)))).
    assert (EA : b_meta bA = b_meta b) by apply A.
    destruct (k - length (puts h (h_reg h))) as [|n]; [left; exact EA|].
    right. simpl. destruct n as [|n]; [rewrite firstn_O; reflexivity|]. simpl.
    destruct n as [|n]; [rewrite firstn_O; reflexivity|]. simpl. rewrite B. reflexivity.
  Qed.
End Flush.
