(* Coll/Monitor.v — executable monitors for C01 and C02 and the model of index-key derivation.

   The harness (harness/h_collcrash) dumps, after every recovery and at every quiescent point,
   what the implementation answers: ids(), len(), get(id) for every id, and for every index and
   key the ids returned by query_all_ids(Eq k) / BM25 term search / HNSW search.  The monitors
   below judge those dumps:

     consistent_b ixs dump : bool      (C02)  — proved sound for [ConsistentDump]
     durable_ok spec obs   : bool      (C01)  — proved sound for [DurableOK]

   [derive] is the model of IndexHooks' default derivation (rs/anda_db/src/index/mod.rs:23-110)
   and of the BTree wrapper's key handling (index/btree.rs:363-566): Null is skipped, an array
   is expanded into one key per element, a map is indexed by its keys, a multi-field index has
   exactly one composite key per document (nulls included), a non-negative I64 read back as
   U64 addresses the same posting (canonicalisation), BM25 owns one posting per distinct token,
   HNSW one entry per document that carries a vector.  Text is supplied tokenised: the
   tokenizer is in the trusted base. *)
From Coq Require Import List ZArith String Bool Arith Lia.
Import ListNotations.
Open Scope list_scope.

(* ------------------------------------------------------------------ values, keys, documents *)
Inductive value : Type :=
  | VNull
  | VU (n : Z)
  | VI (n : Z)
  | VT (s : string)
  | VTs (l : list string)      (* array of text / map keys / token list *)
  | VVec (bits : list Z).

Inductive kty : Type := TyU | TyI | TyT | TyB.

Inductive key : Type :=
  | KU (n : Z)
  | KI (n : Z)
  | KT (s : string)
  | KTup (l : list value)
  | KUnit.

Inductive ixdesc : Type :=
  | IxB (fields : list string) (ty : kty)    (* B-tree; two or more fields = composite unique *)
  | IxT (fields : list string)               (* BM25 *)
  | IxV (field : string).                    (* HNSW *)

Definition doc := list (string * value).

Fixpoint list_eqb {A} (eqb : A -> A -> bool) (a b : list A) : bool :=
  match a, b with
  | [], [] => true
  | x :: a', y :: b' => eqb x y && list_eqb eqb a' b'
  | _, _ => false
  end.

Lemma list_eqb_eq {A} (eqb : A -> A -> bool) :
  (forall x y, eqb x y = true <-> x = y) ->
  forall a b, list_eqb eqb a b = true <-> a = b.
Proof.
  intros H a. induction a as [|x a IH]; destruct b as [|y b]; simpl; split; intros E;
    try reflexivity; try discriminate.
  - apply andb_true_iff in E. destruct E as [E1 E2]. apply H in E1. apply IH in E2. congruence.
  - inversion E; subst. apply andb_true_iff. split; [apply H | apply IH]; reflexivity.
Qed.

Definition value_eqb (a b : value) : bool :=
  match a, b with
  | VNull, VNull => true
  | VU x, VU y => Z.eqb x y
  | VI x, VI y => Z.eqb x y
  | VT x, VT y => String.eqb x y
  | VTs x, VTs y => list_eqb String.eqb x y
  | VVec x, VVec y => list_eqb Z.eqb x y
  | _, _ => false
  end.

Lemma value_eqb_eq a b : value_eqb a b = true <-> a = b.
Proof.
  destruct a, b; simpl; split; intros H; try reflexivity; try discriminate;
    try (apply Z.eqb_eq in H; congruence);
    try (inversion H; subst; apply Z.eqb_refl).
  - apply String.eqb_eq in H. congruence.
  - inversion H; subst. apply String.eqb_refl.
  - apply (list_eqb_eq String.eqb String.eqb_eq) in H. congruence.
  - inversion H; subst. apply (list_eqb_eq String.eqb String.eqb_eq). reflexivity.
  - apply (list_eqb_eq Z.eqb Z.eqb_eq) in H. congruence.
  - inversion H; subst. apply (list_eqb_eq Z.eqb Z.eqb_eq). reflexivity.
Qed.

Definition key_eqb (a b : key) : bool :=
  match a, b with
  | KU x, KU y => Z.eqb x y
  | KI x, KI y => Z.eqb x y
  | KT x, KT y => String.eqb x y
  | KTup x, KTup y => list_eqb value_eqb x y
  | KUnit, KUnit => true
  | _, _ => false
  end.

Lemma key_eqb_eq a b : key_eqb a b = true <-> a = b.
Proof.
  destruct a, b; simpl; split; intros H; try reflexivity; try discriminate;
    try (apply Z.eqb_eq in H; congruence);
    try (inversion H; subst; apply Z.eqb_refl).
  - apply String.eqb_eq in H. congruence.
  - inversion H; subst. apply String.eqb_refl.
  - apply (list_eqb_eq value_eqb value_eqb_eq) in H. congruence.
  - inversion H; subst. apply (list_eqb_eq value_eqb value_eqb_eq). reflexivity.
Qed.

Definition field_eqb (a b : string * value) : bool :=
  String.eqb (fst a) (fst b) && value_eqb (snd a) (snd b).

Lemma field_eqb_eq a b : field_eqb a b = true <-> a = b.
Proof.
  destruct a as [f v], b as [g w]. unfold field_eqb; simpl. split; intros H.
  - apply andb_true_iff in H. destruct H as [H1 H2].
    apply String.eqb_eq in H1. apply value_eqb_eq in H2. congruence.
  - inversion H; subst. apply andb_true_iff. split; [apply String.eqb_refl | apply value_eqb_eq; reflexivity].
Qed.

Definition doc_eqb (a b : doc) : bool := list_eqb field_eqb a b.

Lemma doc_eqb_eq a b : doc_eqb a b = true <-> a = b.
Proof. apply (list_eqb_eq field_eqb field_eqb_eq). Qed.

Definition odoc_eqb (a b : option doc) : bool :=
  match a, b with
  | None, None => true
  | Some x, Some y => doc_eqb x y
  | _, _ => false
  end.

Lemma odoc_eqb_eq a b : odoc_eqb a b = true <-> a = b.
Proof.
  destruct a, b; simpl; split; intros H; try reflexivity; try discriminate.
  - apply doc_eqb_eq in H. congruence.
  - inversion H; subst. apply doc_eqb_eq. reflexivity.
Qed.

(* ------------------------------------------------------------------ derivation of index keys *)
Fixpoint get_field (d : doc) (f : string) : value :=
  match d with
  | [] => VNull
  | (g, v) :: r => if String.eqb g f then v else get_field r f
  end.

(* single-field B-tree: Null skipped, array/map expanded, I64/U64 canonicalised *)
Definition scalar_keys (ty : kty) (v : value) : list key :=
  match v with
  | VNull => []
  | VU n => [match ty with TyI => KI n | _ => KU n end]
  | VI n => [KI n]
  | VT s => [KT s]
  | VTs l => map KT l
  | VVec _ => []
  end.

Definition text_keys (v : value) : list key :=
  match v with
  | VT s => [KT s]
  | VTs l => map KT l
  | _ => []
  end.

Definition derive (ix : ixdesc) (d : doc) : list key :=
  match ix with
  | IxB [] _ => []
  | IxB [f] ty => scalar_keys ty (get_field d f)
  | IxB fs _ => [KTup (map (get_field d) fs)]
  | IxT fs => flat_map (fun f => text_keys (get_field d f)) fs
  | IxV f => match get_field d f with VVec _ => [KUnit] | _ => [] end
  end.

(* ------------------------------------------------------------------ dumps *)
Definition postings := list (key * list Z).

(* ids(), len(), fetchable documents, per-index answers, per-index entry count (HNSW only) *)
Definition dump := (list Z * Z * list (Z * doc) * list postings * list (option Z))%type.

Definition d_ids (d : dump) : list Z := let '(i, _, _, _, _) := d in i.
Definition d_len (d : dump) : Z := let '(_, l, _, _, _) := d in l.
Definition d_docs (d : dump) : list (Z * doc) := let '(_, _, x, _, _) := d in x.
Definition d_post (d : dump) : list postings := let '(_, _, _, p, _) := d in p.
Definition d_counts (d : dump) : list (option Z) := let '(_, _, _, _, c) := d in c.

Definition lookup (p : postings) (k : key) : list Z :=
  flat_map (fun e => if key_eqb (fst e) k then snd e else []) p.

Fixpoint find_doc (docs : list (Z * doc)) (id : Z) : option doc :=
  match docs with
  | [] => None
  | (i, d) :: r => if Z.eqb i id then Some d else find_doc r id
  end.

Definition mem_key (k : key) (l : list key) : bool := existsb (key_eqb k) l.
Definition mem_Z (x : Z) (l : list Z) : bool := existsb (Z.eqb x) l.

Lemma mem_key_In k l : mem_key k l = true <-> In k l.
Proof.
  unfold mem_key. rewrite existsb_exists. split.
  - intros [x [Hx E]]. apply key_eqb_eq in E. subst. exact Hx.
  - intros H. exists k. split; auto. apply key_eqb_eq. reflexivity.
Qed.

Lemma mem_Z_In x l : mem_Z x l = true <-> In x l.
Proof.
  unfold mem_Z. rewrite existsb_exists. split.
  - intros [y [Hy E]]. apply Z.eqb_eq in E. subst. exact Hy.
  - intros H. exists x. split; auto. apply Z.eqb_refl.
Qed.

Lemma find_doc_In docs id d : find_doc docs id = Some d -> In (id, d) docs.
Proof.
  induction docs as [|[i x] r IH]; simpl; intros H; [discriminate|].
  destruct (Z.eqb i id) eqn:E.
  - apply Z.eqb_eq in E. inversion H; subst. left; reflexivity.
  - right. apply IH. exact H.
Qed.

Lemma lookup_In p k id : In id (lookup p k) <-> exists l, In (k, l) p /\ In id l.
Proof.
  unfold lookup. rewrite in_flat_map. split.
  - intros [[k' l] [Hin H]]. simpl in H. destruct (key_eqb k' k) eqn:E; [|contradiction].
    apply key_eqb_eq in E. subst. exists l. split; auto.
  - intros [l [Hin H]]. exists (k, l). split; auto. simpl.
    assert (E : key_eqb k k = true) by (apply key_eqb_eq; reflexivity). rewrite E. exact H.
Qed.

(* ------------------------------------------------------------------ C02: the specification *)
(* document [id] is live and owns key [k] in index [ix] *)
Definition owns (ix : ixdesc) (docs : list (Z * doc)) (k : key) (id : Z) : Prop :=
  exists d, In (id, d) docs /\ In k (derive ix d).

Definition has_vector (f : string) (e : Z * doc) : bool :=
  match get_field (snd e) f with VVec _ => true | _ => false end.

(* what one index must answer *)
Definition IndexExact (ix : ixdesc) (docs : list (Z * doc)) (p : postings) (c : option Z) : Prop :=
  match ix with
  | IxV f =>
      (* vector search returns only live documents that carry a vector; the index holds
         exactly one entry per such document *)
      (forall k id, In id (lookup p k) -> owns ix docs k id) /\
      c = Some (Z.of_nat (List.length (filter (has_vector f) docs)))
  | _ =>
      (* both directions of the index <-> document relation *)
      forall k id, In id (lookup p k) <-> owns ix docs k id
  end.

Inductive AllIndexes : list ixdesc -> list (Z * doc) -> list postings -> list (option Z) -> Prop :=
  | AllNil docs : AllIndexes [] docs [] []
  | AllCons ix ixs docs p ps c cs :
      IndexExact ix docs p c -> AllIndexes ixs docs ps cs ->
      AllIndexes (ix :: ixs) docs (p :: ps) (c :: cs).

Definition ConsistentDump (ixs : list ixdesc) (d : dump) : Prop :=
  (* the id set the collection reports = the documents that can be fetched; counts agree *)
  (forall id, In id (d_ids d) <-> exists x, In (id, x) (d_docs d)) /\
  d_len d = Z.of_nat (List.length (d_ids d)) /\
  List.length (d_ids d) = List.length (d_docs d) /\
  AllIndexes ixs (d_docs d) (d_post d) (d_counts d).

(* ------------------------------------------------------------------ C02: the monitor *)
Definition sound_b (ix : ixdesc) (docs : list (Z * doc)) (p : postings) : bool :=
  forallb (fun e =>
    forallb (fun id =>
      match find_doc docs id with
      | Some d => mem_key (fst e) (derive ix d)
      | None => false
      end) (snd e)) p.

Definition complete_b (ix : ixdesc) (docs : list (Z * doc)) (p : postings) : bool :=
  forallb (fun e =>
    forallb (fun k => mem_Z (fst e) (lookup p k)) (derive ix (snd e))) docs.

Definition oZ_eqb (a b : option Z) : bool :=
  match a, b with
  | Some x, Some y => Z.eqb x y
  | None, None => true
  | _, _ => false
  end.

Definition index_b (ix : ixdesc) (docs : list (Z * doc)) (p : postings) (c : option Z) : bool :=
  match ix with
  | IxV f => sound_b ix docs p &&
             oZ_eqb c (Some (Z.of_nat (List.length (filter (has_vector f) docs))))
  | _ => sound_b ix docs p && complete_b ix docs p
  end.

Fixpoint all_indexes_b (ixs : list ixdesc) (docs : list (Z * doc)) (ps : list postings)
         (cs : list (option Z)) : bool :=
  match ixs, ps, cs with
  | [], [], [] => true
  | ix :: ixs', p :: ps', c :: cs' => index_b ix docs p c && all_indexes_b ixs' docs ps' cs'
  | _, _, _ => false
  end.

Definition consistent_b (ixs : list ixdesc) (d : dump) : bool :=
  list_eqb Z.eqb (d_ids d) (map fst (d_docs d)) &&
  Z.eqb (d_len d) (Z.of_nat (List.length (d_ids d))) &&
  all_indexes_b ixs (d_docs d) (d_post d) (d_counts d).

Lemma sound_b_spec ix docs p :
  sound_b ix docs p = true -> forall k id, In id (lookup p k) -> owns ix docs k id.
Proof.
  unfold sound_b. rewrite forallb_forall. intros H k id Hin.
  apply lookup_In in Hin. destruct Hin as [l [Hp Hl]].
  specialize (H (k, l) Hp). simpl in H. rewrite forallb_forall in H. specialize (H id Hl).
  destruct (find_doc docs id) as [d|] eqn:E; [|discriminate].
  exists d. split.
  - apply find_doc_In. exact E.
  - apply mem_key_In. exact H.
Qed.

Lemma complete_b_spec ix docs p :
  complete_b ix docs p = true -> forall k id, owns ix docs k id -> In id (lookup p k).
Proof.
  unfold complete_b. rewrite forallb_forall. intros H k id [d [Hd Hk]].
  specialize (H (id, d) Hd). simpl in H. rewrite forallb_forall in H.
  apply mem_Z_In. apply H. exact Hk.
Qed.

Lemma index_b_spec ix docs p c : index_b ix docs p c = true -> IndexExact ix docs p c.
Proof.
  destruct ix as [fs ty|fs|f]; simpl; intros H; apply andb_true_iff in H; destruct H as [H1 H2].
  - intros k id. split; [apply sound_b_spec | apply complete_b_spec]; assumption.
  - intros k id. split; [apply sound_b_spec | apply complete_b_spec]; assumption.
  - split.
    + apply sound_b_spec. exact H1.
    + destruct c as [z|]; simpl in H2; [|discriminate]. apply Z.eqb_eq in H2. congruence.
Qed.

Lemma all_indexes_b_spec ixs docs : forall ps cs,
  all_indexes_b ixs docs ps cs = true -> AllIndexes ixs docs ps cs.
Proof.
  induction ixs as [|ix ixs IH]; intros ps cs H.
  - destruct ps, cs; simpl in H; try discriminate. constructor.
  - destruct ps as [|p ps], cs as [|c cs]; simpl in H; try discriminate.
    apply andb_true_iff in H. destruct H as [H1 H2].
    constructor; [apply index_b_spec; exact H1 | apply IH; exact H2].
Qed.

Theorem consistent_b_sound ixs d : consistent_b ixs d = true -> ConsistentDump ixs d.
Proof.
  unfold consistent_b, ConsistentDump. intros H.
  apply andb_true_iff in H. destruct H as [H H3].
  apply andb_true_iff in H. destruct H as [H1 H2].
  apply (list_eqb_eq Z.eqb Z.eqb_eq) in H1. apply Z.eqb_eq in H2.
  repeat split.
  - rewrite H1. intros Hin. apply in_map_iff in Hin. destruct Hin as [[i x] [E Hin]].
    simpl in E. subst. exists x. exact Hin.
  - rewrite H1. intros [x Hin]. apply in_map_iff. exists (id, x). split; auto.
  - exact H2.
  - rewrite H1. apply map_length.
  - apply all_indexes_b_spec. exact H3.
Qed.

(* ------------------------------------------------------------------ C01: the specification *)
(* acked: the documents as the acknowledged calls left them; flushed: as of the last
   acknowledged flush/close; inflight: the operation cut by the crash (id, before, after);
   flushed_max: the largest id any acknowledged flush covered; new_id: the id the first
   post-recovery add was given. *)
Definition spec := (list (Z * doc) * list (Z * doc) * option (Z * option doc * option doc) * Z * option Z)%type.
(* ids(), fetchable documents, ids that are listed but unreadable *)
Definition obs := (list Z * list (Z * doc) * list Z)%type.

Definition is_inflight (inf : option (Z * option doc * option doc)) (id : Z) : bool :=
  match inf with Some (i, _, _) => Z.eqb i id | None => false end.

Definition DurableOK (s : spec) (o : obs) : Prop :=
  let '(acked, flushed, inf, fmax, newid) := s in
  let '(ids, docs, bad) := o in
  (* never a mixed or undecodable document *)
  bad = [] /\
  (* acked_in_effect: every acknowledged add/update/remove is in effect ... *)
  (forall id d, In (id, d) acked -> is_inflight inf id = false -> find_doc docs id = Some d) /\
  (forall id, find_doc acked id = None -> is_inflight inf id = false -> find_doc docs id = None) /\
  (* flushed_intact: ... in particular everything flushed and untouched since *)
  (forall id d, In (id, d) flushed -> find_doc acked id = Some d -> is_inflight inf id = false ->
                find_doc docs id = Some d) /\
  (* the operation in flight is fully applied or not at all *)
  (forall i b a, inf = Some (i, b, a) -> find_doc docs i = b \/ find_doc docs i = a) /\
  (* id_not_reused *)
  (forall n, newid = Some n -> (fmax < n)%Z /\ find_doc docs n = None).

Definition keys_unique (l : list (Z * doc)) : bool :=
  forallb (fun e => odoc_eqb (find_doc l (fst e)) (Some (snd e))) l.

Definition durable_ok (s : spec) (o : obs) : bool :=
  let '(acked, flushed, inf, fmax, newid) := s in
  let '(ids, docs, bad) := o in
  match bad with [] => true | _ => false end &&
  keys_unique acked &&
  forallb (fun e => is_inflight inf (fst e) || odoc_eqb (find_doc docs (fst e)) (Some (snd e))) acked &&
  forallb (fun e => is_inflight inf (fst e) ||
                    match find_doc acked (fst e) with Some _ => true | None => false end) docs &&
  match inf with
  | Some (i, b, a) => odoc_eqb (find_doc docs i) b || odoc_eqb (find_doc docs i) a
  | None => true
  end &&
  match newid with
  | Some n => Z.ltb fmax n && match find_doc docs n with None => true | Some _ => false end
  | None => true
  end.

Lemma find_doc_None_not_In l id : find_doc l id = None -> forall d, ~ In (id, d) l.
Proof.
  induction l as [|[i x] r IH]; simpl; intros H d Hin; [exact Hin|].
  destruct (Z.eqb i id) eqn:E; [discriminate|].
  destruct Hin as [Hin|Hin].
  - inversion Hin; subst. rewrite Z.eqb_refl in E. discriminate.
  - exact (IH H d Hin).
Qed.

Lemma find_doc_Some_or_None l id : find_doc l id = None \/ exists d, find_doc l id = Some d.
Proof. destruct (find_doc l id); [right; eauto | left; reflexivity]. Qed.

Theorem durable_ok_sound s o : durable_ok s o = true -> DurableOK s o.
Proof.
  destruct s as [[[[acked flushed] inf] fmax] newid]. destruct o as [[ids docs] bad].
  unfold durable_ok, DurableOK. intros H.
  repeat (apply andb_true_iff in H; let H' := fresh "H" in destruct H as [H H']).
  rename H into Hbad. rename H4 into Huniq. rename H3 into Hack. rename H2 into Hdocs.
  rename H1 into Hinf. rename H0 into Hnew.
  rewrite forallb_forall in Hack. rewrite forallb_forall in Hdocs. unfold keys_unique in Huniq.
  rewrite forallb_forall in Huniq.
  assert (A1 : forall id d, In (id, d) acked -> is_inflight inf id = false -> find_doc docs id = Some d).
  { intros id d Hin Hnf. specialize (Hack (id, d) Hin). simpl in Hack. rewrite Hnf in Hack.
    simpl in Hack. apply odoc_eqb_eq in Hack. exact Hack. }
  assert (A2 : forall id, find_doc acked id = None -> is_inflight inf id = false -> find_doc docs id = None).
  { intros id Hn Hnf. destruct (find_doc docs id) as [d|] eqn:E; auto.
    apply find_doc_In in E. specialize (Hdocs (id, d) E). simpl in Hdocs.
    rewrite Hnf, Hn in Hdocs. discriminate. }
  split; [destruct bad; [reflexivity | discriminate]|].
  split; [exact A1|]. split; [exact A2|].
  split.
  { intros id d _ Hf Hnf. apply A1; auto. apply find_doc_In. exact Hf. }
  split.
  { intros i b a E. subst inf. apply orb_true_iff in Hinf. destruct Hinf as [E|E];
      apply odoc_eqb_eq in E; auto. }
  intros n E. subst newid. apply andb_true_iff in Hnew. destruct Hnew as [N1 N2].
  split; [apply Z.ltb_lt; exact N1|]. destruct (find_doc docs n); [discriminate|reflexivity].
Qed.
