(* Coll/DurableOps.v — every crash prefix of add / update / remove (the GENERATED step orders)
   leaves a backend that satisfies the durable invariant, the in-flight operation is
   all-or-nothing on the documents, and flush / index management / extension writes never
   touch a document. *)
From Coq Require Import List Arith Bool Lia.
From Verif Require Import Coll.Tags gen.Gen_CollFlush Coll.Durable Coll.DurableProofs.
Import ListNotations.
Open Scope list_scope.

Section Ops.
  Variables D K : Type.
  Variable Keq : forall a b : K, {a = b} + {a <> b}.
  Variable derive : nat -> D -> list K.
  Variable stride : nat.

  Notation backend := (backend D K).
  Notation handle := (handle K).
  Notation Inv := (Inv D K derive).
  Notation op_steps := (@op_steps D K Keq derive stride).
  Notation crash := (@crash D K).
  Notation brun := (@brun D K).

  (* what a live (opened, not poisoned) handle knows about the backend it was opened on *)
  Definition Live (b : backend) (h : handle) : Prop :=
    exists mx reg, b_meta b = Some (mx, reg) /\ mx <= h_max h /\
      (forall id, b_docs b id <> None -> id <= h_max h) /\
      b_wm b <= h_wm h /\ h_wm h <= Nat.max (b_wm b) mx.

  Lemma Opened_Live b h : Opened D K derive b h -> Live b h.
  Proof.
    intros [_ [[mx [reg [ids [Hm [_ [_ [Hmx Hwm]]]]]]] [Hd [Hw _]]]].
    exists mx, reg. repeat split; auto. rewrite Hwm. lia.
  Qed.

  Lemma Inv_ckpt_le b mx reg : Inv b -> b_meta b = Some (mx, reg) -> b_ckpt b <= mx.
  Proof.
    intros [mx' [reg' [ids [Hm [_ [_ [_ [_ [_ H4]]]]]]]]] E. rewrite Hm in E. inversion E; subst. exact H4.
  Qed.

  (* ---------------------------------------------------------------- add *)
  Theorem add_prefix_Inv b h d :
    Inv b -> Live b h -> forall k, Inv (crash k (op_steps (OAdd d) h) b).
  Proof.
    intros HI [mx [reg [Hm [Hmx [Hfresh [Hw1 Hw2]]]]]] k.
    pose proof (Inv_ckpt_le b mx reg HI Hm) as Hck.
    assert (Hnone : b_docs b (S (h_max h)) = None).
    { destruct (b_docs b (S (h_max h))) eqn:E; auto.
      assert (X : b_docs b (S (h_max h)) <> None) by congruence. specialize (Hfresh _ X). lia. }
    unfold op_steps, crash. change add_order with [TWatermark; TIndexInsert; TDocCreate; TBitmapAdd].
    simpl expand.
    destruct (Nat.ltb (h_wm h) (S (h_max h))) eqn:E; simpl.
    - apply Nat.ltb_lt in E.
      assert (I1 : Inv (bstep b (MPutWm D K (S (h_max h) + stride)))) by (apply (Inv_put_wm D K derive); [lia | exact HI]).
      assert (I2 : Inv (bstep (bstep b (MPutWm D K (S (h_max h) + stride))) (MPutDoc K (S (h_max h)) d))).
      { apply (Inv_put_doc_fresh D K derive); auto; simpl; try lia.
        all: try (intros mx' reg' E'; rewrite Hm in E'; inversion E'; subst; lia). }
      do 5 (destruct k as [|k]; [simpl; assumption|]). simpl. rewrite firstn_nil. simpl. exact I2.
    - apply Nat.ltb_ge in E.
      assert (I2 : Inv (bstep b (MPutDoc K (S (h_max h)) d))).
      { apply (Inv_put_doc_fresh D K derive); auto; try lia.
        all: try (intros mx' reg' E'; rewrite Hm in E'; inversion E'; subst; lia). }
      do 4 (destruct k as [|k]; [simpl; assumption|]). simpl. rewrite firstn_nil. simpl. exact I2.
  Qed.

  (* ---------------------------------------------------------------- update / remove *)
  Theorem update_prefix_Inv b h id dold dnew :
    Inv b -> b_docs b id = Some dold ->
    forall k, Inv (crash k (op_steps (OUpdate id dold dnew) h) b).
  Proof.
    intros HI Hold k.
    unfold op_steps, crash. change update_order with [TIntent; TIndexUpdate; TDocPut]. simpl expand.
    set (it := mkIntent (h_seq h) id (Some dold) (Some dnew)).
    assert (I1 : Inv (bstep b (MPutIntent K it))) by (apply (Inv_put_intent D K derive); exact HI).
    assert (I2 : Inv (bstep (bstep b (MPutIntent K it)) (MPutDoc K id dnew))).
    { apply (Inv_change_named_doc D K derive (bstep b (MPutIntent K it)) id dold (Some dnew)); auto.
      exists it. simpl. auto. }
    do 4 (destruct k as [|k]; [simpl; assumption|]). simpl. rewrite firstn_nil. simpl. exact I2.
  Qed.

  Theorem remove_prefix_Inv b h id dold :
    Inv b -> b_docs b id = Some dold ->
    forall k, Inv (crash k (op_steps (ORemove id dold) h) b).
  Proof.
    intros HI Hold k.
    unfold op_steps, crash. change remove_order with [TIntent; TIndexRemove; TDocDelete; TBitmapRemove]. simpl expand.
    set (it := mkIntent (h_seq h) id (Some dold) None).
    assert (I1 : Inv (bstep b (MPutIntent K it))) by (apply (Inv_put_intent D K derive); exact HI).
    assert (I2 : Inv (bstep (bstep b (MPutIntent K it)) (MDelDoc D K id))).
    { apply (Inv_change_named_doc D K derive (bstep b (MPutIntent K it)) id dold None); auto.
      exists it. simpl. auto. }
    do 4 (destruct k as [|k]; [simpl; assumption|]). simpl. rewrite firstn_nil. simpl. exact I2.
  Qed.

  (* ---------------------------------------------------------------- all-or-nothing on documents *)
  Definition docs_eq (b1 b2 : backend) : Prop := forall n, b_docs b1 n = b_docs b2 n.

  Theorem inflight_all_or_nothing b h o :
    match o with OAdd _ | OUpdate _ _ _ | ORemove _ _ => True | _ => False end ->
    forall k, docs_eq (crash k (op_steps o h) b) b \/
              docs_eq (crash k (op_steps o h) b) (brun b (op_steps o h)).
  Proof.
    intros Ho k. destruct o; try contradiction; unfold op_steps, crash.
    - change add_order with [TWatermark; TIndexInsert; TDocCreate; TBitmapAdd]. simpl expand.
      destruct (Nat.ltb (h_wm h) (S (h_max h))); simpl.
      + do 4 (destruct k as [|k]; [left; intro n; reflexivity|]).
        right. intro n. destruct k; simpl; try rewrite firstn_nil; reflexivity.
      + do 3 (destruct k as [|k]; [left; intro n; reflexivity|]).
        right. intro n. destruct k; simpl; try rewrite firstn_nil; reflexivity.
    - change update_order with [TIntent; TIndexUpdate; TDocPut]. simpl expand.
      do 4 (destruct k as [|k]; [left; intro n; reflexivity|]).
      right. intro n. simpl. rewrite firstn_nil. reflexivity.
    - change remove_order with [TIntent; TIndexRemove; TDocDelete; TBitmapRemove]. simpl expand.
      do 3 (destruct k as [|k]; [left; intro n; reflexivity|]).
      right. intro n. destruct k; simpl; try rewrite firstn_nil; reflexivity.
  Qed.

  (* ---------------------------------------------------------------- recovery / flush write no document *)
  Definition no_doc_step (m : mstep D K) : bool :=
    match m with MPutDoc _ _ _ | MDelDoc _ _ _ => false | _ => true end.

  Lemma brun_no_doc l : forall b, forallb no_doc_step l = true -> docs_eq (brun b l) b.
  Proof.
    induction l as [|m l IH]; intros b H n; simpl; auto.
    simpl in H. apply andb_true_iff in H. destruct H as [H1 H2].
    change (brun b (m :: l)) with (brun (bstep b m) l).
    rewrite (IH (bstep b m) H2 n). destruct m; simpl in *; try reflexivity; discriminate.
  Qed.

  Lemma forallb_firstn {A} (f : A -> bool) l : forall k, forallb f l = true -> forallb f (firstn k l) = true.
  Proof.
    induction l as [|x l IH]; intros k H; destruct k; simpl; auto.
    simpl in H. apply andb_true_iff in H. destruct H as [H1 H2]. rewrite H1. simpl. apply IH. exact H2.
  Qed.

  Lemma forallb_map_const {A B} (f : B -> bool) (g : A -> B) l :
    (forall x, f (g x) = true) -> forallb f (map g l) = true.
  Proof. intros H. induction l; simpl; auto. rewrite H. exact IHl. Qed.

  Theorem maintenance_writes_no_document b h o :
    match o with OFlush _ | OSaveExt _ | OCreateIndex _ _ | ORemoveIndex _ _ => True | _ => False end ->
    forall k, docs_eq (crash k (op_steps o h) b) b.
  Proof.
    intros Ho k. unfold crash. apply brun_no_doc. apply forallb_firstn.
    destruct o; try contradiction; unfold op_steps.
    - change flush_order with [TIndexes; TMeta; TIds; TCheckpoint; TRetire]. simpl expand.
      rewrite forallb_app. rewrite forallb_map_const by reflexivity. simpl.
      rewrite app_nil_r. apply forallb_map_const. reflexivity.
    - change save_extension_order with [TExtSet; TMetaNow]. reflexivity.
    - change create_btree_order with [TIdxNew; TBackfill; TIdxFlush; TRegister]. reflexivity.
    - change remove_btree_order with [TUnregister; TMetaNow; TIdxDrop]. reflexivity.
  Qed.

  (* ---------------------------------------------------------------- crash anywhere in a document operation, then reopen *)
  Notation open := (@open D K Keq derive).
  Notation Opened := (Opened D K derive).

  Theorem add_crash_reopen b h d :
    Inv b -> Live b h ->
    forall k, exists h', open (crash k (op_steps (OAdd d) h) b) = Some h' /\ Opened (crash k (op_steps (OAdd d) h) b) h'.
  Proof. intros HI HL k. apply (open_sync D K Keq derive stride). apply add_prefix_Inv; auto. Qed.

  Theorem update_crash_reopen b h id dold dnew :
    Inv b -> b_docs b id = Some dold ->
    forall k, exists h', open (crash k (op_steps (OUpdate id dold dnew) h) b) = Some h' /\
                         Opened (crash k (op_steps (OUpdate id dold dnew) h) b) h'.
  Proof. intros HI Hd k. apply (open_sync D K Keq derive stride). apply update_prefix_Inv; auto. Qed.

  Theorem remove_crash_reopen b h id dold :
    Inv b -> b_docs b id = Some dold ->
    forall k, exists h', open (crash k (op_steps (ORemove id dold) h) b) = Some h' /\
                         Opened (crash k (op_steps (ORemove id dold) h) b) h'.
  Proof. intros HI Hd k. apply (open_sync D K Keq derive stride). apply remove_prefix_Inv; auto. Qed.

End Ops.

