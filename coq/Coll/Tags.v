(* Coll/Tags.v — the vocabulary of protocol steps of one collection (C01/C02).

   tools/gen_collflush.py reads rs/anda_db/src/{collection,database}.rs and emits, for every
   operation, the ORDER in which these events occur in the source, as a [list tag]
   (coq/gen/Gen_CollFlush.v).  Coll/Durable.v interprets a list of tags as a list of
   micro-steps over (backend, handle); the theorems in Coll/Props.v are stated over the
   generated lists, so a source edit that re-orders a protocol re-checks them. *)
From Coq Require Import List Bool.
Import ListNotations.

Inductive tag : Type :=
  (* add *)
  | TWatermark        (* ensure_allocation_watermark: PUT alloc_watermark.cbor when id > durable watermark *)
  | TIndexInsert      (* volatile: insert the new document's keys into every index *)
  | TDocCreate        (* PUT(create) data/{id}.cbor *)
  | TBitmapAdd        (* volatile: doc_ids.add(id) *)
  (* update / remove *)
  | TIntent           (* PUT(create) mutation_intents/{seq}.cbor {id, previous, proposed} *)
  | TIndexUpdate      (* volatile: old keys -> new keys in every index *)
  | TDocPut           (* PUT(if-match) data/{id}.cbor *)
  | TIndexRemove      (* volatile: remove the document's keys from every index *)
  | TDocDelete        (* DELETE data/{id}.cbor *)
  | TBitmapRemove     (* volatile: doc_ids.remove(id) *)
  (* flush_inner *)
  | TIndexes          (* store_indexes: every index commits its own snapshot (one commit point each) *)
  | TMeta             (* store_metadata: PUT(CAS) meta.cbor {max_document_id, registered indexes} *)
  | TIds              (* store_ids: PUT ids.cbor *)
  | TCheckpoint       (* storage.store_metadata(check_point): PUT storage_meta.cbor *)
  | TRetire           (* clear_mutation_intents: DELETE every pending intent *)
  (* Collection::open *)
  | TLoadMeta | TLoadIds | TLoadWatermark | TLoadIndexes | TCallback | TReplay | TRepair
  (* database.rs open_collection_with_schema *)
  | TOpen | TRegisterHandle | TOpenFlush
  (* reconcile_mutation_intents *)
  | TRemoveImages     (* remove previous and proposed image of every intent from the indexes *)
  | TFetchCurrent     (* GET data/{id}.cbor for every affected id *)
  | TRemoveCurrent | TInsertCurrent
  | TBitmapDrop       (* NotFound arm: doc_ids.remove(id) *)
  (* index creation / removal *)
  | TIdxNew           (* BTree::new / BM25::new / Hnsw::new: PUT(overwrite) the empty index metadata *)
  | TBackfill         (* volatile: insert every existing document *)
  | TIdxFlush         (* index.flush(): the backfilled index is made durable BEFORE it is registered *)
  | TRegister         (* volatile: metadata.*_indexes.insert(name) *)
  | TUnregister       (* volatile: metadata.*_indexes.remove(name) + drop the in-memory index *)
  | TMetaNow          (* store_metadata_unclaimed: PUT(CAS) meta.cbor *)
  | TIdxDrop          (* storage.drop_prefix(index dir) *)
  (* extension *)
  | TExtSet.

Definition tag_eqb (a b : tag) : bool :=
  match a, b with
  | TWatermark, TWatermark | TIndexInsert, TIndexInsert | TDocCreate, TDocCreate
  | TBitmapAdd, TBitmapAdd | TIntent, TIntent | TIndexUpdate, TIndexUpdate
  | TDocPut, TDocPut | TIndexRemove, TIndexRemove | TDocDelete, TDocDelete
  | TBitmapRemove, TBitmapRemove | TIndexes, TIndexes | TMeta, TMeta | TIds, TIds
  | TCheckpoint, TCheckpoint | TRetire, TRetire | TLoadMeta, TLoadMeta
  | TLoadIds, TLoadIds | TLoadWatermark, TLoadWatermark | TLoadIndexes, TLoadIndexes
  | TCallback, TCallback | TReplay, TReplay | TRepair, TRepair | TOpen, TOpen
  | TRegisterHandle, TRegisterHandle | TOpenFlush, TOpenFlush
  | TRemoveImages, TRemoveImages | TFetchCurrent, TFetchCurrent
  | TRemoveCurrent, TRemoveCurrent | TInsertCurrent, TInsertCurrent
  | TBitmapDrop, TBitmapDrop | TIdxNew, TIdxNew | TBackfill, TBackfill | TIdxFlush, TIdxFlush
  | TRegister, TRegister | TUnregister, TUnregister | TMetaNow, TMetaNow
  | TIdxDrop, TIdxDrop | TExtSet, TExtSet => true
  | _, _ => false
  end.

Lemma tag_eqb_eq a b : tag_eqb a b = true <-> a = b.
Proof. destruct a, b; simpl; split; intros H; try reflexivity; try discriminate. Qed.

Fixpoint tags_eqb (a b : list tag) : bool :=
  match a, b with
  | [], [] => true
  | x :: a', y :: b' => tag_eqb x y && tags_eqb a' b'
  | _, _ => false
  end.

Lemma tags_eqb_eq a : forall b, tags_eqb a b = true <-> a = b.
Proof.
  induction a as [|x a IH]; destruct b as [|y b]; simpl; split; intros H;
    try reflexivity; try discriminate.
  - apply andb_true_iff in H. destruct H as [H1 H2].
    apply tag_eqb_eq in H1. apply IH in H2. congruence.
  - inversion H; subst. apply andb_true_iff. split.
    + apply tag_eqb_eq; reflexivity.
    + apply IH; reflexivity.
Qed.

(* The steps of the rollback closures (`rollback_indexes`) of add_impl / update_impl / remove_impl, one per loop:
   RUndo*   = remove what THIS operation inserted (for (k, v) in *_inserted { k.remove(..) })
   RRestore* = re-insert what THIS operation removed (for (k, v) in *_removed { k.insert(..) })
   RRevBtree = the reverse B-tree update (new -> old), one step. *)
Inductive rstep : Type :=
  | RUndoBtree | RUndoBm25 | RUndoHnsw
  | RRevBtree
  | RRestoreBtree | RRestoreBm25 | RRestoreHnsw.
