(* Coll/Rollback.v — the rollback closures of add_impl / update_impl / remove_impl (C02, rejected writes).

   BM25 (doc_tokens) and HNSW (nodes) are keyed by the document id: the entry an update removes (old value)
   and the entry it inserts (new value) share ONE key.  The closure `rollback_indexes` must therefore first
   remove what the operation inserted and only then re-insert what it removed; in the other order the restored
   old entry is removed again (or the re-insert is refused with AlreadyExists) and a live document that carries
   a value has no entry in the index.  HNSW registers `hnsw_inserted` BEFORE it attempts the fallible insert, so
   the closure runs its undo step also when the insert itself failed.

   The order of the closure's loops and the registration points are generated from the source
   (gen/Gen_CollFlush.v: update_rollback_order, add_rollback_order, remove_rollback_order,
   *_inserted_registered_before_insert).  The state below is the entry of THE document's id in each id-keyed
   index; values are abstract (nat). *)
From Coq Require Import List Bool Arith.
From Verif Require Import Coll.Tags gen.Gen_CollFlush.
Import ListNotations.

Record ist : Type := { e_bm25 : option nat; e_hnsw : option nat }.

(* what the forward phase registered for the closure *)
Record rctx : Type := { bm25_ins : bool; hnsw_ins : bool; bm25_rem : option nat; hnsw_rem : option nat }.

(* insert(id, v): refused (AlreadyExists) when the id has an entry; the closure then reports restored = false *)
Definition reinsert (e : option nat) (rem : option nat) : option nat * bool :=
  match rem with
  | None => (e, true)
  | Some v => match e with None => (Some v, true) | Some _ => (e, false) end
  end.

Definition rstep_run (c : rctx) (s : ist * bool) (r : rstep) : ist * bool :=
  let '(st, ok) := s in
  match r with
  | RUndoBm25 => (if bm25_ins c then {| e_bm25 := None; e_hnsw := e_hnsw st |} else st, ok)
  | RUndoHnsw => (if hnsw_ins c then {| e_bm25 := e_bm25 st; e_hnsw := None |} else st, ok)
  | RRestoreBm25 => let '(e, k) := reinsert (e_bm25 st) (bm25_rem c) in ({| e_bm25 := e; e_hnsw := e_hnsw st |}, ok && k)
  | RRestoreHnsw => let '(e, k) := reinsert (e_hnsw st) (hnsw_rem c) in ({| e_bm25 := e_bm25 st; e_hnsw := e |}, ok && k)
  | RUndoBtree | RRevBtree | RRestoreBtree => s      (* the B-tree is keyed by value, not by id: C09 *)
  end.

Definition rollback (order : list rstep) (c : rctx) (st : ist) : ist * bool :=
  fold_left (rstep_run c) order (st, true).

(* one id-keyed index in the forward phase of update_impl:
   touched -> remove the old entry (registered in *_removed), then insert the new value if the document has one;
   `reg_before` = *_inserted is registered before the insert is attempted; `fails` = the insert is refused.
   Returns (entry, inserted-registered, removed-registered, stopped). *)
Definition fwd_update (pre : option nat) (touched : bool) (new : option nat) (fails reg_before : bool)
  : option nat * bool * option nat * bool :=
  if touched then
    match new with
    | None => (None, false, pre, false)
    | Some n => if fails then (None, reg_before, pre, true) else (Some n, true, pre, false)
    end
  else (pre, false, None, false).

Record scenario : Type := {
  t_bm25 : bool; n_bm25 : option nat; f_bm25 : bool;
  t_hnsw : bool; n_hnsw : option nat; f_hnsw : bool }.

(* BM25 stage, then (unless it stopped) the HNSW stage; a later storage failure runs the same closure *)
Definition forward_update (reg_bm25 reg_hnsw : bool) (pre : ist) (sc : scenario) : ist * rctx :=
  let '(eb, ib, rb, stop) := fwd_update (e_bm25 pre) (t_bm25 sc) (n_bm25 sc) (f_bm25 sc) reg_bm25 in
  if stop then ({| e_bm25 := eb; e_hnsw := e_hnsw pre |}, {| bm25_ins := ib; hnsw_ins := false; bm25_rem := rb; hnsw_rem := None |})
  else
    let '(eh, ih, rh, _) := fwd_update (e_hnsw pre) (t_hnsw sc) (n_hnsw sc) (f_hnsw sc) reg_hnsw in
    ({| e_bm25 := eb; e_hnsw := eh |}, {| bm25_ins := ib; hnsw_ins := ih; bm25_rem := rb; hnsw_rem := rh |}).

(* The closure of update_impl, in the generated order, with the generated registration points, restores the
   entries of both id-keyed indexes and reports success — whichever stage refused the new value (or none: the
   document PUT failed afterwards), whether or not the document had an old / has a new value. *)
Theorem update_rollback_restores : forall pre sc,
  let '(st, c) := forward_update update_bm25_inserted_registered_before_insert
                                 update_hnsw_inserted_registered_before_insert pre sc in
  rollback update_rollback_order c st = (pre, true).
Proof.
  intros [ob oh] [tb nb fb th nh fh].
  destruct ob, oh, tb, nb, fb, th, nh, fh; reflexivity.
Qed.

(* the swapped order (restore the removed HNSW entry, then undo the inserted one) loses the entry *)
Definition swapped_hnsw_order : list rstep := [RUndoBm25; RRevBtree; RRestoreBm25; RRestoreHnsw; RUndoHnsw].

Theorem update_rollback_swapped_refuted : exists pre sc,
  let '(st, c) := forward_update false true pre sc in
  e_hnsw pre = Some 7 /\ e_hnsw (fst (rollback swapped_hnsw_order c st)) = None.
Proof.
  exists {| e_bm25 := Some 1; e_hnsw := Some 7 |},
         {| t_bm25 := true; n_bm25 := Some 2; f_bm25 := false; t_hnsw := true; n_hnsw := Some 9; f_hnsw := true |}.
  vm_compute. split; reflexivity.
Qed.

(* also when nothing was refused and only the document PUT failed: the re-insert is refused, then the new entry removed *)
Theorem update_rollback_swapped_refuted_put_failure : exists pre sc,
  let '(st, c) := forward_update false true pre sc in
  rollback swapped_hnsw_order c st = ({| e_bm25 := e_bm25 pre; e_hnsw := None |}, false) /\ e_hnsw pre = Some 7.
Proof.
  exists {| e_bm25 := None; e_hnsw := Some 7 |},
         {| t_bm25 := false; n_bm25 := None; f_bm25 := false; t_hnsw := true; n_hnsw := Some 9; f_hnsw := false |}.
  vm_compute. split; reflexivity.
Qed.

(* add_impl: a fresh id has no entry; whatever was inserted (or registered and refused) is removed *)
Theorem add_rollback_restores : forall nb fb nh fh,
  let pre := {| e_bm25 := None; e_hnsw := None |} in
  let '(st, c) := forward_update add_bm25_inserted_registered_before_insert
                                 add_hnsw_inserted_registered_before_insert pre
                    {| t_bm25 := true; n_bm25 := nb; f_bm25 := fb; t_hnsw := true; n_hnsw := nh; f_hnsw := fh |} in
  rollback add_rollback_order {| bm25_ins := bm25_ins c; hnsw_ins := hnsw_ins c; bm25_rem := None; hnsw_rem := None |} st = (pre, true).
Proof. intros nb fb nh fh. destruct nb, fb, nh, fh; reflexivity. Qed.

(* remove_impl: every removed entry is re-inserted into an index that no longer has it *)
Theorem remove_rollback_restores : forall pre,
  rollback remove_rollback_order {| bm25_ins := false; hnsw_ins := false; bm25_rem := e_bm25 pre; hnsw_rem := e_hnsw pre |}
           {| e_bm25 := None; e_hnsw := None |} = (pre, true).
Proof. intros [ob oh]. destruct ob, oh; reflexivity. Qed.

(* the closures have exactly the loops the model interprets *)
Theorem rollback_orders_complete :
  length update_rollback_order = 5 /\ length add_rollback_order = 3 /\ length remove_rollback_order = 3.
Proof. repeat split; reflexivity. Qed.
