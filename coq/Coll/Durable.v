(* Coll/Durable.v — executable model of the crash protocol of one collection (C01, C02).

   Backend objects (rs/anda_db/src/collection.rs, storage.rs):
     b_docs id      data/{id}.cbor
     b_meta         meta.cbor               (stats.max_document_id, the registered indexes)
     b_ids          ids.cbor                (bitmap of live ids)
     b_ckpt         storage_meta.cbor       (check_point; absent = 0)
     b_wm           alloc_watermark.cbor    (absent = 0)
     b_intents      mutation_intents/*.cbor (seq, id, previous image, proposed image)
     b_idx i        the durable snapshot of index i, abstracted to the list of postings
                    (key, id) it holds.  Each index commits its snapshot by its own commit
                    point (fresh bucket objects, then one manifest CAS — C10/C11, Common/
                    CommitPoint.v), so one index flush is ONE atomic step here.
   The volatile handle mirrors the fields of `Collection` that matter.

   An operation is the list of protocol events emitted by tools/gen_collflush.py from the
   source (gen/Gen_CollFlush.v: add_order, update_order, remove_order, flush_order,
   create_btree_order, remove_btree_order, save_extension_order); [expand] interprets the
   events one after the other into micro-steps.  A micro-step changes the backend ([bstep])
   and/or the handle ([hstep]).  A crash can happen after ANY prefix of micro-steps (a
   superset of "after the k-th backend mutation"); it keeps the backend and discards the
   handle.  [open] is Collection::open: load, replay intents, repair scan.

   Postings and id sets are lists read as sets (all statements are about [In]).

   Everything is parametric in the document type [D], the key type [K] and the derivation
   function [derive : index -> document -> keys] (Coll/Monitor.v gives the concrete one). *)
From Coq Require Import List Arith Bool Lia.
From Verif Require Import Coll.Tags gen.Gen_CollFlush.
Import ListNotations.
Open Scope list_scope.

Set Implicit Arguments.

Section Durable.
  Variables D K : Type.
  Variable Keq : forall a b : K, {a = b} + {a <> b}.
  Variable derive : nat -> D -> list K.
  Variable stride : nat.            (* ALLOCATION_WATERMARK_STRIDE *)

  Definition posting := (K * nat)%type.

  Definition posting_eqb (a b : posting) : bool :=
    (if Keq (fst a) (fst b) then true else false) && Nat.eqb (snd a) (snd b).

  Record intent := mkIntent { i_seq : nat; i_id : nat; i_prev : option D; i_next : option D }.

  Record backend := mkBackend {
    b_docs : nat -> option D;
    b_meta : option (nat * list nat);
    b_ids : option (list nat);
    b_ckpt : nat;
    b_wm : nat;
    b_intents : list intent;
    b_idx : nat -> option (list posting)
  }.

  Record handle := mkHandle {
    h_ids : list nat;
    h_idx : nat -> list posting;
    h_reg : list nat;
    h_max : nat;
    h_wm : nat;
    h_pending : list nat;
    h_seq : nat
  }.

  (* ---------------------------------------------------------------- set operations *)
  Definition keys_of (i : nat) (id : nat) (d : D) : list posting :=
    map (fun k => (k, id)) (derive i d).

  Definition ins_all (l ps : list posting) : list posting := ps ++ l.

  Definition del_all (l ps : list posting) : list posting :=
    filter (fun x => negb (existsb (posting_eqb x) ps)) l.

  Definition upd {A} (f : nat -> A) (i : nat) (v : A) : nat -> A :=
    fun j => if Nat.eqb j i then v else f j.

  Definition okeys (i id : nat) (o : option D) : list posting :=
    match o with Some d => keys_of i id d | None => [] end.

  (* ---------------------------------------------------------------- micro-steps *)
  Inductive mstep : Type :=
    | MAlloc                                   (* max_document_id.fetch_add(1) *)
    | MPutWm (w : nat)
    | MIdxIns (id : nat) (d : D)               (* volatile: every index *)
    | MIdxDel (id : nat) (d : D)
    | MPutDoc (id : nat) (d : D)
    | MDelDoc (id : nat)
    | MBitAdd (id : nat)
    | MBitDel (id : nat)
    | MPutIntent (it : intent)
    | MDelIntent (seq : nat)
    | MPutIdx (i : nat) (l : list posting)     (* one index commits its snapshot *)
    | MPutMeta (mx : nat) (reg : list nat)
    | MPutIds (ids : list nat)
    | MPutCkpt (c : nat)
    | MBackfill (i : nat) (l : list posting)   (* volatile: the new index's postings *)
    | MReg (i : nat)
    | MUnreg (i : nat)
    | MDelIdx (i : nat).

  Definition bstep (b : backend) (m : mstep) : backend :=
    match m with
    | MPutWm w => mkBackend (b_docs b) (b_meta b) (b_ids b) (b_ckpt b) w (b_intents b) (b_idx b)
    | MPutDoc id d => mkBackend (upd (b_docs b) id (Some d)) (b_meta b) (b_ids b) (b_ckpt b) (b_wm b) (b_intents b) (b_idx b)
    | MDelDoc id => mkBackend (upd (b_docs b) id None) (b_meta b) (b_ids b) (b_ckpt b) (b_wm b) (b_intents b) (b_idx b)
    | MPutIntent it => mkBackend (b_docs b) (b_meta b) (b_ids b) (b_ckpt b) (b_wm b) (it :: b_intents b) (b_idx b)
    | MDelIntent s => mkBackend (b_docs b) (b_meta b) (b_ids b) (b_ckpt b) (b_wm b)
                        (filter (fun it => negb (Nat.eqb (i_seq it) s)) (b_intents b)) (b_idx b)
    | MPutIdx i l => mkBackend (b_docs b) (b_meta b) (b_ids b) (b_ckpt b) (b_wm b) (b_intents b) (upd (b_idx b) i (Some l))
    | MPutMeta mx reg => mkBackend (b_docs b) (Some (mx, reg)) (b_ids b) (b_ckpt b) (b_wm b) (b_intents b) (b_idx b)
    | MPutIds ids => mkBackend (b_docs b) (b_meta b) (Some ids) (b_ckpt b) (b_wm b) (b_intents b) (b_idx b)
    | MPutCkpt c => mkBackend (b_docs b) (b_meta b) (b_ids b) (Nat.max (b_ckpt b) c) (b_wm b) (b_intents b) (b_idx b)
    | MDelIdx i => mkBackend (b_docs b) (b_meta b) (b_ids b) (b_ckpt b) (b_wm b) (b_intents b) (upd (b_idx b) i None)
    | _ => b
    end.

  Definition hstep (h : handle) (m : mstep) : handle :=
    match m with
    | MAlloc => mkHandle (h_ids h) (h_idx h) (h_reg h) (S (h_max h)) (h_wm h) (h_pending h) (h_seq h)
    | MPutWm w => mkHandle (h_ids h) (h_idx h) (h_reg h) (h_max h) (Nat.max (h_wm h) w) (h_pending h) (h_seq h)
    | MIdxIns id d => mkHandle (h_ids h) (fun i => ins_all (h_idx h i) (keys_of i id d)) (h_reg h) (h_max h) (h_wm h) (h_pending h) (h_seq h)
    | MIdxDel id d => mkHandle (h_ids h) (fun i => del_all (h_idx h i) (keys_of i id d)) (h_reg h) (h_max h) (h_wm h) (h_pending h) (h_seq h)
    | MBitAdd id => mkHandle (id :: h_ids h) (h_idx h) (h_reg h) (h_max h) (h_wm h) (h_pending h) (h_seq h)
    | MBitDel id => mkHandle (filter (fun x => negb (Nat.eqb x id)) (h_ids h)) (h_idx h) (h_reg h) (h_max h) (h_wm h) (h_pending h) (h_seq h)
    | MPutIntent it => mkHandle (h_ids h) (h_idx h) (h_reg h) (h_max h) (h_wm h) (i_seq it :: h_pending h) (S (h_seq h))
    | MDelIntent s => mkHandle (h_ids h) (h_idx h) (h_reg h) (h_max h) (h_wm h) (filter (fun x => negb (Nat.eqb x s)) (h_pending h)) (h_seq h)
    | MBackfill i l => mkHandle (h_ids h) (upd (h_idx h) i l) (h_reg h) (h_max h) (h_wm h) (h_pending h) (h_seq h)
    | MReg i => mkHandle (h_ids h) (h_idx h) (i :: h_reg h) (h_max h) (h_wm h) (h_pending h) (h_seq h)
    | MUnreg i => mkHandle (h_ids h) (h_idx h) (filter (fun x => negb (Nat.eqb x i)) (h_reg h)) (h_max h) (h_wm h) (h_pending h) (h_seq h)
    | _ => h
    end.

  Definition brun (b : backend) (l : list mstep) : backend := fold_left bstep l b.
  Definition hrun (h : handle) (l : list mstep) : handle := fold_left hstep l h.

  (* the backend a crash after the first k micro-steps leaves behind *)
  Definition crash (k : nat) (l : list mstep) (b : backend) : backend := brun b (firstn k l).

  (* ---------------------------------------------------------------- operations *)
  Inductive op : Type :=
    | OAdd (d : D)
    | OUpdate (id : nat) (dold dnew : D)      (* dold = the stored document (read by update_impl) *)
    | ORemove (id : nat) (dold : D)
    | OFlush
    | OSaveExt
    | OCreateIndex (i : nat) (docs : list (nat * D))   (* docs = what the backfill scan reads *)
    | ORemoveIndex (i : nat).

  (* the micro-steps of one protocol event, given the handle as it is when the event starts *)
  Definition tag_steps (t : tag) (o : op) (h : handle) : list mstep :=
    match o, t with
    | OAdd d, TWatermark =>
        if Nat.ltb (h_wm h) (h_max h) then [MPutWm (h_max h + stride)] else []
    | OAdd d, TIndexInsert => [MIdxIns (h_max h) d]
    | OAdd d, TDocCreate => [MPutDoc (h_max h) d]
    | OAdd d, TBitmapAdd => [MBitAdd (h_max h)]
    | OUpdate id dold dnew, TIntent => [MPutIntent (mkIntent (h_seq h) id (Some dold) (Some dnew))]
    | OUpdate id dold dnew, TIndexUpdate => [MIdxDel id dold; MIdxIns id dnew]
    | OUpdate id dold dnew, TDocPut => [MPutDoc id dnew]
    | ORemove id dold, TIntent => [MPutIntent (mkIntent (h_seq h) id (Some dold) None)]
    | ORemove id dold, TIndexRemove => [MIdxDel id dold]
    | ORemove id dold, TDocDelete => [MDelDoc id]
    | ORemove id dold, TBitmapRemove => [MBitDel id]
    | OFlush, TIndexes => map (fun i => MPutIdx i (h_idx h i)) (h_reg h)
    | OFlush, TMeta => [MPutMeta (h_max h) (h_reg h)]
    | OFlush, TIds => [MPutIds (h_ids h)]
    | OFlush, TCheckpoint => [MPutCkpt (h_max h)]
    | OFlush, TRetire => map MDelIntent (h_pending h)
    | OSaveExt, TMetaNow => [MPutMeta (h_max h) (h_reg h)]
    | OCreateIndex i docs, TIdxNew => [MPutIdx i []]
    | OCreateIndex i docs, TBackfill => [MBackfill i (flat_map (fun e => keys_of i (fst e) (snd e)) docs)]
    | OCreateIndex i docs, TIdxFlush => [MPutIdx i (h_idx h i)]
    | OCreateIndex i docs, TRegister => [MReg i]
    | ORemoveIndex i, TUnregister => [MUnreg i]
    | ORemoveIndex i, TMetaNow => [MPutMeta (h_max h) (h_reg h)]
    | ORemoveIndex i, TIdxDrop => [MDelIdx i]
    | _, _ => []
    end.

  Fixpoint expand (ts : list tag) (o : op) (h : handle) : list mstep :=
    match ts with
    | [] => []
    | t :: r => let s := tag_steps t o h in s ++ expand r o (hrun h s)
    end.

  (* the operations, as interpretations of the GENERATED orders *)
  Definition op_steps (o : op) (h : handle) : list mstep :=
    match o with
    | OAdd _ => MAlloc :: expand add_order o (hstep h MAlloc)
    | OUpdate _ _ _ => expand update_order o h
    | ORemove _ _ => expand remove_order o h
    | OFlush => expand flush_order o h
    | OSaveExt => expand save_extension_order o h
    | OCreateIndex _ _ => expand create_btree_order o h
    | ORemoveIndex _ => expand remove_btree_order o h
    end.

  (* ---------------------------------------------------------------- Collection::open *)
  Definition named (b : backend) (id : nat) : bool :=
    existsb (fun it => Nat.eqb (i_id it) id) (b_intents b).

  (* TRemoveImages: both images of every intent leave every index *)
  Definition remove_images (its : list intent) (idx : nat -> list posting) : nat -> list posting :=
    fun i => fold_left (fun l it => del_all (del_all l (okeys i (i_id it) (i_prev it))) (okeys i (i_id it) (i_next it))) its (idx i).

  (* TFetchCurrent .. TBitmapAdd / TBitmapDrop, for one affected id *)
  Definition reconcile_one (b : backend) (h : handle) (id : nat) : handle :=
    match b_docs b id with
    | Some d =>
        mkHandle (id :: h_ids h)
                 (fun i => ins_all (del_all (h_idx h i) (keys_of i id d)) (keys_of i id d))
                 (h_reg h) (Nat.max (h_max h) id) (h_wm h) (h_pending h) (h_seq h)
    | None =>
        mkHandle (filter (fun x => negb (Nat.eqb x id)) (h_ids h)) (h_idx h)
                 (h_reg h) (h_max h) (h_wm h) (h_pending h) (h_seq h)
    end.

  Definition replay (b : backend) (h : handle) : handle :=
    let its := b_intents b in
    let h1 := mkHandle (h_ids h) (remove_images its (h_idx h)) (h_reg h) (h_max h) (h_wm h)
                       (map i_seq its) (S (fold_left Nat.max (map i_seq its) (h_seq h))) in
    fold_left (reconcile_one b) (map i_id its) h1.

  (* repair_document *)
  Definition repair_one (b : backend) (h : handle) (id : nat) : handle :=
    match b_docs b id with
    | Some d =>
        mkHandle (id :: h_ids h) (fun i => ins_all (h_idx h i) (keys_of i id d))
                 (h_reg h) (Nat.max (h_max h) id) (h_wm h) (h_pending h) (h_seq h)
    | None => h
    end.

  (* auto_repair_indexes: the window (check_point, max(max_document_id, watermark)] *)
  (* The ids the scan fetches.  The loop bounds and the absence of any early exit are GENERATED
     facts (tools/gen_collflush.py reads auto_repair_indexes): lower bound check_point + 1, upper
     bound max(max_document_id, watermark), no break / return / continue in the loop body, a
     found document is handed to repair_document.  If the source loses one of them the window
     of the model is empty and the recovery theorems no longer check. *)
  Definition repair_window (ckpt top : nat) : list nat :=
    if repair_from_checkpoint_plus_one && repair_upto_max_of_maxid_and_watermark &&
       repair_scan_no_early_exit && repair_scan_found_doc_is_repaired
    then seq (S ckpt) (top - ckpt) else [].

  Definition repair (b : backend) (h : handle) : handle :=
    let top := Nat.max (h_max h) (h_wm h) in
    fold_left (repair_one b) (repair_window (b_ckpt b) top) h.

  Definition is_some {A} (o : option A) : bool := match o with Some _ => true | None => false end.

  (* TLoadMeta, TLoadIds, TLoadWatermark, TLoadIndexes, (callback = identity), TReplay, TRepair *)
  Definition open_with (order : list tag) (b : backend) : option handle :=
    if tags_eqb order [TLoadMeta; TLoadIds; TLoadWatermark; TLoadIndexes; TCallback; TReplay; TRepair] then
      match b_meta b, b_ids b with
      | Some (mx, reg), Some ids =>
          if forallb (fun i => is_some (b_idx b i)) reg then
            let h0 := mkHandle ids (fun i => match b_idx b i with Some l => l | None => [] end)
                               reg mx (Nat.max (b_wm b) mx) [] 0 in
            Some (repair b (replay b h0))
          else None
      | _, _ => None
      end
    else None.

  Definition open (b : backend) : option handle := open_with open_order b.

End Durable.
