(* Coll/DurableReach.v — completed operations keep the live handle consistent (C02 on a live handle
   for add / update / remove / flush), and the induction over histories with arbitrarily nested
   crashes: every reachable backend satisfies the durable invariant, every reachable live world
   is consistent; recovery is idempotent; an id covered by an acknowledged flush is never
   allocated again. *)
From Coq Require Import List Arith Bool Lia.
From Verif Require Import Coll.Tags gen.Gen_CollFlush Coll.Durable Coll.DurableProofs Coll.DurableOps Coll.DurableFlush.
Import ListNotations.
Open Scope list_scope.
Local Arguments Nat.max : simpl never.

Section Reach.
  Variables D K : Type.
  Variable Keq : forall a b : K, {a = b} + {a <> b}.
  Variable derive : nat -> D -> list K.
  Variable stride : nat.

  Notation backend := (backend D K).
  Notation handle := (handle K).
  Notation Inv := (Inv D K derive).
  Notation DocKey := (DocKey D K derive).
  Notation Consistent := (Consistent D K derive).
  Notation Opened := (Opened D K derive).
  Notation Live := (Live D K).
  Notation op_steps := (@op_steps D K Keq derive stride).
  Notation crash := (@crash D K).
  Notation brun := (@brun D K).
  Notation hrun := (@hrun D K Keq derive).
  Notation open := (@open D K Keq derive).
  Notation keys_of := (keys_of derive).
  Notation del_all := (del_all Keq).

  Definition Sync (b : backend) (h : handle) : Prop := Inv b /\ Consistent b h /\ Live b h.

  Lemma crash_full l b : crash (length l) l b = brun b l.
  Proof. unfold Durable.crash. rewrite firstn_all. reflexivity. Qed.

  Lemma Opened_Sync b h : Inv b -> Opened b h -> Sync b h.
  Proof. intros HI HO. split; [exact HI|]. split; [destruct HO as [HC _]; exact HC | apply Opened_Live with (derive := derive); exact HO]. Qed.

  (* ---------------------------------------------------------------- DocKey under a document change *)
  Lemma DocKey_upd_some (b b' : backend) id d i k n :
    b_docs b' = upd (b_docs b) id (Some d) ->
    (DocKey b' i k n <-> (n = id /\ In k (derive i d)) \/ (n <> id /\ DocKey b i k n)).
  Proof.
    intros E. unfold DurableProofs.DocKey. rewrite E. unfold upd.
    destruct (Nat.eqb n id) eqn:En.
    - apply Nat.eqb_eq in En. subst. split.
      + intros [d' [A B]]. inversion A; subst. left; auto.
      + intros [[_ B]|[A _]]; [exists d; auto | congruence].
    - apply Nat.eqb_neq in En. split.
      + intros H. right. auto.
      + intros [[A _]|[_ B]]; [congruence | exact B].
  Qed.

  Lemma DocKey_upd_none (b b' : backend) id i k n :
    b_docs b' = upd (b_docs b) id None ->
    (DocKey b' i k n <-> n <> id /\ DocKey b i k n).
  Proof.
    intros E. unfold DurableProofs.DocKey. rewrite E. unfold upd.
    destruct (Nat.eqb n id) eqn:En.
    - apply Nat.eqb_eq in En. subst. split; [intros [d' [A _]]; discriminate | intros [A _]; congruence].
    - apply Nat.eqb_neq in En. tauto.
  Qed.

  Lemma upd_nonnone (f : nat -> option D) id o n :
    upd f id o n <> None <-> (n = id /\ o <> None) \/ (n <> id /\ f n <> None).
  Proof.
    unfold upd. destruct (Nat.eqb n id) eqn:En.
    - apply Nat.eqb_eq in En. subst. split; [intros H; left; auto | intros [[_ H]|[H _]]; [exact H | congruence]].
    - apply Nat.eqb_neq in En. split; [intros H; right; auto | intros [[H _]|[_ H]]; [congruence | exact H]].
  Qed.

  (* ---------------------------------------------------------------- Consistent after each document operation *)
  Lemma Consistent_add b h b' h' id d :
    Consistent b h -> b_docs b id = None ->
    b_docs b' = upd (b_docs b) id (Some d) -> h_reg h' = h_reg h ->
    (forall i, h_idx h' i = ins_all (h_idx h i) (keys_of i id d)) -> h_ids h' = id :: h_ids h ->
    Consistent b' h'.
  Proof.
    intros [C1 C2] Hnone Ed Er Ei Eids. split.
    - intros i Hin k n. rewrite Er in Hin. rewrite Ei, (In_ins_all K (k, n)), (In_keys_of D K derive i id d k n).
      rewrite (DocKey_upd_some b b' id d i k n Ed). rewrite (C1 i Hin). split.
      + intros [[A B]|H]; [left; auto|]. right. split; auto. intros ->. destruct H as [d0 [A _]]. congruence.
      + intros [[A B]|[_ H]]; [left; auto | right; exact H].
    - intros n. rewrite Eids, Ed, upd_nonnone. simpl. rewrite C2. split.
      + intros [A|A]; [left; split; [auto | discriminate]|]. destruct (Nat.eq_dec n id); [subst; left; split; [auto|discriminate] | right; auto].
      + intros [[A _]|[_ A]]; [left; auto | right; exact A].
  Qed.

  Lemma Consistent_update b h b' h' id dold dnew :
    Consistent b h -> b_docs b id = Some dold ->
    b_docs b' = upd (b_docs b) id (Some dnew) -> h_reg h' = h_reg h ->
    (forall i, h_idx h' i = ins_all (del_all (h_idx h i) (keys_of i id dold)) (keys_of i id dnew)) ->
    h_ids h' = h_ids h ->
    Consistent b' h'.
  Proof.
    intros [C1 C2] Hold Ed Er Ei Eids. split.
    - intros i Hin k n. rewrite Er in Hin. rewrite Ei, (In_ins_all K (k, n)), (In_del_all K Keq (k, n)), (In_keys_of D K derive i id dold k n), (In_keys_of D K derive i id dnew k n).
      rewrite (DocKey_upd_some b b' id dnew i k n Ed). rewrite (C1 i Hin). split.
      + intros [[A B]|[H N]]; [left; auto|]. right. split; auto. intros ->. apply N. split; auto.
        destruct H as [d0 [A B]]. congruence.
      + intros [[A B]|[A H]]; [left; auto|]. right. split; auto. intros [B _]. contradiction.
    - intros n. rewrite Eids, Ed, upd_nonnone, C2. split.
      + intros H. destruct (Nat.eq_dec n id); [left; split; [auto|discriminate] | right; auto].
      + intros [[A _]|[_ A]]; [subst; congruence | exact A].
  Qed.

  Lemma Consistent_remove b h b' h' id dold :
    Consistent b h -> b_docs b id = Some dold ->
    b_docs b' = upd (b_docs b) id None -> h_reg h' = h_reg h ->
    (forall i, h_idx h' i = del_all (h_idx h i) (keys_of i id dold)) ->
    h_ids h' = filter (fun x => negb (Nat.eqb x id)) (h_ids h) ->
    Consistent b' h'.
  Proof.
    intros [C1 C2] Hold Ed Er Ei Eids. split.
    - intros i Hin k n. rewrite Er in Hin. rewrite Ei, (In_del_all K Keq (k, n)), (In_keys_of D K derive i id dold k n).
      rewrite (DocKey_upd_none b b' id i k n Ed). rewrite (C1 i Hin). split.
      + intros [H N]. split; auto. intros ->. apply N. split; auto. destruct H as [d0 [A B]]. congruence.
      + intros [A H]. split; auto. intros [B _]. contradiction.
    - intros n. rewrite Eids, Ed, upd_nonnone, (filter_neq_In D K derive stride), C2. split.
      + intros [A B]. right. auto.
      + intros [[_ A]|[A B]]; [exfalso; apply A; reflexivity | split; assumption].
  Qed.

  (* ---------------------------------------------------------------- completed operations keep Sync *)
  Theorem add_complete b h d :
    Sync b h -> Sync (brun b (op_steps (OAdd d) h)) (hrun h (op_steps (OAdd d) h)).
  Proof.
    intros [HI [HC HL]]. split; [rewrite <- crash_full; apply add_prefix_Inv; auto|].
    destruct HL as [mx [reg [Hm [Hmx [Hfresh [Hw1 Hw2]]]]]].
    assert (Hnone : b_docs b (S (h_max h)) = None).
    { destruct (b_docs b (S (h_max h))) eqn:E; auto.
      assert (X : b_docs b (S (h_max h)) <> None) by congruence. specialize (Hfresh _ X). lia. }
    unfold op_steps. change add_order with [TWatermark; TIndexInsert; TDocCreate; TBitmapAdd]. simpl expand.
    destruct (Nat.ltb (h_wm h) (S (h_max h))) eqn:E; simpl.
    - apply Nat.ltb_lt in E. split.
      + apply (Consistent_add b h _ _ (S (h_max h)) d HC Hnone); try reflexivity; try (intros i; reflexivity).
      + exists mx, reg. simpl. split; [exact Hm|]. split; [lia|]. split; [|split; lia].
        intros id Hd. apply upd_nonnone in Hd. destruct Hd as [[A _]|[_ A]]; [lia | specialize (Hfresh id A); lia].
    - apply Nat.ltb_ge in E. split.
      + apply (Consistent_add b h _ _ (S (h_max h)) d HC Hnone); try reflexivity; try (intros i; reflexivity).
      + exists mx, reg. simpl. split; [exact Hm|]. split; [lia|]. split; [|split; lia].
        intros id Hd. apply upd_nonnone in Hd. destruct Hd as [[A _]|[_ A]]; [lia | specialize (Hfresh id A); lia].
  Qed.

  Theorem update_complete b h id dold dnew :
    Sync b h -> b_docs b id = Some dold ->
    Sync (brun b (op_steps (OUpdate id dold dnew) h)) (hrun h (op_steps (OUpdate id dold dnew) h)).
  Proof.
    intros [HI [HC HL]] Hold. split; [rewrite <- crash_full; apply update_prefix_Inv; auto|].
    destruct HL as [mx [reg [Hm [Hmx [Hfresh [Hw1 Hw2]]]]]].
    unfold op_steps. change update_order with [TIntent; TIndexUpdate; TDocPut]. simpl. split.
    - apply (Consistent_update b h _ _ id dold dnew HC Hold); try reflexivity; try (intros i; reflexivity).
    - exists mx, reg. simpl. split; [exact Hm|]. split; [lia|]. split; [|split; lia].
      intros n Hd. apply upd_nonnone in Hd. destruct Hd as [[A _]|[_ A]]; [subst; apply Hfresh; congruence | apply Hfresh; exact A].
  Qed.

  Theorem remove_complete b h id dold :
    Sync b h -> b_docs b id = Some dold ->
    Sync (brun b (op_steps (ORemove id dold) h)) (hrun h (op_steps (ORemove id dold) h)).
  Proof.
    intros [HI [HC HL]] Hold. split; [rewrite <- crash_full; apply remove_prefix_Inv; auto|].
    destruct HL as [mx [reg [Hm [Hmx [Hfresh [Hw1 Hw2]]]]]].
    unfold op_steps. change remove_order with [TIntent; TIndexRemove; TDocDelete; TBitmapRemove]. simpl. split.
    - apply (Consistent_remove b h _ _ id dold HC Hold); try reflexivity; try (intros i; reflexivity).
    - exists mx, reg. simpl. split; [exact Hm|]. split; [lia|]. split; [|split; lia].
      intros n Hd. apply upd_nonnone in Hd. destruct Hd as [[_ A]|[_ A]]; [congruence | apply Hfresh; exact A].
  Qed.

  (* ---------------------------------------------------------------- flush completes *)
  Notation hstep := (@hstep D K Keq derive).

  Definition HSame (h h' : handle) : Prop :=
    h_ids h' = h_ids h /\ h_idx h' = h_idx h /\ h_reg h' = h_reg h /\ h_max h' = h_max h /\ h_wm h' = h_wm h.

  Lemma hrun_app h l1 l2 : hrun h (l1 ++ l2) = hrun (hrun h l1) l2.
  Proof. unfold Durable.hrun. apply fold_left_app. Qed.

  Lemma hrun_retire l : forall h', HSame h' (hrun h' (map (@MDelIntent D K) l)).
  Proof.
    induction l as [|s l IH]; intros h'; [simpl; repeat split|].
    change (hrun h' (map (@MDelIntent D K) (s :: l))) with (hrun (hstep h' (MDelIntent D K s)) (map (@MDelIntent D K) l)).
    destruct (IH (hstep h' (MDelIntent D K s))) as [A [B [C [E F]]]].
    unfold HSame. rewrite A, B, C, E, F. simpl. repeat split.
  Qed.

  Lemma hrun_flush_same h : HSame h (hrun h (op_steps (OFlush D) h)).
  Proof.
    rewrite (flush_steps_eq D K Keq derive stride). rewrite hrun_app. unfold puts. rewrite (hrun_puts D K Keq derive).
    simpl. apply hrun_retire.
  Qed.

  Theorem flush_complete b h :
    Sync b h -> Sync (brun b (op_steps (OFlush D) h)) (hrun h (op_steps (OFlush D) h)).
  Proof.
    intros [HI [HC HL]]. split; [rewrite <- crash_full; apply flush_prefix_Inv; auto|].
    destruct (flush_complete_G D K Keq derive stride b h HI HC HL) as [_ [Gm [_ [Gd [_ Gw]]]]].
    destruct (hrun_flush_same h) as [A [B [C [E F]]]].
    destruct HL as [mx [reg [Hm [Hmx [Hfresh [Hw1 Hw2]]]]]]. destruct HC as [C1 C2].
    split.
    - split.
      + intros i Hin k n. rewrite C in Hin. rewrite B. rewrite (C1 i Hin).
        unfold DurableProofs.DocKey. rewrite Gd. tauto.
      + intros n. rewrite A, Gd. apply C2.
    - exists (h_max h), (h_reg h). rewrite E, F, Gd, Gw. split; [exact Gm|]. split; [lia|]. split; [exact Hfresh|]. lia.
  Qed.

  (* ---------------------------------------------------------------- histories with nested crashes *)
  Inductive world : Type := WLive (b : backend) (h : handle) | WDown (b : backend).

  (* what the caller guarantees: update / remove name a stored document and pass its stored value *)
  Inductive step_ok (b : backend) : op D -> Prop :=
    | ok_add d : step_ok b (OAdd d)
    | ok_update id dold dnew : b_docs b id = Some dold -> step_ok b (OUpdate id dold dnew)
    | ok_remove id dold : b_docs b id = Some dold -> step_ok b (ORemove id dold)
    | ok_flush : step_ok b (OFlush D).

  Theorem op_complete b h o :
    step_ok b o -> Sync b h -> Sync (brun b (op_steps o h)) (hrun h (op_steps o h)).
  Proof.
    intros Hok HS. destruct Hok; [apply add_complete | apply update_complete | apply remove_complete | apply flush_complete]; auto.
  Qed.

  Theorem op_crash_Inv b h o k :
    step_ok b o -> Sync b h -> Inv (crash k (op_steps o h) b).
  Proof.
    intros Hok [HI [HC HL]].
    destruct Hok; [apply add_prefix_Inv | apply update_prefix_Inv | apply remove_prefix_Inv | apply flush_prefix_Inv]; auto.
  Qed.

  Definition mx_of (b : backend) : nat := match b_meta b with Some (m, _) => m | None => 0 end.

  (* Reach w F: w is reachable; F = the largest max_document_id an acknowledged flush covered *)
  Inductive Reach : world -> nat -> Prop :=
    | R_init b h : Sync b h -> Reach (WLive b h) (mx_of b)
    | R_op b h o F : Reach (WLive b h) F -> step_ok b o ->
        Reach (WLive (brun b (op_steps o h)) (hrun h (op_steps o h)))
              (match o with OFlush _ => Nat.max F (h_max h) | _ => F end)
    | R_crash b h o k F : Reach (WLive b h) F -> step_ok b o ->       (* power loss after any micro-step prefix *)
        Reach (WDown (crash k (op_steps o h) b)) F
    | R_kill b h F : Reach (WLive b h) F -> Reach (WDown b) F            (* killed between two operations *)
    | R_open b h F : Reach (WDown b) F -> open b = Some h -> Reach (WLive b h) F.   (* reboot; the flush that ends
        the recovery is an ordinary OFlush of the reopened handle and can crash in turn *)

  Lemma doc_op_prefix_meta b h o k :
    match o with OAdd _ | OUpdate _ _ _ | ORemove _ _ => True | _ => False end ->
    b_meta (crash k (op_steps o h) b) = b_meta b.
  Proof.
    intros Ho. destruct o; try contradiction; unfold op_steps, Durable.crash.
    - change add_order with [TWatermark; TIndexInsert; TDocCreate; TBitmapAdd]. simpl expand.
      destruct (Nat.ltb (h_wm h) (S (h_max h))); do 6 (destruct k as [|k]; [reflexivity|]); simpl; rewrite ?firstn_nil; reflexivity.
    - change update_order with [TIntent; TIndexUpdate; TDocPut]. simpl expand.
      do 5 (destruct k as [|k]; [reflexivity|]); simpl; rewrite ?firstn_nil; reflexivity.
    - change remove_order with [TIntent; TIndexRemove; TDocDelete; TBitmapRemove]. simpl expand.
      do 5 (destruct k as [|k]; [reflexivity|]); simpl; rewrite ?firstn_nil; reflexivity.
  Qed.

  Lemma prefix_mx_mono b h o k : Sync b h -> step_ok b o -> mx_of b <= mx_of (crash k (op_steps o h) b).
  Proof.
    intros [_ [_ [mx [reg [Hm [Hmx _]]]]]] Hok. unfold mx_of at 2.
    destruct Hok; try (rewrite doc_op_prefix_meta by exact I; fold (mx_of b); lia).
    destruct (flush_prefix_meta D K Keq derive stride b h k) as [E|E]; rewrite E; [fold (mx_of b); lia|].
    unfold mx_of. rewrite Hm. exact Hmx.
  Qed.

  Theorem reachable_ok w F : Reach w F ->
    match w with
    | WLive b h => Sync b h /\ F <= mx_of b
    | WDown b => Inv b /\ F <= mx_of b
    end.
  Proof.
    induction 1 as [b h HS | b h o F HR IH Hok | b h o k F HR IH Hok | b h F HR IH | b h F HR IH Ho].
    - split; [exact HS | lia].
    - destruct IH as [HS HF]. split.
      + destruct Hok; [apply add_complete | apply update_complete | apply remove_complete | apply flush_complete]; auto.
      + pose proof (prefix_mx_mono b h o (length (op_steps o h)) HS Hok) as M. rewrite crash_full in M.
        destruct Hok; try lia.
        destruct HS as [HI [HC HL]].
        destruct (flush_complete_G D K Keq derive stride b h HI HC HL) as [_ [Gm _]].
        unfold mx_of at 1. rewrite Gm. unfold mx_of in HF. destruct HL as [mx [reg [Hm [Hmx _]]]]. rewrite Hm in HF. lia.
    - destruct IH as [HS HF]. split.
      + destruct HS as [HI [HC HL]].
        destruct Hok; [apply add_prefix_Inv | apply update_prefix_Inv | apply remove_prefix_Inv | apply flush_prefix_Inv]; auto.
      + pose proof (prefix_mx_mono b h o k HS Hok). lia.
    - destruct IH as [[HI _] HF]. auto.
    - destruct IH as [HI HF]. split; [|exact HF].
      destruct (open_sync D K Keq derive stride b HI) as [h' [E HO]]. rewrite Ho in E. inversion E; subst.
      apply Opened_Sync; auto.
  Qed.

  (* reopen_total + C02 after ANY history with ANY nesting of crashes *)
  Theorem reachable_reopens b F : Reach (WDown b) F -> exists h, open b = Some h /\ Consistent b h.
  Proof.
    intros HR. destruct (reachable_ok _ _ HR) as [HI _].
    destruct (open_sync D K Keq derive stride b HI) as [h [E [HC _]]]. eauto.
  Qed.

  (* id_not_reused: the next add's id is above every id an acknowledged flush covered, and free *)
  Theorem id_not_reused b h F :
    Reach (WLive b h) F -> F < S (h_max h) /\ b_docs b (S (h_max h)) = None.
  Proof.
    intros HR. destruct (reachable_ok _ _ HR) as [[_ [_ [mx [reg [Hm [Hmx [Hfresh _]]]]]]] HF].
    unfold mx_of in HF. rewrite Hm in HF. split; [lia|].
    destruct (b_docs b (S (h_max h))) eqn:E; auto.
    assert (X : b_docs b (S (h_max h)) <> None) by congruence. specialize (Hfresh _ X). lia.
  Qed.

  (* recovery_idempotent: crash the flush that ends a recovery anywhere, recover again: same ids, same postings *)
  Theorem recovery_idempotent b h :
    Inv b -> open b = Some h ->
    forall k, exists h', open (crash k (op_steps (OFlush D) h) b) = Some h' /\
      h_reg h' = h_reg h /\
      (forall id, In id (h_ids h') <-> In id (h_ids h)) /\
      (forall i, In i (h_reg h) -> forall k0 id, In (k0, id) (h_idx h' i) <-> In (k0, id) (h_idx h i)).
  Proof.
    intros HI Ho k.
    destruct (open_sync D K Keq derive stride b HI) as [h0 [E HO]]. rewrite Ho in E. inversion E; subst h0.
    pose proof (Opened_Sync b h HI HO) as [_ [HC HL]].
    set (b' := crash k (op_steps (OFlush D) h) b).
    assert (HI' : Inv b') by (apply flush_prefix_Inv; auto).
    destruct (open_sync D K Keq derive stride b' HI') as [h' [E' HO']].
    exists h'. split; [exact E'|].
    assert (Hd : forall n, b_docs b' n = b_docs b n).
    { apply (maintenance_writes_no_document D K Keq derive stride b h (OFlush D) I k). }
    destruct HO as [_ [[mx [reg [ids [Hm [_ [Hr _]]]]]] _]].
    destruct HO' as [[C1' C2'] [[mx' [reg' [ids' [Hm' [_ [Hr' _]]]]]] _]].
    assert (Hreg : h_reg h' = h_reg h).
    { destruct (flush_prefix_meta D K Keq derive stride b h k) as [X|X]; fold b' in X; rewrite X in Hm'.
      - rewrite Hm in Hm'. inversion Hm'. congruence.
      - inversion Hm'. congruence. }
    destruct HC as [C1 C2].
    split; [exact Hreg|]. split.
    - intros id. rewrite C2', C2, Hd. tauto.
    - intros i Hin k0 id. rewrite (C1 i Hin). rewrite <- Hreg in Hin. rewrite (C1' i Hin).
      unfold DurableProofs.DocKey. rewrite Hd. tauto.
  Qed.

End Reach.
