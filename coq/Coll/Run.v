(* Coll/Run.v — the case runners used by props/C01.py and props/C02.py (evaluated by vm_compute on the
   harness's JSON lines) and the trace-shape monitor that compares FaultStore's mutation log of
   every operation with the step list the generated order (gen/Gen_CollFlush.v) prescribes. *)
From Coq Require Import List ZArith String Bool Arith Lia.
From Verif Require Import Coll.Tags Coll.Monitor gen.Gen_CollFlush.
Import ListNotations.
Open Scope list_scope.

Definition c02case := (list ixdesc * dump)%type.
Definition check_consistent (c : c02case) : bool := consistent_b (fst c) (snd c).

Definition c01case := (spec * obs)%type.
Definition check_durable (c : c01case) : bool := durable_ok (fst c) (snd c).

(* ------------------------------------------------------------------ mutation-log shapes *)
Inductive lop : Type := LPut | LDel | LCopy | LRename | LOther.
Inductive lclass : Type := CDoc | CMeta | CIds | CCkpt | CIntent | CWm | CIdx | CDb | COther.

Definition lop_eqb (a b : lop) : bool :=
  match a, b with
  | LPut, LPut | LDel, LDel | LCopy, LCopy | LRename, LRename | LOther, LOther => true
  | _, _ => false
  end.
Definition lclass_eqb (a b : lclass) : bool :=
  match a, b with
  | CDoc, CDoc | CMeta, CMeta | CIds, CIds | CCkpt, CCkpt | CIntent, CIntent | CWm, CWm
  | CIdx, CIdx | CDb, CDb | COther, COther => true
  | _, _ => false
  end.

Definition ev := (lop * lclass)%type.
Definition ev_eqb (a b : ev) : bool := lop_eqb (fst a) (fst b) && lclass_eqb (snd a) (snd b).

Lemma ev_eqb_eq a b : ev_eqb a b = true <-> a = b.
Proof.
  destruct a as [o c], b as [o' c']; unfold ev_eqb; simpl.
  destruct o, o', c, c'; simpl; split; intros H; try reflexivity; try discriminate.
Qed.

Inductive pat : Type :=
  | Once (e : ev)          (* exactly one such mutation *)
  | Opt (e : ev)           (* at most one *)
  | Many (e : ev)          (* any number of this mutation *)
  | AnyOn (c : lclass).    (* any number of mutations of objects of this class *)

(* the backend mutations a protocol event performs *)
Definition pat_of_tag (t : tag) : list pat :=
  match t with
  | TWatermark => [Opt (LPut, CWm)]
  | TDocCreate => [Once (LPut, CDoc)]
  | TIntent => [Once (LPut, CIntent)]
  | TDocPut => [Once (LPut, CDoc)]
  | TDocDelete => [Once (LDel, CDoc)]
  | TIndexes => [AnyOn CIdx]
  | TMeta => [Opt (LPut, CMeta)]
  | TIds => [Opt (LPut, CIds)]
  | TCheckpoint => [Opt (LPut, CCkpt)]
  | TRetire => [Many (LDel, CIntent)]
  | TMetaNow => [Once (LPut, CMeta)]
  | TIdxNew => [Once (LPut, CIdx)]
  | TIdxFlush => [AnyOn CIdx]
  | TIdxDrop => [AnyOn CIdx]
  | _ => []
  end.

Definition pats (order : list tag) : list pat := flat_map pat_of_tag order.

Inductive Matches : list pat -> list ev -> Prop :=
  | MNil : Matches [] []
  | MOnce e ps l : Matches ps l -> Matches (Once e :: ps) (e :: l)
  | MOptYes e ps l : Matches ps l -> Matches (Opt e :: ps) (e :: l)
  | MOptNo e ps l : Matches ps l -> Matches (Opt e :: ps) l
  | MManyStep e ps l : Matches (Many e :: ps) l -> Matches (Many e :: ps) (e :: l)
  | MManyEnd e ps l : Matches ps l -> Matches (Many e :: ps) l
  | MAnyStep c o ps l : Matches (AnyOn c :: ps) l -> Matches (AnyOn c :: ps) ((o, c) :: l)
  | MAnyEnd c ps l : Matches ps l -> Matches (AnyOn c :: ps) l.

(* greedy matcher; fuel = |ps| + |l| + 1 suffices, every call drops a pattern or an event *)
Fixpoint mt (fuel : nat) (ps : list pat) (l : list ev) : bool :=
  match fuel with
  | O => false
  | S f =>
      match ps, l with
      | [], [] => true
      | [], _ :: _ => false
      | Once e :: ps', x :: l' => ev_eqb x e && mt f ps' l'
      | Once _ :: _, [] => false
      | Opt e :: ps', x :: l' => if ev_eqb x e then mt f ps' l' else mt f ps' l
      | Opt _ :: ps', [] => mt f ps' []
      | Many e :: ps', x :: l' => if ev_eqb x e then mt f ps l' else mt f ps' l
      | Many _ :: ps', [] => mt f ps' []
      | AnyOn c :: ps', x :: l' => if lclass_eqb (snd x) c then mt f ps l' else mt f ps' l
      | AnyOn _ :: ps', [] => mt f ps' []
      end
  end.

Lemma lclass_eqb_eq a b : lclass_eqb a b = true <-> a = b.
Proof. destruct a, b; simpl; split; intros H; try reflexivity; try discriminate. Qed.

Lemma mt_sound fuel : forall ps l, mt fuel ps l = true -> Matches ps l.
Proof.
  induction fuel as [|f IH]; intros ps l H; [discriminate|].
  destruct ps as [|p ps]; destruct l as [|x l]; simpl in H; try discriminate.
  - constructor.
  - destruct p; try discriminate.
    + apply MOptNo. apply IH. exact H.
    + apply MManyEnd. apply IH. exact H.
    + apply MAnyEnd. apply IH. exact H.
  - destruct p.
    + apply andb_true_iff in H. destruct H as [E H]. apply ev_eqb_eq in E. subst.
      constructor. apply IH. exact H.
    + destruct (ev_eqb x e) eqn:E.
      * apply ev_eqb_eq in E. subst. apply MOptYes. apply IH. exact H.
      * apply MOptNo. apply IH. exact H.
    + destruct (ev_eqb x e) eqn:E.
      * apply ev_eqb_eq in E. subst. apply MManyStep. apply IH. exact H.
      * apply MManyEnd. apply IH. exact H.
    + destruct (lclass_eqb (snd x) c) eqn:E.
      * apply lclass_eqb_eq in E. destruct x as [o c']. simpl in E. subst.
        apply MAnyStep. apply IH. exact H.
      * apply MAnyEnd. apply IH. exact H.
Qed.

Definition log_matches (order : list tag) (l : list ev) : bool :=
  mt (List.length (pats order) + List.length l + 1) (pats order) l.

Definition no_doc_write (l : list ev) : bool :=
  forallb (fun e => negb (lclass_eqb (snd e) CDoc)) l.

(* kind = the harness's name of the operation (suffix _rejected when the call returned an error
   on a fault-free run) *)
Definition check_log (c : string * list ev) : bool :=
  let '(kind, l) := c in
  if String.eqb kind "add" then log_matches add_order l
  else if String.eqb kind "update" then log_matches update_order l
  else if String.eqb kind "remove" then log_matches remove_order l
  else if String.eqb kind "flush" then log_matches flush_order l
  else if String.eqb kind "save_extension" then log_matches save_extension_order l
  else if String.eqb kind "compact_btree" then mt (List.length l + 2) [AnyOn CIdx] l
  else if String.eqb kind "compact_bm25" then mt (List.length l + 2) [AnyOn CIdx] l
  else if String.eqb kind "add_rejected" then mt (List.length l + 2) [Opt (LPut, CWm)] l
  else if String.eqb kind "update_rejected" then mt (List.length l + 2) [Opt (LPut, CIntent)] l
  else if String.eqb kind "update_missing_rejected" then mt 1 [] l
  else if String.eqb kind "remove_missing" then mt 1 [] l
  else (* close + reopen (collection or database), index creation / removal in the callback,
          recovery flush: never a document write *)
    no_doc_write l.
