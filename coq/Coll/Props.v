(* C01 / C02 — pinned statements only.  Each is closed by [exact] of a lemma proved in
   Coll/Monitor.v, Coll/Run.v or Coll/DurableProofs*.v and followed by Print Assumptions. *)
From Coq Require Import List ZArith String Bool Arith.
From Verif Require Import Coll.Tags gen.Gen_CollFlush Coll.Monitor Coll.Run Coll.Durable Coll.DurableProofs Coll.DurableOps Coll.DurableFlush Coll.DurableReach Coll.Rollback.
Import ListNotations.

(* ------------------------------------------------------------------ generated facts (T) *)
(* The protocol orders and recovery bounds as they are in the source NOW.  The Durable model
   interprets these very lists; this statement pins what the proofs below rely on, so a source
   edit that re-orders a protocol or changes a recovery bound breaks it. *)
Theorem C01_generated_protocol_facts :
  add_order = [TWatermark; TIndexInsert; TDocCreate; TBitmapAdd] /\
  update_order = [TIntent; TIndexUpdate; TDocPut] /\
  remove_order = [TIntent; TIndexRemove; TDocDelete; TBitmapRemove] /\
  flush_order = [TIndexes; TMeta; TIds; TCheckpoint; TRetire] /\
  open_order = [TLoadMeta; TLoadIds; TLoadWatermark; TLoadIndexes; TCallback; TReplay; TRepair] /\
  db_open_order = [TOpen; TRegisterHandle; TOpenFlush] /\
  replay_order = [TRemoveImages; TFetchCurrent; TRemoveCurrent; TInsertCurrent; TBitmapAdd; TBitmapDrop] /\
  remove_btree_order = [TUnregister; TMetaNow; TIdxDrop] /\
  remove_bm25_order = remove_btree_order /\ remove_hnsw_order = remove_btree_order /\
  save_extension_order = [TExtSet; TMetaNow] /\
  (watermark_put_before_publish && watermark_target_is_max_plus_stride && intent_put_before_track &&
   update_intent_has_both_images && replay_removes_both_images && replay_lists_intent_prefix &&
   repair_from_checkpoint_plus_one && repair_upto_max_of_maxid_and_watermark && repair_bumps_max_id &&
   open_missing_watermark_is_zero && open_watermark_max_with_meta && checkpoint_is_snapshot_max_id &&
   metadata_put_is_cas && unclaimed_write_keeps_last_saved_version &&
   (* unknown-outcome failures poison the handle; recovery happens only on reopen *)
   flush_failure_poisons && close_failure_poisons && update_put_failure_poisons &&
   remove_delete_failure_poisons && add_failure_rolls_back_indexes && add_failure_compensating_delete &&
   add_failure_poisons_on_unknown_delete && db_open_discards_poisoned_handle) = true.
Proof. repeat split; reflexivity. Qed.
Print Assumptions C01_generated_protocol_facts.

(* backfill, THEN persist, THEN register: a registered index always has durable content *)
Theorem C02_generated_backfill_then_register :
  create_btree_order = [TIdxNew; TBackfill; TIdxFlush; TRegister] /\
  create_bm25_order = create_btree_order /\ create_hnsw_order = create_btree_order.
Proof. repeat split; reflexivity. Qed.
Print Assumptions C02_generated_backfill_then_register.

(* ------------------------------------------------------------------ monitors (M) *)
Theorem C02_consistent_monitor_sound :
  forall ixs d, consistent_b ixs d = true -> ConsistentDump ixs d.
Proof. exact consistent_b_sound. Qed.
Print Assumptions C02_consistent_monitor_sound.

Theorem C01_durable_monitor_sound :
  forall s o, durable_ok s o = true -> DurableOK s o.
Proof. exact durable_ok_sound. Qed.
Print Assumptions C01_durable_monitor_sound.

Theorem C01_trace_monitor_sound :
  forall fuel ps l, mt fuel ps l = true -> Matches ps l.
Proof. exact mt_sound. Qed.
Print Assumptions C01_trace_monitor_sound.

(* The reopen repair scan — the only recovery path of an acknowledged, unflushed add — fetches
   EVERY id of (checkpoint, max(max_document_id, watermark)]: the window of the model is built
   from the generated loop bounds and the generated fact that the loop body has no early exit. *)
Theorem C01_repair_scan_probes_whole_window :
  repair_from_checkpoint_plus_one && repair_upto_max_of_maxid_and_watermark &&
  repair_scan_no_early_exit && repair_scan_found_doc_is_repaired = true /\
  forall ckpt top id, ckpt < id <= top -> In id (repair_window ckpt top).
Proof. split; [reflexivity | exact repair_window_complete]. Qed.
Print Assumptions C01_repair_scan_probes_whole_window.

(* ------------------------------------------------------------------ recovery (protocol model) *)
(* reopen_total + C02 after recovery: from ANY backend state satisfying the durable invariant
   (whatever crash produced it) Collection::open succeeds, and the handle it builds answers
   every registered index exactly from the stored documents, reports exactly the stored ids,
   and has an id allocator above every stored document and above the persisted max id. *)
Theorem C01_reopen_total_and_converges :
  forall (D K : Type) (Keq : forall a b : K, {a = b} + {a <> b}) (derive : nat -> D -> list K)
         (b : backend D K),
    Inv D K derive b -> exists h, open Keq derive b = Some h /\ Opened D K derive b h.
Proof. exact (fun D K Keq derive b => open_sync D K Keq derive 0 b). Qed.
Print Assumptions C01_reopen_total_and_converges.

(* A crash after ANY micro-step prefix of an add / update / remove (the generated step orders),
   started on a backend satisfying the invariant by a live handle, leaves a backend that reopens
   and converges (crash point k universally quantified; d, id, images arbitrary). *)
Theorem C01_crash_in_add_then_reopen :
  forall (D K : Type) (Keq : forall a b : K, {a = b} + {a <> b}) (derive : nat -> D -> list K) (stride : nat)
         (b : backend D K) (h : handle K) (d : D),
    Inv D K derive b -> Live D K b h ->
    forall k, exists h', open Keq derive (crash k (op_steps Keq derive stride (OAdd d) h) b) = Some h' /\
                         Opened D K derive (crash k (op_steps Keq derive stride (OAdd d) h) b) h'.
Proof. exact add_crash_reopen. Qed.
Print Assumptions C01_crash_in_add_then_reopen.

Theorem C01_crash_in_update_then_reopen :
  forall (D K : Type) (Keq : forall a b : K, {a = b} + {a <> b}) (derive : nat -> D -> list K) (stride : nat)
         (b : backend D K) (h : handle K) (id : nat) (dold dnew : D),
    Inv D K derive b -> b_docs b id = Some dold ->
    forall k, exists h', open Keq derive (crash k (op_steps Keq derive stride (OUpdate id dold dnew) h) b) = Some h' /\
                         Opened D K derive (crash k (op_steps Keq derive stride (OUpdate id dold dnew) h) b) h'.
Proof. exact update_crash_reopen. Qed.
Print Assumptions C01_crash_in_update_then_reopen.

Theorem C01_crash_in_remove_then_reopen :
  forall (D K : Type) (Keq : forall a b : K, {a = b} + {a <> b}) (derive : nat -> D -> list K) (stride : nat)
         (b : backend D K) (h : handle K) (id : nat) (dold : D),
    Inv D K derive b -> b_docs b id = Some dold ->
    forall k, exists h', open Keq derive (crash k (op_steps Keq derive stride (ORemove id dold) h) b) = Some h' /\
                         Opened D K derive (crash k (op_steps Keq derive stride (ORemove id dold) h) b) h'.
Proof. exact remove_crash_reopen. Qed.
Print Assumptions C01_crash_in_remove_then_reopen.

(* the handle a recovery builds satisfies the precondition of the theorems above (nesting) *)
Theorem C01_reopened_handle_is_live :
  forall (D K : Type) (derive : nat -> D -> list K) (b : backend D K) (h : handle K),
    Opened D K derive b h -> Live D K b h.
Proof. exact Opened_Live. Qed.
Print Assumptions C01_reopened_handle_is_live.

(* the operation in flight is fully applied or not at all: every crash prefix of an add /
   update / remove has the documents of the state before or of the state after *)
Theorem C01_inflight_all_or_nothing :
  forall (D K : Type) (Keq : forall a b : K, {a = b} + {a <> b}) (derive : nat -> D -> list K) (stride : nat)
         (b : backend D K) (h : handle K) (o : op D),
    match o with OAdd _ | OUpdate _ _ _ | ORemove _ _ => True | _ => False end ->
    forall k, docs_eq D K (crash k (op_steps Keq derive stride o h) b) b \/
              docs_eq D K (crash k (op_steps Keq derive stride o h) b) (brun b (op_steps Keq derive stride o h)).
Proof. exact inflight_all_or_nothing. Qed.
Print Assumptions C01_inflight_all_or_nothing.

(* flush, extension writes, index creation and removal never write a document, at any prefix:
   what get(id) returns cannot change in a crashed flush or in the flush that ends a recovery *)
Theorem C01_flush_and_maintenance_write_no_document :
  forall (D K : Type) (Keq : forall a b : K, {a = b} + {a <> b}) (derive : nat -> D -> list K) (stride : nat)
         (b : backend D K) (h : handle K) (o : op D),
    match o with OFlush _ | OSaveExt _ | OCreateIndex _ _ | ORemoveIndex _ _ => True | _ => False end ->
    forall k, docs_eq D K (crash k (op_steps Keq derive stride o h) b) b.
Proof. exact maintenance_writes_no_document. Qed.
Print Assumptions C01_flush_and_maintenance_write_no_document.

(* Every micro-step prefix of flush (indexes, meta, ids, checkpoint, retire — the generated order),
   started by a consistent live handle, leaves a backend satisfying the durable invariant: a crash
   anywhere inside a flush — including the flush that ends a recovery — is recoverable. *)
Theorem C01_flush_crash_prefix_recoverable :
  forall (D K : Type) (Keq : forall a b : K, {a = b} + {a <> b}) (derive : nat -> D -> list K) (stride : nat)
         (b : backend D K) (h : handle K),
    Inv D K derive b -> Consistent D K derive b h -> Live D K b h ->
    forall k, Inv D K derive (crash k (op_steps Keq derive stride (OFlush D) h) b).
Proof. exact flush_prefix_Inv. Qed.
Print Assumptions C01_flush_crash_prefix_recoverable.

(* C02 on a live handle: every completed add / update / remove / flush keeps every registered
   index exactly derive(stored documents) and the id set exactly the stored documents. *)
Theorem C02_completed_operation_keeps_consistent :
  forall (D K : Type) (Keq : forall a b : K, {a = b} + {a <> b}) (derive : nat -> D -> list K) (stride : nat)
         (b : backend D K) (h : handle K) (o : op D),
    step_ok D K b o -> Sync D K derive b h ->
    Sync D K derive (brun b (op_steps Keq derive stride o h)) (hrun Keq derive h (op_steps Keq derive stride o h)).
Proof. exact op_complete. Qed.
Print Assumptions C02_completed_operation_keeps_consistent.

(* THE induction: histories of add / update / remove / flush of any length, a power loss after any
   micro-step prefix of any of them, a kill between operations, reopen, and again — nested to any
   depth (the flush that ends a recovery is an OFlush of the reopened handle).  Every reachable
   live world is consistent (C02) and every reachable crashed backend satisfies the invariant;
   F (the largest max id an acknowledged flush covered) never exceeds the durable max id. *)
Theorem C01_reachable_invariant :
  forall (D K : Type) (Keq : forall a b : K, {a = b} + {a <> b}) (derive : nat -> D -> list K) (stride : nat)
         (w : world D K) (F : nat),
    Reach D K Keq derive stride w F ->
    match w with
    | WLive _ _ b h => Sync D K derive b h /\ F <= mx_of D K b
    | WDown _ _ b => Inv D K derive b /\ F <= mx_of D K b
    end.
Proof. exact reachable_ok. Qed.
Print Assumptions C01_reachable_invariant.

(* reopen_total after any history and any nesting of crashes; the reopened handle answers every
   index exactly from the stored documents *)
Theorem C01_reachable_backend_reopens :
  forall (D K : Type) (Keq : forall a b : K, {a = b} + {a <> b}) (derive : nat -> D -> list K) (stride : nat)
         (b : backend D K) (F : nat),
    Reach D K Keq derive stride (WDown D K b) F ->
    exists h, open Keq derive b = Some h /\ Consistent D K derive b h.
Proof. exact reachable_reopens. Qed.
Print Assumptions C01_reachable_backend_reopens.

(* id_not_reused, history level: in every reachable live world the id the next add allocates is
   above every id an acknowledged flush ever covered, and owns no document object *)
Theorem C01_id_not_reused :
  forall (D K : Type) (Keq : forall a b : K, {a = b} + {a <> b}) (derive : nat -> D -> list K) (stride : nat)
         (b : backend D K) (h : handle K) (F : nat),
    Reach D K Keq derive stride (WLive D K b h) F ->
    F < S (h_max h) /\ b_docs b (S (h_max h)) = None.
Proof. exact id_not_reused. Qed.
Print Assumptions C01_id_not_reused.

(* recovery_idempotent: crash the flush that ends a recovery after any prefix and recover again:
   the same registered indexes, the same ids, the same postings *)
Theorem C01_recovery_idempotent :
  forall (D K : Type) (Keq : forall a b : K, {a = b} + {a <> b}) (derive : nat -> D -> list K) (stride : nat)
         (b : backend D K) (h : handle K),
    Inv D K derive b -> open Keq derive b = Some h ->
    forall k, exists h', open Keq derive (crash k (op_steps Keq derive stride (OFlush D) h) b) = Some h' /\
      h_reg h' = h_reg h /\
      (forall id, In id (h_ids h') <-> In id (h_ids h)) /\
      (forall i, In i (h_reg h) -> forall k0 id, In (k0, id) (h_idx h' i) <-> In (k0, id) (h_idx h i)).
Proof. exact recovery_idempotent. Qed.
Print Assumptions C01_recovery_idempotent.

(* Still outside the induction (explored on the implementation only): save_extension and index
   creation / removal as steps of a history (their prefixes are proved to write no document), and
   the open callback. *)

(* ------------------------------------------------------------------ the order matters *)
(* A concrete instance (documents and keys are numbers, derive i d = [d + i]): one stored document
   1 -> 5, one registered index holding (5,1), everything flushed. *)
Definition ex_der (i : nat) (d : nat) : list nat := [d + i].
Definition ex_b0 : backend nat nat :=
  mkBackend (fun n => if Nat.eqb n 1 then Some 5 else None) (Some (1, [0])) (Some [1]) 1 0 []
            (fun i => if Nat.eqb i 0 then Some [(5, 1)] else None).
Definition ex_h0 : handle nat :=
  mkHandle [1] (fun i => if Nat.eqb i 0 then [(5, 1)] else []) [0] 1 1 [] 0.

(* with the GENERATED order every crash prefix of "update 1: 5 -> 7" reopens to a handle whose
   index agrees with the stored document *)
Example C01_model_update_nonvacuous :
  map (fun k => match open Nat.eq_dec ex_der (crash k (op_steps Nat.eq_dec ex_der 64 (OUpdate 1 5 7) ex_h0) ex_b0) with
                | Some h => Some (h_idx h 0, b_docs (crash k (op_steps Nat.eq_dec ex_der 64 (OUpdate 1 5 7) ex_h0) ex_b0) 1)
                | None => None end) [0; 1; 2; 3; 4]
  = [Some ([(5, 1)], Some 5); Some ([(5, 1)], Some 5); Some ([(5, 1)], Some 5); Some ([(5, 1)], Some 5);
     Some ([(7, 1)], Some 7)].
Proof. vm_compute. reflexivity. Qed.

(* had update written the document BEFORE the intent, a crash between the two leaves an index that
   answers for the old value of a document that now holds the new one — and reopen cannot tell *)
Theorem C01_document_before_intent_refuted :
  let bad := expand Nat.eq_dec ex_der 64 [TIndexUpdate; TDocPut; TIntent] (OUpdate 1 5 7) ex_h0 in
  exists k h, open Nat.eq_dec ex_der (crash k bad ex_b0) = Some h /\
              b_docs (crash k bad ex_b0) 1 = Some 7 /\ h_idx h 0 = [(5, 1)].
Proof. exists 3. eexists. vm_compute. repeat split. Qed.
Print Assumptions C01_document_before_intent_refuted.

(* ------------------------------------------------------------------ rejected writes: the rollback closures *)
(* The closure `rollback_indexes` of update_impl, run in the order its loops have in the source and with the
   source's registration points, restores the entry of the document's id in both id-keyed indexes (BM25, HNSW)
   and reports success, whichever index stage refused the new value (or none: the document PUT failed). *)
Theorem C02_update_rollback_restores_id_keyed_indexes : forall pre sc,
  let '(st, c) := forward_update update_bm25_inserted_registered_before_insert
                                 update_hnsw_inserted_registered_before_insert pre sc in
  rollback update_rollback_order c st = (pre, true).
Proof. exact update_rollback_restores. Qed.
Print Assumptions C02_update_rollback_restores_id_keyed_indexes.

Theorem C02_add_rollback_restores_id_keyed_indexes : forall nb fb nh fh,
  let pre := {| e_bm25 := None; e_hnsw := None |} in
  let '(st, c) := forward_update add_bm25_inserted_registered_before_insert
                                 add_hnsw_inserted_registered_before_insert pre
                    {| t_bm25 := true; n_bm25 := nb; f_bm25 := fb; t_hnsw := true; n_hnsw := nh; f_hnsw := fh |} in
  rollback add_rollback_order {| bm25_ins := bm25_ins c; hnsw_ins := hnsw_ins c; bm25_rem := None; hnsw_rem := None |} st = (pre, true).
Proof. exact add_rollback_restores. Qed.
Print Assumptions C02_add_rollback_restores_id_keyed_indexes.

Theorem C02_remove_rollback_restores_id_keyed_indexes : forall pre,
  rollback remove_rollback_order {| bm25_ins := false; hnsw_ins := false; bm25_rem := e_bm25 pre; hnsw_rem := e_hnsw pre |}
           {| e_bm25 := None; e_hnsw := None |} = (pre, true).
Proof. exact remove_rollback_restores. Qed.
Print Assumptions C02_remove_rollback_restores_id_keyed_indexes.

Theorem C02_rollback_orders_complete :
  List.length update_rollback_order = 5 /\ List.length add_rollback_order = 3 /\ List.length remove_rollback_order = 3.
Proof. exact rollback_orders_complete. Qed.
Print Assumptions C02_rollback_orders_complete.

(* restore-then-undo loses the entry of a live document that carries a vector *)
Theorem C02_update_rollback_swapped_refuted : exists pre sc,
  let '(st, c) := forward_update false true pre sc in
  e_hnsw pre = Some 7 /\ e_hnsw (fst (rollback swapped_hnsw_order c st)) = None.
Proof. exact update_rollback_swapped_refuted. Qed.
Print Assumptions C02_update_rollback_swapped_refuted.

(* ------------------------------------------------------------------ non-vacuity *)
Example C02_monitor_nonvacuous :
  consistent_b [IxB ["age"%string] TyU; IxB ["tags"%string] TyT; IxV "emb"%string]
    ([1; 2]%Z, 2%Z,
     [(1%Z, [("age"%string, VU 3); ("tags"%string, VTs ["red"%string; "blue"%string]); ("emb"%string, VVec [1%Z])]);
      (2%Z, [("age"%string, VU 3); ("tags"%string, VTs []); ("emb"%string, VVec [2%Z])])],
     [[(KU 3, [1; 2]%Z)]; [(KT "red", [1%Z]); (KT "blue", [1%Z])]; [(KUnit, [2; 1]%Z)]],
     [None; None; Some 2%Z]) = true.
Proof. vm_compute. reflexivity. Qed.

Example C02_monitor_rejects_phantom :
  consistent_b [IxB ["age"%string] TyU]
    ([1]%Z, 1%Z, [(1%Z, [("age"%string, VU 3)])], [[(KU 3, [1%Z]); (KU 4, [1%Z])]], [None]) = false.
Proof. vm_compute. reflexivity. Qed.

Example C01_monitor_nonvacuous :
  durable_ok ([(1%Z, [("age"%string, VU 3)]); (2%Z, [("age"%string, VU 5)])],
              [(1%Z, [("age"%string, VU 3)])],
              Some (2%Z, Some [("age"%string, VU 4)], Some [("age"%string, VU 5)]), 1%Z, Some 3%Z)
             ([1; 2]%Z, [(1%Z, [("age"%string, VU 3)]); (2%Z, [("age"%string, VU 4)])], []) = true.
Proof. vm_compute. reflexivity. Qed.

Example C01_monitor_rejects_mixed :
  durable_ok ([(2%Z, [("age"%string, VU 5)])], [],
              Some (2%Z, Some [("age"%string, VU 4)], Some [("age"%string, VU 5)]), 0%Z, None)
             ([2]%Z, [(2%Z, [("age"%string, VU 6)])], []) = false.
Proof. vm_compute. reflexivity. Qed.
