(* C01 / C02 — pinned statements only.  Each is closed by [exact] of a lemma proved in
   Coll/Monitor.v, Coll/Run.v or Coll/DurableProofs*.v and followed by Print Assumptions. *)
From Coq Require Import List ZArith String Bool Arith.
From Verif Require Import Coll.Tags gen.Gen_CollFlush Coll.Monitor Coll.Run Coll.Durable Coll.DurableProofs.
Import ListNotations.

(* ------------------------------------------------------------------ generated facts (T) *)
(* The protocol orders and recovery bounds as they are in the source NOW.  The Durable model
   interprets these very lists; this statement pins what the proofs below rely on, so a source
   edit that re-orders a protocol or changes a recovery bound breaks it. *)
Theorem C01_generated_protocol_facts :
  add_order = [TWatermark; TIndexInsert; TDocCreate; TBitmapAdd] /\
  update_order = [TIntent; TIndexUpdate; TDocPut] /\
  remove_order = [TIntent; TIndexRemove; TDocDelete; TBitmapRemove] /\
  flush_order = [TIndexes; TMeta; TIds; TCheckpoint; TRetire] /\
  open_order = [TLoadMeta; TLoadIds; TLoadWatermark; TLoadIndexes; TCallback; TReplay; TRepair] /\
  db_open_order = [TOpen; TRegisterHandle; TOpenFlush] /\
  replay_order = [TRemoveImages; TFetchCurrent; TRemoveCurrent; TInsertCurrent; TBitmapAdd; TBitmapDrop] /\
  remove_btree_order = [TUnregister; TMetaNow; TIdxDrop] /\
  remove_bm25_order = remove_btree_order /\ remove_hnsw_order = remove_btree_order /\
  save_extension_order = [TExtSet; TMetaNow] /\
  (watermark_put_before_publish && watermark_target_is_max_plus_stride && intent_put_before_track &&
   update_intent_has_both_images && replay_removes_both_images && replay_lists_intent_prefix &&
   repair_from_checkpoint_plus_one && repair_upto_max_of_maxid_and_watermark && repair_bumps_max_id &&
   open_missing_watermark_is_zero && open_watermark_max_with_meta && checkpoint_is_snapshot_max_id &&
   metadata_put_is_cas && unclaimed_write_keeps_last_saved_version &&
   (* unknown-outcome failures poison the handle; recovery happens only on reopen *)
   flush_failure_poisons && close_failure_poisons && update_put_failure_poisons &&
   remove_delete_failure_poisons && add_failure_rolls_back_indexes && add_failure_compensating_delete &&
   add_failure_poisons_on_unknown_delete && db_open_discards_poisoned_handle) = true.
Proof. repeat split; reflexivity. Qed.
Print Assumptions C01_generated_protocol_facts.

(* backfill, THEN persist, THEN register: a registered index always has durable content *)
Theorem C02_generated_backfill_then_register :
  create_btree_order = [TIdxNew; TBackfill; TIdxFlush; TRegister] /\
  create_bm25_order = create_btree_order /\ create_hnsw_order = create_btree_order.
Proof. repeat split; reflexivity. Qed.
Print Assumptions C02_generated_backfill_then_register.

(* ------------------------------------------------------------------ monitors (M) *)
Theorem C02_consistent_monitor_sound :
  forall ixs d, consistent_b ixs d = true -> ConsistentDump ixs d.
Proof. exact consistent_b_sound. Qed.
Print Assumptions C02_consistent_monitor_sound.

Theorem C01_durable_monitor_sound :
  forall s o, durable_ok s o = true -> DurableOK s o.
Proof. exact durable_ok_sound. Qed.
Print Assumptions C01_durable_monitor_sound.

Theorem C01_trace_monitor_sound :
  forall fuel ps l, mt fuel ps l = true -> Matches ps l.
Proof. exact mt_sound. Qed.
Print Assumptions C01_trace_monitor_sound.

(* ------------------------------------------------------------------ recovery (protocol model) *)
(* reopen_total + C02 after recovery: from ANY backend state satisfying the durable invariant
   (whatever crash produced it) Collection::open succeeds, and the handle it builds answers
   every registered index exactly from the stored documents, reports exactly the stored ids,
   and has an id allocator above every stored document and above the persisted max id. *)
Theorem C01_reopen_total_and_converges :
  forall (D K : Type) (Keq : forall a b : K, {a = b} + {a <> b}) (derive : nat -> D -> list K)
         (b : backend D K),
    Inv D K derive b -> exists h, open Keq derive b = Some h /\ Opened D K derive b h.
Proof. exact (fun D K Keq derive b => open_sync D K Keq derive 0 b). Qed.
Print Assumptions C01_reopen_total_and_converges.

(* ------------------------------------------------------------------ non-vacuity *)
Example C02_monitor_nonvacuous :
  consistent_b [IxB ["age"%string] TyU; IxB ["tags"%string] TyT; IxV "emb"%string]
    ([1; 2]%Z, 2%Z,
     [(1%Z, [("age"%string, VU 3); ("tags"%string, VTs ["red"%string; "blue"%string]); ("emb"%string, VVec [1%Z])]);
      (2%Z, [("age"%string, VU 3); ("tags"%string, VTs []); ("emb"%string, VVec [2%Z])])],
     [[(KU 3, [1; 2]%Z)]; [(KT "red", [1%Z]); (KT "blue", [1%Z])]; [(KUnit, [2; 1]%Z)]],
     [None; None; Some 2%Z]) = true.
Proof. vm_compute. reflexivity. Qed.

Example C02_monitor_rejects_phantom :
  consistent_b [IxB ["age"%string] TyU]
    ([1]%Z, 1%Z, [(1%Z, [("age"%string, VU 3)])], [[(KU 3, [1%Z]); (KU 4, [1%Z])]], [None]) = false.
Proof. vm_compute. reflexivity. Qed.

Example C01_monitor_nonvacuous :
  durable_ok ([(1%Z, [("age"%string, VU 3)]); (2%Z, [("age"%string, VU 5)])],
              [(1%Z, [("age"%string, VU 3)])],
              Some (2%Z, Some [("age"%string, VU 4)], Some [("age"%string, VU 5)]), 1%Z, Some 3%Z)
             ([1; 2]%Z, [(1%Z, [("age"%string, VU 3)]); (2%Z, [("age"%string, VU 4)])], []) = true.
Proof. vm_compute. reflexivity. Qed.

Example C01_monitor_rejects_mixed :
  durable_ok ([(2%Z, [("age"%string, VU 5)])], [],
              Some (2%Z, Some [("age"%string, VU 4)], Some [("age"%string, VU 5)]), 0%Z, None)
             ([2]%Z, [(2%Z, [("age"%string, VU 6)])], []) = false.
Proof. vm_compute. reflexivity. Qed.
