(* C10 — pinned statements only.  Each is closed by [exact] of a lemma proved in
   BTree/Proofs*.v (or Common/CommitPoint.v) and followed by Print Assumptions. *)
From Coq Require Import List ZArith Bool Lia.
From Verif Require Import Common.ObjStore Common.CommitPoint BTree.Model BTree.ProofsCrash.
Import ListNotations.
Open Scope Z_scope.

(* ---------------------------------------------------------------- crash atomicity *)

(* The generic theorem (DESIGN.md section 3), for every store, log, pointer path and reference
   function: a log "steps that avoid the pointer and everything the committed pointer references,
   then one pointer write, then steps that avoid the pointer and everything the new pointer
   references" reads, after a crash at ANY prefix, as the old or as the new committed state. *)
Theorem C10_commit_point_atomic :
  forall (P O : Type) (peq : forall a b : P, {a = b} + {a <> b}) (ptr : P) (refs : O -> list P)
         (s : store P O) (l : list (step P O)) (m' : O),
    WellFormedCommit peq ptr refs s l m' ->
    forall k : nat,
      read peq ptr refs (crash peq k l s) = read peq ptr refs s \/
      read peq ptr refs (crash peq k l s) = read peq ptr refs (apply peq s l).
Proof. exact commit_point_atomic. Qed.
Print Assumptions C10_commit_point_atomic.

(* The executable checker used as a monitor over recorded flush logs is sound. *)
Theorem C10_wf_commit_sound :
  forall (P O : Type) (peq : forall a b : P, {a = b} + {a <> b}) (ptr : P) (refs : O -> list P)
         (s : store P O) (l : list (step P O)),
    wf_commit peq ptr refs s l = true -> exists m', WellFormedCommit peq ptr refs s l m'.
Proof. exact wf_commit_sound. Qed.
Print Assumptions C10_wf_commit_sound.

(* The B-tree loader (load_metadata + load_buckets, manifest and legacy paths, stale-duplicate and
   tombstone reconciliation included) sees nothing but the metadata object and the bucket objects it
   references. *)
Theorem C10_load_factors_through_read :
  forall sz (st st' : bstore),
    read path_eq_dec PMeta meta_refs st = read path_eq_dec PMeta meta_refs st' ->
    load sz st = load sz st'.
Proof. exact load_factors_through_read. Qed.
Print Assumptions C10_load_factors_through_read.

(* Hence: whatever a flush log accepted by the monitor leaves behind at ANY crash prefix loads as
   exactly the state before the flush or exactly the state the whole flush commits. *)
Theorem C10_flush_crash_atomic :
  forall sz (st : bstore) (l : list bstep),
    wf_commit path_eq_dec PMeta meta_refs st l = true ->
    forall k : nat,
      load sz (crash path_eq_dec k l st) = load sz st \/
      load sz (crash path_eq_dec k l st) = load sz (apply path_eq_dec st l).
Proof. exact wf_flush_crash_atomic. Qed.
Print Assumptions C10_flush_crash_atomic.

Theorem C10_aborted_flush_invisible :
  forall sz (st : bstore) (l : list bstep),
    wf_abort path_eq_dec PMeta meta_refs st l = true ->
    forall k : nat, load sz (crash path_eq_dec k l st) = load sz st.
Proof. exact aborted_flush_invisible. Qed.
Print Assumptions C10_aborted_flush_invisible.

(* Any sequence of flushes (committed or aborted), crashed anywhere, loads as a whole number of them. *)
Theorem C10_flush_history_crash_atomic :
  forall sz (st : bstore) (ls : list (list bstep)),
    wf_history path_eq_dec PMeta meta_refs st ls = true ->
    forall k : nat, exists j : nat,
        (j <= length ls)%nat /\
        load sz (crash path_eq_dec k (concat ls) st) = load sz (apply path_eq_dec st (concat (firstn j ls))).
Proof. exact flush_history_crash_atomic. Qed.
Print Assumptions C10_flush_history_crash_atomic.

(* ---------------------------------------------------------------- the model's flush *)
From Verif Require Import BTree.ProofsQuery BTree.ProofsOps BTree.ProofsFlush BTree.Run.

(* For every state and store related by the flush precondition (durable manifest = in-memory
   manifest, committed generations <= last_saved_version <= version, some current bucket dirty or
   committed unless nothing was committed): the flush of the model -- fresh objects at
   generation = version, then the metadata, then deletes of FlushOutcome::obsolete -- is a
   well-formed commit, and the precondition holds again afterwards.  The generation-freshness
   invariant is exactly what a mutation re-using a generation would break. *)
Theorem C10_flush_is_wf_commit :
  forall (s : state) (st : bstore) (fo : flush_out),
    FlushPre s st -> flush s = Some fo ->
    (exists m', WellFormedCommit path_eq_dec PMeta meta_refs st (f_steps fo) m') /\
    FlushPre (f_state fo) (apply path_eq_dec st (f_steps fo)).
Proof. exact flush_is_wf_commit. Qed.
Print Assumptions C10_flush_is_wf_commit.

Theorem C10_model_flush_crash_atomic :
  forall sz (s : state) (st : bstore) (fo : flush_out),
    FlushPre s st -> flush s = Some fo ->
    forall k : nat,
      load sz (crash path_eq_dec k (f_steps fo) st) = load sz st \/
      load sz (crash path_eq_dec k (f_steps fo) st) = load sz (apply path_eq_dec st (f_steps fo)).
Proof. exact flush_crash_atomic. Qed.
Print Assumptions C10_model_flush_crash_atomic.

(* The flush precondition is an invariant of new / insert / remove / compact_buckets / flush.
   PARTIAL: preservation by insert_array / remove_array / batch_update is not proved (they leave
   manifest and last_saved_version alone and only add or dirty buckets, like insert and remove);
   full statement: forall histories over all eight operations, FlushPre holds at every flush.
   The monitor checks every recorded flush log of such histories at run time. *)
Theorem C10_flush_precondition_invariant_partial :
  FlushPre new_state [] /\
  (forall cfg sz s st id k, FlushPre s st -> FlushPre (snd (insert cfg sz s id k)) st) /\
  (forall sz s st id k, FlushPre s st -> FlushPre (snd (remove sz s id k)) st) /\
  (forall cfg sz s st r s', compact cfg sz s = (r, s') -> FlushPre s st -> FlushPre s' st).
Proof.
  split; [exact FlushPre_new|]. split; [|split].
  - intros. eapply FlushPre_Frame; [apply insert_Frame|assumption].
  - intros. eapply FlushPre_Frame; [apply remove_Frame|assumption].
  - exact FlushPre_compact.
Qed.
Print Assumptions C10_flush_precondition_invariant_partial.

(* ---------------------------------------------------------------- mutations refine an ordered multimap *)

(* insert: the result is "was it new", uniqueness is enforced (error exactly when another id owns the
   key and duplicates are not allowed, nothing changes then), membership afterwards is the multimap's,
   and the invariants (btree strictly ascending, postings <-> btree bijection, no empty posting;
   at most one id per key on a unique index) are preserved -- for every size function with positive
   values, i.e. whatever the bucket placement and migration decisions are. *)
Theorem C10_insert_refines_multimap :
  forall cfg sz, SizesPos sz -> forall s id k r s',
    Inv s -> insert cfg sz s id k = (r, s') ->
    Inv s' /\
    (allow_dup cfg = false -> Unique s -> Unique s') /\
    match r with
    | Err _ => allow_dup cfg = false /\ has s id k = false /\ (exists i, has s i k = true) /\
               (forall i j, has s' i j = has s i j)
    | Ok b => b = negb (has s id k) /\
              (allow_dup cfg = false -> Unique s -> forall i, has s i k = true -> i = id) /\
              (forall i j, has s' i j = has s i j || (Z.eqb i id && Z.eqb j k))
    end.
Proof. exact insert_refines. Qed.
Print Assumptions C10_insert_refines_multimap.

Theorem C10_remove_refines_multimap :
  forall sz s id k b s',
    Inv s -> remove sz s id k = (b, s') ->
    Inv s' /\ (Unique s -> Unique s') /\
    b = has s id k /\
    (forall i j, has s' i j = has s i j && negb (Z.eqb i id && Z.eqb j k)).
Proof. exact remove_refines. Qed.
Print Assumptions C10_remove_refines_multimap.

(* compact_buckets changes no key and no posting content *)
Theorem C10_compact_preserves_multimap :
  forall cfg sz s r s', compact cfg sz s = (r, s') ->
    btree s' = btree s /\ (forall k, view s' k = view s k).
Proof. exact compact_refines. Qed.
Print Assumptions C10_compact_preserves_multimap.

(* PARTIAL (not proved, compared on every run only): insert_array / remove_array / batch_update
   refine the multimap (their per-value posting updates are those of insert / remove; the three-phase
   bucket bookkeeping only re-homes postings). *)

(* ---------------------------------------------------------------- queries *)

(* range_keys = the keys of the ordered key set satisfying the boolean tree, ascending: every tree
   (structural induction, no depth bound), incl. the And seed selection / swap_remove / early exit,
   Or merge, Not complement, Include de-duplication, inverted Between. *)
Theorem C10_range_keys_spec :
  forall bt, ssorted bt -> forall q, range_keys bt q = filter (fun k => matches k q) bt.
Proof. exact range_keys_spec. Qed.
Print Assumptions C10_range_keys_spec.

(* range_query (both directions, any stateful callback, any stop position, any tree): the callback
   folded over the matching keys in the requested direction until it says stop, groups re-ordered
   ascending; over-deep trees are rejected with an empty result. *)
Theorem C10_range_query_spec :
  forall (A R : Type) (f : key -> list pk -> A -> bool * list R * A) s desc q a,
    KeysOK s ->
    range_query f s desc q a =
    if Nat.ltb MAX_DEPTH (depth q) then ([], a)
    else walk f desc (postings s) (filter (fun k => matches k q) (btree s)) a.
Proof. exact range_query_spec. Qed.
Print Assumptions C10_range_query_spec.

(* early termination after n keys: ascending scans return the FIRST n matching keys' output,
   descending scans the LAST n matching keys' output, both in ascending key order *)
Theorem C10_page_first_n :
  forall (R : Type) (g : key -> list pk -> list R) s q n,
    KeysOK s -> (depth q <= MAX_DEPTH)%nat -> (0 < n)%nat ->
    fst (range_query (page_cb g n) s false q 0%nat) =
    flat_map (emit g (postings s)) (firstn n (filter (fun k => matches k q) (btree s))).
Proof. exact @page_first_n. Qed.
Print Assumptions C10_page_first_n.

Theorem C10_page_last_n :
  forall (R : Type) (g : key -> list pk -> list R) s q n,
    KeysOK s -> (depth q <= MAX_DEPTH)%nat -> (0 < n)%nat ->
    fst (range_query (page_cb g n) s true q 0%nat) =
    flat_map (emit g (postings s)) (lastn n (filter (fun k => matches k q) (btree s))).
Proof. exact @page_last_n. Qed.
Print Assumptions C10_page_last_n.

(* ---------------------------------------------------------------- non-vacuity *)
Definition ex_cfg := mkConfig 64 true.
Definition ex_ins (s : state) (x : Z * Z) := snd (insert ex_cfg cbor_sizes s (fst x) (snd x)).
Definition ex_state : state :=
  fold_left ex_ins [(1, 5); (2, 5); (3, 7); (4, 9); (5, 11); (6, 13); (7, 2); (8, 300); (9, 4); (300, 6); (10, 1)] new_state.

Lemma cbor_sizes_pos : SizesPos cbor_sizes.
Proof.
  split.
  - intros i. simpl. unfold cbor_uint. repeat destruct (_ <? _); lia.
  - intros k p. change (psz cbor_sizes k p) with (cbor_psz k p). unfold cbor_psz, cbor_ids, cbor_hdr.
    assert (H : forall n, 0 < cbor_uint n) by (intros; unfold cbor_uint; repeat destruct (_ <? _); lia).
    assert (H2 : 0 <= fold_right (fun i a => cbor_uint i + a) 0 (ids_of p)).
    { induction (ids_of p) as [|a r IH]; simpl; [lia|]. specialize (H a). lia. }
    pose proof (H k). pose proof (H (bid_of p)). pose proof (H (ver_of p)).
    match goal with |- context [cbor_uint (Z.of_nat ?n)] =>
      pose proof (H (Z.of_nat n)) as H4; remember (cbor_uint (Z.of_nat n)) as a4 end.
    remember (fold_right (fun i a : Z => cbor_uint i + a) 0 (ids_of p)) as a5.
    remember (cbor_uint k) as a1. remember (cbor_uint (bid_of p)) as a2. remember (cbor_uint (ver_of p)) as a3.
    clear - H0 H1 H3 H4 H2. lia.
Qed.
Print Assumptions cbor_sizes_pos.

(* a state reached by real inserts: three buckets (migrations happened), it satisfies the flush
   precondition, its flush has bucket writes plus the commit, and a second flush after more
   mutations has deletes too *)
Example C10_flush_nonvacuous :
  FlushPre ex_state [] /\
  match flush ex_state with
  | Some fo =>
      (3 <=? length (f_steps fo))%nat &&
      wf_commit path_eq_dec PMeta meta_refs [] (f_steps fo) &&
      match flush (ex_ins (f_state fo) (11, 5)) with
      | Some fo2 => existsb (fun st => match st with Del _ => true | _ => false end) (f_steps fo2)
      | None => false
      end
  | None => false
  end = true.
Proof.
  split.
  - unfold ex_state.
    assert (H : forall l s, FlushPre s [] -> FlushPre (fold_left ex_ins l s) []).
    { induction l; simpl; auto. intros s F. apply IHl. unfold ex_ins.
      eapply FlushPre_Frame; [apply insert_Frame|exact F]. }
    apply H. exact FlushPre_new.
  - vm_compute. reflexivity.
Qed.

Lemma ex_state_inv : Inv ex_state.
Proof.
  unfold ex_state.
  assert (H : forall l s, Inv s -> Inv (fold_left ex_ins l s)).
  { induction l; simpl; auto. intros s I. apply IHl. unfold ex_ins.
    destruct (insert ex_cfg cbor_sizes s (fst a) (snd a)) as [r s'] eqn:E.
    apply (insert_refines ex_cfg cbor_sizes cbor_sizes_pos s (fst a) (snd a) r s' I E). }
  apply H. constructor; simpl; auto.
  - intros k. unfold view. simpl. split; [tauto|congruence].
  - intros k ids. unfold view. simpl. discriminate.
Qed.
Print Assumptions ex_state_inv.

Example C10_query_nonvacuous :
  KeysOK ex_state /\
  filter (fun k => matches k (QAnd [QGe 2; QNot (QInclude [7])])) (btree ex_state) = [2; 4; 5; 6; 9; 11; 13; 300] /\
  fst (range_query (page_cb (fun k ids => map (fun i => (k, i)) ids) 3) ex_state true
                   (QAnd [QGe 2; QNot (QInclude [7])]) 0%nat) = [(11, 5); (13, 6); (300, 8)].
Proof.
  split; [apply Inv_KeysOK, ex_state_inv|]. split; vm_compute; reflexivity.
Qed.

(* ---------------------------------------------------------------- concurrent mutations *)
From Verif Require Import Common.Gate.
From Verif Require Import BTree.Conc.

(* Small-step model of insert / remove / compact_buckets (every DashMap-entry access, the btree lock and the
   gate are atomic steps; any number of threads, any interleaving, unique or not): the calls that passed
   their linearization point (the posting-entry step), run sequentially in that order on the ordered
   multimap, produce the current multimap, and each call returns what the multimap returns there.  Hence no
   acknowledged insert is lost and nothing is duplicated.  The proof needs `remove_if(k, is_empty)` to be ONE
   critical section: with a separate check and removal the PCheckEmpty step is not silent. *)
Theorem C10_concurrent_linearizable :
  forall uniq (s0 s : sys),
    init s0 -> csteps uniq s0 s ->
    exists L : list nat,
      NoDup L /\
      (forall i, In i L <-> exists th, nth_error (snd s) i = Some th /\ passed (t_pc th) = true) /\
      seq_run uniq (cabs (fst s0)) (map (entry (snd s)) L) (cabs (fst s)).
Proof. exact linearizable. Qed.
Print Assumptions C10_concurrent_linearizable.

(* once every call has returned, the index content is that of SOME sequential order of ALL the calls *)
Theorem C10_quiescent_is_sequential :
  forall uniq (s0 s : sys),
    init s0 -> csteps uniq s0 s -> quiescent s ->
    exists L : list nat,
      NoDup L /\ (forall i, In i L <-> (i < length (snd s))%nat) /\
      seq_run uniq (cabs (fst s0)) (map (entry (snd s)) L) (cabs (fst s)).
Proof. exact quiescent_sequential. Qed.
Print Assumptions C10_quiescent_is_sequential.

(* while compact_buckets holds the mutation gate no insert / remove is inside its critical section, and
   the compaction is alone *)
Theorem C10_gate_protects_compaction :
  forall uniq (s0 s : sys),
    init s0 -> readers (fst s0) = 0%nat -> writer (fst s0) = false -> csteps uniq s0 s ->
    forall i th, nth_error (snd s) i = Some th -> t_pc th = PExcl ->
      (forall j thj, nth_error (snd s) j = Some thj -> inside thj = false) /\
      cnt excl (snd s) = 1%nat.
Proof. exact gate_excludes. Qed.
Print Assumptions C10_gate_protects_compaction.

(* the same exclusion as an instance of the shared gate theory (Common/Gate.v), for the lock discipline
   "mutations take the shared side, the closer publishes and takes the exclusive side" *)
Theorem C10_gate_instance_of_common :
  forall (s : gstate bool) (i : nat),
    greach bool (fun b => b) (fun f f' => f' = f \/ f' = false) (fun _ f' => f' = false) s ->
    at_pc bool s i CHeld ->
    (forall j p, at_pc bool s j p -> holds_shared p = false) /\ (forall j, at_pc bool s j CHeld -> j = i).
Proof.
  apply gate_exclusion.
  - intros f f' [->| ->]; auto.
  - intros f f' ->. reflexivity.
Qed.
Print Assumptions C10_gate_instance_of_common.

(* non-vacuity: the interleaving that loses an update when check and removal are separate -- remove(1,5)
   empties the posting, insert(2,5) runs to completion, remove resumes -- executed step by step in the
   model: the pair (2,5) is in the final multimap, key 5 is in the key set, no call is in flight *)
Example C10_concurrent_nonvacuous :
  let sh0 := mkS [(5, [1])] [5] 0 false in
  let a := mkT (CRemove 1 5) PStart in
  let b := mkT (CInsert 2 5) PStart in
  let run := fix run (n : nat) (sh : shared) (th : thread) : shared * thread :=
               match n with O => (sh, th) | S n' => match tstep false sh th with Some (sh', th') => run n' sh' th' | None => (sh, th) end end in
  let '(sh1, a1) := run 2%nat sh0 a in          (* gate, get_mut: posting emptied *)
  let '(sh2, b2) := run 9%nat sh1 b in          (* the whole insert *)
  let '(sh3, a3) := run 9%nat sh2 a1 in         (* remove_if finds it non-empty *)
  (t_pc a1, t_pc b2, t_pc a3, cabs sh3 2 5, cabs sh3 1 5, cbt sh3, readers sh3) =
  (PCheckEmpty, PDone (CBool true), PDone (CBool true), true, false, [5], 0%nat).
Proof. vm_compute. reflexivity. Qed.

(* ---------------------------------------------------------------- dirty tracking *)
From Verif Require Import BTree.ProofsDirty.

(* [own s b k] = what a flush of bucket b writes for key k.  A clean bucket is not rewritten, so a mutation
   that changes [own s b k] must leave b dirty -- otherwise flush + reload loses the change (or resurrects a
   removed id).  Under the ownership invariant (every posting's bucket exists and lists its key): *)
Theorem C10_remove_dirties_what_it_changes :
  forall sz s id k r s',
    OwnInv s -> remove sz s id k = (r, s') ->
    forall b j, own s' b j <> own s b j -> dirtyb s' b = true.
Proof. exact remove_dirties. Qed.
Print Assumptions C10_remove_dirties_what_it_changes.

Theorem C10_insert_dirties_what_it_changes :
  forall cfg sz s id k r s',
    SizesPos sz -> OwnInv s -> insert cfg sz s id k = (r, s') ->
    forall b j, own s' b j <> own s b j -> dirtyb s' b = true.
Proof. exact insert_dirties. Qed.
Print Assumptions C10_insert_dirties_what_it_changes.

(* the ownership invariant holds initially and is preserved by insert (incl. migration) and remove *)
Theorem C10_ownership_invariant_partial :
  OwnInv new_state /\
  (forall cfg sz s id k r s', SizesPos sz -> OwnInv s -> insert cfg sz s id k = (r, s') -> OwnInv s') /\
  (forall sz s id k r s', OwnInv s -> remove sz s id k = (r, s') -> OwnInv s').
Proof. split; [exact OwnInv_new|]. split; [exact insert_OwnInv|exact remove_OwnInv]. Qed.
Print Assumptions C10_ownership_invariant_partial.

(* ... and the object a flush writes for a dirty bucket is exactly what the bucket owns *)
Theorem C10_flush_writes_what_buckets_own :
  forall s fo, OwnInv s -> flush s = Some fo ->
    forall b, In b (dirty_ids (pre_flush s)) ->
      exists ps, In (Put (PBucket b (version (pre_flush s))) (OBucket ps)) (f_steps fo) /\
                 forall k, alookup k ps = own s b k.
Proof. exact flush_writes_own. Qed.
Print Assumptions C10_flush_writes_what_buckets_own.

(* the load side: through a manifest, the posting of key j is the entry of the LAST manifest file that lists j,
   tagged with that file's bucket id -- a function of the manifest and the referenced files alone (files that
   are well-formed: distinct keys, no tombstone; [owned] never writes an empty id list).  No mixture with
   anything else in the store, no dependence on unreferenced objects. *)
From Verif Require Import BTree.ProofsLoad.

Theorem C10_load_reads_manifest_files :
  forall sz (st : bstore) mf maxb ver s,
    get path_eq_dec st PMeta = Some (OMeta mf maxb ver) -> mf <> [] ->
    (forall b g ps, In (b, g) mf -> get path_eq_dec st (PBucket b g) = Some (OBucket ps) -> WfFile ps) ->
    load sz st = Some s ->
    (forall j, alookup j (postings s) = find_file (get path_eq_dec st) mf j) /\
    manifest s = mf /\ version s = ver /\ last_saved s = ver /\ max_bid s = maxb.
Proof. exact load_manifest_postings. Qed.
Print Assumptions C10_load_reads_manifest_files.

(* PARTIAL: what remains of abs (load (flush s)) = abs s is the store invariant "every clean bucket's committed
   file is its [own] image" carried along histories (C10_flush_writes_what_buckets_own gives it for the dirty
   ones, C10_load_reads_manifest_files turns files into postings); it is compared on every run
   (flush dumps, reload after every quiet window, dirty-tracking probes). *)
