(* BTree/ProofsCrash.v — the B-tree loader is a function of CommitPoint's [read]; hence every
   well-formed flush log is atomic for [load] under every crash prefix. *)
From Coq Require Import List ZArith Bool Lia.
From Verif Require Import Common.ObjStore Common.CommitPoint BTree.Model.
Import ListNotations.
Open Scope Z_scope.

Notation bread := (read path_eq_dec PMeta meta_refs).
Notation bget := (get path_eq_dec).
Notation bapply := (apply path_eq_dec).
Notation bcrash := (crash path_eq_dec).

Lemma map_eq_pointwise {A B} (f g : A -> B) l :
  map f l = map g l -> forall x, In x l -> f x = g x.
Proof.
  induction l; simpl; intros H x Hin; [contradiction|].
  inversion H. destruct Hin; subst; auto.
Qed.

Lemma fold_left_ext_in {A B} (f g : A -> B -> A) l :
  (forall a x, In x l -> f a x = g a x) -> forall a, fold_left f l a = fold_left g l a.
Proof.
  induction l; simpl; intros H a0; auto.
  rewrite H by (left; auto). apply IHl. intros; apply H; right; auto.
Qed.

Lemma load_object_ext (sz : sizes) (g1 g2 : path -> option obj) legacy l :
  (forall x, In x l -> g1 (PBucket (fst x) (snd x)) = g2 (PBucket (fst x) (snd x))) ->
  forall acc, fold_left (load_object sz g1 legacy) l acc = fold_left (load_object sz g2 legacy) l acc.
Proof.
  intros H. apply fold_left_ext_in. intros [s loaded] [i g] Hin.
  unfold load_object. specialize (H (i, g) Hin). simpl in H. rewrite H. reflexivity.
Qed.

(* the loader only looks at the metadata object and at the bucket objects it references *)
Theorem load_factors_through_read sz st st' :
  bread st = bread st' -> load sz st = load sz st'.
Proof.
  unfold read, load. intros H.
  destruct (bget st PMeta) as [m|] eqn:E1; destruct (bget st' PMeta) as [m'|] eqn:E2; try discriminate; auto.
  inversion H; subst m'. clear H. rename H2 into Hm.
  destruct m as [mf maxb ver|ps]; auto.
  simpl meta_refs in Hm. rewrite !map_map in Hm.
  rewrite (load_object_ext sz (bget st) (bget st') _ (load_objects mf maxb)); auto.
  intros x Hin.
  apply (map_eq_pointwise (fun x => bget st (PBucket (fst x) (snd x))) (fun x => bget st' (PBucket (fst x) (snd x))) _ Hm x Hin).
Qed.

(* every crash prefix of a well-formed flush log loads as the committed state before it or as the
   state the complete flush commits: never a mixture, never a loss *)
Theorem wf_flush_crash_atomic sz st l :
  wf_commit path_eq_dec PMeta meta_refs st l = true ->
  forall k, load sz (bcrash k l st) = load sz st \/ load sz (bcrash k l st) = load sz (bapply st l).
Proof.
  intros H k. destruct (wf_commit_atomic path_eq_dec PMeta meta_refs st l H k) as [E|E];
    [left|right]; apply load_factors_through_read; exact E.
Qed.

(* an attempt that fails before its metadata write is invisible to the loader at every prefix *)
Theorem aborted_flush_invisible sz st l :
  wf_abort path_eq_dec PMeta meta_refs st l = true ->
  forall k, load sz (bcrash k l st) = load sz st.
Proof.
  intros H k. apply load_factors_through_read. apply abort_invisible; auto.
Qed.

(* histories of flushes (committed or aborted): a crash anywhere loads as some whole number of them *)
Theorem flush_history_crash_atomic sz st ls :
  wf_history path_eq_dec PMeta meta_refs st ls = true ->
  forall k, exists j, (j <= length ls)%nat /\
                      load sz (bcrash k (concat ls) st) = load sz (bapply st (concat (firstn j ls))).
Proof.
  intros H k. destruct (history_atomic path_eq_dec PMeta meta_refs ls st H k) as (j & Hj & E).
  exists j. split; auto. apply load_factors_through_read; exact E.
Qed.
