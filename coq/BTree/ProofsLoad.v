(* BTree/ProofsLoad.v — the load side of the flush/load round trip (C10).

   What load_buckets (manifest path, btree.rs:877-1009) rebuilds, as a function of the manifest and the
   bucket files it references alone: the posting of key j is the entry for j in the LAST manifest file that
   lists j, tagged with that file's bucket id; files without j do not matter; a key no file lists has no
   posting.  No hypothesis on the files other than well-formedness (distinct keys, no tombstones), which is
   what serialize_bucket_snapshot writes ([owned] never emits an empty id list, Model.v).  *)
From Coq Require Import List ZArith Bool Lia.
From Verif Require Import Common.ObjStore BTree.Model BTree.ProofsOps.
Import ListNotations.
Open Scope Z_scope.

Definition file := list (key * (Z * list pk)).

Definition WfFile (ps : file) : Prop :=
  NoDup (map fst ps) /\ forall k ver ids, In (k, (ver, ids)) ps -> ids <> [].

(* the last manifest entry whose file lists j *)
Fixpoint find_file (gt : path -> option obj) (mf : list (bid * Z)) (j : key) : option posting :=
  match mf with
  | [] => None
  | (b, g) :: r =>
      match find_file gt r j with
      | Some p => Some p
      | None => match gt (PBucket b g) with
                | Some (OBucket ps) => match alookup j ps with
                                       | Some (ver, ids) => Some (b, ver, ids)
                                       | None => None
                                       end
                | _ => None
                end
      end
  end.

Section LoadProofs.
  Variable sz : sizes.

  Lemma alookup_notin {V} k (l : list (Z * V)) : ~ In k (map fst l) -> alookup k l = None.
  Proof.
    induction l as [|[k' v] l IH]; simpl; intros N; [reflexivity|].
    destruct (Z.eqb_spec k' k) as [E|E]; [exfalso; apply N; left; exact E|].
    apply IH. intros H. apply N. right. exact H.
  Qed.

  (* one posting of a file: only the postings map matters here, and it is a plain aset / adel *)
  Lemma load_posting_postings i s bks r k ver ids :
    postings (fst (fst (load_posting sz i (s, bks, r) (k, (ver, ids))))) =
    match ids with
    | [] => adel k (postings s)
    | _ => aset k (i, ver, ids) (postings s)
    end.
  Proof.
    unfold load_posting. destruct ids as [|x xs].
    - destruct (alookup k (postings s)) as [prev|] eqn:E; simpl.
      + destruct (Z.eqb (bid_of prev) i); simpl; [reflexivity|].
        match goal with |- postings (match ?x with _ => _ end) = _ => destruct x as [e|] end; simpl; [|reflexivity].
        destruct (memz k (bkeys e)); reflexivity.
      + clear -E. induction (postings s) as [|[k' v] l IH]; simpl in *; [reflexivity|].
        destruct (Z.eqb k' k); [discriminate|]. rewrite <- IH by exact E. reflexivity.
    - destruct (alookup k (postings s)) as [prev|] eqn:E; simpl; [|reflexivity].
      destruct (Z.eqb (bid_of prev) i); simpl; [reflexivity|].
      match goal with |- postings (match ?x with _ => _ end) = _ => destruct x as [e|] end; simpl; [|reflexivity].
      destruct (memz k (bkeys e)); reflexivity.
  Qed.

  (* a whole well-formed file *)
  Lemma load_file_postings i (ps : file) : forall s bks r,
    WfFile ps ->
    forall j, alookup j (postings (fst (fst (fold_left (load_posting sz i) ps (s, bks, r))))) =
              match alookup j ps with
              | Some (ver, ids) => Some (i, ver, ids)
              | None => alookup j (postings s)
              end.
  Proof.
    induction ps as [|[k [ver ids]] ps IH]; intros s bks r [ND NE] j; [reflexivity|].
    cbn [fold_left].
    destruct (load_posting sz i (s, bks, r) (k, (ver, ids))) as [[s1 bks1] r1] eqn:E1.
    assert (P1 : postings s1 = aset k (i, ver, ids) (postings s)).
    { pose proof (load_posting_postings i s bks r k ver ids) as H. rewrite E1 in H. simpl in H.
      destruct ids; [exfalso; eapply NE; [left; reflexivity|reflexivity]|exact H]. }
    inversion ND as [|? ? Nk ND']; subst.
    rewrite IH by (split; [exact ND'|intros k0 v0 i0 H0; eapply NE; right; exact H0]).
    cbn [alookup]. destruct (Z.eqb_spec k j) as [->|N].
    - rewrite (alookup_notin j ps Nk), P1, alookup_aset_same. reflexivity.
    - destruct (alookup j ps) as [[v' i']|]; [reflexivity|].
      rewrite P1. apply alookup_aset_other. congruence.
  Qed.

  Lemma load_object_postings gt s loaded b g :
    (forall ps, gt (PBucket b g) = Some (OBucket ps) -> WfFile ps) ->
    forall j, alookup j (postings (fst (load_object sz gt false (s, loaded) (b, g)))) =
              match gt (PBucket b g) with
              | Some (OBucket ps) => match alookup j ps with
                                     | Some (ver, ids) => Some (b, ver, ids)
                                     | None => alookup j (postings s)
                                     end
              | _ => alookup j (postings s)
              end.
  Proof.
    intros W j. unfold load_object.
    destruct (gt (PBucket b g)) as [[mf maxb v|ps]|] eqn:G; simpl; try reflexivity.
    pose proof (load_file_postings b ps s [] false (W ps eq_refl) j) as H.
    destruct (fold_left (load_posting sz b) ps (s, [], false)) as [[s1 bks1] r1]. simpl in *. exact H.
  Qed.

  Lemma load_fold_postings gt mf : forall s loaded,
    (forall b g ps, In (b, g) mf -> gt (PBucket b g) = Some (OBucket ps) -> WfFile ps) ->
    forall j, alookup j (postings (fst (fold_left (load_object sz gt false) mf (s, loaded)))) =
              match find_file gt mf j with
              | Some p => Some p
              | None => alookup j (postings s)
              end.
  Proof.
    induction mf as [|[b g] mf IH]; intros s loaded W j; [reflexivity|].
    cbn [fold_left find_file].
    destruct (load_object sz gt false (s, loaded) (b, g)) as [s1 l1] eqn:E1.
    rewrite IH by (intros b0 g0 ps0 H0; apply W; right; exact H0).
    destruct (find_file gt mf j) as [p|]; [reflexivity|].
    pose proof (load_object_postings gt s loaded b g (fun ps => W b g ps (or_introl eq_refl)) j) as H.
    rewrite E1 in H. simpl in H. rewrite H.
    destruct (gt (PBucket b g)) as [[?|ps]|]; try reflexivity.
    destruct (alookup j ps) as [[v i]|]; reflexivity.
  Qed.

  (* load through a manifest: postings = last-listing-file-wins over the manifest's files *)
  Theorem load_manifest_postings (st : bstore) mf maxb ver s :
    get path_eq_dec st PMeta = Some (OMeta mf maxb ver) -> mf <> [] ->
    (forall b g ps, In (b, g) mf -> get path_eq_dec st (PBucket b g) = Some (OBucket ps) -> WfFile ps) ->
    load sz st = Some s ->
    (forall j, alookup j (postings s) = find_file (get path_eq_dec st) mf j) /\
    manifest s = mf /\ version s = ver /\ last_saved s = ver /\ max_bid s = maxb.
  Proof.
    intros M NE W L. unfold load in L. rewrite M in L.
    destruct mf as [|x mf']; [congruence|].
    cbn [load_objects] in L.
    set (s0 := mkState [] [] [(0, empty_bucket)] (x :: mf') ver ver maxb) in *.
    pose proof (load_fold_postings (get path_eq_dec st) (x :: mf') s0 [] W) as H.
    assert (K : forall l acc, let r := fold_left (load_object sz (get path_eq_dec st) false) l acc in
                manifest (fst acc) = x :: mf' /\ version (fst acc) = ver /\ last_saved (fst acc) = ver /\ max_bid (fst acc) = maxb ->
                manifest (fst r) = x :: mf' /\ version (fst r) = ver /\ last_saved (fst r) = ver /\ max_bid (fst r) = maxb).
    { induction l as [|[b g] l IHl]; intros acc r Hacc; [exact Hacc|].
      subst r. cbn [fold_left]. apply IHl. destruct acc as [sa la]. unfold load_object.
      destruct (get path_eq_dec st (PBucket b g)) as [[?|ps]|]; simpl; try exact Hacc.
      destruct (fold_left (load_posting sz b) ps (sa, [], false)) as [[s1 bks1] r1] eqn:E. simpl.
      assert (F : forall ps acc, let r := fold_left (load_posting sz b) ps acc in
                   manifest (fst (fst r)) = manifest (fst (fst acc)) /\ version (fst (fst r)) = version (fst (fst acc)) /\
                   last_saved (fst (fst r)) = last_saved (fst (fst acc)) /\ max_bid (fst (fst r)) = max_bid (fst (fst acc))).
      { clear. induction ps as [|[k [v ids]] ps IHp]; intros acc r; [subst r; simpl; auto|].
        subst r. cbn [fold_left].
        specialize (IHp (load_posting sz b acc (k, (v, ids)))). cbv zeta in IHp.
        destruct IHp as (A & B & C & D). rewrite A, B, C, D. clear.
        destruct acc as [[s bks] r]. unfold load_posting.
        destruct ids as [|i0 ids0].
        - destruct (alookup k (postings s)) as [prev|]; simpl; [|auto].
          destruct (Z.eqb (bid_of prev) b); simpl; [auto|].
          destruct (alookup (bid_of prev) (buckets s)) as [e|]; simpl; [|auto].
          destruct (memz k (bkeys e)); simpl; auto.
        - destruct (alookup k (postings s)) as [prev|]; simpl; [|auto].
          destruct (Z.eqb (bid_of prev) b); simpl; [auto|].
          destruct (alookup (bid_of prev) (buckets s)) as [e|]; simpl; [|auto].
          destruct (memz k (bkeys e)); simpl; auto. }
      specialize (F ps (sa, [], false)). cbv zeta in F. rewrite E in F. simpl in F.
      destruct F as (A & B & C & D). rewrite A, B, C, D. exact Hacc. }
    specialize (K (x :: mf') (s0, [])). cbv zeta in K.
    destruct (fold_left (load_object sz (get path_eq_dec st) false) (x :: mf') (s0, [])) as [s1 loaded] eqn:E.
    simpl in L. inversion L; subst s. cbn [fst] in H, K.
    split.
    - intros j. rewrite H. destruct (find_file (get path_eq_dec st) (x :: mf') j); reflexivity.
    - apply K. subst s0. simpl. auto.
  Qed.
End LoadProofs.

(* non-vacuity: a two-bucket manifest where a migrated key appears in an older file and the newer file wins *)
Definition ex_get (p : path) : option obj :=
  match p with
  | PBucket 0 3 => Some (OBucket [(5, (1, [10; 11])); (7, (1, [12]))])
  | PBucket 1 4 => Some (OBucket [(7, (2, [12; 13]))])
  | _ => None
  end.

Example find_file_example :
  find_file ex_get [(0, 3); (1, 4)] 5 = Some (0, 1, [10; 11]) /\
  find_file ex_get [(0, 3); (1, 4)] 7 = Some (1, 2, [12; 13]) /\
  find_file ex_get [(0, 3); (1, 4)] 9 = None.
Proof. vm_compute. repeat split. Qed.
