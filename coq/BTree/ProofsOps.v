(* BTree/ProofsOps.v — every mutation refines an ordered multimap and preserves the invariants. *)
From Coq Require Import List ZArith Bool Lia Arith.
From Verif Require Import BTree.Model BTree.ProofsQuery.
Import ListNotations.
Open Scope Z_scope.

(* ------------------------------------------------------------------ assoc lists *)
Section AssocFacts.
  Context {V : Type}.
  Lemma alookup_aset_same k (v : V) l : alookup k (aset k v l) = Some v.
  Proof.
    induction l as [|[k' v'] r IH]; simpl.
    - rewrite Z.eqb_refl. reflexivity.
    - destruct (Z.eqb k' k) eqn:E; simpl.
      + rewrite Z.eqb_refl. reflexivity.
      + rewrite E. exact IH.
  Qed.
  Lemma alookup_aset_other k j (v : V) l : j <> k -> alookup j (aset k v l) = alookup j l.
  Proof.
    intros N. induction l as [|[k' v'] r IH]; simpl.
    - destruct (Z.eqb k j) eqn:E; auto. apply Z.eqb_eq in E. congruence.
    - destruct (Z.eqb k' k) eqn:E; simpl.
      + apply Z.eqb_eq in E. subst k'.
        destruct (Z.eqb k j) eqn:E2; auto. apply Z.eqb_eq in E2. congruence.
      + destruct (Z.eqb k' j); auto.
  Qed.
  Lemma alookup_adel_same k (l : list (Z * V)) : alookup k (adel k l) = None.
  Proof.
    induction l as [|[k' v'] r IH]; simpl; auto.
    destruct (Z.eqb k' k) eqn:E; auto. simpl. rewrite E. exact IH.
  Qed.
  Lemma alookup_adel_other k j (l : list (Z * V)) : j <> k -> alookup j (adel k l) = alookup j l.
  Proof.
    intros N. induction l as [|[k' v'] r IH]; simpl; auto.
    destruct (Z.eqb k' k) eqn:E; simpl.
    - apply Z.eqb_eq in E. subst k'. destruct (Z.eqb k j) eqn:E2; auto. apply Z.eqb_eq in E2. congruence.
    - destruct (Z.eqb k' j); auto.
  Qed.
End AssocFacts.

(* ------------------------------------------------------------------ the abstraction *)
(* the ordered multimap a state denotes: key -> id list (as a set), keys in [btree] order *)
Definition view (s : state) (k : key) : option (list pk) := option_map ids_of (alookup k (postings s)).

Definition LEq (s s' : state) : Prop := btree s' = btree s /\ forall k, view s' k = view s k.

Record Inv (s : state) : Prop := mkInv {
  inv_sorted : ssorted (btree s);
  inv_bij : forall k, In k (btree s) <-> view s k <> None;      (* postings <-> btree bijection *)
  inv_nonempty : forall k ids, view s k = Some ids -> ids <> [] (* no empty posting *)
}.

Definition Unique (s : state) : Prop := forall k ids, view s k = Some ids -> exists i, ids = [i].

Lemma has_view s id k : has s id k = match view s k with Some ids => memz id ids | None => false end.
Proof. unfold has, view. destruct (alookup k (postings s)); reflexivity. Qed.

Lemma view_none_iff s k : view s k <> None <-> alookup k (postings s) <> None.
Proof. unfold view. destruct (alookup k (postings s)); simpl; split; congruence. Qed.

Lemma Inv_KeysOK s : Inv s -> KeysOK s.
Proof.
  intros [S B _]. split; auto. intros k. rewrite B. apply view_none_iff.
Qed.

Lemma LEq_refl s : LEq s s.
Proof. split; auto. Qed.

Lemma LEq_proj s s' : btree s' = btree s -> postings s' = postings s -> LEq s s'.
Proof. intros B P. split; auto. intros k. unfold view. rewrite P. reflexivity. Qed.

Ltac leq_triv := first [apply LEq_refl | apply LEq_proj; reflexivity].

Lemma LEq_trans s1 s2 s3 : LEq s1 s2 -> LEq s2 s3 -> LEq s1 s3.
Proof. intros [B1 V1] [B2 V2]. split; [congruence|]. intros k. rewrite V2. apply V1. Qed.

Lemma LEq_has s s' : LEq s s' -> forall i j, has s' i j = has s i j.
Proof. intros [_ V] i j. rewrite !has_view, V. reflexivity. Qed.

Lemma LEq_Inv s s' : LEq s s' -> Inv s -> Inv s'.
Proof.
  intros [B V] [S Bi N]. constructor.
  - rewrite B; auto.
  - intros k. rewrite B, V. apply Bi.
  - intros k ids. rewrite V. apply N.
Qed.

Lemma LEq_Unique s s' : LEq s s' -> Unique s -> Unique s'.
Proof. intros [_ V] U k ids. rewrite V. apply U. Qed.

(* re-homing a posting (same ids, other bucket / version) does not change the multimap *)
Lemma view_rehome s k p p' :
  alookup k (postings s) = Some p -> ids_of p' = ids_of p ->
  forall j, option_map ids_of (alookup j (aset k p' (postings s))) = view s j.
Proof.
  intros E I j. unfold view. destruct (Z.eq_dec j k) as [->|N].
  - rewrite alookup_aset_same, E. simpl. congruence.
  - rewrite alookup_aset_other; auto.
Qed.

Lemma LEq_set_posting_bid s k b :
  LEq s (set_postings s (set_posting_bid k b (postings s))).
Proof.
  split; auto. intros j. unfold set_posting_bid.
  destruct (alookup k (postings s)) as [p|] eqn:E; [|reflexivity].
  unfold view at 1. simpl. apply view_rehome with (p := p); auto.
Qed.

(* ------------------------------------------------------------------ sets of ids *)
Lemma memz_app x l1 l2 : memz x (l1 ++ l2) = memz x l1 || memz x l2.
Proof. unfold memz. apply existsb_app. Qed.

Lemma memz_uremove x y l : memz x (uremove y l) = memz x l && negb (Z.eqb x y).
Proof.
  destruct (memz x (uremove y l)) eqn:E.
  - apply memz_In in E. unfold uremove in E. apply filter_In in E. destruct E as [Hin Hn].
    apply negb_true_iff, Z.eqb_neq in Hn.
    symmetry. apply andb_true_iff. split; [apply memz_In; auto|].
    apply negb_true_iff, Z.eqb_neq. auto.
  - apply memz_false in E. symmetry. apply andb_false_iff.
    destruct (Z.eqb x y) eqn:E2; [right; reflexivity|left].
    apply memz_false. intro Hin. apply E. unfold uremove. apply filter_In. split; auto.
    apply negb_true_iff. exact E2.
Qed.

Definition SizesPos (sz : sizes) : Prop := (forall i, 0 < dsz sz i) /\ (forall k p, 0 < psz sz k p).

Section OpsFacts.
  Variable cfg : config.
  Variable sz : sizes.
  Hypothesis SP : SizesPos sz.

  (* ---------------------------------------------------------------- bucket bookkeeping is invisible *)
  Lemma insert_bucket_phase_LEq s k target inc appended :
    LEq s (insert_bucket_phase cfg sz s k target inc appended).
  Proof.
    unfold insert_bucket_phase.
    destruct ((match bkeys (get_bucket target (ensure_bucket target (buckets s))) with [] => true | _ => false end)
              || (bsize (get_bucket target (ensure_bucket target (buckets s))) + inc <? overload cfg)).
    - leq_triv.
    - simpl postings. destruct (alookup k (postings s)) as [p|] eqn:E.
      + split; auto. intros j. unfold view at 1. simpl.
        apply view_rehome with (p := p); auto.
      + leq_triv.
  Qed.

  (* ---------------------------------------------------------------- insert *)
  Theorem insert_refines s id k r s' :
    Inv s -> insert cfg sz s id k = (r, s') ->
    Inv s' /\
    (allow_dup cfg = false -> Unique s -> Unique s') /\
    match r with
    | Err _ => allow_dup cfg = false /\ has s id k = false /\ (exists i, has s i k = true) /\
               (forall i j, has s' i j = has s i j)
    | Ok b => b = negb (has s id k) /\
              (allow_dup cfg = false -> Unique s -> forall i, has s i k = true -> i = id) /\
              (forall i j, has s' i j = has s i j || (Z.eqb i id && Z.eqb j k))
    end.
  Proof.
    intros I. unfold insert.
    set (s0 := set_buckets s (ensure_bucket (max_bid s) (buckets s))).
    assert (L0 : LEq s s0) by leq_triv.
    change (postings s0) with (postings s). change (max_bid s0) with (max_bid s).
    destruct SP as [SPd SPp].
    destruct (alookup k (postings s)) as [p|] eqn:E.
    - (* occupied *)
      assert (Vk : view s k = Some (ids_of p)) by (unfold view; rewrite E; reflexivity).
      assert (Hk : forall i, has s i k = memz i (ids_of p)) by (intros; rewrite has_view, Vk; auto).
      destruct (negb (allow_dup cfg) && negb (isnil (ids_of p)) && negb (memz id (ids_of p))) eqn:EU.
      + intros H; inversion H; subst; clear H.
        apply andb_true_iff in EU as [EU0 EU2]. apply andb_true_iff in EU0 as [EU1 EUn]. apply negb_true_iff in EU1, EU2.
        split; [apply (LEq_Inv s); auto|]. split; [intros; apply (LEq_Unique s); auto|].
        split; auto. split; [rewrite Hk; auto|]. split.
        * destruct (ids_of p) as [|i0 r0] eqn:EI.
          -- exfalso. apply (inv_nonempty s I k []); auto.
          -- exists i0. rewrite Hk. simpl. rewrite Z.eqb_refl. reflexivity.
        * apply LEq_has; auto.
      + destruct (memz id (ids_of p)) eqn:EM.
        * intros H; inversion H; subst; clear H.
          split; [apply (LEq_Inv s); auto|]. split; [intros; apply (LEq_Unique s); auto|].
          split; [rewrite Hk, EM; auto|]. split.
          -- intros AD U i Hi. destruct (U k _ Vk) as [i0 Ei]. rewrite Hk, Ei in Hi. rewrite Ei in EM.
             simpl in Hi, EM. rewrite orb_false_r in Hi, EM. apply Z.eqb_eq in Hi, EM. congruence.
          -- intros i j. rewrite (LEq_has s s0 L0).
             destruct (Z.eqb i id && Z.eqb j k) eqn:EQ; [|rewrite orb_false_r; auto].
             apply andb_true_iff in EQ as [E1 E2]. apply Z.eqb_eq in E1, E2. subst.
             rewrite Hk, EM. reflexivity.
        * assert (AD : allow_dup cfg = true).
          { destruct (allow_dup cfg) eqn:EAD; auto. exfalso.
            destruct (ids_of p) as [|i0 r0] eqn:EI.
            - apply (inv_nonempty s I k []); auto.
            - simpl in EU. discriminate. }
          replace (0 <? dsz sz id) with true by (symmetry; apply Z.ltb_lt; apply SPd).
          intros H; inversion H; subst; clear H.
          set (p' := (bid_of p, ver_of p + 1, ids_of p ++ [id]) : posting).
          set (s1 := set_postings s0 (aset k p' (postings s))).
          assert (V1k : view s1 k = Some (ids_of p ++ [id])).
          { unfold view, s1. simpl. rewrite alookup_aset_same. reflexivity. }
          assert (V1o : forall j, j <> k -> view s1 j = view s j).
          { intros j N. unfold view, s1. simpl. rewrite alookup_aset_other; auto. }
          assert (I1 : Inv s1).
          { constructor.
            - apply (inv_sorted s I).
            - intros j. change (btree s1) with (btree s). rewrite (inv_bij s I).
              destruct (Z.eq_dec j k) as [->|N]; [rewrite V1k, Vk; split; congruence | rewrite V1o; tauto].
            - intros j ids. destruct (Z.eq_dec j k) as [->|N].
              + rewrite V1k. intros H; inversion H. destruct (ids_of p); discriminate.
              + rewrite V1o; auto. apply (inv_nonempty s I). }
          assert (L1 : LEq s1 (bump_version (insert_bucket_phase cfg sz s1 k (bid_of p) (dsz sz id) true))).
          { eapply LEq_trans; [apply insert_bucket_phase_LEq|leq_triv]. }
          split; [apply (LEq_Inv s1); auto|].
          split; [intros AD'; congruence|].
          split; [rewrite Hk, EM; auto|]. split; [intros AD'; congruence|].
          intros i j. rewrite (LEq_has _ _ L1). rewrite !has_view.
          destruct (Z.eq_dec j k) as [->|N].
          -- rewrite V1k, Vk, memz_app. simpl. rewrite Z.eqb_refl, orb_false_r, andb_true_r. reflexivity.
          -- rewrite V1o by auto. replace (Z.eqb j k) with false by (symmetry; apply Z.eqb_neq; auto).
             rewrite andb_false_r, orb_false_r. reflexivity.
    - (* vacant *)
      assert (Vk : view s k = None) by (unfold view; rewrite E; reflexivity).
      replace (0 <? psz sz k (max_bid s, 1, [id])) with true by (symmetry; apply Z.ltb_lt; apply SPp).
      intros H; inversion H; subst; clear H.
      set (p := (max_bid s, 1, [id]) : posting).
      set (s1 := set_btree (set_postings s0 (aset k p (postings s))) (sinsert k (btree s))).
      assert (V1k : view s1 k = Some [id]).
      { unfold view, s1. simpl. rewrite alookup_aset_same. reflexivity. }
      assert (V1o : forall j, j <> k -> view s1 j = view s j).
      { intros j N. unfold view, s1. simpl. rewrite alookup_aset_other; auto. }
      assert (I1 : Inv s1).
      { constructor.
        - apply sinsert_sorted. apply (inv_sorted s I).
        - intros j. change (btree s1) with (sinsert k (btree s)). rewrite sinsert_In, (inv_bij s I).
          destruct (Z.eq_dec j k) as [->|N]; [rewrite V1k; split; [congruence|auto] | rewrite V1o; tauto].
        - intros j ids. destruct (Z.eq_dec j k) as [->|N].
          + rewrite V1k. intros H; inversion H. discriminate.
          + rewrite V1o; auto. apply (inv_nonempty s I). }
      assert (L1 : LEq s1 (bump_version (insert_bucket_phase cfg sz s1 k (max_bid s) (psz sz k p) false))).
      { eapply LEq_trans; [apply insert_bucket_phase_LEq|leq_triv]. }
      split; [apply (LEq_Inv s1); auto|].
      split.
      { intros _ U. apply (LEq_Unique s1); auto. intros j ids.
        destruct (Z.eq_dec j k) as [->|N]; [rewrite V1k; intros H; inversion H; eauto | rewrite V1o by auto; apply U]. }
      split; [rewrite has_view, Vk; auto|].
      split; [intros _ _ i Hi; rewrite has_view, Vk in Hi; discriminate|].
      intros i j. rewrite (LEq_has _ _ L1). rewrite !has_view.
      destruct (Z.eq_dec j k) as [->|N].
      + rewrite V1k, Vk. simpl. rewrite Z.eqb_refl, orb_false_r, andb_true_r. reflexivity.
      + rewrite V1o by auto. replace (Z.eqb j k) with false by (symmetry; apply Z.eqb_neq; auto).
        rewrite andb_false_r, orb_false_r. reflexivity.
  Qed.

  (* ---------------------------------------------------------------- remove *)
  Theorem remove_refines s id k b s' :
    Inv s -> remove sz s id k = (b, s') ->
    Inv s' /\ (Unique s -> Unique s') /\
    b = has s id k /\
    (forall i j, has s' i j = has s i j && negb (Z.eqb i id && Z.eqb j k)).
  Proof.
    intros I. unfold remove.
    assert (Hsame : forall i j, has s i j = has s i j && negb (Z.eqb i id && Z.eqb j k) \/ (i = id /\ j = k)).
    { intros i j. destruct (Z.eqb i id && Z.eqb j k) eqn:EQ.
      - right. apply andb_true_iff in EQ as [E1 E2]. apply Z.eqb_eq in E1, E2. auto.
      - left. rewrite andb_true_r. reflexivity. }
    destruct (alookup k (postings s)) as [p|] eqn:E.
    - assert (Vk : view s k = Some (ids_of p)) by (unfold view; rewrite E; reflexivity).
      destruct (memz id (ids_of p)) eqn:EM.
      + intros H; injection H as <- <-.
        set (ids' := uremove id (ids_of p)).
        set (s1 := if match ids' with [] => true | _ => false end
                   then set_btree (set_postings s (adel k (postings s))) (sremove k (btree s))
                   else set_postings s (aset k (bid_of p, ver_of p + 1, ids') (postings s))).
        assert (V1k : view s1 k = match ids' with [] => None | _ => Some ids' end).
        { unfold s1. destruct ids'; unfold view; simpl.
          - rewrite alookup_adel_same. reflexivity.
          - rewrite alookup_aset_same. reflexivity. }
        assert (V1o : forall j, j <> k -> view s1 j = view s j).
        { intros j N. unfold s1. destruct ids'; unfold view; simpl.
          - rewrite alookup_adel_other; auto.
          - rewrite alookup_aset_other; auto. }
        assert (B1 : forall j, In j (btree s1) <-> In j (btree s) /\ (j <> k \/ ids' <> [])).
        { intros j. unfold s1. destruct ids' eqn:EI; simpl.
          - rewrite sremove_In. intuition.
          - intuition. right; discriminate. }
        assert (I1 : Inv s1).
        { constructor.
          - unfold s1. destruct ids'; simpl; [apply sremove_sorted|]; apply (inv_sorted s I).
          - intros j. rewrite B1, (inv_bij s I).
            destruct (Z.eq_dec j k) as [->|N].
            + rewrite V1k, Vk. destruct ids'; split; try congruence; intuition congruence.
            + rewrite V1o by auto. intuition.
          - intros j ids. destruct (Z.eq_dec j k) as [->|N].
            + rewrite V1k. destruct ids' eqn:EI; [discriminate|]. intros H; inversion H. discriminate.
            + rewrite V1o by auto. apply (inv_nonempty s I). }
        set (dec := if match ids' with [] => true | _ => false end
                    then match ids_of p with [_] => psz sz k p | _ => 0 end else dsz sz id).
        match goal with |- Inv (bump_version ?X) /\ _ => set (s2 := X) end.
        assert (L2 : LEq s1 (bump_version s2)).
        { unfold s2. fold ids' s1. destruct (alookup (bid_of p) (buckets s1)); leq_triv. }
        split; [apply (LEq_Inv s1); auto|].
        split.
        { intros U. apply (LEq_Unique s1); auto. intros j ids.
          destruct (Z.eq_dec j k) as [->|N].
          - rewrite V1k. destruct (U k _ Vk) as [i0 Ei]. unfold ids'. rewrite Ei. simpl.
            destruct (negb (Z.eqb i0 id)); simpl; [intros H; inversion H; eauto|discriminate].
          - rewrite V1o by auto. apply U. }
        split; [rewrite has_view, Vk; auto|].
        intros i j. rewrite (LEq_has _ _ L2). rewrite !has_view.
        destruct (Z.eq_dec j k) as [->|N].
        * rewrite V1k, Vk. rewrite Z.eqb_refl, andb_true_r.
          pose proof (memz_uremove i id (ids_of p)) as MU. fold ids' in MU.
          destruct ids'; [simpl in MU; auto | auto].
        * rewrite V1o by auto. replace (Z.eqb j k) with false by (symmetry; apply Z.eqb_neq; auto).
          rewrite andb_false_r. simpl. rewrite andb_true_r. reflexivity.
      + intros H; injection H as <- <-.
        split; auto. split; auto. split; [rewrite has_view, Vk; auto|].
        intros i j. destruct (Hsame i j) as [H|[-> ->]]; auto.
        rewrite has_view, Vk, EM. reflexivity.
    - intros H; injection H as <- <-.
      assert (Vk : view s k = None) by (unfold view; rewrite E; reflexivity).
      split; auto. split; auto. split; [rewrite has_view, Vk; auto|].
      intros i j. destruct (Hsame i j) as [H|[-> ->]]; auto.
      rewrite has_view, Vk. reflexivity.
  Qed.

  (* ---------------------------------------------------------------- compact_buckets *)
  Lemma fold_set_bid_LEq ks i : forall s,
      LEq s (set_postings s (fold_left (fun ps k => set_posting_bid k i ps) ks (postings s))).
  Proof.
    induction ks as [|k r IH]; intros s; simpl.
    - destruct s; leq_triv.
    - eapply LEq_trans; [apply (LEq_set_posting_bid s k i)|].
      specialize (IH (set_postings s (set_posting_bid k i (postings s)))). simpl in IH. exact IH.
  Qed.

  Lemma rebuild_LEq bins : forall i s bs,
      LEq s (set_postings s (fst (rebuild i bins (postings s) bs))).
  Proof.
    induction bins as [|[size ks] r IH]; intros i s bs; simpl.
    - destruct s; leq_triv.
    - eapply LEq_trans; [apply (fold_set_bid_LEq ks i s)|].
      specialize (IH (i + 1) (set_postings s (fold_left (fun ps k => set_posting_bid k i ps) ks (postings s)))
                     (bs ++ [(i, mkBucket size true ks)])).
      simpl in IH. exact IH.
  Qed.

  Theorem compact_refines s r s' :
    compact cfg sz s = (r, s') -> LEq s s'.
  Proof.
    unfold compact.
    destruct (Z.of_nat (length (buckets s)) <=? 1); [intros H; inversion H; leq_triv|].
    destruct (postings s) as [|pp pr] eqn:EP; [intros H; inversion H; leq_triv|].
    rewrite <- EP.
    match goal with |- context [rebuild 0 ?bins (postings s) []] => set (B := bins) end.
    pose proof (rebuild_LEq B 0 s []) as L.
    destruct (rebuild 0 B (postings s) []) as [ps bs] eqn:ER. simpl in L.
    intros H; inversion H; subst; clear H.
    eapply LEq_trans; [exact L|]. leq_triv.
  Qed.
End OpsFacts.
