(* BTree/Model.v — executable model of rs/anda_db_btree/src/btree.rs (C10).

   Transcribes the code that exists, branch by branch:
     postings  : DashMap<FV, (bucket_id, update_version, UniqueVec<PK>)>  -> assoc list
     btree     : RwLock<BTreeSet<FV>>                                     -> strictly ascending list
     buckets   : DashMap<u32, (size, dirty, UniqueVec<FV>, dirty_version)> -> assoc list (dirty_version omitted)
     metadata  : manifest bucket_id -> generation, stats.version
     max_bucket_id, last_saved_version
   Keys, ids, bucket ids, generations, versions and sizes are Z (the harness uses u64 keys/ids).
   Sizes come from a [sizes] record (the CBOR byte counts of the code; Run.v instantiates it
   with the exact CBOR sizes for unsigned integers, the theorems hold for every size function
   with positive values).

   What is abstracted:
   * id order inside a posting (UniqueVec::swap_remove_if reorders; the model removes in place;
     the code documents the order as unspecified and the harness sorts);
   * iteration order of FxHashMap/FxHashSet/DashMap (insert_array phase 2/3, batch_update,
     compact_buckets): the model iterates in list order.  Only bucket placement depends on it;
   * DashMap shard locks, dirty_version (only read by a flush that overlaps a mutation, which the
     crate's contract forbids), timestamps, query_count, insert/delete counters. *)
From Coq Require Import List ZArith Bool Lia.
From Verif Require Import Common.ObjStore.
Import ListNotations.
Open Scope Z_scope.

(* ------------------------------------------------------------------ assoc lists on Z keys *)
Section Assoc.
  Context {V : Type}.
  Fixpoint alookup (k : Z) (l : list (Z * V)) : option V :=
    match l with
    | [] => None
    | (k', v) :: r => if Z.eqb k' k then Some v else alookup k r
    end.
  (* replace the binding of k in place, or append a new one *)
  Fixpoint aset (k : Z) (v : V) (l : list (Z * V)) : list (Z * V) :=
    match l with
    | [] => [(k, v)]
    | (k', v') :: r => if Z.eqb k' k then (k, v) :: r else (k', v') :: aset k v r
    end.
  Fixpoint adel (k : Z) (l : list (Z * V)) : list (Z * V) :=
    match l with
    | [] => []
    | (k', v') :: r => if Z.eqb k' k then adel k r else (k', v') :: adel k r
    end.
End Assoc.

(* ------------------------------------------------------------------ lists as UniqueVec / BTreeSet *)
Definition memz (x : Z) (l : list Z) : bool := existsb (Z.eqb x) l.
Definition isnil {A} (l : list A) : bool := match l with [] => true | _ => false end.
(* UniqueVec::push: append when absent; returns whether it was appended *)
Definition upush (x : Z) (l : list Z) : list Z := if memz x l then l else l ++ [x].
(* UniqueVec::swap_remove_if (|y| y == x): order abstracted *)
Definition uremove (x : Z) (l : list Z) : list Z := filter (fun y => negb (Z.eqb y x)) l.

(* BTreeSet::insert / remove on a strictly ascending list *)
Fixpoint sinsert (x : Z) (l : list Z) : list Z :=
  match l with
  | [] => [x]
  | y :: r => if Z.ltb x y then x :: l else if Z.eqb x y then l else y :: sinsert x r
  end.
Definition sremove (x : Z) (l : list Z) : list Z := filter (fun y => negb (Z.eqb y x)) l.
(* BTreeSet::from_iter *)
Definition sort_dedup (l : list Z) : list Z := fold_right sinsert [] l.

(* ------------------------------------------------------------------ state *)
Definition key := Z.
Definition pk := Z.
Definition bid := Z.
Definition posting : Type := (bid * Z * list pk)%type.     (* (bucket_id, update_version, doc_ids) *)

Record bucket := mkBucket { bsize : Z; bdirty : bool; bkeys : list key }.

Record config := mkConfig { overload : Z; allow_dup : bool }.

Record sizes := mkSizes {
  dsz : pk -> Z;                  (* try_cbor_serialized_size(&doc_id) + 2 *)
  psz : key -> posting -> Z       (* posting_entry_size(field_value, posting) *)
}.

Record state := mkState {
  postings : list (key * posting);
  btree : list key;
  buckets : list (bid * bucket);
  manifest : list (bid * Z);      (* metadata.buckets: bucket id -> generation *)
  version : Z;                    (* metadata.stats.version *)
  last_saved : Z;                 (* last_saved_version *)
  max_bid : Z
}.

Definition empty_bucket := mkBucket 0 false [].

(* BTreeIndex::new *)
Definition new_state : state :=
  mkState [] [] [(0, empty_bucket)] [] 1 0 0.

Definition set_postings s p := mkState p (btree s) (buckets s) (manifest s) (version s) (last_saved s) (max_bid s).
Definition set_btree s b := mkState (postings s) b (buckets s) (manifest s) (version s) (last_saved s) (max_bid s).
Definition set_buckets s b := mkState (postings s) (btree s) b (manifest s) (version s) (last_saved s) (max_bid s).
Definition set_version s v := mkState (postings s) (btree s) (buckets s) (manifest s) v (last_saved s) (max_bid s).
Definition set_max_bid s m := mkState (postings s) (btree s) (buckets s) (manifest s) (version s) (last_saved s) m.
Definition bump_version s := set_version s (version s + 1).

(* buckets.entry(b).or_insert_with(|| (0,false,[],0)) *)
Definition ensure_bucket (b : bid) (bs : list (bid * bucket)) : list (bid * bucket) :=
  match alookup b bs with Some _ => bs | None => bs ++ [(b, empty_bucket)] end.
Definition get_bucket (b : bid) (bs : list (bid * bucket)) : bucket :=
  match alookup b bs with Some x => x | None => empty_bucket end.

Definition sat_sub (a b : Z) : Z := Z.max 0 (a - b).
(* mark_bucket_dirty *)
Definition dirty_b (b : bucket) : bucket := mkBucket (bsize b) true (bkeys b).

Inductive err := AlreadyExists.
Inductive res (A : Type) := Ok (a : A) | Err (e : err).
Arguments Ok {A} a.
Arguments Err {A} e.

Definition ids_of (p : posting) : list pk := snd p.
Definition bid_of (p : posting) : bid := fst (fst p).
Definition ver_of (p : posting) : Z := snd (fst p).

Section Ops.
  Variable cfg : config.
  Variable sz : sizes.

  (* ---------------------------------------------------------------- insert (btree.rs:1062-1248) *)
  (* the bucket bookkeeping after the posting has been updated: returns the new state and the final
     size_increase *)
  Definition insert_bucket_phase (s : state) (k : key) (target : bid) (inc : Z) (appended : bool) : state :=
    let bs := ensure_bucket target (buckets s) in
    let b := get_bucket target bs in
    if (match bkeys b with [] => true | _ => false end) || (bsize b + inc <? overload cfg) then
      let b' := mkBucket (bsize b + inc) true (upush k (bkeys b)) in
      set_buckets s (aset target b' bs)
    else
      (* migration to a fresh bucket *)
      let nb := max_bid s + 1 in
      let s := set_max_bid s nb in
      match alookup k (postings s) with
      | Some p =>
          let dec := if appended
                     then psz sz k (target, ver_of p - 1, removelast (ids_of p))
                     else 0 in
          let p' : posting := (nb, ver_of p, ids_of p) in
          let inc' := psz sz k p' in
          let s := set_postings s (aset k p' (postings s)) in
          let b' := if memz k (bkeys b)
                    then mkBucket (sat_sub (bsize b) dec) true (uremove k (bkeys b))
                    else b in
          let bs := aset target b' bs in
          let bs :=
            match alookup nb bs with
            | None => bs ++ [(nb, mkBucket inc' true [k])]
            | Some e => aset nb (mkBucket (bsize e + inc') true (upush k (bkeys e))) bs
            end in
          set_buckets s bs
      | None => set_buckets s bs     (* unreachable sequentially: the posting was just written *)
      end.

  Definition insert (s : state) (id : pk) (k : key) : res bool * state :=
    let bucket := max_bid s in
    let s := set_buckets s (ensure_bucket bucket (buckets s)) in
    match alookup k (postings s) with
    | Some p =>
        let target := bid_of p in
        (* an emptied posting that a concurrent remove is about to drop has no owner *)
        if negb (allow_dup cfg) && negb (isnil (ids_of p)) && negb (memz id (ids_of p)) then (Err AlreadyExists, s)
        else if memz id (ids_of p) then (Ok false, s)
        else
          let p' : posting := (target, ver_of p + 1, ids_of p ++ [id]) in
          let s := set_postings s (aset k p' (postings s)) in
          let inc := dsz sz id in
          if 0 <? inc then
            (Ok true, bump_version (insert_bucket_phase s k target inc true))
          else (Ok false, s)
    | None =>
        let p : posting := (bucket, 1, [id]) in
        let inc := psz sz k p in
        let s := set_postings s (aset k p (postings s)) in
        let s := set_btree s (sinsert k (btree s)) in
        if 0 <? inc then
          (Ok true, bump_version (insert_bucket_phase s k bucket inc false))
        else (Ok false, s)
    end.

  (* ---------------------------------------------------------------- remove (btree.rs:1261-1341) *)
  Definition remove (s : state) (id : pk) (k : key) : bool * state :=
    match alookup k (postings s) with
    | Some p =>
        if memz id (ids_of p) then
          let b := bid_of p in
          let full_dec := match ids_of p with [_] => psz sz k p | _ => 0 end in
          let ids' := uremove id (ids_of p) in
          let doc_dec := dsz sz id in
          let empty := match ids' with [] => true | _ => false end in
          let s := if empty
                   then set_btree (set_postings s (adel k (postings s))) (sremove k (btree s))
                   else set_postings s (aset k (b, ver_of p + 1, ids') (postings s)) in
          let dec := if empty then full_dec else doc_dec in
          let s :=
            match alookup b (buckets s) with
            | Some e =>
                let keys' := if empty then uremove k (bkeys e) else bkeys e in
                set_buckets s (aset b (mkBucket (sat_sub (bsize e) dec) true keys') (buckets s))
            | None => s
            end in
          (true, bump_version s)
        else (false, s)
    | None => (false, s)
    end.

  (* ---------------------------------------------------------------- insert_array (btree.rs:1382-1650) *)
  (* bucket_updates : bucket id -> (size delta, field values), in first-touch order *)
  Definition upd := list (bid * (Z * list key)).
  Definition upd_add (u : upd) (b : bid) (d : Z) (k : key) : upd :=
    match alookup b u with
    | Some (d0, ks) => aset b (d0 + d, upush k ks) u
    | None => u ++ [(b, (d, [k]))]
    end.

  (* phase 1, one field value: returns postings, updates, new btree values, inserted count *)
  Definition ia_phase1_step (bucket : bid) (id : pk)
             (acc : list (key * posting) * upd * list key * Z) (k : key) :=
    let '(ps, u, nv, cnt) := acc in
    match alookup k ps with
    | Some p =>
        if memz id (ids_of p) then acc
        else
          let ps := aset k (bid_of p, ver_of p + 1, ids_of p ++ [id]) ps in
          if 0 <? dsz sz id then (ps, upd_add u (bid_of p) (dsz sz id) k, nv, cnt + 1) else (ps, u, nv, cnt)
    | None =>
        let p : posting := (bucket, 1, [id]) in
        let ps := aset k p ps in
        if 0 <? psz sz k p then (ps, upd_add u bucket (psz sz k p) k, nv ++ [k], cnt + 1)
        else (ps, u, nv ++ [k], cnt)
    end.

  (* phase 2, one bucket *)
  Definition ia_phase2_fv (s : state) (b : bid) (acc : bucket * list (bid * key * Z)) (k : key) :=
    let '(e, mig) := acc in
    if memz k (bkeys e) then acc
    else match alookup k (postings s) with
         | None => acc
         | Some p =>
             let fv_size := psz sz k p in
             if (match bkeys e with [] => true | _ => false end) || (bsize e <? overload cfg)
             then (mkBucket (bsize e) (bdirty e) (bkeys e ++ [k]), mig)
             else (mkBucket (sat_sub (bsize e) fv_size) (bdirty e) (bkeys e), mig ++ [(b, k, fv_size)])
         end.

  Definition ia_phase2_bucket (acc : state * list (bid * key * Z)) (x : bid * (Z * list key)) :=
    let '(s, mig) := acc in
    let '(b, (delta, ks)) := x in
    let bs := ensure_bucket b (buckets s) in
    let e := get_bucket b bs in
    let e := mkBucket (bsize e + delta) true (bkeys e) in
    let '(e, mig) := fold_left (ia_phase2_fv s b) ks (e, mig) in
    (set_buckets s (aset b e bs), mig).

  (* phase 3, one migrating field value; [nb] is next_bucket_id *)
  Definition set_posting_bid (k : key) (b : bid) (ps : list (key * posting)) :=
    match alookup k ps with
    | Some p => aset k (b, ver_of p, ids_of p) ps
    | None => ps
    end.

  Definition ia_phase3_step (acc : state * bid) (x : bid * key * Z) :=
    let '(s, nb) := acc in
    let '(ob, k, size) := x in
    let s := set_postings s (set_posting_bid k nb (postings s)) in
    let s :=
      match alookup ob (buckets s) with
      | Some e =>
          if memz k (bkeys e)
          then set_buckets s (aset ob (mkBucket (sat_sub (bsize e) size) true (uremove k (bkeys e))) (buckets s))
          else s
      | None => s
      end in
    let bs := ensure_bucket nb (buckets s) in
    let e := get_bucket nb bs in
    if (match bkeys e with [] => true | _ => false end) || (bsize e + size <? overload cfg) then
      (set_buckets s (aset nb (mkBucket (bsize e + size) true (upush k (bkeys e))) bs), nb)
    else
      let s := set_buckets s bs in
      let nb' := max_bid s + 1 in
      let s := set_max_bid s nb' in
      let s := set_postings s (set_posting_bid k nb' (postings s)) in
      let bs := buckets s in
      let bs :=
        match alookup nb' bs with
        | None => bs ++ [(nb', mkBucket size true [k])]
        | Some e' => aset nb' (mkBucket (bsize e' + size) true (upush k (bkeys e'))) bs
        end in
      (set_buckets s bs, nb').

  Definition conflicts (s : state) (id : pk) (k : key) : bool :=
    match alookup k (postings s) with
    | Some p => negb (isnil (ids_of p)) && negb (memz id (ids_of p))
    | None => false
    end.

  Definition insert_array (s : state) (id : pk) (ks : list key) : res Z * state :=
    match ks with
    | [] => (Ok 0, s)
    | _ =>
        if negb (allow_dup cfg) && existsb (conflicts s id) ks then (Err AlreadyExists, s)
        else
          let bucket := max_bid s in
          let s := set_buckets s (ensure_bucket bucket (buckets s)) in
          let '(ps, u, nv, cnt) := fold_left (ia_phase1_step bucket id) ks (postings s, [], [], 0) in
          let s := set_postings s ps in
          let s := set_btree s (fold_left (fun bt k => sinsert k bt) nv (btree s)) in
          let '(s, mig) := fold_left ia_phase2_bucket u (s, []) in
          let s :=
            match mig with
            | [] => s
            | _ =>
                let nb := max_bid s + 1 in
                let s := set_max_bid s nb in
                let s := set_buckets s (ensure_bucket nb (buckets s)) in
                fst (fold_left ia_phase3_step mig (s, nb))
            end in
          let s := if 0 <? cnt then bump_version s else s in
          (Ok cnt, s)
    end.

  (* ---------------------------------------------------------------- remove_array (btree.rs:1666-1793) *)
  (* pass 1: (field_value, bucket_id, doc_dec, full_dec, posting_empty) *)
  Definition ra_pass1_step (id : pk) (acc : list (key * posting) * list (key * bid * Z * Z * bool)) (k : key) :=
    let '(ps, pend) := acc in
    match alookup k ps with
    | Some p =>
        if memz id (ids_of p) then
          let full_dec := match ids_of p with [_] => psz sz k p | _ => 0 end in
          let ids' := uremove id (ids_of p) in
          let empty := match ids' with [] => true | _ => false end in
          (aset k (bid_of p, ver_of p + 1, ids') ps, pend ++ [(k, bid_of p, dsz sz id, full_dec, empty)])
        else acc
    | None => acc
    end.

  Definition ra_pass2_step (acc : list (key * posting) * list key * upd) (x : key * bid * Z * Z * bool) :=
    let '(ps, gone, u) := acc in
    let '(k, b, doc_dec, full_dec, empty) := x in
    let still_empty := match alookup k ps with Some p => (match ids_of p with [] => true | _ => false end) | None => false end in
    let entry_removed := empty && still_empty in
    let ps := if entry_removed then adel k ps else ps in
    let gone := if entry_removed then upush k gone else gone in
    (ps, gone, upd_add u b (if entry_removed then full_dec else doc_dec) k).

  Definition ra_bucket_step (gone : list key) (s : state) (x : bid * (Z * list key)) :=
    let '(b, (dec, ks)) := x in
    match alookup b (buckets s) with
    | Some e =>
        let keys' := fold_left (fun acc k =>
                                  if memz k gone
                                  then match alookup k (postings s) with
                                       | Some p => if Z.eqb (bid_of p) b then acc else uremove k acc
                                       | None => uremove k acc
                                       end
                                  else acc) ks (bkeys e) in
        set_buckets s (aset b (mkBucket (sat_sub (bsize e) dec) true keys') (buckets s))
    | None => s
    end.

  Definition remove_array (s : state) (id : pk) (ks : list key) : Z * state :=
    match ks with
    | [] => (0, s)
    | _ =>
        let '(ps, pend) := fold_left (ra_pass1_step id) ks (postings s, []) in
        let '(ps, gone, u) := fold_left ra_pass2_step pend (ps, [], []) in
        let s := set_postings s ps in
        let s := set_btree s (fold_left (fun bt k => if alookup k (postings s) then bt else sremove k bt) gone (btree s)) in
        let s := fold_left (ra_bucket_step gone) u s in
        let cnt := Z.of_nat (length pend) in
        let s := if 0 <? cnt then bump_version s else s in
        (cnt, s)
    end.

  (* ---------------------------------------------------------------- batch_update (btree.rs:1806-1835) *)
  Fixpoint dedup (l : list Z) : list Z :=
    match l with
    | [] => []
    | x :: r => if memz x r then dedup r else x :: dedup r
    end.
  Definition batch_update (s : state) (id : pk) (old new : list key) : res (Z * Z) * state :=
    let to_insert := dedup (filter (fun k => negb (memz k old)) new) in
    let to_remove := dedup (filter (fun k => negb (memz k new)) old) in
    let '(ri, s) := match to_insert with
                    | [] => (Ok 0, s)
                    | _ => insert_array s id to_insert
                    end in
    match ri with
    | Err e => (Err e, s)
    | Ok inserted =>
        let '(removed, s) := match to_remove with [] => (0, s) | _ => remove_array s id to_remove end in
        (Ok (removed, inserted), s)
    end.

  (* ---------------------------------------------------------------- compact_buckets (btree.rs:2469-2542) *)
  (* stable insertion of (fv, size) by size descending *)
  Fixpoint insert_desc (x : key * Z) (l : list (key * Z)) : list (key * Z) :=
    match l with
    | [] => [x]
    | y :: r => if snd y <? snd x then x :: l else y :: insert_desc x r
    end.
  Definition sort_desc (l : list (key * Z)) : list (key * Z) := fold_right insert_desc [] l.

  Fixpoint ffd_place (x : key * Z) (bins : list (Z * list key)) : list (Z * list key) :=
    match bins with
    | [] => [(snd x, [fst x])]
    | b :: r => if fst b + snd x <? overload cfg then (fst b + snd x, snd b ++ [fst x]) :: r
                else b :: ffd_place x r
    end.

  Fixpoint rebuild (i : Z) (bins : list (Z * list key)) (ps : list (key * posting)) (bs : list (bid * bucket)) :=
    match bins with
    | [] => (ps, bs)
    | (size, ks) :: r =>
        let ps := fold_left (fun ps k => set_posting_bid k i ps) ks ps in
        rebuild (i + 1) r ps (bs ++ [(i, mkBucket size true ks)])
    end.

  Definition compact (s : state) : (Z * Z) * state :=
    let old_count := Z.of_nat (length (buckets s)) in
    if old_count <=? 1 then ((old_count, old_count), s)
    else
      match postings s with
      | [] =>
          let s := set_buckets s [(0, mkBucket 0 true [])] in
          ((old_count, 1), bump_version (set_max_bid s 0))
      | _ =>
          let fv_sizes := sort_desc (map (fun kp => (fst kp, psz sz (fst kp) (snd kp))) (postings s)) in
          let bins := fold_left (fun bins x => ffd_place x bins) fv_sizes [] in
          let '(ps, bs) := rebuild 0 bins (postings s) [] in
          let n := Z.of_nat (length bins) in
          let s := set_buckets (set_postings s ps) bs in
          ((old_count, n), bump_version (set_max_bid s (Z.max 0 (n - 1))))
      end.
End Ops.

(* ------------------------------------------------------------------ queries *)
Inductive rq :=
| QEq (k : key) | QGt (k : key) | QGe (k : key) | QLt (k : key) | QLe (k : key)
| QBetween (a b : key) | QInclude (ks : list key)
| QOr (qs : list rq) | QAnd (qs : list rq) | QNot (q : rq).

(* RangeQuery::depth *)
Fixpoint depth (q : rq) : nat :=
  match q with
  | QOr qs | QAnd qs => S (fold_right Nat.max 0%nat (map depth qs))
  | QNot q => S (depth q)
  | _ => 1%nat
  end.
Definition MAX_DEPTH : nat := 64.

(* range_key_matches_query *)
Fixpoint matches (k : key) (q : rq) : bool :=
  match q with
  | QEq v => Z.eqb k v
  | QGt v => Z.ltb v k
  | QGe v => Z.leb v k
  | QLt v => Z.ltb k v
  | QLe v => Z.leb k v
  | QBetween a b => Z.leb a b && Z.leb a k && Z.leb k b
  | QInclude ks => memz k ks
  | QOr qs => existsb (matches k) qs
  | QAnd qs => negb (match qs with [] => true | _ => false end) && forallb (matches k) qs
  | QNot q => negb (matches k q)
  end.

(* range_query_seed_rank *)
Fixpoint seed_rank (q : rq) : nat :=
  match q with
  | QEq _ => 0
  | QBetween a b => if Z.ltb b a then 0 else 2
  | QInclude ks => match ks with [] => 0 | _ => 1 end
  | QGt _ | QGe _ | QLt _ | QLe _ => 3
  | QAnd qs => match map seed_rank qs with [] => 0 | r :: rs => fold_left Nat.min rs r end
  | QOr _ => 4
  | QNot _ => 5
  end%nat.

(* index of the first minimum (Iterator::min_by_key) *)
Fixpoint argmin_from (i best_i best : nat) (l : list nat) : nat :=
  match l with
  | [] => best_i
  | x :: r => if Nat.ltb x best then argmin_from (S i) i x r else argmin_from (S i) best_i best r
  end.
Definition argmin (l : list nat) : nat :=
  match l with [] => 0%nat | x :: r => argmin_from 1 0 x r end.

(* Vec::swap_remove(i) : the remaining elements, last one moved into position i *)
Definition swap_remove_rest {A} (i : nat) (l : list A) : list A :=
  match rev (skipn (S i) l) with
  | [] => firstn i l
  | last :: rtl => firstn i l ++ last :: rev rtl
  end.

(* range_keys (btree.rs:2076-2184) over the ordered key set [bt] *)
Fixpoint range_keys (bt : list key) (q : rq) : list key :=
  match q with
  | QEq k => if memz k bt then [k] else []
  | QGt v => filter (fun k => Z.ltb v k) bt
  | QGe v => filter (fun k => Z.leb v k) bt
  | QLt v => filter (fun k => Z.ltb k v) bt
  | QLe v => filter (fun k => Z.leb k v) bt
  | QBetween a b => if Z.leb a b then filter (fun k => Z.leb a k && Z.leb k b) bt else []
  | QInclude ks => filter (fun k => memz k bt) (sort_dedup ks)
  | QAnd qs =>
      match qs with
      | [] => []
      | _ =>
          let seed_index := argmin (map seed_rank qs) in
          let seed_keys := nth seed_index (map (range_keys bt) qs) [] in
          let rest := swap_remove_rest seed_index qs in
          (* retain per remaining query; an empty intersection returns early with [] *)
          fold_left (fun inter q => filter (fun k => matches k q) inter) rest (sort_dedup seed_keys)
      end
  | QOr qs => sort_dedup (concat (map (range_keys bt) qs))
  | QNot q => let ex := range_keys bt q in filter (fun k => negb (memz k ex)) bt
  end.

(* the callback: FnMut(&FV, &Vec<PK>) -> (bool, Vec<R>) with its captured state made explicit *)
Section Walk.
  Variables A R : Type.
  Variable f : key -> list pk -> A -> bool * list R * A.

  (* ascending walk: results.extend(rt); stop when !conti *)
  Fixpoint walk_asc (ps : list (key * posting)) (ks : list key) (a : A) : list R * A :=
    match ks with
    | [] => ([], a)
    | k :: r =>
        match alookup k ps with
        | None => walk_asc ps r a
        | Some p =>
            let '(conti, rt, a') := f k (ids_of p) a in
            if conti then let '(out, a'') := walk_asc ps r a' in (rt ++ out, a'')
            else (rt, a')
        end
    end.

  (* descending walk over keys.rev(): non-empty groups pushed, then groups reversed and flattened *)
  Fixpoint walk_desc_groups (ps : list (key * posting)) (rks : list key) (a : A) : list (list R) * A :=
    match rks with
    | [] => ([], a)
    | k :: r =>
        match alookup k ps with
        | None => walk_desc_groups ps r a
        | Some p =>
            let '(conti, rt, a') := f k (ids_of p) a in
            let g := match rt with [] => [] | _ => [rt] end in
            if conti then let '(gs, a'') := walk_desc_groups ps r a' in (g ++ gs, a'')
            else (g, a')
        end
    end.

  Definition walk (desc : bool) (ps : list (key * posting)) (ks : list key) (a : A) : list R * A :=
    if desc then
      let '(gs, a') := walk_desc_groups ps (rev ks) a in (concat (rev gs), a')
    else walk_asc ps ks a.

  (* range_query_inner (btree.rs:1919-2036) *)
  Definition range_query (s : state) (desc : bool) (q : rq) (a : A) : list R * A :=
    match postings s with
    | [] => ([], a)
    | _ =>
        if Nat.ltb MAX_DEPTH (depth q) then ([], a)
        else
          let ps := postings s in
          let bt := btree s in
          match q with
          | QEq k =>
              match alookup k ps with
              | Some p => let '(_, rt, a') := f k (ids_of p) a in (rt, a')
              | None => ([], a)
              end
          | QGt v => walk desc ps (filter (fun k => Z.ltb v k) bt) a
          | QGe v => walk desc ps (filter (fun k => Z.leb v k) bt) a
          | QLt v => walk desc ps (filter (fun k => Z.ltb k v) bt) a
          | QLe v => walk desc ps (filter (fun k => Z.leb k v) bt) a
          | QBetween x y => if Z.ltb y x then ([], a)
                            else walk desc ps (filter (fun k => Z.leb x k && Z.leb k y) bt) a
          | QInclude ks => walk desc ps (sort_dedup ks) a
          | QAnd _ | QOr _ => walk desc ps (range_keys bt q) a
          | QNot q' => let ex := range_keys bt q' in
                       walk desc ps (filter (fun k => negb (memz k ex)) bt) a
          end
    end.
End Walk.
Arguments walk_asc {A R} f ps ks a.
Arguments walk_desc_groups {A R} f ps rks a.
Arguments walk {A R} f desc ps ks a.
Arguments range_query {A R} f s desc q a.

(* query_with: the posting of a key *)
Definition query (s : state) (k : key) : option (list pk) :=
  match alookup k (postings s) with Some p => Some (ids_of p) | None => None end.

(* keys(cursor, limit) *)
Definition keys_page (s : state) (cursor : option key) (limit : option nat) : list key :=
  let l := match cursor with Some c => filter (fun k => Z.ltb c k) (btree s) | None => btree s end in
  match limit with Some n => firstn n l | None => l end.

(* ------------------------------------------------------------------ persistence *)
Inductive path := PMeta | PBucket (b : bid) (g : Z).
Inductive obj :=
| OMeta (mf : list (bid * Z)) (maxb : Z) (ver : Z)
| OBucket (ps : list (key * (Z * list pk))).    (* field value -> (update_version, doc_ids) *)

Definition path_eq_dec : forall a b : path, {a = b} + {a <> b}.
Proof. decide equality; apply Z.eq_dec. Defined.

Definition bstore := store path obj.
Definition bstep := step path obj.

(* serialize_bucket_snapshot: only the postings this bucket owns, non-empty *)
Definition owned (s : state) (b : bid) (ks : list key) : list (key * (Z * list pk)) :=
  flat_map (fun k => match alookup k (postings s) with
                     | Some p => if Z.eqb (bid_of p) b && negb (match ids_of p with [] => true | _ => false end)
                                 then [(k, (ver_of p, ids_of p))] else []
                     | None => []
                     end) ks.

(* ascending bucket ids (sort_unstable on the dirty ids) *)
Definition dirty_ids (s : state) : list bid :=
  sort_dedup (map fst (filter (fun x => bdirty (snd x)) (buckets s))).

Definition has_dirty (s : state) : bool := existsb (fun x => bdirty (snd x)) (buckets s).
Definition has_pending (s : state) : bool := Z.ltb (last_saved s) (version s).

Record flush_out := mkFlush {
  f_steps : list bstep;          (* bucket writes, the metadata commit, then the caller's obsolete deletes *)
  f_state : state;
  f_obsolete : list (bid * Z)
}.

(* flush_owned_with (btree.rs:2312-2427) followed by the production adapter's best-effort deletes
   (rs/anda_db/src/index/btree.rs:989-1003) *)
(* the forced version bump that precedes serialization (survives a failed flush) *)
Definition pre_flush (s : state) : state :=
  if has_dirty s && negb (has_pending s) then bump_version s else s.

Definition flush (s : state) : option flush_out :=
  if negb (has_dirty s) && negb (has_pending s) then None
  else
    let s := pre_flush s in
    let generation := version s in
    let dirty := dirty_ids s in
    let committed := manifest s in
    (* BTreeMap: ascending bucket ids *)
    let mf := flat_map (fun id => if memz id dirty then [(id, generation)]
                                  else match alookup id committed with
                                       | Some g => [(id, g)]
                                       | None => []
                                       end) (sort_dedup (map fst (buckets s))) in
    let obsolete := filter (fun x => match alookup (fst x) mf with
                                     | Some g => negb (Z.eqb g (snd x))
                                     | None => true
                                     end) committed in
    let writes := map (fun b => Put (PBucket b generation) (OBucket (owned s b (bkeys (get_bucket b (buckets s)))))) dirty in
    let commit := Put PMeta (OMeta mf (max_bid s) (version s)) in
    let dels := map (fun x => @Del path obj (PBucket (fst x) (snd x))) obsolete in
    let bs := map (fun x => (fst x, mkBucket (bsize (snd x)) false (bkeys (snd x)))) (buckets s) in
    let s' := mkState (postings s) (btree s) bs mf (version s) (Z.max (last_saved s) generation) (max_bid s) in
    Some (mkFlush (writes ++ commit :: dels) s' obsolete).

(* ---- load_all = load_metadata + load_buckets (btree.rs:788-1009) *)
Definition seqZ (n : nat) : list Z := map Z.of_nat (seq 0 n).

(* the objects the loader asks for, as a function of the metadata alone *)
Definition load_objects (mf : list (bid * Z)) (maxb : Z) : list (bid * Z) :=
  match mf with
  | [] => map (fun b => (b, 0)) (seqZ (S (Z.to_nat maxb)))
  | _ => mf
  end.

Definition meta_refs (o : obj) : list path :=
  match o with
  | OMeta mf maxb _ => map (fun x => PBucket (fst x) (snd x)) (load_objects mf maxb)
  | OBucket _ => []
  end.

Section Load.
  Variable sz : sizes.

  (* one posting of a loaded bucket file *)
  Definition load_posting (i : bid) (acc : state * list key * bool) (kp : key * (Z * list pk)) :=
    let '(s, bks, repair) := acc in
    let '(k, (ver, ids)) := kp in
    let fix_previous (s : state) (previous : posting) :=
        let pb := bid_of previous in
        if Z.eqb pb i then s
        else match alookup pb (buckets s) with
             | Some e => if memz k (bkeys e)
                         then set_buckets s (aset pb (mkBucket (sat_sub (bsize e) (psz sz k previous)) true (uremove k (bkeys e))) (buckets s))
                         else s
             | None => s
             end in
    match ids with
    | [] =>
        (* tombstone *)
        match alookup k (postings s) with
        | Some previous =>
            let s := set_postings s (adel k (postings s)) in
            let s := fix_previous s previous in
            (set_btree s (sremove k (btree s)), bks, true)
        | None => (s, bks, true)
        end
    | _ =>
        let prev := alookup k (postings s) in
        let s := set_postings s (aset k (i, ver, ids) (postings s)) in
        let s := match prev with Some previous => fix_previous s previous | None => s end in
        (s, upush k bks, repair)
    end.

  Definition load_object (get : path -> option obj) (legacy : bool)
             (acc : state * list bid) (x : bid * Z) : state * list bid :=
    let '(s, loaded) := acc in
    let '(i, g) := x in
    match get (PBucket i g) with
    | Some (OBucket ps) =>
        let '(s, bks, repair) := fold_left (load_posting i) ps (s, [], false) in
        let s := set_btree s (fold_left (fun bt k => sinsert k bt) bks (btree s)) in
        (set_buckets s (aset i (mkBucket (Z.of_nat (length ps)) repair bks) (buckets s)), loaded ++ [i])
    | _ =>
        if legacy then (s, loaded)
        else (set_buckets s (ensure_bucket i (buckets s)), loaded)
    end.

  Definition load (st : bstore) : option state :=
    match get path_eq_dec st PMeta with
    | Some (OMeta mf maxb ver) =>
        let legacy := match mf with [] => true | _ => false end in
        let s0 := mkState [] [] [(0, empty_bucket)] mf ver ver maxb in
        let '(s, loaded) := fold_left (load_object (get path_eq_dec st) legacy) (load_objects mf maxb) (s0, []) in
        let s := if legacy && negb (match loaded with [] => true | _ => false end)
                 then mkState (postings s) (btree s) (buckets s) (map (fun b => (b, 0)) loaded)
                              (version s) (last_saved s) (max_bid s)
                 else s in
        Some s
    | _ => None
    end.
End Load.

(* ------------------------------------------------------------------ the abstraction: an ordered multimap *)
Definition has (s : state) (id : pk) (k : key) : bool :=
  match alookup k (postings s) with Some p => memz id (ids_of p) | None => false end.
