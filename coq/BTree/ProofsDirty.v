(* BTree/ProofsDirty.v — dirty tracking: a mutation marks dirty every bucket whose durable image it changes.

   [own s b k] is what the flush of bucket [b] would write for key [k] (serialize_bucket_snapshot: the
   postings whose owner is [b], non-empty).  A clean bucket is NOT rewritten by the next flush, so its
   committed object keeps what [own] was at the last flush: if a mutation changes [own s b k] it must leave
   [b] dirty, otherwise the change is lost by flush + reload (or a removed id reappears). *)
From Coq Require Import List ZArith Bool Lia Arith.
From Verif Require Import Common.ObjStore BTree.Model BTree.ProofsQuery BTree.ProofsOps.
Import ListNotations.
Open Scope Z_scope.

Definition own (s : state) (b : bid) (k : key) : option (Z * list pk) :=
  match alookup k (postings s) with
  | Some p => if Z.eqb (bid_of p) b && negb (isnil (ids_of p)) then Some (ver_of p, ids_of p) else None
  | None => None
  end.

Definition dirtyb (s : state) (b : bid) : bool :=
  match alookup b (buckets s) with Some e => bdirty e | None => false end.

(* one owning bucket per posting: the owner exists and lists the key *)
Definition OwnInv (s : state) : Prop :=
  forall k p, alookup k (postings s) = Some p ->
              exists e, alookup (bid_of p) (buckets s) = Some e /\ memz k (bkeys e) = true.

Lemma own_other_key s s' b j :
  alookup j (postings s') = alookup j (postings s) -> own s' b j = own s b j.
Proof. unfold own. intros ->. reflexivity. Qed.

Lemma own_wrong_bucket s b k p :
  alookup k (postings s) = Some p -> bid_of p <> b -> own s b k = None.
Proof.
  unfold own. intros -> N. replace (Z.eqb (bid_of p) b) with false by (symmetry; apply Z.eqb_neq; auto). reflexivity.
Qed.

Lemma dirtyb_aset s b e bs :
  buckets s = aset b e bs -> bdirty e = true -> dirtyb s b = true.
Proof. unfold dirtyb. intros -> D. rewrite alookup_aset_same. exact D. Qed.

(* ------------------------------------------------------------------ remove *)
Theorem remove_dirties sz s id k r s' :
  OwnInv s -> remove sz s id k = (r, s') ->
  forall b j, own s' b j <> own s b j -> dirtyb s' b = true.
Proof.
  intros OI. unfold remove.
  destruct (alookup k (postings s)) as [p|] eqn:E; [|intros H; injection H as <- <-; congruence].
  destruct (memz id (ids_of p)) eqn:EM; [|intros H; injection H as <- <-; congruence].
  destruct (OI k p E) as (e & Eb & Mk).
  intros H; injection H as <- <-. intros b j Hne.
  set (ids' := uremove id (ids_of p)) in *.
  set (s1 := if match ids' with [] => true | _ => false end
             then set_btree (set_postings s (adel k (postings s))) (sremove k (btree s))
             else set_postings s (aset k (bid_of p, ver_of p + 1, ids') (postings s))) in *.
  assert (B1 : buckets s1 = buckets s) by (unfold s1; destruct ids'; reflexivity).
  assert (Po : forall j, j <> k -> alookup j (postings s1) = alookup j (postings s)).
  { intros j0 N. unfold s1. destruct ids'; simpl; [apply alookup_adel_other|apply alookup_aset_other]; auto. }
  assert (Pk : alookup k (postings s1) = match ids' with [] => None | _ => Some (bid_of p, ver_of p + 1, ids') end).
  { unfold s1. destruct ids'; simpl; [apply alookup_adel_same|apply alookup_aset_same]. }
  (* the final state: the owner's bucket entry is rewritten with the dirty flag set *)
  rewrite B1 in *. rewrite Eb in *.
  assert (Hown : forall st, postings st = postings s1 -> own st b j <> own s b j -> b = bid_of p /\ j = k).
  { intros st Pst Hn. destruct (Z.eq_dec j k) as [->|N].
    - split; auto. destruct (Z.eq_dec b (bid_of p)) as [|Nb]; auto. exfalso. apply Hn.
      rewrite (own_wrong_bucket s b k p E) by auto.
      unfold own. rewrite Pst, Pk. destruct ids' as [|z0 r0]; auto.
      change (bid_of (bid_of p, ver_of p + 1, z0 :: r0)) with (bid_of p).
      replace (Z.eqb (bid_of p) b) with false by (symmetry; apply Z.eqb_neq; auto). reflexivity.
    - exfalso. apply Hn. apply own_other_key. rewrite Pst. apply Po; auto. }
  destruct (Hown _ eq_refl Hne) as [-> ->].
  unfold dirtyb. simpl. rewrite alookup_aset_same. reflexivity.
Qed.

(* ------------------------------------------------------------------ insert *)
Lemma alookup_app_last {V} k (v : V) l : alookup k l = None -> alookup k (l ++ [(k, v)]) = Some v.
Proof.
  induction l as [|[k' v'] r IH]; simpl; intros H.
  - rewrite Z.eqb_refl. reflexivity.
  - destruct (Z.eqb k' k); [discriminate|auto].
Qed.

Lemma alookup_app_keep {V} k k' (v : V) l e : alookup k l = Some e -> alookup k (l ++ [(k', v)]) = Some e.
Proof.
  induction l as [|[k0 v0] r IH]; simpl; intros H; [discriminate|].
  destruct (Z.eqb k0 k); auto.
Qed.

Lemma ensure_lookup b bs : exists e, alookup b (ensure_bucket b bs) = Some e.
Proof.
  unfold ensure_bucket. destruct (alookup b bs) as [e|] eqn:E; [eauto|].
  exists empty_bucket. apply alookup_app_last; auto.
Qed.

Lemma ensure_keep b b' bs e : alookup b bs = Some e -> alookup b (ensure_bucket b' bs) = Some e.
Proof.
  unfold ensure_bucket. intros H. destruct (alookup b' bs); auto. apply alookup_app_keep; auto.
Qed.

(* the bucket phase of insert: whatever it does to the posting of [k], the buckets that own it before and
   after are dirty at the end *)
Lemma insert_bucket_phase_dirties cfg sz s k target inc appended p :
  alookup k (postings s) = Some p -> bid_of p = target ->
  (exists e, alookup target (buckets s) = Some e /\ (appended = true -> memz k (bkeys e) = true)) ->
  let s' := insert_bucket_phase cfg sz s k target inc appended in
  (forall j, j <> k -> alookup j (postings s') = alookup j (postings s)) /\
  (exists p', alookup k (postings s') = Some p' /\ ids_of p' = ids_of p /\ ver_of p' = ver_of p /\
              dirtyb s' (bid_of p') = true /\
              (bid_of p' <> target -> appended = true -> dirtyb s' target = true)).
Proof.
  intros E Bp (e & Eb & Mk). unfold insert_bucket_phase.
  set (bs := ensure_bucket target (buckets s)).
  assert (Eb' : alookup target bs = Some e) by (apply ensure_keep; auto).
  assert (Gb : get_bucket target bs = e) by (unfold get_bucket; rewrite Eb'; auto).
  rewrite Gb.
  destruct ((match bkeys e with [] => true | _ => false end) || (bsize e + inc <? overload cfg)).
  - simpl. split; [auto|]. exists p. split; [exact E|]. split; [reflexivity|]. split; [reflexivity|]. split.
    + rewrite Bp. unfold dirtyb. simpl. rewrite alookup_aset_same. reflexivity.
    + intros N. congruence.
  - simpl postings. rewrite E.
    set (nb := max_bid s + 1).
    set (p' := (nb, ver_of p, ids_of p) : posting).
    set (b' := if memz k (bkeys e) then _ else e).
    set (bs1 := aset target b' bs).
    set (bs2 := match alookup nb bs1 with None => _ | Some e0 => _ end).
    simpl. split.
    + intros j N. apply alookup_aset_other; auto.
    + exists p'. rewrite alookup_aset_same. split; [reflexivity|]. split; [reflexivity|]. split; [reflexivity|]. split.
      * (* the destination bucket is dirty *)
        unfold dirtyb. simpl. fold nb bs bs1. unfold bs2.
        destruct (alookup nb bs1) as [e0|] eqn:E0.
        -- rewrite alookup_aset_same. reflexivity.
        -- rewrite (alookup_app_last nb _ bs1 E0). reflexivity.
      * (* the source bucket is dirty when it listed the key *)
        intros N A. simpl in N. unfold dirtyb. simpl. fold nb bs bs1. unfold bs2.
        assert (T1 : alookup target bs1 = Some b') by (unfold bs1; apply alookup_aset_same).
        assert (D1 : bdirty b' = true) by (unfold b'; rewrite (Mk A); reflexivity).
        destruct (alookup nb bs1) as [e0|] eqn:E0.
        -- rewrite alookup_aset_other by auto. rewrite T1. exact D1.
        -- rewrite (alookup_app_keep target nb _ bs1 b' T1). exact D1.
Qed.

Theorem insert_dirties cfg sz s id k r s' :
  SizesPos sz -> OwnInv s -> insert cfg sz s id k = (r, s') ->
  forall b j, own s' b j <> own s b j -> dirtyb s' b = true.
Proof.
  intros [SPd SPp] OI. unfold insert.
  set (s0 := set_buckets s (ensure_bucket (max_bid s) (buckets s))).
  change (postings s0) with (postings s). change (max_bid s0) with (max_bid s).
  destruct (alookup k (postings s)) as [p|] eqn:E.
  - destruct (OI k p E) as (e & Eb & Mk).
    match goal with |- context [if ?c then _ else _] => destruct c end;
      [intros H; injection H as <- <-; intros b j Hn; exfalso; apply Hn; reflexivity|].
    destruct (memz id (ids_of p)) eqn:EM;
      [intros H; injection H as <- <-; intros b j Hn; exfalso; apply Hn; reflexivity|].
    replace (0 <? dsz sz id) with true by (symmetry; apply Z.ltb_lt; apply SPd).
    intros H; injection H as <- <-.
    set (p1 := (bid_of p, ver_of p + 1, ids_of p ++ [id]) : posting).
    set (s1 := set_postings s0 (aset k p1 (postings s))).
    assert (E1 : alookup k (postings s1) = Some p1) by (unfold s1; simpl; apply alookup_aset_same).
    destruct (insert_bucket_phase_dirties cfg sz s1 k (bid_of p) (dsz sz id) true p1 E1 eq_refl) as (Po & p' & Ek & Ei & Ev & Dd & Ds).
    { exists e. split; [|intros _; exact Mk]. unfold s1, s0. simpl. apply ensure_keep; auto. }
    intros b j Hn.
    set (sf := insert_bucket_phase cfg sz s1 k (bid_of p) (dsz sz id) true) in *.
    assert (Dbump : forall x, dirtyb (bump_version sf) x = dirtyb sf x) by reflexivity.
    assert (Obump : forall x y, own (bump_version sf) x y = own sf x y) by reflexivity.
    rewrite Dbump. rewrite Obump in Hn.
    destruct (Z.eq_dec j k) as [->|N].
    + (* the key itself: only the old and the new owner can see a change *)
      destruct (Z.eq_dec b (bid_of p')) as [->|Nb]; [exact Dd|].
      destruct (Z.eq_dec b (bid_of p)) as [->|Nb2].
      * apply Ds; auto.
      * exfalso. apply Hn. rewrite (own_wrong_bucket s b k p E) by auto.
        apply (own_wrong_bucket sf b k p' Ek). auto.
    + exfalso. apply Hn. apply own_other_key. rewrite Po by auto. unfold s1. simpl. apply alookup_aset_other; auto.
  - replace (0 <? psz sz k (max_bid s, 1, [id])) with true by (symmetry; apply Z.ltb_lt; apply SPp).
    intros H; injection H as <- <-.
    set (p1 := (max_bid s, 1, [id]) : posting).
    set (s1 := set_btree (set_postings s0 (aset k p1 (postings s))) (sinsert k (btree s))).
    assert (E1 : alookup k (postings s1) = Some p1) by (unfold s1; simpl; apply alookup_aset_same).
    destruct (insert_bucket_phase_dirties cfg sz s1 k (max_bid s) (psz sz k p1) false p1 E1 eq_refl) as (Po & p' & Ek & Ei & Ev & Dd & Ds).
    { destruct (ensure_lookup (max_bid s) (buckets s)) as [e0 E0]. exists e0. split; [exact E0|discriminate]. }
    intros b j Hn.
    set (sf := insert_bucket_phase cfg sz s1 k (max_bid s) (psz sz k p1) false) in *.
    assert (Dbump : forall x, dirtyb (bump_version sf) x = dirtyb sf x) by reflexivity.
    assert (Obump : forall x y, own (bump_version sf) x y = own sf x y) by reflexivity.
    rewrite Dbump. rewrite Obump in Hn.
    destruct (Z.eq_dec j k) as [->|N].
    + destruct (Z.eq_dec b (bid_of p')) as [->|Nb]; [exact Dd|].
      exfalso. apply Hn. rewrite (own_wrong_bucket sf b k p' Ek) by auto.
      unfold own. rewrite E. reflexivity.
    + exfalso. apply Hn. apply own_other_key. rewrite Po by auto. unfold s1. simpl. apply alookup_aset_other; auto.
Qed.

(* ------------------------------------------------------------------ the ownership invariant is preserved *)
Lemma memz_upush j k l : memz j (upush k l) = memz j l || Z.eqb j k.
Proof.
  unfold upush. destruct (memz k l) eqn:E.
  - destruct (Z.eqb j k) eqn:E2; [|rewrite orb_false_r; auto].
    apply Z.eqb_eq in E2. subst. rewrite E. reflexivity.
  - rewrite memz_app. simpl. rewrite orb_false_r. reflexivity.
Qed.

Lemma OwnInv_new : OwnInv new_state.
Proof. intros k p H. simpl in H. discriminate. Qed.

Theorem remove_OwnInv sz s id k r s' :
  OwnInv s -> remove sz s id k = (r, s') -> OwnInv s'.
Proof.
  intros OI. unfold remove.
  destruct (alookup k (postings s)) as [p|] eqn:E; [|intros H; injection H as <- <-; exact OI].
  destruct (memz id (ids_of p)) eqn:EM; [|intros H; injection H as <- <-; exact OI].
  destruct (OI k p E) as (e & Eb & Mk).
  intros H; injection H as <- <-.
  set (ids' := uremove id (ids_of p)) in *.
  set (s1 := if match ids' with [] => true | _ => false end
             then set_btree (set_postings s (adel k (postings s))) (sremove k (btree s))
             else set_postings s (aset k (bid_of p, ver_of p + 1, ids') (postings s))) in *.
  assert (B1 : buckets s1 = buckets s) by (unfold s1; destruct ids'; reflexivity).
  rewrite B1. rewrite Eb.
  intros j q Hq. simpl in Hq. simpl buckets.
  assert (Hq1 : alookup j (postings s1) = Some q) by exact Hq. clear Hq.
  destruct (Z.eq_dec j k) as [->|N].
  - unfold s1 in Hq1. destruct ids' as [|z0 r0] eqn:EI; simpl in Hq1.
    + rewrite alookup_adel_same in Hq1. discriminate.
    + rewrite alookup_aset_same in Hq1. inversion Hq1; subst q.
      change (bid_of (bid_of p, ver_of p + 1, z0 :: r0)) with (bid_of p).
      rewrite alookup_aset_same. eexists. split; [reflexivity|]. simpl. exact Mk.
  - assert (Hq0 : alookup j (postings s) = Some q).
    { unfold s1 in Hq1. destruct ids'; simpl in Hq1;
        [rewrite alookup_adel_other in Hq1 by auto|rewrite alookup_aset_other in Hq1 by auto]; exact Hq1. }
    destruct (OI j q Hq0) as (ej & Ej & Mj).
    destruct (Z.eq_dec (bid_of q) (bid_of p)) as [Eq|Nq].
    + rewrite Eq. rewrite alookup_aset_same. eexists. split; [reflexivity|]. simpl.
      rewrite Eq, Eb in Ej. inversion Ej; subst ej.
      destruct ids'; auto. rewrite memz_uremove, Mj. simpl. apply negb_true_iff, Z.eqb_neq. auto.
    + rewrite alookup_aset_other by auto. eauto.
Qed.

(* bucket key lists only lose the key being moved *)
Definition KMono (k : key) (bs bs' : list (bid * bucket)) : Prop :=
  forall b e j, j <> k -> alookup b bs = Some e -> memz j (bkeys e) = true ->
                exists e', alookup b bs' = Some e' /\ memz j (bkeys e') = true.

Lemma KMono_refl k bs : KMono k bs bs.
Proof. intros b e j _ H M. eauto. Qed.
Lemma KMono_trans k a b c : KMono k a b -> KMono k b c -> KMono k a c.
Proof. intros H1 H2 x e j N E M. destruct (H1 x e j N E M) as (e1 & E1 & M1). eapply H2; eauto. Qed.
Lemma KMono_app k bs x : KMono k bs (bs ++ [x]).
Proof. intros b e j _ E M. exists e. split; auto. destruct x. apply alookup_app_keep; auto. Qed.
Lemma KMono_ensure k b bs : KMono k bs (ensure_bucket b bs).
Proof. unfold ensure_bucket. destruct (alookup b bs); [apply KMono_refl|apply KMono_app]. Qed.
Lemma KMono_aset k t v bs :
  (forall e j, j <> k -> alookup t bs = Some e -> memz j (bkeys e) = true -> memz j (bkeys v) = true) ->
  KMono k bs (aset t v bs).
Proof.
  intros H b e j N E M. destruct (Z.eq_dec b t) as [->|Nb].
  - exists v. rewrite alookup_aset_same. split; auto. eapply H; eauto.
  - exists e. rewrite alookup_aset_other; auto.
Qed.

Definition OwnExcept (k : key) (s : state) : Prop :=
  forall j q, j <> k -> alookup j (postings s) = Some q ->
              exists e, alookup (bid_of q) (buckets s) = Some e /\ memz j (bkeys e) = true.

Lemma insert_bucket_phase_OwnInv cfg sz s k target inc appended p :
  alookup k (postings s) = Some p -> bid_of p = target -> OwnExcept k s ->
  OwnInv (insert_bucket_phase cfg sz s k target inc appended).
Proof.
  intros E Bp OE. unfold insert_bucket_phase.
  set (bs := ensure_bucket target (buckets s)).
  assert (K0 : KMono k (buckets s) bs) by apply KMono_ensure.
  destruct (ensure_lookup target (buckets s)) as [e Eb']. fold bs in Eb'.
  assert (Gb : get_bucket target bs = e) by (unfold get_bucket; rewrite Eb'; auto).
  rewrite Gb.
  destruct ((match bkeys e with [] => true | _ => false end) || (bsize e + inc <? overload cfg)).
  - (* stays in its bucket *)
    set (v := mkBucket (bsize e + inc) true (upush k (bkeys e))).
    assert (K1 : KMono k bs (aset target v bs)).
    { apply KMono_aset. intros e0 j N E0 M. rewrite Eb' in E0. inversion E0; subst e0.
      simpl. rewrite memz_upush, M. reflexivity. }
    intros j q Hq. simpl in Hq. simpl buckets.
    destruct (Z.eq_dec j k) as [->|N].
    + rewrite E in Hq. inversion Hq; subst q. rewrite Bp. exists v. rewrite alookup_aset_same. split; auto.
      simpl. rewrite memz_upush, Z.eqb_refl. apply orb_true_r.
    + destruct (OE j q N Hq) as (ej & Ej & Mj).
      eapply (KMono_trans k _ _ _ K0 K1); eauto.
  - (* migrates to a fresh bucket *)
    simpl postings. rewrite E.
    set (nb := max_bid s + 1).
    set (p' := (nb, ver_of p, ids_of p) : posting).
    set (b' := if memz k (bkeys e) then _ else e).
    set (bs1 := aset target b' bs).
    assert (K1 : KMono k bs bs1).
    { apply KMono_aset. intros e0 j N E0 M. rewrite Eb' in E0. inversion E0; subst e0.
      unfold b'. destruct (memz k (bkeys e)); auto. simpl. rewrite memz_uremove, M. simpl.
      apply negb_true_iff, Z.eqb_neq. auto. }
    set (bs2 := match alookup nb bs1 with None => _ | Some e0 => _ end).
    assert (K2 : KMono k bs1 bs2 /\ exists e2, alookup nb bs2 = Some e2 /\ memz k (bkeys e2) = true).
    { unfold bs2. destruct (alookup nb bs1) as [e0|] eqn:E0.
      - split.
        + apply KMono_aset. intros e1 j N E1 M. rewrite E0 in E1. inversion E1; subst e1.
          simpl. rewrite memz_upush, M. reflexivity.
        + eexists. rewrite alookup_aset_same. split; [reflexivity|]. simpl.
          rewrite memz_upush, Z.eqb_refl. apply orb_true_r.
      - split; [apply KMono_app|].
        eexists. rewrite (alookup_app_last nb _ bs1 E0). split; [reflexivity|]. simpl.
        rewrite Z.eqb_refl. reflexivity. }
    destruct K2 as (K2 & e2 & E2 & M2).
    intros j q Hq. simpl in Hq. simpl buckets. fold nb bs bs1 bs2.
    destruct (Z.eq_dec j k) as [->|N].
    + rewrite alookup_aset_same in Hq. inversion Hq; subst q. exists e2. auto.
    + rewrite alookup_aset_other in Hq by auto.
      destruct (OE j q N Hq) as (ej & Ej & Mj).
      eapply (KMono_trans k _ _ _ K0 (KMono_trans k _ _ _ K1 K2)); eauto.
Qed.

Theorem insert_OwnInv cfg sz s id k r s' :
  SizesPos sz -> OwnInv s -> insert cfg sz s id k = (r, s') -> OwnInv s'.
Proof.
  intros [SPd SPp] OI. unfold insert.
  set (s0 := set_buckets s (ensure_bucket (max_bid s) (buckets s))).
  assert (OI0 : OwnInv s0).
  { intros j q Hq. destruct (OI j q Hq) as (e & Eb & M). exists e. split; auto.
    unfold s0. simpl. apply ensure_keep; auto. }
  change (postings s0) with (postings s). change (max_bid s0) with (max_bid s).
  destruct (alookup k (postings s)) as [p|] eqn:E.
  - match goal with |- context [if ?c then _ else _] => destruct c end; [intros H; injection H as <- <-; exact OI0|].
    destruct (memz id (ids_of p)); [intros H; injection H as <- <-; exact OI0|].
    set (p1 := (bid_of p, ver_of p + 1, ids_of p ++ [id]) : posting).
    set (s1 := set_postings s0 (aset k p1 (postings s))).
    assert (E1 : alookup k (postings s1) = Some p1) by (unfold s1; simpl; apply alookup_aset_same).
    assert (OE1 : OwnExcept k s1).
    { intros j q N Hq. unfold s1 in Hq. simpl in Hq. rewrite alookup_aset_other in Hq by auto. exact (OI0 j q Hq). }
    replace (0 <? dsz sz id) with true by (symmetry; apply Z.ltb_lt; apply SPd).
    intros H; injection H as <- <-.
    intros j q Hq. apply (insert_bucket_phase_OwnInv cfg sz s1 k (bid_of p) (dsz sz id) true p1 E1 eq_refl OE1 j q Hq).
  - set (p1 := (max_bid s, 1, [id]) : posting).
    set (s1 := set_btree (set_postings s0 (aset k p1 (postings s))) (sinsert k (btree s))).
    assert (E1 : alookup k (postings s1) = Some p1) by (unfold s1; simpl; apply alookup_aset_same).
    assert (OE1 : OwnExcept k s1).
    { intros j q N Hq. unfold s1 in Hq. simpl in Hq. rewrite alookup_aset_other in Hq by auto. exact (OI0 j q Hq). }
    replace (0 <? psz sz k p1) with true by (symmetry; apply Z.ltb_lt; apply SPp).
    intros H; injection H as <- <-.
    intros j q Hq. apply (insert_bucket_phase_OwnInv cfg sz s1 k (max_bid s) (psz sz k p1) false p1 E1 eq_refl OE1 j q Hq).
Qed.

Lemma alookup_app_gen {V} k (l1 l2 : list (Z * V)) :
  alookup k (l1 ++ l2) = match alookup k l1 with Some v => Some v | None => alookup k l2 end.
Proof. induction l1 as [|[k' v'] r IH]; simpl; auto. destruct (Z.eqb k' k); auto. Qed.

(* ------------------------------------------------------------------ what a flush writes for a dirty bucket *)
Lemma owned_lookup s b ks k :
  alookup k (owned s b ks) = if memz k ks then own s b k else None.
Proof.
  induction ks as [|k0 r IH]; simpl; auto.
  rewrite alookup_app_gen.
  match goal with |- match alookup k ?h with _ => _ end = _ =>
    assert (Hh : h = match own s b k0 with Some v => [(k0, v)] | None => [] end)
      by (unfold own, isnil; destruct (alookup k0 (postings s)) as [p|]; [|reflexivity];
          destruct (Z.eqb (bid_of p) b && negb (match ids_of p with [] => true | _ => false end)); reflexivity);
    rewrite Hh; clear Hh end.
  destruct (Z.eqb k k0) eqn:E0.
  - apply Z.eqb_eq in E0. subst k0. simpl.
    destruct (own s b k) as [v|] eqn:EO; simpl.
    + rewrite Z.eqb_refl. reflexivity.
    + rewrite IH. destruct (memz k r); reflexivity.
  - simpl. destruct (own s b k0) as [v|]; simpl; [rewrite Z.eqb_sym, E0|]; exact IH.
Qed.

(* with the ownership invariant, the object a flush writes for a dirty bucket is exactly what the bucket owns *)
Theorem flush_writes_own s fo :
  OwnInv s -> flush s = Some fo ->
  forall b, In b (dirty_ids (pre_flush s)) ->
    exists ps, In (Put (PBucket b (version (pre_flush s))) (OBucket ps)) (f_steps fo) /\
               forall k, alookup k ps = own s b k.
Proof.
  intros OI. unfold flush.
  destruct (negb (has_dirty s) && negb (has_pending s)); [discriminate|].
  intros H; inversion H; subst fo; clear H. simpl f_steps. intros b Hb.
  set (s1 := pre_flush s) in *.
  assert (P1 : postings s1 = postings s /\ buckets s1 = buckets s).
  { unfold s1, pre_flush. destruct (has_dirty s && negb (has_pending s)); simpl; auto. }
  destruct P1 as [P1 B1].
  exists (owned s1 b (bkeys (get_bucket b (buckets s1)))). split.
  - apply in_or_app. left. apply in_map_iff. exists b. split; auto.
  - intros k. rewrite owned_lookup.
    assert (Eo : own s1 b k = own s b k) by (unfold own; rewrite P1; reflexivity).
    rewrite Eo. destruct (memz k (bkeys (get_bucket b (buckets s1)))) eqn:EM; auto.
    (* not listed by the bucket: then the bucket does not own it *)
    unfold own. destruct (alookup k (postings s)) as [p|] eqn:E; auto.
    destruct (Z.eqb (bid_of p) b) eqn:Eb; simpl; auto.
    apply Z.eqb_eq in Eb. destruct (OI k p E) as (e & Ee & Me). rewrite Eb in Ee.
    unfold get_bucket in EM. rewrite B1, Ee in EM. congruence.
Qed.
