(* BTree/ProofsQuery.v — range_keys / range_query against the ordered-multimap reading. *)
From Coq Require Import List ZArith Bool Lia Arith.
From Verif Require Import BTree.Model.
Import ListNotations.
Open Scope Z_scope.

(* ------------------------------------------------------------------ strictly ascending lists *)
Fixpoint ssorted (l : list Z) : Prop :=
  match l with
  | [] => True
  | x :: r => (forall y, In y r -> x < y) /\ ssorted r
  end.

Lemma memz_In x l : memz x l = true <-> In x l.
Proof.
  unfold memz. rewrite existsb_exists. split.
  - intros (y & Hy & E). apply Z.eqb_eq in E. subst; auto.
  - intros H. exists x. split; auto. apply Z.eqb_refl.
Qed.

Lemma memz_false x l : memz x l = false <-> ~ In x l.
Proof.
  split; intros H.
  - intro Hin. apply memz_In in Hin. congruence.
  - destruct (memz x l) eqn:E; auto. apply memz_In in E. contradiction.
Qed.

Lemma ssorted_notin x r : ssorted (x :: r) -> ~ In x r.
Proof. intros [H _] Hin. specialize (H x Hin). lia. Qed.

Lemma ssorted_ext l1 : forall l2,
    ssorted l1 -> ssorted l2 -> (forall x, In x l1 <-> In x l2) -> l1 = l2.
Proof.
  induction l1 as [|a r1 IH]; intros [|b r2] S1 S2 H; auto.
  - exfalso. apply (proj2 (H b)). left; auto.
  - exfalso. apply (proj1 (H a)). left; auto.
  - assert (a = b).
    { destruct S1 as [L1 _], S2 as [L2 _].
      assert (Ha : In a (b :: r2)) by (apply H; left; auto).
      assert (Hb : In b (a :: r1)) by (apply H; left; auto).
      destruct Ha as [Ha|Ha]; auto. destruct Hb as [Hb|Hb]; auto.
      specialize (L1 b Hb). specialize (L2 a Ha). lia. }
    subst b. f_equal. apply IH.
    + apply S1.
    + apply S2.
    + intros x. split; intros Hx.
      * assert (Hx' : In x (a :: r2)) by (apply H; right; auto).
        destruct Hx' as [Hx'|Hx']; auto. subst x. exfalso. exact (ssorted_notin a r1 S1 Hx).
      * assert (Hx' : In x (a :: r1)) by (apply H; right; auto).
        destruct Hx' as [Hx'|Hx']; auto. subst x. exfalso. exact (ssorted_notin a r2 S2 Hx).
Qed.

Lemma sinsert_In x l y : In y (sinsert x l) <-> y = x \/ In y l.
Proof.
  induction l as [|a r IH]; simpl.
  - intuition.
  - destruct (Z.ltb x a) eqn:E1; simpl; [intuition|].
    destruct (Z.eqb x a) eqn:E2; simpl.
    + apply Z.eqb_eq in E2. subst. intuition.
    + rewrite IH. intuition.
Qed.

Lemma sinsert_sorted x l : ssorted l -> ssorted (sinsert x l).
Proof.
  induction l as [|a r IH]; simpl; intros S.
  - split; auto. intros y [].
  - destruct (Z.ltb x a) eqn:E1.
    + apply Z.ltb_lt in E1. simpl. split; [|exact S].
      intros y [Hy|Hy]; [subst; auto|]. destruct S as [L _]. specialize (L y Hy). lia.
    + destruct (Z.eqb x a) eqn:E2; [exact S|].
      apply Z.ltb_ge in E1. apply Z.eqb_neq in E2.
      simpl. destruct S as [L S']. split; [|apply IH; auto].
      intros y Hy. apply sinsert_In in Hy. destruct Hy as [->|Hy]; [lia|auto].
Qed.

Lemma sort_dedup_In l y : In y (sort_dedup l) <-> In y l.
Proof.
  induction l as [|a r IH]; simpl; [tauto|].
  rewrite sinsert_In, IH. intuition.
Qed.

Lemma sort_dedup_sorted l : ssorted (sort_dedup l).
Proof. induction l; simpl; auto. apply sinsert_sorted; auto. Qed.

Lemma filter_sorted f l : ssorted l -> ssorted (filter f l).
Proof.
  induction l as [|a r IH]; simpl; auto. intros [L S].
  destruct (f a); simpl; auto. split; auto.
  intros y Hy. apply filter_In in Hy. apply L. tauto.
Qed.

Lemma filter_none {A} (f : A -> bool) l : (forall x, In x l -> f x = false) -> filter f l = [].
Proof.
  induction l; simpl; auto. intros H. rewrite (H a) by auto. apply IHl. intros; apply H; auto.
Qed.

Lemma sremove_In x l y : In y (sremove x l) <-> In y l /\ y <> x.
Proof.
  unfold sremove. rewrite filter_In. rewrite negb_true_iff, Z.eqb_neq. tauto.
Qed.

Lemma sremove_sorted x l : ssorted l -> ssorted (sremove x l).
Proof. apply filter_sorted. Qed.

(* ------------------------------------------------------------------ induction on query trees *)
Lemma rq_ind' (P : rq -> Prop) :
  (forall k, P (QEq k)) -> (forall k, P (QGt k)) -> (forall k, P (QGe k)) ->
  (forall k, P (QLt k)) -> (forall k, P (QLe k)) -> (forall a b, P (QBetween a b)) ->
  (forall ks, P (QInclude ks)) ->
  (forall qs, Forall P qs -> P (QOr qs)) ->
  (forall qs, Forall P qs -> P (QAnd qs)) ->
  (forall q, P q -> P (QNot q)) ->
  forall q, P q.
Proof.
  intros H1 H2 H3 H4 H5 H6 H7 H8 H9 H10.
  fix IH 1. intros q. destruct q.
  - apply H1. - apply H2. - apply H3. - apply H4. - apply H5. - apply H6. - apply H7.
  - apply H8. induction qs; constructor; auto.
  - apply H9. induction qs; constructor; auto.
  - apply H10. apply IH.
Qed.

(* ------------------------------------------------------------------ swap_remove / argmin *)
Lemma nth_split_In {A} (l : list A) i d :
  (i < length l)%nat -> l = firstn i l ++ nth i l d :: skipn (S i) l.
Proof.
  revert i. induction l as [|a r IH]; intros i H; simpl in H; [lia|].
  destruct i; simpl; auto. f_equal. apply IH. lia.
Qed.

Lemma swap_remove_rest_In {A} (l : list A) i d x :
  (i < length l)%nat -> (In x l <-> x = nth i l d \/ In x (swap_remove_rest i l)).
Proof.
  intros H. rewrite (nth_split_In l i d H) at 1.
  unfold swap_remove_rest.
  remember (skipn (S i) l) as tl. remember (firstn i l) as hd. remember (nth i l d) as y.
  clear Heqtl Heqhd Heqy H.
  rewrite in_app_iff.
  assert (Hr : In x tl <-> In x (rev tl)) by apply in_rev.
  destruct (rev tl) as [|lst rtl] eqn:E.
  - simpl in *. intuition.
  - rewrite in_app_iff. simpl in *. rewrite <- in_rev. intuition.
Qed.

Lemma argmin_from_lt l : forall i bi b, (bi < i)%nat -> (argmin_from i bi b l < i + length l)%nat.
Proof.
  induction l as [|x r IH]; intros i bi b H; simpl; [lia|].
  destruct (Nat.ltb x b).
  - specialize (IH (S i) i x). lia.
  - specialize (IH (S i) bi b). lia.
Qed.

Lemma argmin_lt l : l <> [] -> (argmin l < length l)%nat.
Proof.
  destruct l as [|x r]; [congruence|]. intros _. simpl.
  pose proof (argmin_from_lt r 1 0 x). simpl in H. lia.
Qed.

(* ------------------------------------------------------------------ range_keys *)
Lemma fold_retain_In (rest : list rq) : forall init x,
    In x (fold_left (fun inter q => filter (fun k => matches k q) inter) rest init) <->
    In x init /\ forallb (matches x) rest = true.
Proof.
  induction rest as [|q r IH]; intros init x; simpl.
  - tauto.
  - rewrite IH, filter_In, andb_true_iff. tauto.
Qed.

Lemma fold_retain_sorted (rest : list rq) : forall init,
    ssorted init -> ssorted (fold_left (fun inter q => filter (fun k => matches k q) inter) rest init).
Proof.
  induction rest; intros init S; simpl; auto. apply IHrest. apply filter_sorted; auto.
Qed.

(* range_keys returns exactly the keys of the ordered key set that satisfy the boolean tree, ascending *)
Theorem range_keys_spec bt : ssorted bt ->
  forall q, range_keys bt q = filter (fun k => matches k q) bt.
Proof.
  intros S. induction q using rq_ind'; simpl range_keys; try reflexivity.
  - (* Eq *)
    apply ssorted_ext.
    + destruct (memz k bt); simpl; auto. split; auto. intros y [].
    + apply filter_sorted; auto.
    + intros x. rewrite filter_In. simpl. rewrite Z.eqb_eq.
      destruct (memz k bt) eqn:E; simpl.
      * apply memz_In in E. split; [intros [<-|[]]; auto | intros [? ->]; auto].
      * apply memz_false in E. split; [tauto | intros [? ->]; contradiction].
  - (* Between *)
    simpl matches. destruct (Z.leb a b) eqn:E; simpl; auto.
    symmetry. apply filter_none. auto.
  - (* Include *)
    apply ssorted_ext.
    + apply filter_sorted, sort_dedup_sorted.
    + apply filter_sorted; auto.
    + intros x. rewrite !filter_In, sort_dedup_In. simpl. rewrite !memz_In. tauto.
  - (* Or *)
    apply ssorted_ext.
    + apply sort_dedup_sorted.
    + apply filter_sorted; auto.
    + intros x. rewrite sort_dedup_In, filter_In, in_concat. simpl. rewrite existsb_exists.
      rewrite Forall_forall in H. split.
      * intros (l & Hl & Hx). apply in_map_iff in Hl. destruct Hl as (q & <- & Hq).
        rewrite (H q Hq) in Hx. apply filter_In in Hx. split; [tauto|]. exists q. tauto.
      * intros (Hx & q & Hq & Hm). exists (range_keys bt q). split.
        -- apply in_map; auto.
        -- rewrite (H q Hq). apply filter_In. auto.
  - (* And *)
    destruct qs as [|q0 qr]; [simpl; symmetry; apply filter_none; auto|].
    set (qs := q0 :: qr) in *.
    assert (Hne : qs <> []) by (unfold qs; congruence).
    set (i := argmin (map seed_rank qs)).
    assert (Hi : (i < length qs)%nat).
    { unfold i. rewrite <- (map_length seed_rank qs). apply argmin_lt.
      unfold qs; simpl; congruence. }
    rewrite Forall_forall in H.
    assert (Hseed : nth i (map (range_keys bt) qs) [] = filter (fun k => matches k (nth i qs (QEq 0))) bt).
    { rewrite <- (H (nth i qs (QEq 0))) by (apply nth_In; auto).
      rewrite (nth_indep _ [] (range_keys bt (QEq 0))) by (rewrite map_length; auto).
      apply map_nth. }
    apply ssorted_ext.
    + apply fold_retain_sorted, sort_dedup_sorted.
    + apply filter_sorted; auto.
    + intros x. rewrite fold_retain_In, sort_dedup_In, Hseed, !filter_In.
      change (matches x (QAnd qs)) with (negb (match qs with [] => true | _ => false end) && forallb (matches x) qs).
      unfold qs at 3. simpl negb. rewrite andb_true_l.
      rewrite !forallb_forall.
      split.
      * intros [[Hx Hs] Hr]. split; auto. intros q Hq.
        apply (swap_remove_rest_In qs i (QEq 0) q Hi) in Hq. destruct Hq as [->|Hq]; auto.
      * intros [Hx Hall]. split; [split; auto|].
        -- apply Hall. apply nth_In; auto.
        -- intros q Hq. apply Hall. apply (swap_remove_rest_In qs i (QEq 0) q Hi). auto.
  - (* Not *)
    rewrite IHq. apply filter_ext_in. intros x Hx. simpl. f_equal.
    destruct (matches x q) eqn:E.
    + apply memz_In. apply filter_In. auto.
    + apply memz_false. intro Hin. apply filter_In in Hin. destruct Hin; congruence.
Qed.

(* ------------------------------------------------------------------ range_query *)
Definition KeysOK (s : state) : Prop :=
  ssorted (btree s) /\ (forall k, In k (btree s) <-> alookup k (postings s) <> None).

Section WalkFacts.
  Variables A R : Type.
  Variable f : key -> list pk -> A -> bool * list R * A.

  Definition has_posting (ps : list (key * posting)) (k : key) : bool :=
    match alookup k ps with Some _ => true | None => false end.

  Lemma walk_asc_skip ps l : forall a,
      walk_asc f ps l a = walk_asc f ps (filter (has_posting ps) l) a.
  Proof.
    induction l as [|k r IH]; intros a; simpl; auto.
    unfold has_posting at 1. destruct (alookup k ps) as [p|] eqn:E; simpl.
    - rewrite E. destruct (f k (ids_of p) a) as [[c rt] a']. destruct c; auto. rewrite IH. reflexivity.
    - apply IH.
  Qed.

  Lemma walk_desc_skip ps l : forall a,
      walk_desc_groups f ps l a = walk_desc_groups f ps (filter (has_posting ps) l) a.
  Proof.
    induction l as [|k r IH]; intros a; simpl; auto.
    unfold has_posting at 1. destruct (alookup k ps) as [p|] eqn:E; simpl.
    - rewrite E. destruct (f k (ids_of p) a) as [[c rt] a']. destruct c; auto. rewrite IH. reflexivity.
    - apply IH.
  Qed.

  Lemma filter_rev' {B} (g : B -> bool) l : filter g (rev l) = rev (filter g l).
  Proof.
    induction l; simpl; auto. rewrite filter_app, IHl. simpl. destruct (g a); simpl; auto.
    rewrite app_nil_r. reflexivity.
  Qed.

  Lemma walk_skip desc ps l a :
    walk f desc ps l a = walk f desc ps (filter (has_posting ps) l) a.
  Proof.
    unfold walk. destruct desc.
    - rewrite walk_desc_skip. rewrite filter_rev'. reflexivity.
    - apply walk_asc_skip.
  Qed.

  Lemma walk_nil desc ps a : walk f desc ps [] a = ([], a).
  Proof. destruct desc; reflexivity. Qed.

  Lemma walk_single desc ps k p a :
    alookup k ps = Some p ->
    walk f desc ps [k] a = (let '(_, rt, a') := f k (ids_of p) a in (rt, a')).
  Proof.
    intros E. unfold walk. destruct desc; simpl; rewrite E;
      destruct (f k (ids_of p) a) as [[c rt] a']; destruct c; simpl; rewrite ?app_nil_r; auto;
      destruct rt; simpl; rewrite ?app_nil_r; auto.
  Qed.

  (* range_query = the callback folded over the matching keys of the ordered key set, in the requested
     direction, until it says stop; groups re-ordered ascending.  All trees, both directions. *)
  Theorem range_query_spec s desc q a :
    KeysOK s ->
    range_query f s desc q a =
    if Nat.ltb MAX_DEPTH (depth q) then ([], a)
    else walk f desc (postings s) (filter (fun k => matches k q) (btree s)) a.
  Proof.
    intros [S K]. unfold range_query.
    assert (HE : postings s = [] -> btree s = []).
    { intros EP. destruct (btree s) as [|k r]; auto. exfalso.
      assert (Hin : In k (k :: r)) by (left; auto).
      apply K in Hin. apply Hin. rewrite EP. reflexivity. }
    remember (postings s) as ps0 eqn:EP0.
    destruct ps0 as [|pp pr].
    { rewrite (HE eq_refl). simpl. rewrite walk_nil. destruct (Nat.ltb MAX_DEPTH (depth q)); auto. }
    clear HE. rewrite EP0 in K. rewrite EP0. clear pp pr EP0.
    destruct (Nat.ltb MAX_DEPTH (depth q)); auto.
    pose proof (range_keys_spec (btree s) S) as RK.
    assert (HP : forall k, has_posting (postings s) k = memz k (btree s)).
    { intros k. unfold has_posting. destruct (alookup k (postings s)) eqn:E.
      - symmetry. apply memz_In. apply K. congruence.
      - symmetry. apply memz_false. intro Hin. apply K in Hin. congruence. }
    destruct q; try reflexivity.
    - (* Eq *)
      rewrite <- (RK (QEq k)). simpl range_keys.
      destruct (alookup k (postings s)) as [p|] eqn:E.
      + assert (memz k (btree s) = true) by (rewrite <- HP; unfold has_posting; rewrite E; auto).
        rewrite H. symmetry. apply walk_single; auto.
      + assert (memz k (btree s) = false) by (rewrite <- HP; unfold has_posting; rewrite E; auto).
        rewrite H. rewrite walk_nil. reflexivity.
    - (* Between *)
      simpl matches. destruct (Z.ltb b a0) eqn:E.
      + apply Z.ltb_lt in E. rewrite filter_none; [rewrite walk_nil; auto|].
        intros x _. destruct (Z.leb a0 b) eqn:E2; auto. apply Z.leb_le in E2. lia.
      + apply Z.ltb_ge in E. f_equal. apply filter_ext. intros x.
        destruct (Z.leb a0 b) eqn:E2; auto. apply Z.leb_gt in E2. lia.
    - (* Include *)
      rewrite walk_skip. rewrite <- (RK (QInclude ks)). simpl range_keys.
      f_equal. apply filter_ext. exact HP.
    - (* Or *) rewrite <- (RK (QOr qs)). reflexivity.
    - (* And *) rewrite <- (RK (QAnd qs)). reflexivity.
    - (* Not *) rewrite <- (RK (QNot q)). reflexivity.
  Qed.
End WalkFacts.

(* ------------------------------------------------------------------ what the walk means: paging *)
(* the usual paging callback: emit [g k ids], stop once [n] keys have been visited *)
Definition page_cb {R} (g : key -> list pk -> list R) (n : nat) (k : key) (ids : list pk) (c : nat)
  : bool * list R * nat := (Nat.ltb (S c) n, g k ids, S c).

Definition emit {R} (g : key -> list pk -> list R) (ps : list (key * posting)) (k : key) : list R :=
  match alookup k ps with Some p => g k (ids_of p) | None => [] end.

Lemma walk_asc_page {R} (g : key -> list pk -> list R) ps : forall l n c,
    (forall k, In k l -> alookup k ps <> None) -> (c < n)%nat ->
    fst (walk_asc (page_cb g n) ps l c) = flat_map (emit g ps) (firstn (n - c) l).
Proof.
  induction l as [|k r IH]; intros n c H Hc; simpl.
  - rewrite firstn_nil. reflexivity.
  - destruct (alookup k ps) as [p|] eqn:E; [|exfalso; apply (H k); [left; reflexivity | exact E]].
    unfold page_cb in *. destruct (Nat.ltb (S c) n) eqn:EL.
    + apply Nat.ltb_lt in EL.
      match goal with |- context [walk_asc ?ff ps r (S c)] =>
        destruct (walk_asc ff ps r (S c)) as [out a''] eqn:EW end.
      simpl. replace (n - c)%nat with (S (n - S c)) by lia. simpl.
      unfold emit at 1. rewrite E. f_equal.
      specialize (IH n (S c)). rewrite EW in IH. simpl in IH. apply IH; [intros; apply H; right; auto | lia].
    + apply Nat.ltb_ge in EL. simpl. replace (n - c)%nat with 1%nat by lia. simpl.
      unfold emit. rewrite E. rewrite app_nil_r. reflexivity.
Qed.

(* ascending, stop after n keys: the output is that of the FIRST n matching keys *)
Theorem page_first_n {R} (g : key -> list pk -> list R) s q n :
  KeysOK s -> (depth q <= MAX_DEPTH)%nat -> (0 < n)%nat ->
  fst (range_query (page_cb g n) s false q 0%nat) =
  flat_map (emit g (postings s)) (firstn n (filter (fun k => matches k q) (btree s))).
Proof.
  intros KO Hd Hn. rewrite range_query_spec by auto.
  replace (Nat.ltb MAX_DEPTH (depth q)) with false by (symmetry; apply Nat.ltb_ge; auto).
  unfold walk. rewrite walk_asc_page; auto.
  - rewrite Nat.sub_0_r. reflexivity.
  - intros k Hk. apply filter_In in Hk. apply KO. tauto.
Qed.

Lemma walk_desc_page {R} (g : key -> list pk -> list R) ps : forall l n c,
    (forall k, In k l -> alookup k ps <> None) -> (c < n)%nat ->
    concat (rev (fst (walk_desc_groups (page_cb g n) ps l c))) =
    flat_map (emit g ps) (rev (firstn (n - c) l)).
Proof.
  induction l as [|k r IH]; intros n c H Hc; simpl.
  - rewrite firstn_nil. reflexivity.
  - destruct (alookup k ps) as [p|] eqn:E; [|exfalso; apply (H k); [left; reflexivity | exact E]].
    assert (Hg : forall gs, concat (rev ((match g k (ids_of p) with [] => [] | _ => [g k (ids_of p)] end) ++ gs))
                            = concat (rev gs) ++ g k (ids_of p)).
    { intros gs. destruct (g k (ids_of p)) eqn:EG; simpl.
      - rewrite app_nil_r. reflexivity.
      - rewrite concat_app. simpl. rewrite app_nil_r. reflexivity. }
    unfold page_cb in *.
    destruct (Nat.ltb (S c) n) eqn:EL.
    + apply Nat.ltb_lt in EL.
      match goal with |- context [walk_desc_groups ?ff ps r (S c)] =>
        destruct (walk_desc_groups ff ps r (S c)) as [gs a''] eqn:EW end.
      simpl fst. rewrite Hg.
      replace (n - c)%nat with (S (n - S c)) by lia. simpl.
      rewrite flat_map_app. simpl. unfold emit at 2. rewrite E. rewrite app_nil_r. f_equal.
      specialize (IH n (S c)). rewrite EW in IH. simpl in IH. apply IH; [intros; apply H; right; auto | lia].
    + apply Nat.ltb_ge in EL. simpl fst.
      specialize (Hg []). rewrite app_nil_r in Hg. rewrite Hg. simpl.
      replace (n - c)%nat with 1%nat by lia. simpl.
      unfold emit. rewrite E. rewrite app_nil_r. reflexivity.
Qed.

Definition lastn {B} (n : nat) (l : list B) : list B := rev (firstn n (rev l)).

(* descending, stop after n keys: the output is that of the LAST n matching keys, in ascending key order *)
Theorem page_last_n {R} (g : key -> list pk -> list R) s q n :
  KeysOK s -> (depth q <= MAX_DEPTH)%nat -> (0 < n)%nat ->
  fst (range_query (page_cb g n) s true q 0%nat) =
  flat_map (emit g (postings s)) (lastn n (filter (fun k => matches k q) (btree s))).
Proof.
  intros KO Hd Hn. rewrite range_query_spec by auto.
  replace (Nat.ltb MAX_DEPTH (depth q)) with false by (symmetry; apply Nat.ltb_ge; auto).
  unfold walk, lastn.
  destruct (walk_desc_groups (page_cb g n) (postings s) (rev (filter (fun k => matches k q) (btree s))) 0%nat) as [gs a'] eqn:EW.
  simpl fst.
  pose proof (walk_desc_page g (postings s) (rev (filter (fun k => matches k q) (btree s))) n 0%nat) as W.
  rewrite EW in W. simpl fst in W. rewrite Nat.sub_0_r in W. apply W; auto.
  intros k Hk. apply in_rev in Hk. apply filter_In in Hk. apply KO. tauto.
Qed.
