(* BTree/ProofsFlush.v — the model's flush emits a well-formed commit: fresh (bucket, generation)
   objects, one metadata write, deletes of objects the new manifest no longer references. *)
From Coq Require Import List ZArith Bool Lia Arith.
From Verif Require Import Common.ObjStore Common.CommitPoint BTree.Model BTree.ProofsQuery BTree.ProofsOps BTree.ProofsCrash.
Import ListNotations.
Open Scope Z_scope.

(* ------------------------------------------------------------------ assoc-list facts *)
Lemma alookup_In {V} k (v : V) l : alookup k l = Some v -> In (k, v) l.
Proof.
  induction l as [|[k' v'] r IH]; simpl; [discriminate|].
  destruct (Z.eqb k' k) eqn:E.
  - apply Z.eqb_eq in E. intros H; inversion H; subst. left; auto.
  - intros H. right. auto.
Qed.

Lemma In_alookup_some {V} k (v : V) l : In (k, v) l -> alookup k l <> None.
Proof.
  induction l as [|[k' v'] r IH]; simpl; [tauto|].
  intros [H|H].
  - inversion H; subst. rewrite Z.eqb_refl. discriminate.
  - destruct (Z.eqb k' k); [discriminate|auto].
Qed.

Lemma In_alookup_nodup {V} k (v : V) l : NoDup (map fst l) -> In (k, v) l -> alookup k l = Some v.
Proof.
  induction l as [|[k' v'] r IH]; simpl; [tauto|].
  intros ND [H|H].
  - inversion H; subst. rewrite Z.eqb_refl. reflexivity.
  - inversion ND; subst. destruct (Z.eqb k' k) eqn:E.
    + apply Z.eqb_eq in E. subst k'. exfalso. apply H2. apply (in_map fst) in H. exact H.
    + apply IH; auto.
Qed.

Lemma alookup_app {V} k (l1 l2 : list (Z * V)) :
  alookup k (l1 ++ l2) = match alookup k l1 with Some v => Some v | None => alookup k l2 end.
Proof.
  induction l1 as [|[k' v'] r IH]; simpl; auto. destruct (Z.eqb k' k); auto.
Qed.

Lemma NoDup_app_intro {A} (l1 l2 : list A) :
  NoDup l1 -> NoDup l2 -> (forall x, In x l1 -> In x l2 -> False) -> NoDup (l1 ++ l2).
Proof.
  induction l1 as [|a r IH]; simpl; intros N1 N2 H; auto.
  inversion N1; subst. constructor.
  - intro Hin. apply in_app_iff in Hin. destruct Hin; [contradiction|]. eapply H; eauto.
  - apply IH; auto. intros x H1 H2'. eapply H; eauto.
Qed.

Lemma ssorted_NoDup l : ssorted l -> NoDup l.
Proof.
  induction l; simpl; intros S; constructor.
  - apply ssorted_notin. exact S.
  - apply IHl. apply S.
Qed.

(* ------------------------------------------------------------------ bucket map monotonicity *)
Definition MonoL (bs bs' : list (bid * bucket)) : Prop :=
  forall b e, alookup b bs = Some e -> exists e', alookup b bs' = Some e' /\ (bdirty e = true -> bdirty e' = true).

Lemma MonoL_refl bs : MonoL bs bs.
Proof. intros b e H. eauto. Qed.

Lemma MonoL_trans a b c : MonoL a b -> MonoL b c -> MonoL a c.
Proof.
  intros H1 H2 k e E. destruct (H1 k e E) as (e1 & E1 & D1). destruct (H2 k e1 E1) as (e2 & E2 & D2).
  exists e2. split; auto.
Qed.

Lemma MonoL_app bs x : MonoL bs (bs ++ [x]).
Proof. intros b e H. exists e. rewrite alookup_app, H. auto. Qed.

Lemma MonoL_ensure b bs : MonoL bs (ensure_bucket b bs).
Proof. unfold ensure_bucket. destruct (alookup b bs); [apply MonoL_refl|apply MonoL_app]. Qed.

Lemma MonoL_aset k v bs :
  (forall e, alookup k bs = Some e -> bdirty e = true -> bdirty v = true) -> MonoL bs (aset k v bs).
Proof.
  intros H b e E. destruct (Z.eq_dec b k) as [->|N].
  - exists v. rewrite alookup_aset_same. split; auto. intros D. eapply H; eauto.
  - exists e. rewrite alookup_aset_other; auto.
Qed.

Lemma MonoL_aset_dirty k v bs : bdirty v = true -> MonoL bs (aset k v bs).
Proof. intros D. apply MonoL_aset. auto. Qed.

(* what a mutation leaves alone *)
Definition Frame (s s' : state) : Prop :=
  manifest s' = manifest s /\ last_saved s' = last_saved s /\ version s <= version s' /\
  MonoL (buckets s) (buckets s').

Section FrameOps.
  Variable cfg : config.
  Variable sz : sizes.

  Lemma get_bucket_lookup b bs e : alookup b bs = Some e -> get_bucket b bs = e.
  Proof. unfold get_bucket. intros ->. reflexivity. Qed.

  Lemma insert_bucket_phase_Frame s k target inc appended :
    Frame s (insert_bucket_phase cfg sz s k target inc appended).
  Proof.
    unfold insert_bucket_phase.
    set (bs := ensure_bucket target (buckets s)).
    assert (M0 : MonoL (buckets s) bs) by apply MonoL_ensure.
    destruct ((match bkeys (get_bucket target bs) with [] => true | _ => false end)
              || (bsize (get_bucket target bs) + inc <? overload cfg)).
    - repeat split; simpl; try lia. eapply MonoL_trans; [exact M0|]. apply MonoL_aset_dirty. reflexivity.
    - simpl postings. destruct (alookup k (postings s)) as [p|].
      + repeat split; simpl; try lia.
        eapply MonoL_trans; [exact M0|].
        set (b' := if memz k (bkeys (get_bucket target bs)) then _ else get_bucket target bs).
        assert (M1 : MonoL bs (aset target b' bs)).
        { apply MonoL_aset. intros e E D. unfold b'. rewrite (get_bucket_lookup _ _ _ E).
          destruct (memz k (bkeys e)); auto. }
        eapply MonoL_trans; [exact M1|].
        destruct (alookup (max_bid s + 1) (aset target b' bs)).
        * apply MonoL_aset_dirty. reflexivity.
        * apply MonoL_app.
      + repeat split; simpl; try lia. exact M0.
  Qed.

  Lemma Frame_trans s1 s2 s3 : Frame s1 s2 -> Frame s2 s3 -> Frame s1 s3.
  Proof.
    intros (A1 & B1 & C1 & D1) (A2 & B2 & C2 & D2). repeat split; try congruence; try lia.
    eapply MonoL_trans; eauto.
  Qed.

  Lemma Frame_bump s : Frame s (bump_version s).
  Proof. repeat split; simpl; try lia. apply MonoL_refl. Qed.

  Theorem insert_Frame s id k : Frame s (snd (insert cfg sz s id k)).
  Proof.
    unfold insert.
    set (s0 := set_buckets s (ensure_bucket (max_bid s) (buckets s))).
    assert (F0 : Frame s s0) by (repeat split; simpl; try lia; apply MonoL_ensure).
    change (postings s0) with (postings s).
    destruct (alookup k (postings s)) as [p|].
    - match goal with |- context [if ?c then _ else _] => destruct c end; [exact F0|].
      destruct (memz id (ids_of p)); [exact F0|].
      match goal with |- context [if ?c then _ else _] => destruct c end; simpl snd.
      + eapply Frame_trans; [exact F0|]. eapply Frame_trans; [|apply Frame_bump].
        eapply Frame_trans; [|apply insert_bucket_phase_Frame].
        repeat split; simpl; try lia. apply MonoL_refl.
      + eapply Frame_trans; [exact F0|]. repeat split; simpl; try lia. apply MonoL_refl.
    - match goal with |- context [if ?c then _ else _] => destruct c end; simpl snd.
      + eapply Frame_trans; [exact F0|]. eapply Frame_trans; [|apply Frame_bump].
        eapply Frame_trans; [|apply insert_bucket_phase_Frame].
        repeat split; simpl; try lia. apply MonoL_refl.
      + eapply Frame_trans; [exact F0|]. repeat split; simpl; try lia. apply MonoL_refl.
  Qed.

  Theorem remove_Frame s id k : Frame s (snd (remove sz s id k)).
  Proof.
    unfold remove.
    destruct (alookup k (postings s)) as [p|]; [|repeat split; simpl; try lia; apply MonoL_refl].
    destruct (memz id (ids_of p)); [|repeat split; simpl; try lia; apply MonoL_refl].
    simpl snd. eapply Frame_trans; [|apply Frame_bump].
    set (s1 := if match uremove id (ids_of p) with [] => true | _ => false end then _ else _).
    assert (F1 : Frame s s1).
    { unfold s1. destruct (uremove id (ids_of p)); repeat split; simpl; try lia; apply MonoL_refl. }
    eapply Frame_trans; [exact F1|].
    destruct (alookup (bid_of p) (buckets s1)).
    - repeat split; simpl; try lia. apply MonoL_aset_dirty. reflexivity.
    - repeat split; simpl; try lia. apply MonoL_refl.
  Qed.
End FrameOps.

(* ------------------------------------------------------------------ the flush precondition *)
Record FlushPre (s : state) (st : bstore) : Prop := mkFP {
  fp_meta : match bget st PMeta with
            | Some (OMeta mf _ _) => mf = manifest s
            | Some (OBucket _) => False
            | None => manifest s = []
            end;
  fp_gens : forall b g, In (b, g) (manifest s) -> 0 <= g <= last_saved s;
  fp_saved : 0 <= last_saved s <= version s;
  fp_ver : 1 <= version s;
  fp_nodup : NoDup (map fst (manifest s));
  (* some current bucket is dirty or committed, unless nothing was ever committed *)
  fp_cover : manifest s = [] \/
             exists b e, alookup b (buckets s) = Some e /\ (bdirty e = true \/ alookup b (manifest s) <> None)
}.

Lemma FlushPre_new : FlushPre new_state [].
Proof.
  constructor; simpl; auto; try lia; try (intros b g []); try constructor.
Qed.

Lemma FlushPre_Frame s s' st : Frame s s' -> FlushPre s st -> FlushPre s' st.
Proof.
  intros (A & B & C & D) [M G S V N Cv]. constructor; rewrite ?A, ?B; auto; try lia.
  destruct Cv as [Cv|(b & e & E & H)]; [left; auto|right].
  destruct (D b e E) as (e' & E' & De). exists b, e'. split; auto. destruct H; auto.
Qed.

Lemma insert_desc_ne x l : insert_desc x l <> [].
Proof. destruct l; simpl; [discriminate|]. destruct (_ <? _); discriminate. Qed.

Lemma sort_desc_ne l : l <> [] -> sort_desc l <> [].
Proof. destruct l; [congruence|]. intros _. simpl. apply insert_desc_ne. Qed.

Lemma ffd_place_ne cfg x bins : ffd_place cfg x bins <> [].
Proof. destruct bins; simpl; [discriminate|]. destruct (_ <? _); discriminate. Qed.

Lemma fold_ffd_ne cfg l : forall b, b <> [] -> fold_left (fun bins x => ffd_place cfg x bins) l b <> [].
Proof. induction l; simpl; auto. intros b _. apply IHl. apply ffd_place_ne. Qed.

Lemma fold_ffd_ne_start cfg l : l <> [] -> fold_left (fun bins x => ffd_place cfg x bins) l [] <> [].
Proof. destruct l; [congruence|]. intros _. simpl. apply fold_ffd_ne. discriminate. Qed.

(* compact_buckets: the bucket map is rebuilt, everything in it is dirty *)
Lemma FlushPre_compact cfg sz s st r s' :
  compact cfg sz s = (r, s') -> FlushPre s st -> FlushPre s' st.
Proof.
  unfold compact. intros H [M G S V N Cv].
  destruct (Z.of_nat (length (buckets s)) <=? 1); [inversion H; subst; constructor; auto|].
  assert (Hd : forall bs mb ps, FlushPre (bump_version (set_max_bid (set_buckets (set_postings s ps) bs) mb)) st
                                \/ ~ (exists e, alookup 0 bs = Some e /\ bdirty e = true)).
  { intros bs mb ps. destruct (alookup 0 bs) as [e|] eqn:E0.
    - destruct (bdirty e) eqn:ED.
      + left. constructor; simpl; auto; try lia. right. exists 0, e. split; auto.
      + right. intros (e1 & E1 & D1). congruence.
    - right. intros (e1 & E1 & D1). congruence. }
  destruct (postings s) as [|pp pr] eqn:EP.
  - inversion H; subst; clear H.
    constructor; simpl; auto; try lia. right. exists 0, (mkBucket 0 true []). simpl. auto.
  - rewrite <- EP in H.
    match type of H with context [rebuild 0 ?bins (postings s) []] => set (B := bins) in * end.
    destruct (rebuild 0 B (postings s) []) as [ps bs] eqn:ER.
    inversion H; subst; clear H.
    (* bins is non-empty, so bucket 0 exists and is dirty *)
    assert (HB : exists e, alookup 0 bs = Some e /\ bdirty e = true).
    { assert (Hne : B <> []).
      { unfold B. rewrite EP. simpl map. apply fold_ffd_ne_start. apply sort_desc_ne. discriminate. }
      destruct B as [|[size ks] Br]; [congruence|]. simpl in ER.
      assert (Hkeep : forall bins i ps0 bs0 ps1 bs1 e,
                 rebuild i bins ps0 bs0 = (ps1, bs1) -> alookup 0 bs0 = Some e -> alookup 0 bs1 = Some e).
      { induction bins as [|[sz0 ks0] r IH]; intros i ps0 bs0 ps1 bs1 e0 HR HE; simpl in HR.
        - inversion HR; subst; auto.
        - eapply IH; [exact HR|]. rewrite alookup_app, HE. reflexivity. }
      exists (mkBucket size true ks). split; auto.
      eapply Hkeep; [exact ER|]. simpl. reflexivity. }
    destruct (Hd bs (Z.max 0 (Z.of_nat (length B) - 1)) ps) as [F|F]; [exact F|contradiction].
Qed.

(* ------------------------------------------------------------------ flush is a well-formed commit *)
Lemma flush_generation_fresh s : last_saved s <= version s ->
                                 negb (has_dirty s) && negb (has_pending s) = false ->
                                 last_saved s < version (pre_flush s) /\ version s <= version (pre_flush s).
Proof.
  unfold pre_flush, has_pending. intros LS H.
  destruct (has_dirty s); destruct (Z.ltb (last_saved s) (version s)) eqn:EP; unfold bump_version, set_version; simpl in *; try discriminate;
    try (apply Z.ltb_lt in EP); try (apply Z.ltb_ge in EP); lia.
Qed.

Lemma new_manifest_lookup (dirty : list bid) (gen : Z) (committed : list (bid * Z)) ids :
  NoDup ids ->
  let mf := flat_map (fun id => if memz id dirty then [(id, gen)]
                                else match alookup id committed with Some g => [(id, g)] | None => [] end) ids in
  NoDup (map fst mf) /\
  (forall b g, In (b, g) mf -> In b ids /\ (g = gen \/ In (b, g) committed)).
Proof.
  induction ids as [|a r IH]; intros ND; simpl.
  - split; [constructor|tauto].
  - inversion ND; subst. destruct (IH H2) as [ND' IN']. clear IH.
    assert (Hr : forall b g, In (b, g) (flat_map (fun id => if memz id dirty then [(id, gen)]
                 else match alookup id committed with Some g => [(id, g)] | None => [] end) r) -> In b r).
    { intros b g Hin. apply (IN' b g Hin). }
    set (hd := if memz a dirty then [(a, gen)] else match alookup a committed with Some g => [(a, g)] | None => [] end).
    assert (Hhd : forall b g, In (b, g) hd -> b = a /\ (g = gen \/ In (b, g) committed)).
    { unfold hd. intros b g. destruct (memz a dirty).
      - intros [E|[]]. inversion E; auto.
      - destruct (alookup a committed) as [g0|] eqn:EA; [|intros []].
        intros [E|[]]. inversion E; subst. split; auto. right. apply alookup_In; auto. }
    split.
    + rewrite map_app. apply NoDup_app_intro; auto.
      * unfold hd. destruct (memz a dirty); simpl; [constructor; [intros []|constructor]|].
        destruct (alookup a committed); simpl; constructor; [intros []|constructor].
      * intros x Hx1 Hx2. apply in_map_iff in Hx1. destruct Hx1 as ([b g] & <- & Hb).
        apply in_map_iff in Hx2. destruct Hx2 as ([b2 g2] & Eq & Hb2). simpl in Eq. subst b2.
        destruct (Hhd b g Hb) as [-> _]. apply H1. eapply Hr; eauto.
    + intros b g Hin. apply in_app_iff in Hin. destruct Hin as [Hin|Hin].
      * destruct (Hhd b g Hin) as [-> Hg]. split; auto.
      * destruct (IN' b g Hin). split; auto.
Qed.

Lemma list_empty_or_in {A} (l : list A) : l = [] \/ exists x, In x l.
Proof. destruct l as [|x r]; [left; auto|right; exists x; left; auto]. Qed.

Lemma In_keys_alookup {V} b (l : list (Z * V)) : In b (map fst l) -> exists v, alookup b l = Some v.
Proof.
  induction l as [|[k v] r IH]; simpl; [tauto|].
  intros [H|H].
  - subst. rewrite Z.eqb_refl. eauto.
  - destruct (Z.eqb k b); eauto.
Qed.

Lemma alookup_map_val {V W} (f : V -> W) b (l : list (Z * V)) :
  alookup b (map (fun x => (fst x, f (snd x))) l) = option_map f (alookup b l).
Proof.
  induction l as [|[k v] r IH]; simpl; auto. destruct (Z.eqb k b); auto.
Qed.

Lemma pre_flush_fields s :
  manifest (pre_flush s) = manifest s /\ buckets (pre_flush s) = buckets s /\
  last_saved (pre_flush s) = last_saved s /\ postings (pre_flush s) = postings s /\
  btree (pre_flush s) = btree s /\ max_bid (pre_flush s) = max_bid s.
Proof. unfold pre_flush. destruct (has_dirty s && negb (has_pending s)); simpl; auto 10. Qed.

Lemma load_objects_nonempty mf maxb : mf <> [] -> load_objects mf maxb = mf.
Proof. destruct mf; [congruence|reflexivity]. Qed.

(* The model's flush (bucket writes at generation = version, the metadata commit, the caller's
   deletes of FlushOutcome::obsolete) is a well-formed commit with respect to any store that
   satisfies the flush precondition, and re-establishes the precondition. *)
Theorem flush_is_wf_commit s st fo :
  FlushPre s st -> flush s = Some fo ->
  (exists m', WellFormedCommit path_eq_dec PMeta meta_refs st (f_steps fo) m') /\
  FlushPre (f_state fo) (bapply st (f_steps fo)).
Proof.
  intros [M G S V N Cv]. unfold flush.
  destruct (negb (has_dirty s) && negb (has_pending s)) eqn:EN; [discriminate|].
  destruct (flush_generation_fresh s (proj2 S) EN) as [Hfresh Hver].
  destruct (pre_flush_fields s) as (Fm & Fb & Fl & Fp & Ft & Fx).
  set (s1 := pre_flush s) in *.
  set (gen := version s1) in *.
  set (dirty := dirty_ids s1).
  set (ids := sort_dedup (map fst (buckets s1))).
  set (mf := flat_map (fun id => if memz id dirty then [(id, gen)]
                                 else match alookup id (manifest s1) with Some g => [(id, g)] | None => [] end) ids).
  assert (NDids : NoDup ids) by (apply ssorted_NoDup, sort_dedup_sorted).
  destruct (new_manifest_lookup dirty gen (manifest s1) ids NDids) as [NDmf INmf]. fold mf in NDmf, INmf.
  intros H; inversion H; subst fo; clear H. simpl f_steps. simpl f_state.
  set (writes := map (fun b => Put (PBucket b gen) (OBucket (owned s1 b (bkeys (get_bucket b (buckets s1)))))) dirty).
  set (obsolete := filter (fun x => match alookup (fst x) mf with
                                    | Some g => negb (Z.eqb g (snd x)) | None => true end) (manifest s1)).
  set (dels := map (fun x => @Del path obj (PBucket (fst x) (snd x))) obsolete).
  set (newmeta := OMeta mf (max_bid s1) (version s1)).
  (* the new manifest is non-empty whenever something was committed *)
  assert (MFne : manifest s <> [] -> mf <> []).
  { intros Hne. destruct Cv as [Cv|(b0 & e0 & E0 & H0)]; [congruence|].
    assert (Hb0 : In b0 ids).
    { unfold ids. apply sort_dedup_In. rewrite Fb.
      exact (in_map fst _ _ (alookup_In _ _ _ E0)). }
    assert (Hel : exists g, In (b0, g) mf).
    { unfold mf. destruct (memz b0 dirty) eqn:ED.
      - exists gen. apply in_flat_map. exists b0. split; auto. rewrite ED. left; auto.
      - destruct H0 as [H0|H0].
        + exfalso. apply memz_false in ED. apply ED. unfold dirty, dirty_ids. apply sort_dedup_In.
          rewrite Fb. apply in_map_iff. exists (b0, e0). split; auto. apply filter_In. split; [apply alookup_In; auto|auto].
        + rewrite <- Fm in H0. destruct (alookup b0 (manifest s1)) as [g0|] eqn:EG; [|congruence].
          exists g0. apply in_flat_map. exists b0. split; auto. rewrite ED, EG. left; auto. }
    destruct Hel as [g Hg]. intro E. rewrite E in Hg. exact Hg. }
  split.
  - exists newmeta, writes, dels. split; [reflexivity|]. split.
    + (* payload writes are fresh *)
      apply Forall_forall. intros x Hx. unfold writes in Hx. apply in_map_iff in Hx. destruct Hx as (b & <- & Hb).
      split; [simpl; discriminate|]. simpl touched. unfold reach.
      destruct (bget st PMeta) as [[mf0 mb0 v0|ps0]|] eqn:EM; [|contradiction|intros []].
      subst mf0. simpl meta_refs. intros Hin. apply in_map_iff in Hin. destruct Hin as ([b' g'] & Ep & Hin).
      simpl in Ep. inversion Ep; subst b' g'. clear Ep.
      destruct (manifest s) as [|m0 mr] eqn:EMf.
      * unfold load_objects in Hin. apply in_map_iff in Hin. destruct Hin as (b'' & Eq & _). inversion Eq. lia.
      * rewrite load_objects_nonempty in Hin by discriminate. apply G in Hin. lia.
    + (* deletes only touch what the new manifest does not reference *)
      apply Forall_forall. intros x Hx. unfold dels in Hx. apply in_map_iff in Hx. destruct Hx as ([b g] & <- & Hb).
      split; [simpl; discriminate|]. simpl touched. simpl meta_refs.
      unfold obsolete in Hb. apply filter_In in Hb. destruct Hb as [Hc Hcond]. simpl in Hcond.
      assert (mf <> []).
      { apply MFne. rewrite <- Fm. intro E. rewrite E in Hc. exact Hc. }
      rewrite load_objects_nonempty by auto.
      intros Hin. apply in_map_iff in Hin. destruct Hin as ([b' g'] & Ep & Hin). simpl in Ep. inversion Ep; subst b' g'.
      rewrite (In_alookup_nodup b g mf NDmf Hin) in Hcond. rewrite Z.eqb_refl in Hcond. discriminate.
  - (* the precondition holds again *)
    constructor; simpl.
    + fold writes dels newmeta.
      rewrite apply_app, apply_cons. simpl apply_step.
      rewrite get_apply_untouched.
      * rewrite get_put_same. reflexivity.
      * intros x Hx. unfold dels in Hx. apply in_map_iff in Hx. destruct Hx as (y & <- & _). simpl. discriminate.
    + intros b g Hin. apply INmf in Hin. destruct Hin as [_ [->|Hin]]; [lia|].
      rewrite Fm in Hin. apply G in Hin. rewrite Fl. lia.
    + rewrite Fl. fold gen. lia.
    + fold gen. lia.
    + exact NDmf.
    + destruct (list_empty_or_in mf) as [EMF|[[b g] Hin]]; [left; exact EMF|right].
      destruct (INmf b g Hin) as [Hb _]. unfold ids in Hb. apply (proj1 (sort_dedup_In _ _)) in Hb.
      destruct (In_keys_alookup b _ Hb) as [e E].
      exists b, (mkBucket (bsize e) false (bkeys e)). split.
      * rewrite (alookup_map_val (fun e => mkBucket (bsize e) false (bkeys e))). rewrite E. reflexivity.
      * right. apply (In_alookup_some b g). exact Hin.
Qed.

(* crash anywhere inside the flush of a state satisfying the precondition: the loader sees the
   previous committed state or exactly what this flush commits *)
Theorem flush_crash_atomic sz s st fo :
  FlushPre s st -> flush s = Some fo ->
  forall k, load sz (bcrash k (f_steps fo) st) = load sz st \/
            load sz (bcrash k (f_steps fo) st) = load sz (bapply st (f_steps fo)).
Proof.
  intros FP HF k. destruct (flush_is_wf_commit s st fo FP HF) as [[m' W] _].
  destruct (commit_point_atomic W k) as [E|E];
    [left|right]; apply load_factors_through_read; exact E.
Qed.
