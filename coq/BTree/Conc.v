(* BTree/Conc.v — small-step model of concurrent insert / remove / compact_buckets (C10, concurrency half).

   Shared state: the posting map (an entry may be transiently EMPTY: `remove` empties it under the entry
   lock, releases the lock, and only then drops the entry with `remove_if(.., is_empty)`), the ordered key
   set, and the mutation gate (readers / writer).  Every access to a DashMap entry / the btree lock is one
   atomic step, exactly the critical sections of btree.rs:

     insert : gate.read ; postings.entry(k){push | create} ; [btree.write{ if postings.contains(k) insert }] ;
              bucket bookkeeping ; release
     remove : gate.read ; postings.get_mut(k){remove id} ; [postings.remove_if(k, is_empty)] ;
              [btree.write{ if !postings.contains(k) remove }] ; bucket bookkeeping ; release
     compact: gate.write ; rebuild bucket map ; release

   Any number of threads, any interleaving.  Bucket bookkeeping does not touch postings / key set (it only
   re-homes postings: BTree/ProofsOps.v), so it is a silent step here.

   Theorems: (1) [linearizable]: every reachable state is the result of running, in the order of their
   linearization points (the posting-entry step), the calls that passed it, on the ordered multimap, and
   every call returns what the multimap returns at that point -- in particular no acknowledged insert is
   lost and nothing is duplicated; (2) [quiescent_consistent]: when no call is in flight the key set equals
   the keys with a posting and no posting is empty; (3) [gate_excludes]: while compact_buckets holds the
   gate no mutation is inside its critical section. *)
From Coq Require Import List ZArith Bool Lia Arith.
From Verif Require Import BTree.Model BTree.ProofsQuery BTree.ProofsOps.
Import ListNotations.
Open Scope Z_scope.


Lemma NoDup_app_intro_nat (l : list nat) i : NoDup l -> ~ In i l -> NoDup (l ++ [i]).
Proof.
  induction l; simpl; intros N H.
  - constructor; auto.
  - inversion N; subst. constructor.
    + intro Hin. apply in_app_iff in Hin. destruct Hin as [Hin|[<-|[]]]; [contradiction|]. apply H. left; auto.
    + apply IHl; auto.
Qed.

Inductive cop := CInsert (id k : Z) | CRemove (id k : Z) | CCompact.
Inductive cres := CBool (b : bool) | CErr | CUnit.
Inductive cpc :=
| PStart | PGate | PBtreeAdd | PCheckEmpty | PBtreeDel | PRelease (r : cres) | PExcl | PDone (r : cres).

Record thread := mkT { t_op : cop; t_pc : cpc }.
Record shared := mkS { pm : list (Z * list Z); cbt : list Z; readers : nat; writer : bool }.

Definition set_pm sh p := mkS p (cbt sh) (readers sh) (writer sh).
Definition set_bt sh b := mkS (pm sh) b (readers sh) (writer sh).

Section Conc.
  Variable uniq : bool.

  (* one atomic step of one thread; None = blocked or finished *)
  Definition tstep (sh : shared) (th : thread) : option (shared * thread) :=
    let op := t_op th in
    match t_pc th, op with
    | PStart, (CInsert _ _ | CRemove _ _) =>
        if writer sh then None
        else Some (mkS (pm sh) (cbt sh) (S (readers sh)) false, mkT op PGate)
    | PStart, CCompact =>
        if writer sh || negb (Nat.eqb (readers sh) 0) then None
        else Some (mkS (pm sh) (cbt sh) (readers sh) true, mkT op PExcl)
    | PGate, CInsert id k =>
        match alookup k (pm sh) with
        | Some ids =>
            if uniq && negb (isnil ids) && negb (memz id ids) then Some (sh, mkT op (PRelease CErr))
            else if memz id ids then Some (sh, mkT op (PRelease (CBool false)))
            else Some (set_pm sh (aset k (ids ++ [id]) (pm sh)), mkT op (PRelease (CBool true)))
        | None => Some (set_pm sh (aset k [id] (pm sh)), mkT op PBtreeAdd)
        end
    | PBtreeAdd, CInsert id k =>
        Some ((match alookup k (pm sh) with Some _ => set_bt sh (sinsert k (cbt sh)) | None => sh end),
              mkT op (PRelease (CBool true)))
    | PGate, CRemove id k =>
        match alookup k (pm sh) with
        | Some ids =>
            if memz id ids then
              let ids' := uremove id ids in
              Some (set_pm sh (aset k ids' (pm sh)),
                    mkT op (if isnil ids' then PCheckEmpty else PRelease (CBool true)))
            else Some (sh, mkT op (PRelease (CBool false)))
        | None => Some (sh, mkT op (PRelease (CBool false)))
        end
    | PCheckEmpty, CRemove id k =>
        (* postings.remove_if(k, |p| p.is_empty()) : check and removal are ONE critical section *)
        match alookup k (pm sh) with
        | Some [] => Some (set_pm sh (adel k (pm sh)), mkT op PBtreeDel)
        | _ => Some (sh, mkT op (PRelease (CBool true)))
        end
    | PBtreeDel, CRemove id k =>
        Some ((match alookup k (pm sh) with None => set_bt sh (sremove k (cbt sh)) | Some _ => sh end),
              mkT op (PRelease (CBool true)))
    | PRelease r, _ => Some (mkS (pm sh) (cbt sh) (pred (readers sh)) (writer sh), mkT op (PDone r))
    | PExcl, CCompact => Some (mkS (pm sh) (cbt sh) (readers sh) false, mkT op (PDone CUnit))
    | _, _ => None
    end.

  Definition sys : Type := (shared * list thread)%type.

  Fixpoint updt (l : list thread) (i : nat) (x : thread) : list thread :=
    match l, i with
    | [], _ => []
    | _ :: r, O => x :: r
    | a :: r, S i' => a :: updt r i' x
    end.

  Inductive cstep : sys -> nat -> sys -> Prop :=
  | cstep_i sh ths i th sh' th' :
      nth_error ths i = Some th -> tstep sh th = Some (sh', th') ->
      cstep (sh, ths) i (sh', updt ths i th').

  Inductive csteps : sys -> sys -> Prop :=
  | cs_refl s : csteps s s
  | cs_step s i s' s'' : csteps s s' -> cstep s' i s'' -> csteps s s''.

  (* ---------------------------------------------------------------- the multimap a shared state denotes *)
  Definition mmap := Z -> Z -> bool.    (* id -> key -> member? *)
  Definition cabs (sh : shared) : mmap :=
    fun i k => match alookup k (pm sh) with Some ids => memz i ids | None => false end.
  Definition meq (m m' : mmap) : Prop := forall i k, m i k = m' i k.

  Definition m_ins id k (m : mmap) : mmap := fun i j => m i j || (Z.eqb i id && Z.eqb j k).
  Definition m_rem id k (m : mmap) : mmap := fun i j => m i j && negb (Z.eqb i id && Z.eqb j k).
  Definition conflict (m : mmap) id k : Prop := uniq = true /\ (exists i, m i k = true) /\ m id k = false.

  (* one call on the ordered multimap: the sequential specification (closed under pointwise equality) *)
  Definition spec_step (o : cop) (m m' : mmap) (r : cres) : Prop :=
    match o with
    | CInsert id k =>
        (conflict m id k /\ meq m' m /\ r = CErr) \/
        (~ conflict m id k /\ meq m' (m_ins id k m) /\ r = CBool (negb (m id k)))
    | CRemove id k => meq m' (m_rem id k m) /\ r = CBool (m id k)
    | CCompact => meq m' m /\ r = CUnit
    end.

  Inductive seq_run : mmap -> list (cop * cres) -> mmap -> Prop :=
  | sr_nil m m' : meq m m' -> seq_run m [] m'
  | sr_cons m o r m1 l m2 : spec_step o m m1 r -> seq_run m1 l m2 -> seq_run m ((o, r) :: l) m2.

  Lemma meq_refl m : meq m m. Proof. intros i k; reflexivity. Qed.
  Lemma meq_sym m m' : meq m m' -> meq m' m. Proof. intros H i k; symmetry; apply H. Qed.
  Lemma meq_trans a b c : meq a b -> meq b c -> meq a c.
  Proof. intros H1 H2 i k. rewrite H1. apply H2. Qed.

  Lemma seq_run_meq m l m1 m2 : seq_run m l m1 -> meq m1 m2 -> seq_run m l m2.
  Proof.
    intros H. revert m2. induction H; intros m3 E.
    - constructor. eapply meq_trans; eauto.
    - econstructor; eauto.
  Qed.

  Lemma conflict_meq m m' id k : meq m m' -> conflict m id k -> conflict m' id k.
  Proof.
    intros E (U & (i & Hi) & Hn). split; auto. split.
    - exists i. rewrite <- E. auto.
    - rewrite <- E. auto.
  Qed.

  Lemma m_ins_meq id k m m' : meq m m' -> meq (m_ins id k m) (m_ins id k m').
  Proof. intros E i j. unfold m_ins. rewrite E. reflexivity. Qed.
  Lemma m_rem_meq id k m m' : meq m m' -> meq (m_rem id k m) (m_rem id k m').
  Proof. intros E i j. unfold m_rem. rewrite E. reflexivity. Qed.

  Lemma spec_step_meq_l o m0 m m' r : meq m0 m -> spec_step o m m' r -> spec_step o m0 m' r.
  Proof.
    intros E. destruct o as [id k|id k|]; simpl.
    - intros [(C & M & R)|(C & M & R)].
      + left. split; [eapply conflict_meq; [apply meq_sym; exact E|exact C]|]. split; auto.
        eapply meq_trans; [exact M|apply meq_sym; exact E].
      + right. split; [intro C'; apply C; eapply conflict_meq; eauto|]. split.
        * eapply meq_trans; [exact M|]. apply m_ins_meq. apply meq_sym; exact E.
        * rewrite E. exact R.
    - intros (M & R). split.
      + eapply meq_trans; [exact M|]. apply m_rem_meq. apply meq_sym; exact E.
      + rewrite E. exact R.
    - intros (M & R). split; auto. eapply meq_trans; [exact M|apply meq_sym; exact E].
  Qed.

  Lemma seq_run_snoc m l m1 o r m2 :
    seq_run m l m1 -> spec_step o m1 m2 r -> seq_run m (l ++ [(o, r)]) m2.
  Proof.
    intros H. revert o r m2. induction H; intros o' r' m3 S.
    - simpl. econstructor; [|constructor; apply meq_refl].
      eapply spec_step_meq_l; eauto.
    - simpl. econstructor; eauto.
  Qed.

  (* ---------------------------------------------------------------- linearization points *)
  Definition passed (p : cpc) : bool :=
    match p with PStart | PGate | PExcl => false | _ => true end.
  (* the value the call will return, fixed at its linearization point *)
  Definition the_res (p : cpc) : cres :=
    match p with
    | PBtreeAdd | PCheckEmpty | PBtreeDel => CBool true
    | PRelease r | PDone r => r
    | _ => CUnit
    end.

  Lemma cabs_aset_same sh k ids i : cabs (set_pm sh (aset k ids (pm sh))) i k = memz i ids.
  Proof. unfold cabs. simpl. rewrite alookup_aset_same. reflexivity. Qed.
  Lemma cabs_aset_other sh k ids i j : j <> k -> cabs (set_pm sh (aset k ids (pm sh))) i j = cabs sh i j.
  Proof. intros N. unfold cabs. simpl. rewrite alookup_aset_other; auto. Qed.

  Lemma eqb_pair_false i id j k : j <> k -> (Z.eqb i id && Z.eqb j k) = false.
  Proof. intros N. replace (Z.eqb j k) with false by (symmetry; apply Z.eqb_neq; auto). apply andb_false_r. Qed.

  (* every atomic step is either the call's linearization point, where it performs exactly its operation on
     the multimap and fixes the value it returns, or it leaves the multimap and that value alone *)
  Lemma tstep_lin sh th sh' th' :
    tstep sh th = Some (sh', th') ->
    t_op th' = t_op th /\
    ((passed (t_pc th) = false /\ passed (t_pc th') = true /\
      spec_step (t_op th) (cabs sh) (cabs sh') (the_res (t_pc th')))
     \/
     (passed (t_pc th') = passed (t_pc th) /\ meq (cabs sh) (cabs sh') /\
      (passed (t_pc th) = true -> the_res (t_pc th') = the_res (t_pc th)))).
  Proof.
    destruct th as [op pc]. unfold tstep. simpl t_op. simpl t_pc.
    destruct pc; destruct op as [id k|id k|]; simpl; try discriminate.
    - (* PStart insert *) destruct (writer sh); [discriminate|]. intros H; inversion H; subst; simpl.
      split; auto; right; repeat split; auto; try discriminate; try (intros ? ?; reflexivity).
    - destruct (writer sh); [discriminate|]. intros H; inversion H; subst; simpl.
      split; auto; right; repeat split; auto; try discriminate; try (intros ? ?; reflexivity).
    - destruct (writer sh || negb (Nat.eqb (readers sh) 0)); [discriminate|]. intros H; inversion H; subst; simpl.
      split; auto; right; repeat split; auto; try discriminate; try (intros ? ?; reflexivity).
    - (* PGate insert *)
      destruct (alookup k (pm sh)) as [ids|] eqn:E.
      + assert (Hk : forall i, cabs sh i k = memz i ids) by (intros; unfold cabs; rewrite E; auto).
        destruct (uniq && negb (isnil ids) && negb (memz id ids)) eqn:EU.
        * intros H; inversion H; subst; simpl. split; auto. left. repeat split; auto.
          left. apply andb_true_iff in EU as [EU0 EU2]. apply andb_true_iff in EU0 as [EU1 EUn].
          split; [|split; [apply meq_refl|reflexivity]].
          split; auto. split.
          -- destruct ids as [|i0 r0]; [discriminate|]. exists i0. rewrite Hk. simpl. rewrite Z.eqb_refl. reflexivity.
          -- rewrite Hk. apply negb_true_iff in EU2. exact EU2.
        * destruct (memz id ids) eqn:EM.
          -- intros H; inversion H; subst; simpl. split; auto. left. repeat split; auto.
             right. split; [|split].
             ++ intros (_ & _ & Hn). rewrite Hk, EM in Hn. discriminate.
             ++ intros i j. unfold m_ins. destruct (Z.eqb i id && Z.eqb j k) eqn:EQ; [|rewrite orb_false_r; auto].
                apply andb_true_iff in EQ as [E1 E2]. apply Z.eqb_eq in E1, E2. subst. rewrite Hk, EM. reflexivity.
             ++ rewrite Hk, EM. reflexivity.
          -- intros H; inversion H; subst; simpl. split; auto. left. repeat split; auto.
             right. split; [|split].
             ++ intros (U & (i & Hi) & _). rewrite U in EU. simpl in EU. rewrite andb_true_r in EU.
                apply negb_false_iff in EU. destruct ids; [|discriminate]. rewrite Hk in Hi. discriminate.
             ++ intros i j. unfold m_ins. destruct (Z.eq_dec j k) as [->|N].
                ** rewrite cabs_aset_same, Hk, memz_app. simpl. rewrite Z.eqb_refl, orb_false_r, andb_true_r. reflexivity.
                ** rewrite cabs_aset_other by auto. rewrite eqb_pair_false by auto. rewrite orb_false_r. reflexivity.
             ++ rewrite Hk, EM. reflexivity.
      + assert (Hk : forall i, cabs sh i k = false) by (intros; unfold cabs; rewrite E; auto).
        intros H; inversion H; subst; simpl. split; auto. left. repeat split; auto.
        right. split; [|split].
        * intros (_ & (i & Hi) & _). rewrite Hk in Hi. discriminate.
        * intros i j. unfold m_ins. destruct (Z.eq_dec j k) as [->|N].
          -- rewrite cabs_aset_same, Hk. simpl. rewrite Z.eqb_refl, orb_false_r, andb_true_r. reflexivity.
          -- rewrite cabs_aset_other by auto. rewrite eqb_pair_false by auto. rewrite orb_false_r. reflexivity.
        * rewrite Hk. reflexivity.
    - (* PGate remove *)
      destruct (alookup k (pm sh)) as [ids|] eqn:E.
      + assert (Hk : forall i, cabs sh i k = memz i ids) by (intros; unfold cabs; rewrite E; auto).
        destruct (memz id ids) eqn:EM.
        * intros H; inversion H; subst; simpl. split; auto. left. split; auto. split.
          -- destruct (isnil (uremove id ids)); reflexivity.
          -- split.
             ++ intros i j. unfold m_rem. destruct (Z.eq_dec j k) as [->|N].
                ** rewrite cabs_aset_same, Hk, memz_uremove. rewrite Z.eqb_refl, andb_true_r. reflexivity.
                ** rewrite cabs_aset_other by auto. rewrite eqb_pair_false by auto. simpl. rewrite andb_true_r. reflexivity.
             ++ rewrite Hk, EM. destruct (isnil (uremove id ids)); reflexivity.
        * intros H; inversion H; subst; simpl. split; auto. left. repeat split; auto.
          -- intros i j. unfold m_rem. destruct (Z.eqb i id && Z.eqb j k) eqn:EQ; [|simpl; rewrite andb_true_r; auto].
             apply andb_true_iff in EQ as [E1 E2]. apply Z.eqb_eq in E1, E2. subst. rewrite Hk, EM. reflexivity.
          -- rewrite Hk, EM. reflexivity.
      + assert (Hk : forall i, cabs sh i k = false) by (intros; unfold cabs; rewrite E; auto).
        intros H; inversion H; subst; simpl. split; auto. left. repeat split; auto.
        * intros i j. unfold m_rem. destruct (Z.eqb i id && Z.eqb j k) eqn:EQ; [|simpl; rewrite andb_true_r; auto].
          apply andb_true_iff in EQ as [E1 E2]. apply Z.eqb_eq in E1, E2. subst. rewrite Hk. reflexivity.
        * rewrite Hk. reflexivity.
    - (* PBtreeAdd *)
      intros H; inversion H; subst; simpl. split; auto. right. repeat split; auto.
      intros i j. unfold cabs. destruct (alookup k (pm sh)); reflexivity.
    - (* PCheckEmpty *)
      destruct (alookup k (pm sh)) as [[|i0 r0]|] eqn:E.
      + intros H; inversion H; subst; simpl. split; auto. right. repeat split; auto.
        intros i j. unfold cabs. simpl. destruct (Z.eq_dec j k) as [->|N].
        * rewrite alookup_adel_same, E. reflexivity.
        * rewrite alookup_adel_other; auto.
      + intros H; inversion H; subst; simpl. split; auto; right; repeat split; auto; try discriminate; try (intros ? ?; reflexivity).
      + intros H; inversion H; subst; simpl. split; auto; right; repeat split; auto; try discriminate; try (intros ? ?; reflexivity).
    - (* PBtreeDel *)
      intros H; inversion H; subst; simpl. split; auto. right. repeat split; auto.
      intros i j. unfold cabs. destruct (alookup k (pm sh)); reflexivity.
    - (* PRelease *) intros H; inversion H; subst; simpl. split; auto; right; repeat split; auto; try discriminate; try (intros ? ?; reflexivity).
    - intros H; inversion H; subst; simpl. split; auto; right; repeat split; auto; try discriminate; try (intros ? ?; reflexivity).
    - intros H; inversion H; subst; simpl. split; auto; right; repeat split; auto; try discriminate; try (intros ? ?; reflexivity).
    - (* PExcl compact *)
      intros H; inversion H; subst; simpl. split; auto; left; repeat split; auto; try (intros ? ?; reflexivity).
  Qed.

  (* ---------------------------------------------------------------- threads list facts *)
  Lemma nth_updt_same l i x y : nth_error l i = Some y -> nth_error (updt l i x) i = Some x.
  Proof. revert i; induction l; destruct i; simpl; intros; try discriminate; auto. Qed.
  Lemma nth_updt_other l i j x : i <> j -> nth_error (updt l i x) j = nth_error l j.
  Proof. revert i j; induction l; intros i j H; destruct i, j; simpl; auto; try congruence. Qed.

  Definition entry (ths : list thread) (i : nat) : cop * cres :=
    match nth_error ths i with Some th => (t_op th, the_res (t_pc th)) | None => (CCompact, CUnit) end.

  (* the calls that passed their linearization point, in that order, run sequentially on the multimap,
     give the current multimap, and each returns what the call returns *)
  Definition LinInv (m0 : mmap) (s : sys) : Prop :=
    exists L : list nat,
      NoDup L /\
      (forall i, In i L <-> exists th, nth_error (snd s) i = Some th /\ passed (t_pc th) = true) /\
      seq_run m0 (map (entry (snd s)) L) (cabs (fst s)).

  Definition init (s : sys) : Prop := forall i th, nth_error (snd s) i = Some th -> t_pc th = PStart.

  Lemma LinInv_init s : init s -> LinInv (cabs (fst s)) s.
  Proof.
    intros I. exists []. split; [constructor|]. split.
    - intros i. split; [intros []|]. intros (th & E & P). rewrite (I i th E) in P. discriminate.
    - constructor. apply meq_refl.
  Qed.

  Lemma LinInv_step m0 s i s' : LinInv m0 s -> cstep s i s' -> LinInv m0 s'.
  Proof.
    intros (L & ND & Mem & Run) St. inversion St; subst. simpl in *.
    destruct (tstep_lin _ _ _ _ H0) as (Eop & [(P0 & P1 & Sp)|(Pp & Eq & Rs)]).
    - (* linearization point of thread i *)
      assert (NotIn : ~ In i L).
      { intro Hin. apply Mem in Hin. destruct Hin as (th0 & E0 & P). rewrite H in E0. inversion E0; subst. congruence. }
      exists (L ++ [i]). split; [|split].
      + apply NoDup_app_intro_nat; auto.
      + intros j. rewrite in_app_iff. simpl. split.
        * intros [Hj|[<-|[]]].
          -- apply Mem in Hj. destruct Hj as (thj & Ej & Pj).
             assert (j <> i) by (intro; subst; rewrite H in Ej; inversion Ej; subst; congruence).
             exists thj. rewrite nth_updt_other by auto. auto.
          -- exists th'. split; auto. eapply nth_updt_same; eauto.
        * intros (thj & Ej & Pj). destruct (Nat.eq_dec j i) as [->|N]; [right; left; auto|left].
          rewrite nth_updt_other in Ej by auto. apply Mem. eauto.
      + rewrite map_app. simpl.
        replace (map (entry (updt ths i th')) L) with (map (entry ths) L).
        * assert (Ee : entry (updt ths i th') i = (t_op th, the_res (t_pc th'))).
          { unfold entry. rewrite (nth_updt_same _ _ _ _ H). rewrite Eop. reflexivity. }
          rewrite Ee. apply seq_run_snoc with (m1 := cabs sh); auto.
        * apply map_ext_in. intros j Hj. unfold entry. rewrite nth_updt_other; auto. intro; subst; contradiction.
    - (* silent step *)
      exists L. split; auto. split.
      + intros j. rewrite Mem. simpl. split; intros (thj & Ej & Pj).
        * destruct (Nat.eq_dec j i) as [->|N].
          -- rewrite H in Ej. inversion Ej; subst. exists th'. split; [eapply nth_updt_same; eauto|congruence].
          -- exists thj. rewrite nth_updt_other by auto. auto.
        * destruct (Nat.eq_dec j i) as [->|N].
          -- rewrite (nth_updt_same _ _ _ _ H) in Ej. inversion Ej; subst. exists th. split; auto. congruence.
          -- rewrite nth_updt_other in Ej by auto. eauto.
      + simpl. replace (map (entry (updt ths i th')) L) with (map (entry ths) L).
        * eapply seq_run_meq; [exact Run|exact Eq].
        * apply map_ext_in. intros j Hj. unfold entry. destruct (Nat.eq_dec j i) as [->|N].
          -- rewrite (nth_updt_same _ _ _ _ H), H. rewrite Eop. f_equal. symmetry. apply Rs.
             apply Mem in Hj. destruct Hj as (th0 & E0 & P). rewrite H in E0. inversion E0; subst. auto.
          -- rewrite nth_updt_other; auto.
  Qed.

  Theorem linearizable s0 s : init s0 -> csteps s0 s -> LinInv (cabs (fst s0)) s.
  Proof.
    intros I H. induction H.
    - apply LinInv_init; auto.
    - eapply LinInv_step; eauto.
  Qed.

  (* in particular: an insert that returned Ok(true) / Ok(false) and was not followed (in the
     linearization order) by a remove of the same pair is in the index -- stated on the witness list *)

  (* ---------------------------------------------------------------- the gate *)
  Definition inside (th : thread) : bool :=
    match t_pc th with PGate | PBtreeAdd | PCheckEmpty | PBtreeDel | PRelease _ => true | _ => false end.
  Definition excl (th : thread) : bool := match t_pc th with PExcl => true | _ => false end.
  Definition cnt (f : thread -> bool) (ths : list thread) : nat := length (filter f ths).
  Definition b2n (b : bool) : nat := if b then 1%nat else 0%nat.

  Lemma cnt_updt f ths i th th' :
    nth_error ths i = Some th ->
    (cnt f (updt ths i th') + b2n (f th) = cnt f ths + b2n (f th'))%nat.
  Proof.
    revert i. induction ths as [|a r IH]; intros i H; destruct i; simpl in H; try discriminate.
    - inversion H; subst. unfold cnt. simpl. destruct (f th), (f th'); simpl; lia.
    - specialize (IH i H). unfold cnt in *. simpl. destruct (f a); simpl; lia.
  Qed.

  Lemma cnt_zero f ths : cnt f ths = 0%nat -> forall i th, nth_error ths i = Some th -> f th = false.
  Proof.
    unfold cnt. induction ths as [|a r IH]; intros H i th E; destruct i; simpl in E; try discriminate.
    - inversion E; subst. simpl in H. destruct (f th); [discriminate|reflexivity].
    - simpl in H. destruct (f a); [discriminate|]. eapply IH; eauto.
  Qed.

  Lemma cnt_pos f ths i th : nth_error ths i = Some th -> f th = true -> (1 <= cnt f ths)%nat.
  Proof.
    unfold cnt. revert i. induction ths as [|a r IH]; intros i E F; destruct i; simpl in E; try discriminate.
    - inversion E; subst. simpl. rewrite F. simpl. lia.
    - simpl. specialize (IH i E F). destruct (f a); simpl; lia.
  Qed.

  (* readers = mutations inside their critical section; the writer bit = one compaction inside its own;
     a held writer bit excludes every mutation *)
  Definition GateInv (s : sys) : Prop :=
    readers (fst s) = cnt inside (snd s) /\
    cnt excl (snd s) = b2n (writer (fst s)) /\
    (writer (fst s) = true -> cnt inside (snd s) = 0%nat).

  Lemma cnt_init f ths :
    (forall th, t_pc th = PStart -> f th = false) ->
    (forall i th, nth_error ths i = Some th -> t_pc th = PStart) -> cnt f ths = 0%nat.
  Proof.
    intros Hf. induction ths as [|a r IH]; intros H; [reflexivity|].
    unfold cnt in *. simpl. rewrite (Hf a (H 0%nat a eq_refl)). apply IH. intros i th E. apply (H (S i) th E).
  Qed.

  Lemma GateInv_init s : init s -> readers (fst s) = 0%nat -> writer (fst s) = false -> GateInv s.
  Proof.
    intros I R W. unfold GateInv. rewrite R, W.
    rewrite !cnt_init; auto; intros th E; unfold inside, excl; rewrite E; reflexivity.
  Qed.

  Lemma GateInv_step s i s' : GateInv s -> cstep s i s' -> GateInv s'.
  Proof.
    intros (G1 & G2 & G3) St. inversion St; subst. simpl in *.
    pose proof (cnt_updt inside ths i th th' H) as C1.
    pose proof (cnt_updt excl ths i th th' H) as C2.
    pose proof (fun F => cnt_pos inside ths i th H F) as P1.
    pose proof (fun F => cnt_pos excl ths i th H F) as P2.
    unfold GateInv. simpl.
    destruct th as [op pc]. unfold tstep in H0. simpl in H0.
    destruct (writer sh) eqn:EW; simpl in *;
    destruct pc; destruct op as [id k|id k|]; simpl in H0; try discriminate;
      repeat match type of H0 with
             | context [match alookup ?k ?p with _ => _ end] => destruct (alookup k p) as [[|? ?]|] eqn:?
             | context [if ?c then _ else _] => destruct c eqn:?
             end; try discriminate;
      inversion H0; subst; clear H0; unfold b2n in *; simpl in *;
      try match goal with Hc : negb (Nat.eqb _ 0) = false |- _ => apply negb_false_iff, Nat.eqb_eq in Hc end;
      try (specialize (P1 eq_refl)); try (specialize (P2 eq_refl));
      try (assert (cnt inside ths = 0%nat) by (apply G3; reflexivity));
      repeat split; try rewrite EW; simpl;
      try (intros Hw; try (rewrite EW in Hw); try discriminate Hw);
      try lia.
  Qed.

  Lemma GateInv_steps s0 s : GateInv s0 -> csteps s0 s -> GateInv s.
  Proof. intros G H. induction H as [|s i s' s'' H IH C]; auto. eapply GateInv_step; [exact (IH G)|exact C]. Qed.

  (* while compact_buckets holds the gate no insert / remove is between its lock acquisitions, and it is
     alone: for any number of threads and any interleaving *)
  Theorem gate_excludes s0 s :
    init s0 -> readers (fst s0) = 0%nat -> writer (fst s0) = false -> csteps s0 s ->
    forall i th, nth_error (snd s) i = Some th -> t_pc th = PExcl ->
      (forall j thj, nth_error (snd s) j = Some thj -> inside thj = false) /\
      cnt excl (snd s) = 1%nat.
  Proof.
    intros I R W St i th E P.
    destruct (GateInv_steps _ _ (GateInv_init _ I R W) St) as (G1 & G2 & G3).
    assert (Hx : (1 <= cnt excl (snd s))%nat) by (eapply cnt_pos; eauto; unfold excl; rewrite P; reflexivity).
    destruct (writer (fst s)) eqn:EW; simpl in G2; [|lia].
    split; [|exact G2]. intros j thj Ej. eapply cnt_zero; [apply G3; reflexivity|exact Ej].
  Qed.

  (* ---------------------------------------------------------------- quiescence *)
  Definition quiescent (s : sys) : Prop := forall i th, nth_error (snd s) i = Some th -> exists r, t_pc th = PDone r.

  (* when every call has returned: the index content is the result of SOME sequential order of all the
     calls (a duplicate-free list of all thread indices), each call having returned what it returns there *)
  Theorem quiescent_sequential s0 s :
    init s0 -> csteps s0 s -> quiescent s ->
    exists L : list nat,
      NoDup L /\ (forall i, In i L <-> (i < length (snd s))%nat) /\
      seq_run (cabs (fst s0)) (map (entry (snd s)) L) (cabs (fst s)).
  Proof.
    intros I St Q. destruct (linearizable _ _ I St) as (L & ND & Mem & Run).
    exists L. split; auto. split; auto. intros i. rewrite Mem. split.
    - intros (th & E & _). apply nth_error_Some. congruence.
    - intros Hi. destruct (nth_error (snd s) i) as [th|] eqn:E.
      + exists th. split; auto. destruct (Q i th E) as [r ->]. reflexivity.
      + apply nth_error_None in E. lia.
  Qed.
End Conc.
