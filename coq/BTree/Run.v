(* BTree/Run.v — runners for the correspondence / monitor part of C10.
   [check_ops]     : an operation history (mutations, queries, flushes, crash+reload) replayed through
                     the model and compared with what the implementation answered;
   [check_flushlog]: Common/CommitPoint's [wf_commit] judging a recorded flush write log (monitor);
   [check_load]    : the model's loader on a captured object map (incl. crash prefixes, legacy layouts). *)
From Coq Require Import List ZArith Bool Lia.
From Verif Require Import Common.ObjStore Common.CommitPoint BTree.Model.
Import ListNotations.
Open Scope Z_scope.

(* ---- exact CBOR sizes for unsigned integers (the harness uses u64 keys and ids) *)
Definition cbor_uint (n : Z) : Z :=
  if n <? 24 then 1 else if n <? 256 then 2 else if n <? 65536 then 3 else if n <? 4294967296 then 5 else 9.
Definition cbor_hdr (len : Z) : Z := cbor_uint len.
Definition cbor_ids (ids : list Z) : Z :=
  cbor_hdr (Z.of_nat (length ids)) + fold_right (fun i a => cbor_uint i + a) 0 ids.
(* cbor((fv, (bucket, version, ids))) + 2 *)
Definition cbor_psz (k : key) (p : posting) : Z :=
  1 + cbor_uint k + 1 + cbor_uint (bid_of p) + cbor_uint (ver_of p) + cbor_ids (ids_of p) + 2.
Definition cbor_sizes : sizes := mkSizes (fun id => cbor_uint id + 2) cbor_psz.

(* ---- histories *)
Inductive op :=
| OInsert (id k : Z)
| ORemove (id k : Z)
| OInsertArray (id : Z) (ks : list Z)
| ORemoveArray (id : Z) (ks : list Z)
| OBatch (id : Z) (old new : list Z)
| OCompact
| OFlush
| OCrashReload (k nw : Z)        (* flush interrupted after k backend steps (nw = bucket writes attempted), then load_all *)
| OFlushFail (pos kind : Z)      (* kind 0: no write failed; 1: bucket write number [pos] failed; 2: the metadata write failed *)
| OQuery (desc : bool) (q : rq) (stop skipmod : Z)
| OKeys (cursor : option Z) (limit : option Z)
| OPoint (k : Z)
| OStats.

(* canonical dump of an object map: manifest, max_bucket_id, version, objects sorted by (bucket, generation),
   each posting as (key, version, sorted ids) sorted by key *)
Definition odump : Type := (list (Z * Z) * list (Z * Z * list (Z * Z * list Z)))%type.

Inductive ores :=
| RBool (b : bool)
| RErr
| RCount (n : Z)
| RPair (a b : Z)
| RCompact (a b : Z)
| RFlush (saved : bool) (content : list (Z * list Z)) (dump : odump)
| RReload (content : list (Z * list Z))
| RQuery (out : list (Z * Z)) (calls : Z)
| RKeys (l : list Z)
| RPoint (o : option (list Z))
| RStats (ver maxb : Z).

(* the harness's range-query callback: counts invocations, continues while fewer than [stop] keys have
   been visited, emits one (key, id) per id in ascending id order unless key mod skipmod = 0 *)
Definition cb (stop skipmod : Z) (k : key) (ids : list pk) (n : Z) : bool * list (Z * Z) * Z :=
  (n + 1 <? stop,
   if (0 <? skipmod) && (k mod skipmod =? 0) then [] else map (fun i => (k, i)) (sort_dedup ids),
   n + 1).

Definition content (s : state) : list (Z * list Z) :=
  map (fun k => (k, match query s k with Some ids => sort_dedup ids | None => [] end)) (btree s).

(* insertion sort of an assoc list by key (keys distinct) *)
Fixpoint ains {V} (x : Z * V) (l : list (Z * V)) : list (Z * V) :=
  match l with
  | [] => [x]
  | y :: r => if fst x <? fst y then x :: l else y :: ains x r
  end.
Definition asort {V} (l : list (Z * V)) : list (Z * V) := fold_right ains [] l.

Definition getb (st : bstore) := get path_eq_dec st.

Definition dump_store (st : bstore) : odump :=
  match getb st PMeta with
  | Some (OMeta mf maxb ver) =>
      (mf,
       flat_map (fun x => match getb st (PBucket (fst x) (snd x)) with
                          | Some (OBucket ps) =>
                              [(fst x, snd x, map (fun kp => (fst kp, fst (snd kp), sort_dedup (snd (snd kp)))) (asort ps))]
                          | _ => []
                          end) mf)
  | _ => ([], [])
  end.

Definition load_or_new (st : bstore) : state :=
  match load cbor_sizes st with Some s => s | None => new_state end.

Definition store_content (st : bstore) : list (Z * list Z) := content (load_or_new st).

Record rstate := mkR { r_state : state; r_store : bstore; r_exact : bool }.

Definition many (ks : list Z) : bool := match ks with _ :: _ :: _ => true | _ => false end.

Definition run_op (cfg : config) (r : rstate) (o : op) : ores * rstate :=
  let s := r_state r in
  let st := r_store r in
  let ex := r_exact r in
  match o with
  | OInsert id k =>
      let '(res, s') := insert cfg cbor_sizes s id k in
      (match res with Ok b => RBool b | Err _ => RErr end, mkR s' st ex)
  | ORemove id k =>
      let '(b, s') := remove cbor_sizes s id k in (RBool b, mkR s' st ex)
  | OInsertArray id ks =>
      let '(res, s') := insert_array cfg cbor_sizes s id ks in
      (match res with Ok n => RCount n | Err _ => RErr end, mkR s' st (ex && negb (many ks)))
  | ORemoveArray id ks =>
      let '(n, s') := remove_array cbor_sizes s id ks in (RCount n, mkR s' st (ex && negb (many ks)))
  | OBatch id old new =>
      let '(res, s') := batch_update cfg cbor_sizes s id old new in
      (match res with Ok (a, b) => RPair a b | Err _ => RErr end, mkR s' st false)
  | OCompact =>
      let '((a, b), s') := compact cfg cbor_sizes s in (RCompact a b, mkR s' st false)
  | OFlush =>
      match flush s with
      | None => (RFlush false (store_content st) (dump_store st), r)
      | Some fo =>
          let st' := apply path_eq_dec st (f_steps fo) in
          (RFlush true (store_content st') (dump_store st'), mkR (f_state fo) st' ex)
      end
  | OCrashReload k nw =>
      let st' :=
          match flush s with
          | None => st
          | Some fo =>
              let nw' := Z.of_nat (length (dirty_ids (pre_flush s))) in
              let k' := if k <=? nw then Z.min k nw' else nw' + (k - nw) in
              crash path_eq_dec (Z.to_nat k') (f_steps fo) st
          end in
      let s' := load_or_new st' in
      (RReload (content s'), mkR s' st' false)
  | OFlushFail pos kind =>
      match flush s with
      | None => (RFlush false (store_content st) (dump_store st), r)
      | Some fo =>
          if kind =? 0 then
            let st' := apply path_eq_dec st (f_steps fo) in
            (RFlush true (store_content st') (dump_store st'), mkR (f_state fo) st' ex)
          else
            let nw' := Z.of_nat (length (dirty_ids (pre_flush s))) in
            let k' := if kind =? 1 then Z.min pos nw' else nw' in
            let st' := crash path_eq_dec (Z.to_nat k') (f_steps fo) st in
            (RFlush false (store_content st') (dump_store st'), mkR (pre_flush s) st' ex)
      end
  | OQuery desc q stop skipmod =>
      let '(out, calls) := range_query (cb stop skipmod) s desc q 0 in
      (RQuery out calls, r)
  | OKeys cursor limit =>
      (RKeys (keys_page s cursor (match limit with Some n => Some (Z.to_nat n) | None => None end)), r)
  | OPoint k => (RPoint (match query s k with Some ids => Some (sort_dedup ids) | None => None end), r)
  | OStats => (RStats (version s) (max_bid s), r)
  end.

Fixpoint run_ops (cfg : config) (r : rstate) (ops : list op) : list (ores * bool) :=
  match ops with
  | [] => []
  | o :: rest => let '(res, r') := run_op cfg r o in (res, r_exact r) :: run_ops cfg r' rest
  end.

Definition zeq_list (a b : list Z) : bool := if list_eq_dec Z.eq_dec a b then true else false.
Definition content_eqb (a b : list (Z * list Z)) : bool :=
  (Nat.eqb (length a) (length b)) &&
  forallb (fun xy => Z.eqb (fst (fst xy)) (fst (snd xy)) && zeq_list (snd (fst xy)) (snd (snd xy))) (combine a b).
Definition pairs_eqb (a b : list (Z * Z)) : bool :=
  (Nat.eqb (length a) (length b)) && forallb (fun xy => Z.eqb (fst (fst xy)) (fst (snd xy)) && Z.eqb (snd (fst xy)) (snd (snd xy))) (combine a b).
Definition trip_eqb (a b : list (Z * Z * list Z)) : bool :=
  (Nat.eqb (length a) (length b)) &&
  forallb (fun xy => match xy with ((k1, v1, l1), (k2, v2, l2)) => Z.eqb k1 k2 && Z.eqb v1 v2 && zeq_list l1 l2 end) (combine a b).
Definition dump_eqb (a b : odump) : bool :=
  pairs_eqb (fst a) (fst b) &&
  (Nat.eqb (length (snd a)) (length (snd b))) &&
  forallb (fun xy => match xy with ((b1, g1, p1), (b2, g2, p2)) => Z.eqb b1 b2 && Z.eqb g1 g2 && trip_eqb p1 p2 end)
          (combine (snd a) (snd b)).

(* model result vs observed result; placement-dependent parts only while the history is placement-exact *)
Definition res_match (exact : bool) (m o : ores) : bool :=
  match m, o with
  | RBool a, RBool b => Bool.eqb a b
  | RErr, RErr => true
  | RCount a, RCount b => Z.eqb a b
  | RPair a b, RPair c d => Z.eqb a c && Z.eqb b d
  | RCompact a b, RCompact c d => if exact then Z.eqb a c && Z.eqb b d else true
  | RFlush s1 c1 d1, RFlush s2 c2 d2 =>
      Bool.eqb s1 s2 && content_eqb c1 c2 && (if exact then dump_eqb d1 d2 else true)
  | RReload c1, RReload c2 => content_eqb c1 c2
  | RQuery o1 n1, RQuery o2 n2 => pairs_eqb o1 o2 && Z.eqb n1 n2
  | RKeys a, RKeys b => zeq_list a b
  | RPoint None, RPoint None => true
  | RPoint (Some a), RPoint (Some b) => zeq_list a b
  | RStats v1 m1, RStats v2 m2 => if exact then Z.eqb v1 v2 && Z.eqb m1 m2 else true
  | _, _ => false
  end.

Definition ocase : Type := (Z * bool * list op)%type.   (* bucket_overload_size, allow_duplicates, history *)

Definition init_r : rstate := mkR new_state [] true.

Definition run_case (c : ocase) : list (ores * bool) :=
  let '(ov, dup, ops) := c in run_ops (mkConfig ov dup) init_r ops.

Definition check_ops (x : ocase * list ores) : bool :=
  let '(c, obs) := x in
  let ms := run_case c in
  (Nat.eqb (length ms) (length obs)) &&
  forallb (fun mo => res_match (snd (fst mo)) (fst (fst mo)) (snd mo)) (combine ms obs).

(* ---- monitor: a recorded flush (bucket puts, metadata put, obsolete deletes) judged by wf_commit *)
Definition check_flushlog (x : bstore * list bstep) : bool :=
  let '(st, l) := x in
  wf_commit path_eq_dec PMeta meta_refs st l || wf_abort path_eq_dec PMeta meta_refs st l.

(* ---- the model's loader on a captured object map *)
Definition check_load (x : bstore * list (Z * list Z)) : bool :=
  let '(st, obs) := x in content_eqb (store_content st) obs.

(* ---- schedule explorer: the final index and the returned values of 2..3 concurrent single-pair calls
   (insert / remove / compact) must be those of SOME sequential order of the model *)
Fixpoint perms {A} (l : list A) : list (list A) :=
  match l with
  | [] => [[]]
  | x :: r => flat_map (fun p => map (fun k => firstn k p ++ x :: skipn k p) (seq 0 (S (length p)))) (perms r)
  end.

Definition conc_res_match (m o : ores) : bool :=
  match m, o with
  | RBool a, RBool b => Bool.eqb a b
  | RErr, RErr => true
  | RCompact _ _, RCompact _ _ => true
  | _, _ => false
  end.

Definition single_pair (o : op) : bool :=
  match o with OInsert _ _ | ORemove _ _ | OCompact => true | _ => false end.

Definition conc_case : Type := (ocase * list op * list ores * list (Z * list Z))%type.

Definition check_conc (x : conc_case) : bool :=
  let '(c, tops, tres, cont) := x in
  let '(ov, dup, setup) := c in
  let cfg := mkConfig ov dup in
  if negb (forallb single_pair tops) then true
  else
    let r0 := fold_left (fun r o => snd (run_op cfg r o)) setup init_r in
    let idx := combine (seq 0 (length tops)) tops in
    existsb (fun order =>
               let '(r, res) := fold_left (fun acc io =>
                                             let '(r, res) := acc in
                                             let '(out, r') := run_op cfg r (snd io) in
                                             (r', (fst io, out) :: res)) order (r0, []) in
               content_eqb (content (r_state r)) cont &&
               forallb (fun ir => match find (fun jr => Nat.eqb (fst jr) (fst ir)) res with
                                  | Some jr => conc_res_match (snd jr) (snd ir)
                                  | None => false
                                  end) (combine (seq 0 (length tres)) tres))
            (perms idx).
