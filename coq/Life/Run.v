(* C06 — runners evaluated by vm_compute on the harness observations. *)
From Coq Require Import List String Bool Arith ZArith.
From Verif Require Import Life.Model gen.Gen_Lifecycle.
Import ListNotations.
Open Scope list_scope.

(* (lifecycle code after the drop, mutations logged, mutations of the completed call, retiring?) *)
Definition cancel_case := (Z * list (string * string) * list (string * string) * bool)%type.
Definition check_cancel (c : cancel_case) : bool :=
  let '(st, lg, full, ret) := c in
  (0 <=? st)%Z && cancel_ok (mkCancelObs (Z.to_nat st) lg full ret).

(* (lifecycle code when the transition returned, lifecycle transition?, offending mutations afterwards) *)
Definition silent_case := (Z * bool * list (string * string))%type.
Definition check_silent (c : silent_case) : bool :=
  let '(st, lifecycle, lg) := c in
  if lifecycle then (0 <=? st)%Z && silent_ok (Z.to_nat st) lg
  else match lg with [] => true | _ => false end.

(* the model's prediction for dropping API [n] at its k-th suspension point, from the generated event list *)
Definition predict_drop (n : string) (k : nat) : option (nat * bool) :=
  match find_api n apis with
  | Some a => match exec (a_events a) k cst0 with
              | (s, Dropped) => Some (c_life s, c_touched s)
              | _ => None
              end
  | None => None
  end.
