(* C06 — collection handle lifecycle: types of the generated tables (gen/Gen_Lifecycle.v),
   the shape tests applied to every generated API event list, an executor for "drop the
   future at the k-th suspension point", the transition relation read off the generated
   edge table, and the monitors that judge what the harness observed.  No proofs here. *)
From Coq Require Import List String Bool Arith.
Import ListNotations.
Open Scope list_scope.

(* ------------------------------------------------------------------ generated-table types *)
Inductive ev : Type :=
| EGateS                               (* operation_gate.read_owned().await  *)
| EGateX                               (* operation_gate.write_owned().await *)
| EGateOther                           (* any other mention of operation_gate *)
| EAdmit                               (* self.ensure_mutable()              *)
| EArm                                 (* self.cancel_guard(..)              *)
| EDisarm                              (* guard.disarm()                     *)
| EAwait (callee : string) (w : bool)  (* `.await`; w = awaited call reaches a storage write *)
| ECall (callee : string) (w : bool)   (* synchronous self-call              *)
| EPoison                              (* self.poison(..)                    *)
| ELoad | ECas | EStore                (* operations on self.lifecycle       *)
| EPublish.                            (* self.begin_delete()                *)

Inductive vis := VPub | VCrate | VPriv.
Inductive recv := RRef | RMut | RNone.

Record api := mkApi {
  a_name : string; a_vis : vis; a_async : bool; a_recv : recv;
  a_writes : bool;      (* transitively reaches a storage write primitive *)
  a_gate : bool;        (* acquires operation_gate itself (mutation_lease expanded) *)
  a_events : list ev }.

Inductive ekind := KCas | KStore.
Record edge := mkEdge { e_fn : string; e_kind : ekind; e_from : list nat; e_to : nat }.

(* ------------------------------------------------------------------ event predicates *)
Definition is_gate (e : ev) : bool := match e with EGateS | EGateX => true | _ => false end.
Definition is_susp (e : ev) : bool :=            (* a point where the future can be dropped *)
  match e with EGateS | EGateX | EAwait _ _ => true | _ => false end.
Definition is_write (e : ev) : bool :=
  match e with EAwait _ w => w | ECall _ w => w | _ => false end.
Definition is_arm (e : ev) : bool := match e with EArm => true | _ => false end.
Definition is_disarm (e : ev) : bool := match e with EDisarm => true | _ => false end.
Definition is_admit (e : ev) : bool := match e with EAdmit => true | _ => false end.
Definition is_load (e : ev) : bool := match e with ELoad => true | _ => false end.

Definition none_of (p : ev -> bool) (l : list ev) : bool := forallb (fun e => negb (p e)) l.

(* split at the first element satisfying p *)
Fixpoint split_at (p : ev -> bool) (l : list ev) : option (list ev * ev * list ev) :=
  match l with
  | [] => None
  | e :: r => if p e then Some ([], e, r)
              else match split_at p r with
                   | Some (a, x, b) => Some (e :: a, x, b)
                   | None => None
                   end
  end.

(* The shape of a guarded mutating API, [check] being the admission test it uses:
     pre · gate · mid · EArm · work · EDisarm · post
   pre  : no storage write, no suspension
   mid  : contains the admission check, NO suspension point, no storage write
   work : everything up to the first disarm
   post : no suspension point, no storage write                                  *)
Definition shape_with (check : ev -> bool) (evs : list ev) : bool :=
  match split_at is_gate evs with
  | None => false
  | Some (pre, _, r1) =>
    match split_at is_arm r1 with
    | None => false
    | Some (mid, _, r2) =>
      match split_at is_disarm r2 with
      | None => false
      | Some (_, _, post) =>
        none_of is_write pre && none_of is_susp pre &&
        existsb check mid && none_of is_susp mid && none_of is_write mid &&
        none_of is_susp post && none_of is_write post
      end
    end
  end.

Definition shape_guarded := shape_with is_admit.

(* close: CAS into CLOSING before the exclusive gate, lifecycle re-check after it *)
Definition shape_close (evs : list ev) : bool :=
  shape_with is_load evs &&
  match split_at is_gate evs with
  | Some (pre, g, _) => existsb (fun e => match e with ECas => true | _ => false end) pre &&
                        match g with EGateX => true | _ => false end
  | None => false
  end.

(* drop_data: begin_delete (publish) · exclusive gate · re-check · delete · store(DELETED) *)
Definition shape_delete (evs : list ev) : bool :=
  match split_at is_gate evs with
  | Some (pre, EGateX, rest) =>
      existsb (fun e => match e with EPublish => true | _ => false end) pre &&
      none_of is_write pre && none_of is_susp pre &&
      existsb (fun e => match e with EStore => true | _ => false end) rest
  | _ => false
  end.

(* gate helpers that write nothing: only gate/admission events *)
Definition shape_lease_only (evs : list ev) : bool :=
  forallb (fun e => match e with EGateS | EGateX | EAdmit => true | _ => false end) evs.

Fixpoint find_api (n : string) (l : list api) : option api :=
  match l with
  | [] => None
  | a :: r => if String.eqb (a_name a) n then Some a else find_api n r
  end.

(* names of the callees through which an event list reaches a storage write *)
Definition write_callees (evs : list ev) : list string :=
  flat_map (fun e => match e with EAwait c true => [c] | ECall c true => [c] | _ => [] end) evs.

Definition is_guarded_api (tbl : list api) (n : string) : bool :=
  match find_api n tbl with
  | Some a => a_gate a && shape_guarded (a_events a)
  | None => false
  end.

Definition first_is_admit (evs : list ev) : bool :=
  match evs with EAdmit :: _ => true | _ => false end.

Definition is_mut_entry (tbl : list api) (n : string) : bool :=
  match find_api n tbl with
  | Some a => match a_recv a with RMut => first_is_admit (a_events a) | _ => false end
  | None => false
  end.

(* the test applied to every function of `impl Collection` *)
Definition api_ok (tbl : list api) (a : api) : bool :=
  if a_gate a then
    if String.eqb (a_name a) "close" then shape_close (a_events a)
    else if String.eqb (a_name a) "drop_data" then shape_delete (a_events a)
    else if negb (a_writes a) && shape_lease_only (a_events a) then true
    else shape_guarded (a_events a)
  else if negb (a_writes a) then true
  else match a_vis a, a_recv a with
       | VPriv, RRef => true      (* private helper: reachable only through the callers checked below *)
       | _, RNone => true         (* constructors: the handle is not shared yet *)
       | _, RMut =>               (* exclusive borrow: admission check first, or delegation to one that has it *)
           first_is_admit (a_events a) || forallb (is_mut_entry tbl) (write_callees (a_events a))
       | _, RRef =>               (* shared borrow without the gate: may only delegate to guarded APIs *)
           forallb (is_guarded_api tbl) (write_callees (a_events a))
       end.

(* ------------------------------------------------------------------ dropping the future *)
Record cst := mkCst { c_life : nat; c_armed : bool; c_touched : bool }.

Definition L_ACTIVE := 0. Definition L_CLOSING := 1. Definition L_CLOSED := 2.
Definition L_DELETING := 3. Definition L_DELETED := 4. Definition L_POISONED := 5.

Definition poison_life (l : nat) : nat :=
  if (l =? L_ACTIVE) || (l =? L_CLOSING) then L_POISONED else l.

Definition drop_now (s : cst) : cst :=
  if c_armed s then mkCst (poison_life (c_life s)) false (c_touched s) else s.

Inductive outcome := Dropped | Rejected | Ran (k : nat).

(* run [evs]; the future is dropped when it reaches its (k+1)-th suspension point (a dropped
   storage-writing await may or may not have taken effect: it counts as touched).  [Ran k']:
   the list ran to its end with k' suspension points to spare; [Rejected]: the admission
   check returned the lifecycle error. *)
Fixpoint exec (evs : list ev) (k : nat) (s : cst) : cst * outcome :=
  match evs with
  | [] => (s, Ran k)
  | e :: r =>
    if is_susp e then
      match k with
      | O => (drop_now (mkCst (c_life s) (c_armed s) (c_touched s || is_write e)), Dropped)
      | S k' => exec r k' (mkCst (c_life s) (c_armed s) (c_touched s || is_write e))
      end
    else match e with
         | EAdmit => if c_life s =? L_ACTIVE then exec r k s else (s, Rejected)
         | EArm => exec r k (mkCst (c_life s) true (c_touched s))
         | EDisarm => exec r k (mkCst (c_life s) false (c_touched s))
         | ECall _ w => exec r k (mkCst (c_life s) (c_armed s) (c_touched s || w))
         | _ => exec r k s
         end
  end.

Definition cst0 := mkCst L_ACTIVE false false.

(* ------------------------------------------------------------------ transition relation *)
Definition edge_step (e : edge) (s s' : nat) : Prop := In s (e_from e) /\ s' = e_to e.
Definition life_step (es : list edge) (s s' : nat) : Prop := exists e, In e es /\ edge_step e s s'.

Inductive life_reach (es : list edge) : nat -> nat -> Prop :=
| lr_refl s : life_reach es s s
| lr_step s s' s'' : life_reach es s s' -> life_step es s' s'' -> life_reach es s s''.

Definition no_target (es : list edge) (t : nat) : bool := forallb (fun e => negb (e_to e =? t)) es.

(* successors of a state / executable reachability (fuel = number of states) *)
Definition succs (es : list edge) (s : nat) : list nat :=
  flat_map (fun e => if existsb (Nat.eqb s) (e_from e) then [e_to e] else []) es.
Fixpoint reach_set (es : list edge) (fuel : nat) (frontier : list nat) : list nat :=
  match fuel with
  | O => frontier
  | S f => let nxt := nodup Nat.eq_dec (frontier ++ flat_map (succs es) frontier) in reach_set es f nxt
  end.

(* an unconditional [store] is separated from the load that guards it: widen its [from]
   by everything the compare-exchange edges can reach from the guard set meanwhile *)
Definition cas_edges (es : list edge) := filter (fun e => match e_kind e with KCas => true | _ => false end) es.
Definition widen (es : list edge) (e : edge) : edge :=
  match e_kind e with
  | KCas => e
  | KStore => mkEdge (e_fn e) KStore (reach_set (cas_edges es) 6 (e_from e)) (e_to e)
  end.
Definition racy_edges (es : list edge) : list edge := map (widen es) es.

(* ------------------------------------------------------------------ monitors over observations *)
(* one backend mutation as the recording store logs it: kind and canonical path *)
Definition step := (string * string)%type.
Definition step_eqb (a b : step) : bool := String.eqb (fst a) (fst b) && String.eqb (snd a) (snd b).

Fixpoint is_prefix (l full : list step) : bool :=
  match l, full with
  | [], _ => true
  | a :: l', b :: f' => step_eqb a b && is_prefix l' f'
  | _ :: _, [] => false
  end.

(* observation of one cancelled call: lifecycle code after the drop, the mutations logged
   between the call's start and the drop, the mutations of the same call run to completion,
   whether the handle was retired by the call itself (close / delete paths) *)
Record cancel_obs := mkCancelObs {
  co_state : nat; co_log : list step; co_full : list step; co_retiring : bool }.

Definition cancel_ok (o : cancel_obs) : bool :=
  is_prefix (co_log o) (co_full o) &&
  (if co_state o =? L_ACTIVE
   then match co_log o with [] => true | _ => false end       (* untouched *)
   else if co_state o =? L_POISONED then true                  (* crash prefix + poisoned *)
   else co_retiring o).                                        (* close/delete published their own state *)

(* observation after a retiring transition returned: lifecycle code, mutations logged afterwards *)
Definition silent_ok (state_after : nat) (log_after : list step) : bool :=
  negb (state_after =? L_ACTIVE) && match log_after with [] => true | _ => false end.
