(* C06 — proofs: meaning of the API shape test, cancellation = poisoned-or-untouched for every
   event list of that shape and every drop point, soundness of the finite-table tests of the
   lifecycle transition relation for paths of any length, the prefix monitor, and the
   instance of Common/Gate for the collection lifecycle. *)
From Coq Require Import List String Bool Arith Lia.
From Verif Require Import Common.Gate Life.Model.
Import ListNotations.
Open Scope list_scope.

(* ------------------------------------------------------------------ split_at / shape *)
Lemma split_at_spec p l a x b :
  split_at p l = Some (a, x, b) -> l = a ++ x :: b /\ p x = true /\ none_of p a = true.
Proof.
  revert a x b; induction l as [|e r IH]; simpl; intros a x b H; [discriminate|].
  destruct (p e) eqn:Hp.
  - inversion H; subst. simpl. auto.
  - destruct (split_at p r) as [[[a' x'] b']|] eqn:Hs; [|discriminate].
    inversion H; subst. destruct (IH _ _ _ eq_refl) as (-> & Hx & Ha).
    simpl. rewrite Hp. simpl. auto.
Qed.

Record shaped (check : ev -> bool) (evs pre : list ev) (g : ev) (mid work post : list ev) : Prop := {
  sh_eq : evs = pre ++ g :: mid ++ EArm :: work ++ EDisarm :: post;
  sh_gate : is_gate g = true;
  sh_pre_w : none_of is_write pre = true;
  sh_pre_s : none_of is_susp pre = true;
  sh_check : existsb check mid = true;
  sh_mid_s : none_of is_susp mid = true;
  sh_mid_w : none_of is_write mid = true;
  sh_work_d : none_of is_disarm work = true;
  sh_post_s : none_of is_susp post = true;
  sh_post_w : none_of is_write post = true }.

Lemma shape_with_spec check evs :
  shape_with check evs = true -> exists pre g mid work post, shaped check evs pre g mid work post.
Proof.
  unfold shape_with. intros H.
  destruct (split_at is_gate evs) as [[[pre g] r1]|] eqn:H1; [|discriminate].
  destruct (split_at is_arm r1) as [[[mid x] r2]|] eqn:H2; [|discriminate].
  destruct (split_at is_disarm r2) as [[[work y] post]|] eqn:H3; [|discriminate].
  destruct (split_at_spec _ _ _ _ _ H1) as (-> & Hg & _).
  destruct (split_at_spec _ _ _ _ _ H2) as (-> & Hx & _).
  destruct (split_at_spec _ _ _ _ _ H3) as (-> & Hy & Hw).
  destruct x; try discriminate. destruct y; try discriminate.
  repeat (apply andb_true_iff in H; destruct H as [H ?]).
  exists pre, g, mid, work, post. constructor; auto.
Qed.

(* the check really sits between the gate acquisition and the arming of the guard, and no
   suspension point separates them *)
Corollary shape_guarded_check_after_gate evs :
  shape_guarded evs = true ->
  exists pre g mid rest, evs = pre ++ g :: mid ++ EArm :: rest /\ is_gate g = true /\
    In EAdmit mid /\ none_of is_susp mid = true /\ none_of is_susp pre = true.
Proof.
  intros H. destruct (shape_with_spec _ _ H) as (pre & g & mid & work & post & S).
  exists pre, g, mid, (work ++ EDisarm :: post). destruct S. repeat split; auto.
  apply existsb_exists in sh_check0. destruct sh_check0 as (e & He & Hc). destruct e; try discriminate. auto.
Qed.

(* ------------------------------------------------------------------ exec *)
Lemma exec_app a b k s :
  exec (a ++ b) k s = match exec a k s with
                      | (s', Ran k') => exec b k' s'
                      | r => r
                      end.
Proof.
  revert k s; induction a as [|e r IH]; intros k s; simpl; auto.
  destruct (is_susp e).
  - destruct k; auto.
  - destruct e; auto. destruct (c_life s =? L_ACTIVE); auto.
Qed.

Definition untouched (s : cst) : Prop := c_touched s = false /\ c_life s = L_ACTIVE.

Lemma exec_quiet l : none_of is_write l = true -> none_of is_susp l = true ->
  forall k s s' o, exec l k s = (s', o) ->
    c_life s' = c_life s /\ c_touched s' = c_touched s /\ (o = Ran k \/ o = Rejected).
Proof.
  induction l as [|e r IH]; simpl; intros Hw Hs k s s' o H.
  - inversion H; subst; auto.
  - apply andb_true_iff in Hw; destruct Hw as [Hw1 Hw]. apply andb_true_iff in Hs; destruct Hs as [Hs1 Hs].
    apply negb_true_iff in Hs1. rewrite Hs1 in H.
    destruct e; simpl in *; try discriminate;
      try (destruct (IH Hw Hs _ _ _ _ H) as (A & B & C); simpl in *; auto; fail).
    + destruct (c_life s =? L_ACTIVE).
      * apply (IH Hw Hs _ _ _ _ H).
      * inversion H; subst; auto.
    + apply negb_true_iff in Hw1. subst w.
      destruct (IH Hw Hs _ _ _ _ H) as (A & B & C); simpl in *. rewrite orb_false_r in B. auto.
Qed.

Lemma exec_armed l : none_of is_disarm l = true ->
  forall k s s' o, c_armed s = true -> c_life s = L_ACTIVE -> exec l k s = (s', o) ->
    (o = Dropped -> c_life s' = L_POISONED) /\
    (forall k', o = Ran k' -> c_armed s' = true /\ c_life s' = L_ACTIVE).
Proof.
  induction l as [|e r IH]; simpl; intros Hd k s s' o Ha Hl H.
  - inversion H; subst. split; [discriminate|auto].
  - apply andb_true_iff in Hd; destruct Hd as [Hd1 Hd].
    destruct (is_susp e) eqn:Hs.
    + destruct k.
      * inversion H; subst. unfold drop_now; simpl. rewrite Ha, Hl. simpl. split; [intros _; reflexivity|discriminate].
      * refine (IH Hd _ _ _ _ _ _ H); simpl; auto.
    + destruct e; simpl in *; try discriminate;
        try (rewrite Hl in H; simpl in H); refine (IH Hd _ _ _ _ _ _ H); simpl; auto.
Qed.

Lemma exec_nosusp_not_dropped l : none_of is_susp l = true ->
  forall k s s', exec l k s <> (s', Dropped).
Proof.
  induction l as [|e r IH]; simpl; intros Hs k s s' H; [inversion H|].
  apply andb_true_iff in Hs; destruct Hs as [Hs1 Hs]. apply negb_true_iff in Hs1. rewrite Hs1 in H.
  destruct e; simpl in *; try discriminate; try (eapply IH; eauto; fail).
  destruct (c_life s =? L_ACTIVE); [eapply IH; eauto|inversion H].
Qed.

(* Dropping a call of the guarded shape at ANY suspension point leaves the handle either
   untouched (no storage write was started and it is still ACTIVE) or POISONED. *)
Theorem cancel_poisoned_or_untouched check evs k s' :
  shape_with check evs = true -> exec evs k cst0 = (s', Dropped) ->
  untouched s' \/ c_life s' = L_POISONED.
Proof.
  intros Hsh H. destruct (shape_with_spec _ _ Hsh) as (pre & g & mid & work & post & S). destruct S.
  subst evs. rewrite exec_app in H.
  destruct (exec pre k cst0) as [s1 o1] eqn:E1.
  destruct (exec_quiet _ sh_pre_w0 sh_pre_s0 _ _ _ _ E1) as (L1 & T1 & O1).
  destruct O1 as [->| ->]; [|discriminate].
  (* the gate acquisition *)
  simpl in H. assert (Hgs : is_susp g = true) by (destruct g; try discriminate; auto).
  assert (Hgw : is_write g = false) by (destruct g; try discriminate; auto).
  rewrite Hgs, Hgw, orb_false_r in H.
  destruct k as [|k].
  - inversion H; subst. unfold drop_now; simpl. destruct (c_armed s1); simpl.
    + right. rewrite L1. reflexivity.
    + left. split; simpl; [rewrite T1|rewrite L1]; reflexivity.
  - rewrite exec_app in H.
    set (s1' := mkCst (c_life s1) (c_armed s1) (c_touched s1)) in *.
    destruct (exec mid k s1') as [s2 o2] eqn:E2.
    destruct (exec_quiet _ sh_mid_w0 sh_mid_s0 _ _ _ _ E2) as (L2 & T2 & O2).
    destruct O2 as [->| ->]; [|discriminate].
    simpl in H. rewrite exec_app in H.
    set (s2' := mkCst (c_life s2) true (c_touched s2)) in *.
    destruct (exec work k s2') as [s3 o3] eqn:E3.
    assert (Hl2 : c_life s2' = L_ACTIVE) by (simpl; rewrite L2; simpl; rewrite L1; reflexivity).
    assert (Ha2 : c_armed s2' = true) by reflexivity.
    destruct (exec_armed _ sh_work_d0 _ _ _ _ Ha2 Hl2 E3) as (D3 & R3).
    destruct o3 as [| |k3].
    + inversion H; subst. right. auto.
    + discriminate.
    + simpl in H. exfalso. eapply exec_nosusp_not_dropped; eauto.
Qed.

(* ------------------------------------------------------------------ transition relation *)
Lemma no_target_step es t s s' : no_target es t = true -> life_step es s s' -> s' <> t.
Proof.
  intros H (e & He & _ & ->). unfold no_target in H. rewrite forallb_forall in H.
  specialize (H _ He). apply negb_true_iff, Nat.eqb_neq in H. exact H.
Qed.

(* no edge into [t]  ==>  no path of any length from a state other than [t] reaches [t] *)
Theorem no_target_sound es t : no_target es t = true ->
  forall s s', life_reach es s s' -> s <> t -> s' <> t.
Proof.
  intros H s s' Hr. induction Hr; auto. intros _. eapply no_target_step; eauto.
Qed.

Definition closed_under (es : list edge) (S : list nat) : bool :=
  forallb (fun s => forallb (fun t => existsb (Nat.eqb t) S) (succs es s)) S.

Lemma succs_complete es s s' : life_step es s s' -> In s' (succs es s).
Proof.
  intros (e & He & Hf & ->). unfold succs. apply in_flat_map. exists e. split; auto.
  assert (existsb (Nat.eqb s) (e_from e) = true) as ->.
  { apply existsb_exists. exists s. split; auto. apply Nat.eqb_refl. }
  simpl; auto.
Qed.

(* a set closed under the successor function contains every state reachable from it *)
Theorem closed_under_sound es S : closed_under es S = true ->
  forall s s', In s S -> life_reach es s s' -> In s' S.
Proof.
  intros H s s' Hs Hr. induction Hr; auto.
  specialize (IHHr Hs). unfold closed_under in H. rewrite forallb_forall in H.
  specialize (H _ IHHr). rewrite forallb_forall in H.
  specialize (H _ (succs_complete _ _ _ H0)). apply existsb_exists in H.
  destruct H as (x & Hx & He). apply Nat.eqb_eq in He. subst. auto.
Qed.

(* ------------------------------------------------------------------ prefix monitor *)
Lemma step_eqb_eq a b : step_eqb a b = true -> a = b.
Proof.
  destruct a, b; unfold step_eqb; simpl. intros H. apply andb_true_iff in H. destruct H as [H1 H2].
  apply String.eqb_eq in H1. apply String.eqb_eq in H2. subst; auto.
Qed.

Lemma step_eqb_refl a : step_eqb a a = true.
Proof. destruct a; unfold step_eqb; simpl. rewrite !String.eqb_refl. auto. Qed.

(* [is_prefix l full] decides "l is what a crash after |l| mutations of [full] leaves in the log" *)
Theorem is_prefix_iff l full : is_prefix l full = true <-> exists k, l = firstn k full.
Proof.
  split.
  - revert full; induction l as [|a l IH]; intros full H.
    + exists 0; auto.
    + destruct full as [|b f]; simpl in H; [discriminate|].
      apply andb_true_iff in H. destruct H as [H1 H2]. apply step_eqb_eq in H1. subst.
      destruct (IH _ H2) as (k & ->). exists (S k); auto.
  - intros (k & ->). revert full; induction k; intros full; simpl; auto.
    destruct full; simpl; auto. rewrite step_eqb_refl. simpl. auto.
Qed.

Theorem cancel_ok_sound o : cancel_ok o = true ->
  (exists k, co_log o = firstn k (co_full o)) /\
  (co_state o = L_ACTIVE -> co_log o = []) /\
  (co_state o <> L_ACTIVE -> co_state o = L_POISONED \/ co_retiring o = true).
Proof.
  unfold cancel_ok. intros H. apply andb_true_iff in H. destruct H as [Hp Hs].
  split; [apply is_prefix_iff; auto|].
  destruct (co_state o =? L_ACTIVE) eqn:Ha.
  - apply Nat.eqb_eq in Ha. split.
    + intros _. destruct (co_log o); auto; discriminate.
    + intros Hn; contradiction.
  - apply Nat.eqb_neq in Ha. split; [intros; contradiction|]. intros _.
    destruct (co_state o =? L_POISONED) eqn:Hq; [left; apply Nat.eqb_eq; auto|right; auto].
Qed.

Theorem silent_ok_sound st lg : silent_ok st lg = true -> st <> L_ACTIVE /\ lg = [].
Proof.
  unfold silent_ok. intros H. apply andb_true_iff in H. destruct H as [H1 H2].
  apply negb_true_iff, Nat.eqb_neq in H1. destruct lg; try discriminate. auto.
Qed.

(* ------------------------------------------------------------------ Gate instance *)
Section LifeGate.
  Variable es : list edge.                       (* the generated (widened) edge table *)
  Hypothesis es_no_active : no_target es L_ACTIVE = true.

  Definition ladm (f : nat) : bool := f =? L_ACTIVE.
  Definition ltrans (f f' : nat) : Prop := life_step es f f'.
  (* what close / begin_delete publish before they wait for the exclusive gate *)
  Definition lpub (f f' : nat) : Prop := life_step es f f' \/ (f' = f /\ f <> L_ACTIVE).

  Lemma ltrans_mono f f' : ltrans f f' -> ladm f = false -> ladm f' = false.
  Proof.
    intros H _. unfold ladm. apply Nat.eqb_neq. eapply no_target_step; eauto.
  Qed.

  Lemma lpub_closed f f' : lpub f f' -> ladm f' = false.
  Proof.
    intros [H|[-> H]]; unfold ladm; apply Nat.eqb_neq; auto. eapply no_target_step; eauto.
  Qed.

  (* After close / begin_delete have published their state and obtained the exclusive gate,
     no admitted mutation is running and the rest of the run — any interleaving, any number
     of queued or later calls, the lifecycle word moved along any generated edge by anyone —
     contains no mutator write. *)
  Theorem life_silent_after_retire (s : gstate nat) tr s' :
    greach nat ladm ltrans lpub s -> some_pc nat s passed -> gsteps nat ladm ltrans lpub s tr s' ->
    (forall i, ~ In (LWrite i) tr) /\ ladm (g_flag nat s') = false /\ forall j, ~ at_pc nat s' j MAdmitted.
  Proof.
    intros Hr Hp Hs. split.
    - exact (silent_after_retire nat ladm ltrans lpub ltrans_mono lpub_closed s tr s' Hr Hp Hs).
    - assert (Hr' : greach nat ladm ltrans lpub s').
      { destruct Hr as (s0 & tr0 & H0 & Hs0). exists s0, (tr0 ++ tr). split; auto.
        clear - Hs0 Hs. induction Hs0; simpl; auto. econstructor; eauto. }
      assert (Hp' : some_pc nat s' passed).
      { clear - Hs Hp. induction Hs; auto. apply IHHs. eapply (passed_stable nat ladm ltrans lpub); eauto. }
      exact (gate_retired nat ladm ltrans lpub ltrans_mono lpub_closed s' Hr' Hp').
  Qed.
End LifeGate.
