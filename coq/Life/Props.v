(* C06 — pinned statements only.  The tables [edges], [apis], ... are regenerated from
   rs/anda_db/src/collection.rs on every run (gen/Gen_Lifecycle.v); statements closed by
   vm_compute are about those finite tables and say so. *)
From Coq Require Import List String Bool Arith.
From Verif Require Import Common.Gate Life.Model Life.Proofs gen.Gen_Lifecycle.
Import ListNotations.
Open Scope list_scope.

(* (a) the six constants, and the model's codes are the generated ones *)
Theorem C06_lifecycle_constants :
  lifecycle_consts = [("LIFECYCLE_ACTIVE", L_ACTIVE); ("LIFECYCLE_CLOSING", L_CLOSING);
                      ("LIFECYCLE_CLOSED", L_CLOSED); ("LIFECYCLE_DELETING", L_DELETING);
                      ("LIFECYCLE_DELETED", L_DELETED); ("LIFECYCLE_POISONED", L_POISONED)]%string
  /\ Forall (fun i => i = L_ACTIVE) lifecycle_inits.
Proof. split; [reflexivity|repeat constructor]. Qed.
Print Assumptions C06_lifecycle_constants.

(* (b) No path of ANY length in the generated transition relation — with every unconditional
   store widened by whatever the compare-exchange edges can do between its guard and the
   store — leads from a state other than ACTIVE back to ACTIVE. *)
Theorem C06_no_way_back_to_active :
  forall s s', life_reach (racy_edges edges) s s' -> s <> LIFECYCLE_ACTIVE -> s' <> LIFECYCLE_ACTIVE.
Proof. apply no_target_sound. vm_compute. reflexivity. Qed.
Print Assumptions C06_no_way_back_to_active.

(* closed, deleted and poisoned handles stay retired; POISONED only towards DELETING/DELETED *)
Theorem C06_retired_states_closed :
  (forall s', life_reach edges LIFECYCLE_CLOSED s' -> In s' [LIFECYCLE_CLOSED; LIFECYCLE_DELETING; LIFECYCLE_DELETED]) /\
  (forall s', life_reach edges LIFECYCLE_POISONED s' -> In s' [LIFECYCLE_POISONED; LIFECYCLE_DELETING; LIFECYCLE_DELETED]) /\
  (forall s', life_reach edges LIFECYCLE_DELETING s' -> In s' [LIFECYCLE_DELETING; LIFECYCLE_DELETED]) /\
  (forall s', life_reach edges LIFECYCLE_DELETED s' -> s' = LIFECYCLE_DELETED).
Proof.
  repeat split; intros s' H.
  - refine (closed_under_sound edges [LIFECYCLE_CLOSED; LIFECYCLE_DELETING; LIFECYCLE_DELETED] _ _ _ _ H); [vm_compute; reflexivity|simpl; auto].
  - refine (closed_under_sound edges [LIFECYCLE_POISONED; LIFECYCLE_DELETING; LIFECYCLE_DELETED] _ _ _ _ H); [vm_compute; reflexivity|simpl; auto].
  - refine (closed_under_sound edges [LIFECYCLE_DELETING; LIFECYCLE_DELETED] _ _ _ _ H); [vm_compute; reflexivity|simpl; auto].
  - assert (In s' [LIFECYCLE_DELETED]) as [<-|[]]; auto.
    refine (closed_under_sound edges [LIFECYCLE_DELETED] _ _ _ _ H); [vm_compute; reflexivity|simpl; auto].
Qed.
Print Assumptions C06_retired_states_closed.

(* set_read_only(false) is refused unless the handle is ACTIVE and the database writable, it is
   the only place that stores a value other than `true` into read_only, and ensure_mutable tests
   the lifecycle word first and also both read-only flags *)
Theorem C06_set_read_only_guarded :
  sro_guard_lifecycle_active = true /\ sro_guard_database_read_only = true /\
  sro_guard_returns_before_store = true /\
  forallb (fun p => String.eqb (snd p) "true" || String.eqb (fst p) "set_read_only") read_only_stores = true /\
  ensure_mutable_tests = ["lifecycle_ne_active"; "database_read_only"; "read_only"]%string /\
  ensure_mutable_error_returns = 2.
Proof. repeat split; vm_compute; reflexivity. Qed.
Print Assumptions C06_set_read_only_guarded.

(* (c) every function of `impl Collection` in the generated table passes the shape test, and the
   mutating APIs the property names are present and of the guarded shape *)
Theorem C06_api_shape_ok :
  forallb (api_ok apis) apis = true /\
  forallb (is_guarded_api apis)
    ["add"; "update"; "remove"; "flush"; "save_extension"; "remove_extension"; "compact_btree_index";
     "compact_bm25_index"; "reconcile_storage"; "cleanup_removed_index"]%string = true /\
  (exists a, find_api "close" apis = Some a /\ shape_close (a_events a) = true) /\
  (exists a, find_api "drop_data" apis = Some a /\ shape_delete (a_events a) = true) /\
  forallb (is_mut_entry apis)
    ["create_btree_index"; "create_bm25_index"; "create_hnsw_index"; "remove_btree_index";
     "remove_bm25_index"; "remove_hnsw_index"]%string = true.
Proof.
  split; [vm_compute; reflexivity|]. split; [vm_compute; reflexivity|].
  split; [eexists; split; [vm_compute; reflexivity|vm_compute; reflexivity]|].
  split; [eexists; split; [vm_compute; reflexivity|vm_compute; reflexivity]|].
  vm_compute; reflexivity.
Qed.
Print Assumptions C06_api_shape_ok.

(* what the guarded shape means: the admission check comes after the gate acquisition and NO
   suspension point separates it from the arming of the cancel guard (all event lists) *)
Theorem C06_check_after_gate_no_await_before_guard :
  forall evs, shape_guarded evs = true ->
  exists pre g mid rest, evs = pre ++ g :: mid ++ EArm :: rest /\ is_gate g = true /\
    In EAdmit mid /\ none_of is_susp mid = true /\ none_of is_susp pre = true.
Proof. exact shape_guarded_check_after_gate. Qed.
Print Assumptions C06_check_after_gate_no_await_before_guard.

(* cancel = crash: for every event list of the guarded shape and every drop point k *)
Theorem C06_cancel_poisoned_or_untouched :
  forall check evs k s', shape_with check evs = true -> exec evs k cst0 = (s', Dropped) ->
    (c_touched s' = false /\ c_life s' = L_ACTIVE) \/ c_life s' = L_POISONED.
Proof. exact cancel_poisoned_or_untouched. Qed.
Print Assumptions C06_cancel_poisoned_or_untouched.

(* the executor's drop rule is the generated `poison` edge and the generated CancelGuard facts *)
Theorem C06_drop_rule_matches_source :
  cancel_guard_created_armed = true /\ cancel_guard_drop_poisons_when_armed = true /\
  exists e, In e edges /\ e_fn e = "poison"%string /\
    forall l, poison_life l = if existsb (Nat.eqb l) (e_from e) then e_to e else l.
Proof.
  split; [reflexivity|]. split; [reflexivity|].
  exists (mkEdge "poison" KCas [0; 1] 5). split; [vm_compute; auto|]. split; [reflexivity|].
  intros l. destruct l as [|[|l]]; reflexivity.
Qed.
Print Assumptions C06_drop_rule_matches_source.

(* the shared/exclusive gate with an admission flag, any number of threads, any interleaving *)
Theorem Gate_exclusion_and_silence :
  forall (F : Type) (adm : F -> bool) (ftrans pubs : F -> F -> Prop),
    (forall f f', ftrans f f' -> adm f = false -> adm f' = false) ->
    (forall f f', pubs f f' -> adm f' = false) ->
    forall s, greach F adm ftrans pubs s ->
      (forall i, at_pc F s i CHeld ->
         (forall j p, at_pc F s j p -> holds_shared p = false) /\ (forall j, at_pc F s j CHeld -> j = i)) /\
      (some_pc F s passed ->
         forall tr s', gsteps F adm ftrans pubs s tr s' -> forall i, ~ In (LWrite i) tr).
Proof.
  intros F adm ft pb H1 H2 s Hr. split.
  - intros i Hi. eapply gate_exclusion; eauto.
  - intros Hp tr s' Hs. eapply silent_after_retire; eauto.
Qed.
Print Assumptions Gate_exclusion_and_silence.

(* ... instantiated with the generated lifecycle relation: after close / begin_delete published
   their state and obtained the exclusive gate, no admitted mutation is running, none is
   admitted later (queued calls included) and the rest of the run has no mutator write *)
Theorem C06_silent_after_retire :
  forall (s : gstate nat) tr s',
    greach nat ladm (ltrans (racy_edges edges)) (lpub (racy_edges edges)) s ->
    some_pc nat s passed ->
    gsteps nat ladm (ltrans (racy_edges edges)) (lpub (racy_edges edges)) s tr s' ->
    (forall i, ~ In (LWrite i) tr) /\ ladm (g_flag nat s') = false /\ forall j, ~ at_pc nat s' j MAdmitted.
Proof. apply life_silent_after_retire. vm_compute. reflexivity. Qed.
Print Assumptions C06_silent_after_retire.

(* monitors *)
Theorem C06_cancel_monitor_sound :
  forall o, cancel_ok o = true ->
    (exists k, co_log o = firstn k (co_full o)) /\
    (co_state o = L_ACTIVE -> co_log o = []) /\
    (co_state o <> L_ACTIVE -> co_state o = L_POISONED \/ co_retiring o = true).
Proof. exact cancel_ok_sound. Qed.
Print Assumptions C06_cancel_monitor_sound.

Theorem C06_silent_monitor_sound :
  forall st lg, silent_ok st lg = true -> st <> L_ACTIVE /\ lg = [].
Proof. exact silent_ok_sound. Qed.
Print Assumptions C06_silent_monitor_sound.

(* ------------------------------------------------------------------ non-vacuity *)
Definition add_events : list ev :=
  match find_api "add" apis with Some a => a_events a | None => [] end.

(* `add` dropped at its second suspension point (inside add_impl) ends POISONED, at the first
   (the gate) untouched; run to completion it ends ACTIVE and disarmed *)
Example C06_cancel_nonvacuous :
  shape_guarded add_events = true /\
  exec add_events 1 cst0 = (mkCst L_POISONED false true, Dropped) /\
  exec add_events 0 cst0 = (cst0, Dropped) /\
  exec add_events 2 cst0 = (mkCst L_ACTIVE false true, Ran 0).
Proof. repeat split; vm_compute; reflexivity. Qed.

(* a reachable gate state in which a closer has passed the gate while a call is still queued *)
Example C06_gate_nonvacuous :
  let adm := ladm in
  let s0 := mkG nat L_ACTIVE [MIdle; CIdle; MIdle] in
  exists s, greach nat adm (ltrans (racy_edges edges)) (lpub (racy_edges edges)) s /\
            some_pc nat s passed /\ at_pc nat s 2 MIdle /\ at_pc nat s 0 MDone.
Proof.
  simpl. exists (mkG nat L_CLOSING [MDone; CHeld; MIdle]). split.
  - exists (mkG nat L_ACTIVE [MIdle; CIdle; MIdle]), [LTau; LTau; LWrite 0; LTau; LTau; LTau]. split.
    + intros i p H. destruct i as [|[|[|i]]]; simpl in H; inversion H; auto. destruct i; discriminate.
    + eapply gs_cons. { apply (st_acquire_shared _ _ _ _ _ 0); reflexivity. }
      eapply gs_cons. { apply (st_check_pass _ _ _ _ _ 0); reflexivity. }
      eapply gs_cons. { apply (st_work _ _ _ _ _ 0); reflexivity. }
      eapply gs_cons. { apply (st_publish _ _ _ _ _ 1 L_CLOSING); [reflexivity|].
                        left. exists (mkEdge "close" KCas [0] 1). split; [vm_compute; auto|split; simpl; auto]. }
      eapply gs_cons. { apply (st_release _ _ _ _ _ 0); reflexivity. }
      eapply gs_cons. { apply (st_acquire_excl _ _ _ _ _ 1); reflexivity. }
      apply gs_nil.
  - split; [exists 1, CHeld; split; reflexivity|split; reflexivity].
Qed.
