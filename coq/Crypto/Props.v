(* C09 — pinned statements only.  Each is closed by [exact] of a lemma proved in
   Crypto/{Proofs,Integrity,WriteSide}.v (or is a closed computation over the generated facts)
   and followed by Print Assumptions. *)
From Coq Require Import String.
From Coq Require Import List NArith Bool.
From Coq.Strings Require Import Byte.
From Verif Require Import Crypto.Model Crypto.Proofs Crypto.Integrity Crypto.WriteSide Crypto.Run.
From Verif Require gen.Gen_Crypto.
Import ListNotations.
Close Scope string_scope.
Open Scope N_scope.

(* ---------------------------------------------------------------- (T) the source as it is now *)
(* the statements of fn metadata_auth_aad, extracted from the source on this run, are the layout the
   model encoder interprets *)
Theorem C09_aad_layout_matches_source : Gen_Crypto.aad_layout = Model.aad_layout.
Proof. reflexivity. Qed.
Print Assumptions C09_aad_layout_matches_source.

(* every Metadata field a read path consults (verify, get, get_ranges, stream, copy, listing), and in
   fact every field of the struct, is covered by the seal: it is in the AAD, or it is the AEAD nonce /
   tag of the seal itself *)
Theorem C09_read_fields_authenticated :
  covered Gen_Crypto.aad_layout Gen_Crypto.read_fields = true /\
  covered Gen_Crypto.aad_layout Gen_Crypto.meta_field_tags = true /\
  length Gen_Crypto.meta_fields = 12%nat.
Proof. vm_compute. auto. Qed.
Print Assumptions C09_read_fields_authenticated.

(* every read / list / copy entry point authenticates the document, and does so before it touches
   the payload; the span length check of get_ranges is present; the downgrade rule tests exactly the
   chunk-AAD version and the generation pointer *)
Theorem C09_verify_sites_match_source :
  forallb snd Gen_Crypto.verify_sites = true /\ length Gen_Crypto.verify_sites = 5%nat /\
  Gen_Crypto.get_verifies_before_fetch = true /\ Gen_Crypto.get_ranges_verifies_before_fetch = true /\
  Gen_Crypto.get_ranges_checks_span_length = true /\
  Gen_Crypto.stripped_rule_fields = [F_av; F_gen] /\
  Gen_Crypto.CHUNK_AAD_LEGACY = Model.CHUNK_AAD_LEGACY /\ Gen_Crypto.CHUNK_AAD_BOUND = Model.CHUNK_AAD_BOUND.
Proof. vm_compute. repeat split; reflexivity. Qed.
Print Assumptions C09_verify_sites_match_source.


(* every place where a read, list or copy path obtains a metadata document for use — including the
   refresh after a stale pointer, judged per loop iteration — hands it to the authenticating callback
   before anything else touches it (a refreshed document whose value is dropped is only ever seen
   again through the verifying loop head) *)
Theorem C09_every_acquisition_authenticated :
  forallb (fun x => snd x) Gen_Crypto.acquisition_sites = true /\
  length Gen_Crypto.acquisition_sites = 8%nat /\
  map (fun x => fst (fst (fst (fst x)))) Gen_Crypto.acquisition_sites =
    ["get_opts"; "get_opts"; "get_ranges"; "get_ranges"; "verified_metadata"; "copy_payload"; "copy_payload"; "listing_entry"]%string.
Proof. vm_compute. repeat split; reflexivity. Qed.
Print Assumptions C09_every_acquisition_authenticated.

(* nonce derivation and chunk AAD parameters of the source are the ones modelled *)
Theorem C09_nonce_and_chunk_aad_match_source :
  Gen_Crypto.nonce_ctr_range = (4, 12) /\ Gen_Crypto.nonce_ctr_le = true /\
  Gen_Crypto.nonce_ctr_wrapping_add_idx = true /\
  Gen_Crypto.put_uses_enumerate_index = true /\ Gen_Crypto.put_base_nonce_random = true /\
  lit Gen_Crypto.chunk_domain_str = Model.chunk_domain /\
  Gen_Crypto.chunk_aad_order = ["chunk_size"%string; "chunk_index"%string].
Proof. vm_compute. repeat split; reflexivity. Qed.
Print Assumptions C09_nonce_and_chunk_aad_match_source.

(* ---------------------------------------------------------------- (1) the AAD is injective *)
(* the encoder for the *current* layout has a decoder ... *)
Theorem C09_aad_decodable :
  forall loc m, lenN loc < two64 -> wf_meta m ->
    decode_aad (encode_layout Gen_Crypto.aad_layout loc m) = Some (auth_view loc m).
Proof. exact decode_encode_aad. Qed.
Print Assumptions C09_aad_decodable.

(* ... hence two (path, document) pairs with the same AAD agree on the path and on every
   authenticated field (all integers in their Rust ranges, all lengths below 2^64) *)
Theorem C09_aad_injective :
  forall loc m loc' m', lenN loc < two64 -> wf_meta m -> lenN loc' < two64 -> wf_meta m' ->
    encode_layout Gen_Crypto.aad_layout loc m = encode_layout Gen_Crypto.aad_layout loc' m' ->
    auth_view loc m = auth_view loc' m'.
Proof. exact metadata_auth_aad_injective. Qed.
Print Assumptions C09_aad_injective.

(* chunk AAD binds chunk size and index, and can never be confused with a metadata AAD *)
Theorem C09_chunk_aad_injective :
  forall cs i cs' i', cs < two64 -> i < two64 -> cs' < two64 -> i' < two64 ->
    chunk_aad cs i = chunk_aad cs' i' -> cs = cs' /\ i = i'.
Proof. exact chunk_aad_injective. Qed.
Print Assumptions C09_chunk_aad_injective.

Theorem C09_domain_separation :
  forall cs idx loc m, chunk_aad cs idx <> metadata_auth_aad loc m /\ chunk_aad cs idx <> [] /\ metadata_auth_aad loc m <> [].
Proof. intros. repeat split. apply chunk_meta_aad_distinct. apply chunk_aad_nonempty. apply metadata_aad_nonempty. Qed.
Print Assumptions C09_domain_separation.

(* ---------------------------------------------------------------- (2) nonces *)
Theorem C09_nonce_injective :
  forall base i j, i < two64 -> j < two64 -> derive_gcm_nonce base i = derive_gcm_nonce base j -> i = j.
Proof. exact derive_gcm_nonce_injective. Qed.
Print Assumptions C09_nonce_injective.

(* the chunk nonces of one object (any number of chunks up to 2^64, wrap-around included) are
   pairwise distinct, and they are exactly the nonces put_opts passes to the cipher *)
Theorem C09_chunk_nonces_distinct :
  forall base n, N.of_nat n <= two64 -> NoDup (map (derive_gcm_nonce base) (Nseq 0 n)).
Proof. exact chunk_nonces_distinct. Qed.
Print Assumptions C09_chunk_nonces_distinct.

Theorem C09_put_uses_distinct_nonces :
  forall base cs pt, lenN (chunks_of cs pt) <= two64 ->
    NoDup (map (fun x => fst (fst x)) (seal_calls base cs 0 (chunks_of cs pt))).
Proof. exact put_chunk_nonces_distinct. Qed.
Print Assumptions C09_put_uses_distinct_nonces.

Example C09_nonce_wraps_nonvacuous :
  let base := [x01; x02; x03; x04; xff; xff; xff; xff; xff; xff; xff; xff] in
  derive_gcm_nonce base 1 = [x01; x02; x03; x04; x00; x00; x00; x00; x00; x00; x00; x00] /\
  derive_gcm_nonce base 2 <> derive_gcm_nonce base 1.
Proof. vm_compute. split; [reflexivity | discriminate]. Qed.

(* ---------------------------------------------------------------- (3) read integrity *)
(* Adversarial backend: the decoded document [m] and every answer of the backend ([fetch]) are
   arbitrary.  Premises (ideal AEAD, Section hypotheses made explicit here): [open] succeeds only on
   tuples honest writers sealed, and no nonce sealed two different plaintexts. *)
Theorem C09_get_integrity :
  forall (open : bytes -> bytes -> bytes -> bytes -> option bytes) (H : list hcommit),
    (forall h, In h H -> honest_wf h) ->
    (forall n a c t p, open n a c t = Some p -> honest_seal H n a p c t) ->
    (forall n a p c t a' p' c' t', honest_seal H n a p c t -> honest_seal H n a' p' c' t' -> p = p') ->
    forall strict store_cs loc m fetch range out sz et lm,
      wf_meta m -> lenN loc < two64 ->
      get_opts open strict store_cs loc m fetch range false = GOk out sz et lm ->
      (exists h s e, In h H /\ h_loc h = loc /\ resolve range (lenN (h_pt h)) = Some (s, e) /\
                     out = takeN (e - s) (dropN s (h_pt h)) /\ lenN out = e - s /\
                     sz = lenN (h_pt h) /\ et = m_etag (h_meta h) /\ lm = logical_last_modified (h_meta h))
      \/ (strict = false /\ m_an m = None /\ m_at m = None /\ out = []).
Proof. exact get_integrity. Qed.
Print Assumptions C09_get_integrity.

Theorem C09_get_integrity_strict :
  forall (open : bytes -> bytes -> bytes -> bytes -> option bytes) (H : list hcommit),
    (forall h, In h H -> honest_wf h) ->
    (forall n a c t p, open n a c t = Some p -> honest_seal H n a p c t) ->
    (forall n a p c t a' p' c' t', honest_seal H n a p c t -> honest_seal H n a' p' c' t' -> p = p') ->
    forall store_cs loc m fetch range out sz et lm,
      wf_meta m -> lenN loc < two64 ->
      get_opts open true store_cs loc m fetch range false = GOk out sz et lm ->
      exists h s e, In h H /\ h_loc h = loc /\ resolve range (lenN (h_pt h)) = Some (s, e) /\
                    out = takeN (e - s) (dropN s (h_pt h)) /\ sz = lenN (h_pt h) /\ et = m_etag (h_meta h).
Proof. exact get_integrity_strict. Qed.
Print Assumptions C09_get_integrity_strict.

Theorem C09_head_integrity :
  forall (open : bytes -> bytes -> bytes -> bytes -> option bytes) (H : list hcommit),
    (forall h, In h H -> honest_wf h) ->
    (forall n a c t p, open n a c t = Some p -> honest_seal H n a p c t) ->
    forall strict store_cs loc m fetch sz et lm,
      wf_meta m -> lenN loc < two64 ->
      head open strict store_cs loc m fetch = MOk sz et lm ->
      (exists h, In h H /\ h_loc h = loc /\ sz = lenN (h_pt h) /\ et = m_etag (h_meta h) /\
                 lm = logical_last_modified (h_meta h))
      \/ (strict = false /\ m_an m = None /\ m_at m = None).
Proof. exact head_integrity. Qed.
Print Assumptions C09_head_integrity.

Theorem C09_list_integrity :
  forall (open : bytes -> bytes -> bytes -> bytes -> option bytes) (H : list hcommit),
    (forall h, In h H -> honest_wf h) ->
    (forall n a c t p, open n a c t = Some p -> honest_seal H n a p c t) ->
    forall strict loc d sz et lm,
      (forall m, d = DDoc m -> wf_meta m) -> lenN loc < two64 ->
      listing_entry open strict loc d = MOk sz et lm ->
      exists m, d = DDoc m /\
        ((exists h, In h H /\ h_loc h = loc /\ sz = lenN (h_pt h) /\ et = m_etag (h_meta h) /\
                    lm = logical_last_modified (h_meta h))
         \/ (strict = false /\ m_an m = None /\ m_at m = None)).
Proof. exact list_integrity. Qed.
Print Assumptions C09_list_integrity.

(* the downgrade rule: a document without seal that still names a generation or a chunk-AAD version,
   or that carries only half of the seal, is rejected in both modes *)
Theorem C09_stripped_fields_rejected :
  forall open strict loc m,
    (m_an m = None /\ m_at m = None /\ (m_av m <> None \/ m_gen m <> None)) \/
    (m_an m = None /\ m_at m <> None) \/ (m_an m <> None /\ m_at m = None) ->
    verify_metadata open strict loc m = VErr.
Proof.
  intros open strict loc m [(A & B & C) | D].
  - now apply stripped_rejected.
  - now apply half_stripped_rejected.
Qed.
Print Assumptions C09_stripped_fields_rejected.

(* the compatibility-mode window, stated as what it is: an unauthenticated legacy document is
   accepted by the listing with whatever size it claims (faithful to the code; documented there) *)
Theorem C09_compat_legacy_listing_refuted :
  exists open loc m, m_an m = None /\ m_at m = None /\
    listing_entry open false loc (DDoc m) = MOk 12345 None LFallback.
Proof.
  exists (fun _ _ _ _ => None), [], (mkMeta 12345 None None None [] [] None None None None None None).
  vm_compute. auto.
Qed.
Print Assumptions C09_compat_legacy_listing_refuted.

(* get_ranges (cached span reuse included): Ok only with exactly the requested slices of a plaintext
   honestly committed under that path; a legacy document can satisfy no range at all *)
Theorem C09_get_ranges_integrity :
  forall (open : bytes -> bytes -> bytes -> bytes -> option bytes) (H : list hcommit),
    (forall h, In h H -> honest_wf h) ->
    (forall n a c t p, open n a c t = Some p -> honest_seal H n a p c t) ->
    (forall n a p c t a' p' c' t', honest_seal H n a p c t -> honest_seal H n a' p' c' t' -> p = p') ->
    forall strict store_cs loc m fetch rs outs,
      wf_meta m -> lenN loc < two64 -> 0 < store_cs ->
      get_ranges open strict store_cs loc m fetch rs = Some outs ->
      rs = [] \/
      exists h, In h H /\ h_loc h = loc /\
        Forall (fun r => fst r < snd r /\ snd r <= lenN (h_pt h)) rs /\
        outs = map (fun r => takeN (snd r - fst r) (dropN (fst r) (h_pt h))) rs.
Proof. exact get_ranges_integrity. Qed.
Print Assumptions C09_get_ranges_integrity.

(* copy / rename as read paths of the source, for a handle whose metadata cache holds an arbitrary
   document and a backend that holds an arbitrary document: the document that is resealed for the
   target passed verify_metadata in the iteration that used it, hence is an honest document of the
   source path (or, compat mode, an unauthenticated legacy one) ... *)
Theorem C09_copy_source_integrity :
  forall (open : bytes -> bytes -> bytes -> bytes -> option bytes) (H : list hcommit),
    (forall h, In h H -> honest_wf h) ->
    (forall n a c t p, open n a c t = Some p -> honest_seal H n a p c t) ->
    forall strict loc cached backend has_payload m,
      (forall m', cached = DDoc m' -> wf_meta m') -> (forall m', backend = DDoc m' -> wf_meta m') ->
      lenN loc < two64 ->
      copy_source open strict loc cached backend has_payload = Some m ->
      has_payload m = true /\
      ((exists h, In h H /\ auth_view loc m = auth_view (h_loc h) (h_meta h))
       \/ (strict = false /\ m_an m = None /\ m_at m = None /\ m_av m = None /\ m_gen m = None)).
Proof. exact copy_source_integrity. Qed.
Print Assumptions C09_copy_source_integrity.

(* ... and the target document built from it is an honest commit of the same plaintext that adds no
   chunk seal (same nonce, tags, chunk size), so all read theorems apply to the target *)
Theorem C09_copy_commit_honest :
  forall seal loc m h to an gen etag ms,
    honest_wf h -> auth_view loc m = auth_view (h_loc h) (h_meta h) ->
    lenN to < two64 -> lenN etag < two64 -> lenN gen < two64 -> ms < two64 ->
    let m' := copy_meta seal m to an gen etag ms CHUNK_AAD_BOUND in
    honest_wf (mkCommit to m' (h_pt h) (h_cts h)) /\
    m_nonce m' = m_nonce (h_meta h) /\ m_tags m' = m_tags (h_meta h) /\ m_cs m' = m_cs (h_meta h) /\
    m_size m' = lenN (h_pt h) /\ m_gen m' = Some gen /\ m_an m' = Some an.
Proof. exact copy_commit_honest. Qed.
Print Assumptions C09_copy_commit_honest.

(* ---------------------------------------------------------------- (4) no plaintext at rest *)
(* what put_opts hands to the backend is the concatenation of the ciphertext chunks and a document
   whose fields are the length, a hash of nonce||ciphertext, the nonce, the tags, constants and the
   seal; two plaintexts of the same length with the same sealed chunks produce identical writes *)
Theorem C09_no_plaintext_shape :
  forall seal hash loc pt base an gen ms cs,
    let sealed := seal_chunks seal base cs 0 (chunks_of cs pt) in
    let '(obj, m) := put_opts seal hash loc pt base an gen ms cs in
    obj = concat (map fst sealed) /\
    m_size m = lenN pt /\ m_etag m = Some (hash (base ++ obj)) /\ m_otag m = None /\ m_over m = None /\
    m_nonce m = base /\ m_tags m = map snd sealed /\ m_cs m = Some cs /\ m_av m = Some CHUNK_AAD_BOUND /\
    m_an m = Some an /\ m_gen m = Some gen /\ m_ms m = Some ms /\
    exists m0, m_at m = Some (snd (seal an (metadata_auth_aad loc m0) [])) /\ auth_view loc m0 = auth_view loc m.
Proof. exact put_writes_shape. Qed.
Print Assumptions C09_no_plaintext_shape.

Theorem C09_no_plaintext_dependence :
  forall seal hash loc pt pt' base an gen ms cs,
    lenN pt = lenN pt' ->
    seal_chunks seal base cs 0 (chunks_of cs pt) = seal_chunks seal base cs 0 (chunks_of cs pt') ->
    put_opts seal hash loc pt base an gen ms cs = put_opts seal hash loc pt' base an gen ms cs.
Proof. exact put_writes_only_sealed. Qed.
Print Assumptions C09_no_plaintext_dependence.

(* ---------------------------------------------------------------- non-vacuity *)
(* a concrete honest object written by the model's put_opts under a toy cipher, read back through
   the model's get_opts with the log-defined ideal AEAD of the runner: ranged read across a chunk
   boundary returns the slice; a swapped chunk pair, a truncated last chunk and a stripped seal fail *)
Definition toy_seal (n a p : bytes) : bytes * bytes := (rev p, firstn 4 (n ++ a ++ p)).
Definition nv_pt : bytes := [x10; x11; x12; x13; x14; x15; x16; x17; x18; x19].
Definition nv_base : bytes := [x01; x02; x03; x04; xfe; xff; xff; xff; xff; xff; xff; xff].
Definition nv_obj := put_opts toy_seal (fun b => firstn 3 b) [x6b] nv_pt nv_base [x0a; x0b] [x67] 7 4.
Definition nv_log : list srec :=
  let m := snd nv_obj in
  mkRec [x0a; x0b] (metadata_auth_aad [x6b] m) [] [] (match m_at m with Some t => t | None => [] end)
  :: chunk_recs nv_base 4 0 (chunks_of 4 nv_pt) (chunks_of 4 (fst nv_obj)) (m_tags m).
Example C09_read_integrity_nonvacuous :
  let m := snd nv_obj in
  let ct := fst nv_obj in
  let opn := open_log nv_log in
  get_opts opn true 4 [x6b] m (inmem_fetch (Some ct)) (Some (Model.RBounded 3 9)) false
    = GOk [x13; x14; x15; x16; x17; x18] 10 (m_etag m) (LMs 7) /\
  get_opts opn true 4 [x6b] m (inmem_fetch (Some (dropN 4 (takeN 8 ct) ++ takeN 4 ct ++ dropN 8 ct))) None false = GErr /\
  get_opts opn true 4 [x6b] m (inmem_fetch (Some (takeN 9 ct))) None false = GErr /\
  get_opts opn true 4 [x6c] m (inmem_fetch (Some ct)) None false = GErr /\
  get_opts opn false 4 [x6b] (mkMeta 10 (m_etag m) None None nv_base (m_tags m) (Some 4) (Some 1) None None (m_gen m) (m_ms m))
           (inmem_fetch (Some ct)) None false = GErr.
Proof. vm_compute. repeat split; reflexivity. Qed.

(* non-vacuity: a stale cached document whose payload is gone and a tampered backend document (size
   8 instead of 10): the copy is refused; with the honest backend document it goes through *)
Example C09_copy_nonvacuous :
  let m := snd nv_obj in
  let opn := open_log nv_log in
  let stale := mkMeta 10 (m_etag m) None None nv_base (m_tags m) (Some 4) (Some 1) (m_an m) (m_at m) (Some [x66]) (m_ms m) in
  let forged := mkMeta 8 (m_etag m) None None nv_base (m_tags m) (Some 4) (Some 1) (m_an m) (m_at m) (m_gen m) (m_ms m) in
  let has (x : meta) := match m_gen x with Some [x67] => true | _ => false end in
  copy_source opn true [x6b] (DDoc m) (DDoc forged) has = Some m /\
  copy_source opn true [x6b] DAbsent (DDoc forged) has = None /\
  copy_source opn true [x6b] DAbsent (DDoc m) has = Some m /\
  copy_source opn true [x6b] (DDoc stale) (DDoc m) has = None.
Proof. vm_compute. repeat split; reflexivity. Qed.

