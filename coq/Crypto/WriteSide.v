(* C09 — the write side: which nonces put_opts uses, and that what it hands to the backend depends
   on the plaintext only through its length and the sealed chunks. *)
From Coq Require Import String.
From Coq Require Import List NArith Bool Lia PeanoNat.
From Coq.Strings Require Import Byte.
From Verif Require Import Crypto.Model Crypto.Proofs.
Import ListNotations.
Close Scope string_scope.
Open Scope N_scope.

Section W.
  Variable seal : bytes -> bytes -> bytes -> bytes * bytes.
  Variable hash : bytes -> bytes.

  (* the (nonce, aad, plaintext) triples the chunk loop passes to the cipher *)
  Fixpoint seal_calls (base : bytes) (cs : N) (i : N) (chs : list bytes) : list (bytes * bytes * bytes) :=
    match chs with
    | [] => []
    | c :: r => (derive_gcm_nonce base i, chunk_aad cs i, c) :: seal_calls base cs (i + 1) r
    end.

  Lemma seal_chunks_calls base cs i chs :
    seal_chunks seal base cs i chs = map (fun x => seal (fst (fst x)) (snd (fst x)) (snd x)) (seal_calls base cs i chs).
  Proof. revert i; induction chs; intros; cbn [seal_chunks seal_calls map fst snd]; auto. now rewrite IHchs. Qed.

  Lemma seal_calls_nonces base cs i chs :
    map (fun x => fst (fst x)) (seal_calls base cs i chs) = map (derive_gcm_nonce base) (Nseq i (length chs)).
  Proof. revert i; induction chs; intros; cbn [seal_calls map fst Nseq length]; auto. now rewrite IHchs. Qed.

  Theorem put_chunk_nonces_distinct base cs pt :
    lenN (chunks_of cs pt) <= two64 ->
    NoDup (map (fun x => fst (fst x)) (seal_calls base cs 0 (chunks_of cs pt))).
  Proof. intros. rewrite seal_calls_nonces. now apply chunk_nonces_distinct. Qed.

  (* every AAD of the chunk loop is a chunk AAD for its own index: never the metadata AAD *)
  Lemma seal_calls_aad base cs i chs x :
    In x (seal_calls base cs i chs) -> exists k, snd (fst x) = chunk_aad cs k.
  Proof.
    revert i; induction chs; intros i Hin; cbn [seal_calls In] in Hin; [tauto|].
    destruct Hin as [<- | Hin]; [now exists i|]. eauto.
  Qed.

  Theorem put_writes_only_sealed loc pt pt' base an gen ms cs :
    lenN pt = lenN pt' ->
    seal_chunks seal base cs 0 (chunks_of cs pt) = seal_chunks seal base cs 0 (chunks_of cs pt') ->
    put_opts seal hash loc pt base an gen ms cs = put_opts seal hash loc pt' base an gen ms cs.
  Proof. intros E1 E2. unfold put_opts. now rewrite E1, E2. Qed.

  (* the payload object is exactly the concatenation of the ciphertext chunks; the document's
     fields are the length, a hash of nonce and ciphertext, the nonce, the tags, constants, and the seal *)
  Theorem put_writes_shape loc pt base an gen ms cs :
    let sealed := seal_chunks seal base cs 0 (chunks_of cs pt) in
    let '(obj, m) := put_opts seal hash loc pt base an gen ms cs in
    obj = concat (map fst sealed) /\
    m_size m = lenN pt /\ m_etag m = Some (hash (base ++ obj)) /\ m_otag m = None /\ m_over m = None /\
    m_nonce m = base /\ m_tags m = map snd sealed /\ m_cs m = Some cs /\ m_av m = Some CHUNK_AAD_BOUND /\
    m_an m = Some an /\ m_gen m = Some gen /\ m_ms m = Some ms /\
    exists m0, m_at m = Some (snd (seal an (metadata_auth_aad loc m0) [])) /\ auth_view loc m0 = auth_view loc m.
  Proof.
    cbv zeta. unfold put_opts, put_writes. cbv beta iota zeta.
    cbn [m_size m_etag m_otag m_over m_nonce m_tags m_cs m_av m_an m_at m_gen m_ms].
    repeat split; auto. eexists. split; reflexivity.
  Qed.
End W.
