(* C09 — runner: the symbolic model instantiated with the ideal AEAD defined by the log of honest
   seals, evaluated by vm_compute on the cases the harness observed on the real store. *)
From Coq Require Import String Ascii.
From Coq Require Import List NArith ZArith Bool.
From Coq.Strings Require Import Byte.
From Verif Require Import Crypto.Model.
Import ListNotations.
Close Scope string_scope.
Open Scope N_scope.

Definition zN (z : Z) : N := Z.to_N z.
(* byte strings arrive from the harness as lower-case hex string literals *)
Definition hexval (c : ascii) : N :=
  let n := N_of_ascii c in
  if (48 <=? n) && (n <=? 57) then n - 48 else if (97 <=? n) && (n <=? 102) then n - 87 else 0.
Fixpoint unhexs (s : string) : bytes :=
  match s with
  | String a (String b r) => byte_of_N (16 * hexval a + hexval b) :: unhexs r
  | _ => []
  end.
Definition hx (s : string) : bytes := unhexs s.
Definition unhex (b : bytes) : bytes := b.
Definition omap {A B} (f : A -> B) (o : option A) : option B := match o with Some x => Some (f x) | None => None end.

Definition mkMetaH (s : Z) (e o v : option bytes) (n : bytes) (t : list bytes) (c av : option Z)
           (an at_ g : option bytes) (ms : option Z) : meta :=
  mkMeta (zN s) (omap unhex e) (omap unhex o) (omap unhex v) (unhex n) (map unhex t) (omap zN c) (omap zN av)
         (omap unhex an) (omap unhex at_) (omap unhex g) (omap zN ms).

(* one honestly sealed document: logical path, document, plaintext, ciphertext object, and the AAD
   bytes under which the real tag verified in the harness *)
Definition hentry := (bytes * meta * bytes * bytes)%type.

Record srec := mkRec { r_nonce : bytes; r_aad : bytes; r_pt : bytes; r_ct : bytes; r_tag : bytes }.

Fixpoint chunk_recs (base : bytes) (cs : N) (i : N) (pts cts tags : list bytes) : list srec :=
  match pts, cts, tags with
  | p :: pr, c :: cr, t :: tr => mkRec (derive_gcm_nonce base i) (chunk_aad cs i) p c t :: chunk_recs base cs (i + 1) pr cr tr
  | _, _, _ => []
  end.
Definition recs_of (h : hentry) : list srec :=
  let '(loc, m, pt, ct) := h in
  let cs := match m_cs m with Some c => c | None => 1 end in
  let chunks := chunk_recs (m_nonce m) cs 0 (chunks_of cs (unhex pt)) (chunks_of cs (unhex ct)) (m_tags m) in
  match m_an m, m_at m with
  | Some an, Some at_ => mkRec an (metadata_auth_aad (unhex loc) m) [] [] at_ :: chunks
  | _, _ => chunks
  end.
Definition log_of (hs : list hentry) : list srec := concat (map recs_of hs).

(* ideal AEAD: opening succeeds iff exactly this (nonce, aad, ct, tag) was produced by an honest seal *)
Definition open_log (L : list srec) (n a c t : bytes) : option bytes :=
  match find (fun r => bytes_eqb (r_nonce r) n && bytes_eqb (r_aad r) a && bytes_eqb (r_ct r) c && bytes_eqb (r_tag r) t) L with
  | Some r => Some (r_pt r)
  | None => None
  end.

(* object_store::memory::InMemory answering the request on the payload object *)
Definition inmem_fetch (payload : option bytes) : fetcher :=
  fun r => match payload with
           | None => None
           | Some d =>
             match r with
             | None => Some d
             | Some (s, e) => if e <=? s then None else if lenN d <=? s then None
                              else Some (takeN (N.min e (lenN d) - s) (dropN s d))
             end
           end.

Inductive zrange := RBounded (s e : Z) | ROffset (o : Z) | RSuffix (n : Z).
Definition to_grange (r : zrange) : grange :=
  match r with RBounded s e => Model.RBounded (zN s) (zN e) | ROffset o => Model.ROffset (zN o) | RSuffix n => Model.RSuffix (zN n) end.
Inductive rop := OGet (r : option zrange) | ORanges (rs : list (Z * Z)) | OHead | OListEntry.
(* the tampered document is given as an honest document (by index into the honest list) plus the
   fields that differ; the payload object as a reference to an honest ciphertext or literally *)
Inductive medit := ESize (z : Z) | EEtag (o : option bytes) | EOtag (o : option bytes) | EOver (o : option bytes)
                 | ENonce (b : bytes) | ETags (t : list bytes) | ECs (o : option Z) | EAv (o : option Z)
                 | EAn (o : option bytes) | EAt (o : option bytes) | EGen (o : option bytes) | EMs (o : option Z).
Definition apply_edit (m : meta) (e : medit) : meta :=
  let '(mkMeta s et ot ov n t c av an at_ g ms) := m in
  match e with
  | ESize z => mkMeta (zN z) et ot ov n t c av an at_ g ms
  | EEtag o => mkMeta s o ot ov n t c av an at_ g ms
  | EOtag o => mkMeta s et o ov n t c av an at_ g ms
  | EOver o => mkMeta s et ot o n t c av an at_ g ms
  | ENonce b => mkMeta s et ot ov b t c av an at_ g ms
  | ETags t' => mkMeta s et ot ov n t' c av an at_ g ms
  | ECs o => mkMeta s et ot ov n t (omap zN o) av an at_ g ms
  | EAv o => mkMeta s et ot ov n t c (omap zN o) an at_ g ms
  | EAn o => mkMeta s et ot ov n t c av o at_ g ms
  | EAt o => mkMeta s et ot ov n t c av an o g ms
  | EGen o => mkMeta s et ot ov n t c av an at_ o ms
  | EMs o => mkMeta s et ot ov n t c av an at_ g (omap zN o)
  end.
Inductive pref := PNone | PRef (i : Z) | PLit (b : bytes).
Inductive tdoc := TAbsent | TUndecodable | TDoc (i : Z) (edits : list medit) (payload : pref).
Inductive eref := ENone | ERef (i : Z) | ELit (b : bytes).
Inductive obs := OErr | OBytes (data : list bytes) (size : Z) (etag : eref) (lm : Z)
               | OMeta (size : Z) (etag : eref) (lm : Z) | OSkipped.

Definition tcase := (bool * list hentry * Z * bytes * tdoc * rop)%type.

Inductive outcome := XErr | XBytes (data : list bytes) (size : N) (etag : option bytes) (lm : lmod)
                   | XMeta (size : N) (etag : option bytes) (lm : lmod) | XSkipped.

Definition nth_h (hs : list hentry) (i : Z) : option hentry := nth_error hs (Z.to_nat i).
Definition resolve_doc (hs : list hentry) (i : Z) (edits : list medit) : option meta :=
  match nth_h hs i with
  | Some (_, m, _, _) => Some (fold_left apply_edit edits m)
  | None => None
  end.
Definition resolve_payload (hs : list hentry) (p : pref) : option bytes :=
  match p with
  | PNone => None
  | PLit b => Some b
  | PRef i => match nth_h hs i with Some (_, _, _, ct) => Some ct | None => None end
  end.

Definition run_case (c : tcase) : outcome :=
  let '(strict, hs, cs, loc, td, op) := c in
  let opn := open_log (log_of hs) in
  let cs := zN cs in
  match op with
  | OListEntry =>
    match listing_entry opn strict loc
            (match td with
             | TAbsent => DAbsent | TUndecodable => DUndecodable
             | TDoc i ed _ => match resolve_doc hs i ed with Some m => DDoc m | None => DUndecodable end
             end) with
    | MOk s e l => XMeta s e l | MErr => XErr | MSkipped => XSkipped end
  | _ =>
    match td with
    | TAbsent | TUndecodable => XErr
    | TDoc i ed payload =>
      match resolve_doc hs i ed with
      | None => XErr
      | Some m =>
        let fetch := inmem_fetch (resolve_payload hs payload) in
        match op with
        | OGet r => match get_opts opn strict cs loc m fetch (omap to_grange r) false with
                    | GOk d s e l => XBytes [d] s e l | GErr => XErr end
        | ORanges rs => match get_ranges opn strict cs loc m fetch (map (fun p => (zN (fst p), zN (snd p))) rs) with
                        | Some l => XBytes l 0 None LFallback | None => XErr end
        | OHead => match head opn strict cs loc m fetch with MOk s e l => XMeta s e l | MErr => XErr | MSkipped => XSkipped end
        | OListEntry => XErr
        end
      end
    end
  end.

Fixpoint lbytes_eqb (a b : list bytes) : bool :=
  match a, b with
  | [], [] => true
  | x :: a', y :: b' => bytes_eqb x y && lbytes_eqb a' b'
  | _, _ => false
  end.
Definition obytes_eqb (a b : option bytes) : bool :=
  match a, b with Some x, Some y => bytes_eqb x y | None, None => true | _, _ => false end.
Definition lm_ok (l : lmod) (z : Z) : bool := match l with LMs ms => (ms =? zN z) | LFallback => true end.

Definition is_get (op : rop) : bool := match op with OGet _ => true | _ => false end.

Definition etag_ok (hs : list hentry) (e : option bytes) (r : eref) : bool :=
  match r with
  | ENone => match e with None => true | Some _ => false end
  | ELit b => obytes_eqb e (Some b)
  | ERef i => match nth_h hs i with Some (_, m, _, _) => obytes_eqb e (m_etag m) | None => false end
  end.

Definition check_case (co : tcase * obs) : bool :=
  let '(c, o) := co in
  let '(_, hs, _, _, _, op) := c in
  match run_case c, o with
  | XErr, OErr => true
  | XSkipped, OSkipped => true
  | XBytes d s e l, OBytes d' s' e' l' =>
    lbytes_eqb d d' &&
    (if is_get op then (s =? zN s') && etag_ok hs e e' && lm_ok l l' else true)
  | XMeta s e l, OMeta s' e' l' => (s =? zN s') && etag_ok hs e e' && lm_ok l l'
  | _, _ => false
  end.

(* the encoder against the bytes under which the real AES-GCM tag verified, and the decoder on them *)
Definition aview_eqb (a b : aview) : bool :=
  bytes_eqb (v_loc a) (v_loc b) && (v_size a =? v_size b) && obytes_eqb (v_etag a) (v_etag b) &&
  obytes_eqb (v_otag a) (v_otag b) && obytes_eqb (v_over a) (v_over b) && bytes_eqb (v_nonce a) (v_nonce b) &&
  (match v_cs a, v_cs b with Some x, Some y => x =? y | None, None => true | _, _ => false end) &&
  (match v_av a, v_av b with Some x, Some y => x =? y | None, None => true | _, _ => false end) &&
  lbytes_eqb (v_tags a) (v_tags b) && obytes_eqb (v_gen a) (v_gen b) &&
  (match v_ms a, v_ms b with Some x, Some y => x =? y | None, None => true | _, _ => false end).

Definition check_aad (h : hentry * bytes) : bool :=
  let '((loc, m, _, _), aad) := h in
  bytes_eqb (metadata_auth_aad (unhex loc) m) (unhex aad) &&
  match decode_aad (unhex aad) with
  | Some v => aview_eqb v (auth_view (unhex loc) m)
  | None => false
  end.

(* (base nonce, chunk index, derived nonce, chunk size, chunk AAD) as used by the independent AES-GCM *)
Definition check_nonce (c : bytes * Z * bytes * Z * bytes) : bool :=
  let '(base, i, n, cs, aad) := c in
  bytes_eqb (derive_gcm_nonce (unhex base) (zN i)) (unhex n) && bytes_eqb (chunk_aad (zN cs) (zN i)) (unhex aad).

(* ---------------------------------------------------------------- copy / rename through a handle with a cache *)
(* (strict, honest, chunk size, source path, document in the handle's cache, document on the backend);
   each document comes with the payload object it points at (PNone = that object is gone) *)
Definition ccase := (bool * list hentry * Z * bytes * tdoc * tdoc)%type.

Definition nopt (o o' : option N) : bool :=
  match o, o' with Some x, Some y => x =? y | None, None => true | _, _ => false end.
Definition meta_eqb (a b : meta) : bool :=
  (m_size a =? m_size b) && obytes_eqb (m_etag a) (m_etag b) && obytes_eqb (m_otag a) (m_otag b) &&
  obytes_eqb (m_over a) (m_over b) && bytes_eqb (m_nonce a) (m_nonce b) && lbytes_eqb (m_tags a) (m_tags b) &&
  nopt (m_cs a) (m_cs b) && nopt (m_av a) (m_av b) && obytes_eqb (m_an a) (m_an b) && obytes_eqb (m_at a) (m_at b) &&
  obytes_eqb (m_gen a) (m_gen b) && nopt (m_ms a) (m_ms b).

Definition to_docstate (hs : list hentry) (td : tdoc) : docstate * option bytes :=
  match td with
  | TAbsent => (DAbsent, None)
  | TUndecodable => (DUndecodable, None)
  | TDoc i ed p => match resolve_doc hs i ed with
                   | Some m => (DDoc m, resolve_payload hs p)
                   | None => (DUndecodable, None)
                   end
  end.

(* what a fresh handle reads at the target after the copy: the bytes the resealed source document
   decrypts to (same nonce, tags and ciphertext), or an error if the copy was refused *)
Definition run_copy (c : ccase) : outcome :=
  let '(strict, hs, cs, loc, cached, backend) := c in
  let opn := open_log (log_of hs) in
  let '(dc, pc) := to_docstate hs cached in
  let '(db, pb) := to_docstate hs backend in
  let payload_of (m : meta) : option bytes :=
      match dc with
      | DDoc mc => if meta_eqb m mc then pc else pb
      | _ => pb
      end in
  match copy_source opn strict loc dc db (fun m => is_some (payload_of m)) with
  | None => XErr
  | Some m =>
    match get_opts opn strict (zN cs) loc m (inmem_fetch (payload_of m)) None false with
    | GOk d s e l => XBytes [d] s e l
    | GErr => XErr
    end
  end.

Definition check_copy (co : ccase * obs) : bool :=
  let '(c, o) := co in
  match run_copy c, o with
  | XErr, OErr => true
  | XBytes d _ _ _, OBytes d' _ _ _ => lbytes_eqb d d'
  | _, _ => false
  end.
