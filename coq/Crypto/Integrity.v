(* C09 — read integrity over the symbolic model.

   The backend is adversarial: the decoded document [m] and the bytes the backend answers with
   ([fetch]) are arbitrary.  The only assumption is the ideal AEAD (Section hypotheses): an [open]
   succeeds only on a (nonce, aad, ciphertext, tag) tuple an honest seal produced, and no nonce was
   used to seal two different plaintexts.  Conclusion: a read that returns Ok returns the requested
   slice of the plaintext honestly committed under that very path (or, in compatibility mode only,
   an unauthenticated legacy document yields the empty byte string). *)
From Coq Require Import String.
From Coq Require Import List NArith Bool Lia PeanoNat.
From Coq.Strings Require Import Byte.
From Verif Require Import Crypto.Model Crypto.Proofs.
Import ListNotations.
Close Scope string_scope.
Open Scope N_scope.

(* ------------------------------------------------------------------ takeN / dropN toolkit *)
Lemma lenN_takeN {A} n (l : list A) : lenN (takeN n l) = N.min n (lenN l).
Proof. unfold lenN, takeN. rewrite firstn_length. lia. Qed.
Lemma lenN_dropN {A} n (l : list A) : lenN (dropN n l) = lenN l - n.
Proof. unfold lenN, dropN. rewrite skipn_length. lia. Qed.
Lemma takeN_dropN_id {A} n (l : list A) : takeN n l ++ dropN n l = l.
Proof. apply firstn_skipn. Qed.
Lemma dropN_0 {A} (l : list A) : dropN 0 l = l.
Proof. reflexivity. Qed.
Lemma dropN_all {A} n (l : list A) : lenN l <= n -> dropN n l = [].
Proof. unfold lenN, dropN. intros. apply skipn_all2. lia. Qed.
Lemma takeN_all {A} n (l : list A) : lenN l <= n -> takeN n l = l.
Proof. unfold lenN, takeN. intros. apply firstn_all2. lia. Qed.
Lemma skipn_skipn' {A} x y (l : list A) : skipn x (skipn y l) = skipn (y + x) l.
Proof.
  revert l; induction y; intros l; cbn [skipn plus]; auto.
  destruct l; [now rewrite skipn_nil|]. apply IHy.
Qed.
Lemma dropN_dropN {A} x y (l : list A) : dropN x (dropN y l) = dropN (x + y) l.
Proof. unfold dropN. rewrite skipn_skipn'. f_equal. lia. Qed.
Lemma takeN_dropN_comm {A} m n (l : list A) : takeN m (dropN n l) = dropN n (takeN (n + m) l).
Proof. unfold takeN, dropN. rewrite firstn_skipn_comm. do 2 f_equal. lia. Qed.
Lemma takeN_takeN {A} a b (l : list A) : a <= b -> takeN a (takeN b l) = takeN a l.
Proof. unfold takeN. intros. rewrite firstn_firstn. f_equal. lia. Qed.
Lemma dropN_app {A} n (l1 l2 : list A) : dropN n (l1 ++ l2) = dropN n l1 ++ dropN (n - lenN l1) l2.
Proof. unfold dropN, lenN. rewrite skipn_app. do 2 f_equal. lia. Qed.
Lemma takeN_app_exact {A} (x y : list A) : takeN (lenN x) (x ++ y) = x.
Proof.
  unfold takeN, lenN. rewrite Nat2N.id, firstn_app, firstn_all, Nat.sub_diag, firstn_O. apply app_nil_r.
Qed.
Lemma dropN_nil {A} n : dropN n (@nil A) = [].
Proof. unfold dropN. apply skipn_nil. Qed.

Definition is_prefix {A} (x l : list A) : Prop := exists y, l = x ++ y.
Lemma prefix_take {A} (x l : list A) : is_prefix x l -> x = takeN (lenN x) l.
Proof. intros [y ->]. now rewrite takeN_app_exact. Qed.
Lemma prefix_trans {A} (x y l : list A) : is_prefix x y -> is_prefix y l -> is_prefix x l.
Proof. intros [a ->] [b ->]. exists (a ++ b). now rewrite app_assoc. Qed.
Lemma prefix_app {A} (o x y : list A) : is_prefix x y -> is_prefix (o ++ x) (o ++ y).
Proof. intros [a ->]. exists a. now rewrite app_assoc. Qed.
Lemma takeN_prefix {A} n (l : list A) : is_prefix (takeN n l) l.
Proof. exists (dropN n l). symmetry. apply takeN_dropN_id. Qed.

(* the i-th plaintext chunk of an object *)
Definition chunkN (cs : N) (pt : bytes) (i : N) : bytes := takeN cs (dropN (i * cs) pt).

(* ------------------------------------------------------------------ the decryption stream *)
Section StreamCorrect.
  Variables (pt : bytes) (cs start_idx start_offset : N) (dec : N -> bytes -> option bytes).
  Hypothesis cs_pos : 0 < cs.
  Hypothesis off_lt : start_offset < cs.
  Hypothesis dec_ok : forall idx c p, dec idx c = Some p -> p = chunkN cs pt idx.

  Let s0 := start_idx * cs + start_offset.
  Definition pre (K : N) : bytes := dropN s0 (takeN K pt).

  Lemma pre_prefix K : is_prefix (pre K) (dropN s0 pt).
  Proof.
    unfold pre. exists (dropN (s0 - lenN (takeN K pt)) (dropN K pt)).
    rewrite <- dropN_app. now rewrite takeN_dropN_id.
  Qed.

  Lemma pre_start : pre (start_idx * cs) = [].
  Proof. unfold pre. apply dropN_all. rewrite lenN_takeN. unfold s0. lia. Qed.

  Lemma pre_step idx : start_idx <= idx ->
    pre (idx * cs) ++ trim_first start_idx start_offset idx (chunkN cs pt idx) = pre ((idx + 1) * cs).
  Proof.
    intros Hle. unfold trim_first, chunkN.
    destruct (idx =? start_idx) eqn:E.
    - apply N.eqb_eq in E. subst idx. rewrite pre_start. cbn [andb app].
      assert (G : dropN start_offset (takeN cs (dropN (start_idx * cs) pt)) = pre ((start_idx + 1) * cs)).
      { unfold pre. rewrite takeN_dropN_comm, dropN_dropN. unfold s0. f_equal; [lia|]. f_equal. lia. }
      destruct (0 <? start_offset) eqn:E2; auto.
      apply N.ltb_ge in E2. assert (start_offset = 0) by lia. rewrite <- G. rewrite H. reflexivity.
    - apply N.eqb_neq in E. cbn [andb].
      assert (Hs : s0 <= idx * cs) by (unfold s0; nia).
      unfold pre. rewrite takeN_dropN_comm.
      set (A := takeN (idx * cs + cs) pt).
      replace ((idx + 1) * cs) with (idx * cs + cs) by lia. fold A.
      replace (takeN (idx * cs) pt) with (takeN (idx * cs) A) by (unfold A; apply takeN_takeN; lia).
      rewrite <- (takeN_dropN_id (idx * cs) A) at 3.
      rewrite dropN_app. f_equal.
      rewrite lenN_takeN.
      destruct (N.le_gt_cases (idx * cs) (lenN A)).
      + replace (s0 - N.min (idx * cs) (lenN A)) with 0 by lia. reflexivity.
      + rewrite (dropN_all (idx * cs) A) by lia. now rewrite dropN_nil.
  Qed.

  Definition inv (size idx rem : N) (out : bytes) : Prop :=
    start_idx <= idx /\ 0 < rem /\ lenN out + rem = size /\ out = pre (idx * cs).
  Definition good (size : N) (o : bytes) : Prop := is_prefix o (dropN s0 pt) /\ lenN o = size.

  Lemma loop_ok size fuel : forall buf idx rem out,
    inv size idx rem out ->
    match stream_loop dec cs start_idx start_offset fuel buf idx rem out with
    | LDone o => good size o
    | LErr => True
    | LMore _ idx' rem' out' => inv size idx' rem' out'
    end.
  Proof.
    induction fuel; intros buf idx rem out I; cbn [stream_loop]; auto.
    destruct (cs <=? lenN buf); [|exact I].
    destruct (dec idx (takeN cs buf)) as [p|] eqn:D; auto.
    apply dec_ok in D. subst p.
    destruct I as (Hle & Hrem & Hlen & Hout).
    pose proof (pre_step idx Hle) as PS. rewrite <- Hout in PS.
    set (p1 := trim_first start_idx start_offset idx (chunkN cs pt idx)) in *.
    destruct (rem <? lenN p1) eqn:Elt.
    - (* truncated: the request is satisfied *)
      apply N.ltb_lt in Elt.
      assert (L : lenN (takeN rem p1) = rem) by (rewrite lenN_takeN; lia).
      rewrite L. replace (rem - rem =? 0) with true by (symmetry; apply N.eqb_eq; lia).
      split.
      + eapply prefix_trans; [apply prefix_app, takeN_prefix|]. rewrite PS. apply pre_prefix.
      + rewrite lenN_app. lia.
    - apply N.ltb_ge in Elt.
      destruct (rem - lenN p1 =? 0) eqn:Ez.
      + apply N.eqb_eq in Ez. split.
        * rewrite PS. apply pre_prefix.
        * rewrite lenN_app. lia.
      + apply N.eqb_neq in Ez. apply IHfuel. repeat split; try lia.
        * rewrite lenN_app. lia.
        * now rewrite PS.
  Qed.

  Lemma finish_ok size buf idx rem out o :
    inv size idx rem out ->
    stream_finish dec start_idx start_offset buf idx rem out = Some o -> good size o.
  Proof.
    intros (Hle & Hrem & Hlen & Hout) F. unfold stream_finish in F.
    replace (0 <? rem) with true in F by (symmetry; apply N.ltb_lt; lia).
    cbn [andb] in F.
    destruct (0 <? lenN buf); [|discriminate].
    destruct (dec idx buf) as [p|] eqn:D; [|discriminate].
    apply dec_ok in D. subst p.
    destruct ((idx =? start_idx) && (0 <? start_offset) && (lenN (chunkN cs pt idx) <? start_offset)); [discriminate|].
    pose proof (pre_step idx Hle) as PS. rewrite <- Hout in PS.
    set (p1 := trim_first start_idx start_offset idx (chunkN cs pt idx)) in *.
    destruct (lenN p1 <? rem) eqn:E; [discriminate|]. apply N.ltb_ge in E.
    inversion F; subst o. split.
    - eapply prefix_trans; [apply prefix_app, takeN_prefix|]. rewrite PS. apply pre_prefix.
    - rewrite lenN_app, lenN_takeN. lia.
  Qed.

  Theorem stream_ok size data o :
    stream dec cs start_idx start_offset size data = Some o ->
    o = takeN size (dropN s0 pt) /\ lenN o = size.
  Proof.
    unfold stream. destruct (size =? 0) eqn:E0.
    - apply N.eqb_eq in E0. intros F; inversion F; subst. split; reflexivity.
    - apply N.eqb_neq in E0. destruct (cs =? 0); [discriminate|].
      assert (I : inv size start_idx size []).
      { repeat split; try lia. symmetry. apply pre_start. }
      pose proof (loop_ok size (S (length data)) data start_idx size [] I) as L.
      destruct (stream_loop dec cs start_idx start_offset (S (length data)) data start_idx size []) as [o'| |b i r o'];
        intros F.
      + inversion F; subst o'. destruct L as [P Ln]. split; auto. rewrite <- Ln at 1. now apply prefix_take.
      + discriminate.
      + pose proof (finish_ok size b i r o' o L F) as [P Ln]. split; auto. rewrite <- Ln at 1. now apply prefix_take.
  Qed.
End StreamCorrect.

(* a decryptor that never succeeds yields no bytes *)
Lemma stream_dead dec cs si so size data o :
  (forall idx c, dec idx c = None) -> stream dec cs si so size data = Some o -> o = [].
Proof.
  intros Dn. unfold stream. destruct (size =? 0) eqn:E0; [intros F; now inversion F|].
  apply N.eqb_neq in E0.
  destruct (cs =? 0); [discriminate|].
  cbn [stream_loop]. destruct (cs <=? lenN data).
  - rewrite Dn. discriminate.
  - unfold stream_finish. rewrite Dn.
    replace (0 <? size) with true by (symmetry; apply N.ltb_lt; lia). cbn [andb].
    destruct (0 <? lenN data); discriminate.
Qed.

(* ------------------------------------------------------------------ honest commits and the ideal AEAD *)
Record hcommit := mkCommit { h_loc : bytes; h_meta : meta; h_pt : bytes; h_cts : list bytes }.

Record honest_wf (h : hcommit) : Prop := {
  hw_meta : wf_meta (h_meta h);
  hw_loc : lenN (h_loc h) < two64;
  hw_av : m_av (h_meta h) = Some CHUNK_AAD_BOUND;
  hw_cs : exists c, m_cs (h_meta h) = Some c /\ 0 < c < two64;
  hw_size : m_size (h_meta h) = lenN (h_pt h);
  hw_cts : length (h_cts h) = length (m_tags (h_meta h))
}.

Section Integrity.
  Variable open : bytes -> bytes -> bytes -> bytes -> option bytes.
  Variable H : list hcommit.
  Hypothesis H_wf : forall h, In h H -> honest_wf h.

  (* the seals honest writers performed under the key *)
  Definition honest_seal (n a p c t : bytes) : Prop :=
    (exists h, In h H /\ m_an (h_meta h) = Some n /\ m_at (h_meta h) = Some t /\
               a = metadata_auth_aad (h_loc h) (h_meta h) /\ p = [] /\ c = [])
    \/
    (exists h cs i, In h H /\ m_cs (h_meta h) = Some cs /\ i < lenN (m_tags (h_meta h)) /\
               n = derive_gcm_nonce (m_nonce (h_meta h)) i /\ a = chunk_aad cs i /\
               p = chunkN cs (h_pt h) i /\
               nth_error (m_tags (h_meta h)) (N.to_nat i) = Some t /\ nth_error (h_cts h) (N.to_nat i) = Some c).

  (* ideal AEAD (INT-CTXT idealisation) *)
  Hypothesis ideal_aead : forall n a c t p, open n a c t = Some p -> honest_seal n a p c t.
  (* no nonce sealed two different plaintexts under the key *)
  Hypothesis nonce_once : forall n a p c t a' p' c' t',
      honest_seal n a p c t -> honest_seal n a' p' c' t' -> p = p'.

  Lemma verify_auth strict loc m :
    wf_meta m -> lenN loc < two64 ->
    verify_metadata open strict loc m = VAuth ->
    exists h, In h H /\ auth_view loc m = auth_view (h_loc h) (h_meta h).
  Proof.
    intros Wm Wl V. unfold verify_metadata in V.
    destruct (m_an m) as [an|] eqn:Ean, (m_at m) as [at_|] eqn:Eat; try discriminate.
    - destruct (open an (metadata_auth_aad loc m) [] at_) as [p|] eqn:O; [|discriminate].
      apply ideal_aead in O. destruct O as [(h & Hin & _ & _ & Ea & _) | (h & cs & i & _ & _ & _ & _ & Ea & _)].
      + exists h. split; auto. pose proof (H_wf h Hin) as []. now apply metadata_auth_aad_injective.
      + symmetry in Ea. now apply chunk_meta_aad_distinct in Ea.
    - destruct (is_some (m_av m) || is_some (m_gen m)); [discriminate|].
      destruct strict; [discriminate|]. destruct (chunk_aad_version m); discriminate.
  Qed.

  Lemma verify_legacy strict loc m :
    verify_metadata open strict loc m = VLegacy ->
    strict = false /\ m_an m = None /\ m_at m = None /\ m_av m = None /\ m_gen m = None.
  Proof.
    unfold verify_metadata. intros V.
    destruct (m_an m) as [an|], (m_at m) as [at_|]; try discriminate.
    - destruct (open an (metadata_auth_aad loc m) [] at_); [|discriminate].
      destruct (chunk_aad_version m); discriminate.
    - destruct (m_av m), (m_gen m); cbn in V; try discriminate.
      destruct strict; [discriminate|]. auto.
  Qed.

  (* under a legacy document no chunk ever opens: honest seals never use the empty AAD *)
  Lemma legacy_chunks_dead m cs :
    m_an m = None -> m_at m = None -> m_av m = None ->
    forall idx c, open_chunk open m cs idx c = None.
  Proof.
    intros E1 E2 E3 idx c. unfold open_chunk.
    destruct (idx <? lenN (m_tags m)); auto.
    destruct (nth_error (m_tags m) (N.to_nat idx)) as [tag|]; auto.
    unfold chunk_aad_for_meta, chunk_aad_version. rewrite E1, E2, E3. cbn.
    destruct (open (derive_gcm_nonce (m_nonce m) idx) [] c tag) as [p|] eqn:O; auto.
    apply ideal_aead in O. destruct O as [(h & _ & _ & _ & Ea & _) | (h & cs' & i & _ & _ & _ & _ & Ea & _)].
    - symmetry in Ea. now apply metadata_aad_nonempty in Ea.
    - symmetry in Ea. now apply chunk_aad_nonempty in Ea.
  Qed.

  (* under an authenticated document every chunk that opens is the honest chunk of that index *)
  Lemma auth_chunks_honest loc m h store_cs :
    In h H -> auth_view loc m = auth_view (h_loc h) (h_meta h) ->
    exists c, m_cs m = Some c /\ 0 < c < two64 /\ read_chunk_size store_cs m = c /\
      forall idx ct p, open_chunk open m c idx ct = Some p -> p = chunkN c (h_pt h) idx.
  Proof.
    intros Hin V. pose proof (H_wf h Hin) as [Wm Wl Wav [c [Wc Wcb]] Wsz Wct].
    unfold auth_view in V. inversion V as [[El Es Ee Eo Ev En Ec Ea Et Eg Em]].
    exists c. rewrite Ec. repeat split; auto; try lia.
    - unfold read_chunk_size. rewrite Ec, Wc.
      replace (0 <? c) with true by (symmetry; apply N.ltb_lt; lia).
      unfold normalize_chunk_size, u64max. unfold two64 in Wcb. lia.
    - intros idx ct p O. unfold open_chunk in O. rewrite Et in O.
      destruct (idx <? lenN (m_tags (h_meta h))) eqn:Ei; [|discriminate]. apply N.ltb_lt in Ei.
      destruct (nth_error (m_tags (h_meta h)) (N.to_nat idx)) as [tag|] eqn:Etag; [|discriminate].
      unfold chunk_aad_for_meta, chunk_aad_version in O. rewrite Ea, Wav in O. cbn in O.
      rewrite En in O.
      apply ideal_aead in O.
      destruct (nth_error (h_cts h) (N.to_nat idx)) as [ct0|] eqn:Ect.
      + eapply nonce_once; [exact O|].
        right. exists h, c, idx. repeat split; eauto.
      + apply nth_error_None in Ect. unfold lenN in Ei. lia.
  Qed.

  Definition resolve (range : option grange) (len : N) : option (N * N) :=
    match range with Some r => as_range r len | None => Some (0, len) end.

  Lemma resolve_bounds range len s e : resolve range len = Some (s, e) -> s <= e <= len.
  Proof.
    destruct range as [[a b|o|n]|]; cbn; intros R.
    - destruct (b <=? a) eqn:E1; [discriminate|]. destruct (len <=? a) eqn:E2; [discriminate|].
      apply N.leb_gt in E1. apply N.leb_gt in E2.
      destruct (len <? b) eqn:E3; inversion R; subst; [lia|]. apply N.ltb_ge in E3. lia.
    - destruct (len <=? o) eqn:E2; [discriminate|]. apply N.leb_gt in E2. inversion R; subst. lia.
    - inversion R; subst. lia.
    - inversion R; subst. lia.
  Qed.

  (* --------------------------------------------------------------- get / ranged get *)
  Theorem get_integrity strict store_cs loc m fetch range out sz et lm :
    wf_meta m -> lenN loc < two64 ->
    get_opts open strict store_cs loc m fetch range false = GOk out sz et lm ->
    (exists h s e, In h H /\ h_loc h = loc /\ resolve range (lenN (h_pt h)) = Some (s, e) /\
                   out = takeN (e - s) (dropN s (h_pt h)) /\ lenN out = e - s /\
                   sz = lenN (h_pt h) /\ et = m_etag (h_meta h) /\ lm = logical_last_modified (h_meta h))
    \/ (strict = false /\ m_an m = None /\ m_at m = None /\ out = []).
  Proof.
    intros Wm Wl G. unfold get_opts in G.
    destruct (verify_metadata open strict loc m) eqn:V; [| |discriminate].
    - (* authenticated *)
      left. destruct (verify_auth strict loc m Wm Wl V) as (h & Hin & Ev).
      destruct (auth_chunks_honest loc m h store_cs Hin Ev) as (c & Ec & Cb & Rc & Dok).
      pose proof (H_wf h Hin) as [_ _ _ _ Wsz _].
      unfold auth_view in Ev. inversion Ev as [[El Es Ee Eo Ev' En Ec' Ea Et Eg Em]].
      rewrite Rc in G. rewrite Es, Wsz in G.
      fold (resolve range (lenN (h_pt h))) in G.
      destruct (resolve range (lenN (h_pt h))) as [[s e]|] eqn:R; [|discriminate].
      pose proof (resolve_bounds _ _ _ _ R) as Rb.
      cbn [andb] in G. cbv beta iota in G.
      exists h, s, e. split; auto. split; auto. split; auto.
      destruct (s =? e) eqn:Ese.
      + apply N.eqb_eq in Ese. subst e.
        replace (s <? s) with false in G by (symmetry; apply N.ltb_ge; lia).
        destruct (fetch None); [|discriminate].
        replace (s - s) with 0 in * by lia.
        unfold stream in G. cbn in G. injection G as G1 G2 G3 G4; subst out sz et lm.
        repeat split; auto. unfold logical_last_modified. now rewrite Em.
      + apply N.eqb_neq in Ese.
        destruct (fetch (if s / c * c <? N.min (checked_mul_or_max ((e - 1) / c + 1) c) (lenN (h_pt h))
                         then Some (s / c * c, N.min (checked_mul_or_max ((e - 1) / c + 1) c) (lenN (h_pt h)))
                         else None)) as [data|]; [|discriminate].
        destruct (stream (open_chunk open m c) c (s / c * c / c) (s - s / c * c) (e - s) data) as [o|] eqn:St; [|discriminate].
        injection G as G1 G2 G3 G4; subst out sz et lm.
        assert (Hdiv : s / c * c / c = s / c) by (apply N.div_mul; lia).
        assert (Hmod : s / c * c <= s) by (rewrite N.mul_comm; apply N.mul_div_le; lia).
        assert (Hoff : s - s / c * c < c).
        { pose proof (N.div_mod s c ltac:(lia)). pose proof (N.mod_lt s c ltac:(lia)). lia. }
        pose proof (stream_ok (h_pt h) c (s / c * c / c) (s - s / c * c) (open_chunk open m c)
                              ltac:(lia) Hoff Dok (e - s) data o St) as [So Sl].
        replace (s / c * c / c * c + (s - s / c * c)) with s in So by (rewrite Hdiv; lia).
        repeat split; auto. unfold logical_last_modified. now rewrite Em.
    - (* unauthenticated legacy document, compatibility mode only *)
      right. destruct (verify_legacy strict loc m V) as (Hs & E1 & E2 & E3 & E4).
      repeat split; auto.
      destruct (match range with Some r => as_range r (m_size m) | None => Some (0, m_size m) end) as [[s0 e0]|]; [|discriminate].
      cbn [andb] in G. cbv beta iota in G.
      destruct (s0 =? e0); cbv beta iota in G;
        (match type of G with context[fetch ?x] => destruct (fetch x) as [data|]; [|discriminate] end);
        (match type of G with context[stream ?d ?a ?b ?c ?e ?f] => destruct (stream d a b c e f) as [o|] eqn:St; [|discriminate] end);
        injection G as G1 G2 G3 G4; subst out;
        (eapply stream_dead; [|exact St]); apply legacy_chunks_dead; auto.
  Qed.

  (* --------------------------------------------------------------- head and list *)
  Theorem head_integrity strict store_cs loc m fetch sz et lm :
    wf_meta m -> lenN loc < two64 ->
    head open strict store_cs loc m fetch = MOk sz et lm ->
    (exists h, In h H /\ h_loc h = loc /\ sz = lenN (h_pt h) /\ et = m_etag (h_meta h) /\
               lm = logical_last_modified (h_meta h))
    \/ (strict = false /\ m_an m = None /\ m_at m = None).
  Proof.
    intros Wm Wl Hd. unfold head in Hd.
    destruct (get_opts open strict store_cs loc m fetch None true) as [d s e l|] eqn:G; [|discriminate].
    inversion Hd; subst. clear Hd.
    unfold get_opts in G.
    destruct (verify_metadata open strict loc m) eqn:V; [| |discriminate].
    - left. destruct (verify_auth strict loc m Wm Wl V) as (h & Hin & Ev).
      pose proof (H_wf h Hin) as [_ _ _ _ Wsz _].
      unfold auth_view in Ev. inversion Ev as [[El Es Ee Eo Ev' En Ec' Ea Et Eg Em]].
      exists h. split; auto. split; auto.
      cbn in G.
      destruct (fetch None); [|discriminate].
      injection G as G1 G2 G3 G4. subst sz et lm. repeat split; try congruence.
      unfold logical_last_modified. now rewrite Em.
    - right. destruct (verify_legacy strict loc m V) as (Hs & E1 & E2 & _). auto.
  Qed.

  Theorem list_integrity strict loc d sz et lm :
    (forall m, d = DDoc m -> wf_meta m) -> lenN loc < two64 ->
    listing_entry open strict loc d = MOk sz et lm ->
    exists m, d = DDoc m /\
      ((exists h, In h H /\ h_loc h = loc /\ sz = lenN (h_pt h) /\ et = m_etag (h_meta h) /\
                  lm = logical_last_modified (h_meta h))
       \/ (strict = false /\ m_an m = None /\ m_at m = None)).
  Proof.
    intros Wd Wl L. destruct d as [| |m]; cbn in L; try discriminate.
    - destruct strict; discriminate.
    - exists m. split; auto.
      destruct (verify_metadata open strict loc m) eqn:V; [| |discriminate].
      + left. destruct (verify_auth strict loc m (Wd m eq_refl) Wl V) as (h & Hin & Ev).
        pose proof (H_wf h Hin) as [_ _ _ _ Wsz _].
        unfold auth_view in Ev. inversion Ev as [[El Es Ee Eo Ev' En Ec' Ea Et Eg Em]].
        exists h. inversion L; subst. repeat split; auto; try congruence.
        unfold logical_last_modified. now rewrite Em.
      + right. destruct (verify_legacy strict loc m V) as (Hs & E1 & E2 & _). auto.
  Qed.

  (* strict mode: the legacy alternative disappears *)
  Corollary get_integrity_strict store_cs loc m fetch range out sz et lm :
    wf_meta m -> lenN loc < two64 ->
    get_opts open true store_cs loc m fetch range false = GOk out sz et lm ->
    exists h s e, In h H /\ h_loc h = loc /\ resolve range (lenN (h_pt h)) = Some (s, e) /\
                  out = takeN (e - s) (dropN s (h_pt h)) /\ sz = lenN (h_pt h) /\ et = m_etag (h_meta h).
  Proof.
    intros Wm Wl G. destruct (get_integrity true store_cs loc m fetch range out sz et lm Wm Wl G)
      as [(h & s & e & A & B & C & D & _ & E & F & _) | (Hs & _)]; [|discriminate].
    exists h, s, e. auto 10.
  Qed.

  (* the stripped-field downgrade rule: a document that lost its seal but still names a generation
     or a chunk-AAD version is rejected in both modes *)
  Lemma stripped_rejected strict loc m :
    m_an m = None -> m_at m = None -> (m_av m <> None \/ m_gen m <> None) ->
    verify_metadata open strict loc m = VErr.
  Proof.
    intros E1 E2 Hs. unfold verify_metadata. rewrite E1, E2.
    destruct (m_av m), (m_gen m); cbn; auto. destruct Hs; congruence.
  Qed.

  Lemma half_stripped_rejected strict loc m :
    (m_an m = None /\ m_at m <> None) \/ (m_an m <> None /\ m_at m = None) ->
    verify_metadata open strict loc m = VErr.
  Proof.
    unfold verify_metadata. intros [[E1 E2]|[E1 E2]]; destruct (m_an m), (m_at m); congruence.
  Qed.
End Integrity.

(* ------------------------------------------------------------------ get_ranges *)
Lemma span_bounds c s e size :
  0 < c -> s < e -> e <= size -> size < two64 ->
  s / c * c <= s /\ e <= N.min (checked_mul_or_max (N.min ((e - 1) / c + 1) u64max) c) size.
Proof.
  intros Hc Hse Hes Hsz. split.
  - rewrite N.mul_comm. apply N.mul_div_le. lia.
  - assert (He : e <= ((e - 1) / c + 1) * c).
    { pose proof (N.div_mod (e - 1) c ltac:(lia)). pose proof (N.mod_lt (e - 1) c ltac:(lia)). nia. }
    assert (Hq : (e - 1) / c + 1 <= u64max).
    { assert ((e - 1) / c <= e - 1) by (apply N.div_le_upper_bound; nia). unfold u64max, two64 in *. lia. }
    rewrite (N.min_l _ _ Hq).
    unfold checked_mul_or_max. destruct (two64 <=? ((e - 1) / c + 1) * c); unfold u64max, two64 in *; lia.
Qed.

Section SpanCorrect.
  Variable open : bytes -> bytes -> bytes -> bytes -> option bytes.
  Variables (m : meta) (pt : bytes) (c : N).
  Hypothesis c_pos : 0 < c.
  Hypothesis Dok : forall idx ct p, open_chunk open m c idx ct = Some p -> p = chunkN c pt idx.

  Lemma chunk_glue idx K :
    (idx + 1) * c <= K ->
    chunkN c pt idx ++ dropN ((idx + 1) * c) (takeN K pt) = dropN (idx * c) (takeN K pt).
  Proof.
    intros HK. unfold chunkN. rewrite takeN_dropN_comm.
    set (A := takeN K pt).
    replace (takeN (idx * c + c) pt) with (takeN ((idx + 1) * c) A)
      by (unfold A; rewrite takeN_takeN by lia; f_equal; lia).
    rewrite <- (takeN_dropN_id ((idx + 1) * c) A) at 3.
    rewrite dropN_app. f_equal. rewrite lenN_takeN.
    destruct (N.le_gt_cases ((idx + 1) * c) (lenN A)).
    - replace (idx * c - N.min ((idx + 1) * c) (lenN A)) with 0 by lia. reflexivity.
    - rewrite (dropN_all ((idx + 1) * c) A) by lia. now rewrite dropN_nil.
  Qed.

  Lemma span_ok fuel : forall idx data out,
    decrypt_span open fuel m c idx data = Some out ->
    exists k, out = dropN (idx * c) (takeN ((idx + k) * c) pt) /\ lenN data <= k * c.
  Proof.
    induction fuel; intros idx data out D; cbn [decrypt_span] in D; [discriminate|].
    destruct data as [|b data'].
    - inversion D; subst. exists 0. split; [|unfold lenN; cbn; lia].
      symmetry. apply dropN_all. rewrite lenN_takeN. lia.
    - cbv beta iota zeta in D. set (data := b :: data') in *.
      match type of D with context[open_chunk ?a1 ?a2 ?a3 ?a4 ?a5] => destruct (open_chunk a1 a2 a3 a4 a5) as [p|] eqn:O; [|discriminate] end.
      apply Dok in O. subst p.
      match type of D with context[decrypt_span ?a1 ?a2 ?a3 ?a4 ?a5 ?a6] => destruct (decrypt_span a1 a2 a3 a4 a5 a6) as [ps|] eqn:R; [|discriminate] end.
      inversion D; subst out. apply IHfuel in R. destruct R as (k & -> & Hk).
      exists (k + 1). split.
      + replace ((idx + (k + 1)) * c) with ((idx + 1 + k) * c) by lia.
        apply chunk_glue. lia.
      + destruct (c <=? lenN data) eqn:E.
        * apply N.leb_le in E. rewrite lenN_dropN in Hk. lia.
        * apply N.leb_gt in E. lia.
  Qed.

  Definition want (r : N * N) : bytes := takeN (snd r - fst r) (dropN (fst r) pt).

  Lemma slice_ok cs0 K start end_ :
    cs0 <= start -> start <= end_ -> end_ <= K ->
    takeN (end_ - cs0 - (start - cs0)) (dropN (start - cs0) (dropN cs0 (takeN K pt))) = want (start, end_).
  Proof.
    intros H1 H2 H3. unfold want. cbn [fst snd].
    rewrite dropN_dropN. replace (start - cs0 + cs0) with start by lia.
    replace (end_ - cs0 - (start - cs0)) with (end_ - start) by lia.
    rewrite !takeN_dropN_comm. replace (start + (end_ - start)) with end_ by lia.
    now rewrite takeN_takeN by lia.
  Qed.

  Lemma ranges_ok fetch : m_size m < two64 ->
    forall rs cspan cached outs,
    validate_ranges rs (m_size m) = true ->
    (exists K, cached = dropN (fst cspan) (takeN K pt) /\ snd cspan <= K) ->
    ranges_loop open m c fetch rs cspan cached = Some outs ->
    outs = map want rs.
  Proof.
    intros Hsz. set (size := m_size m) in *.
    induction rs as [|[start end_] rs IH]; intros cspan cached outs V I L; cbn [ranges_loop] in L.
    - now inversion L.
    - cbn [validate_ranges] in V.
      destruct (size <=? start) eqn:V1; [discriminate|]. destruct (end_ <=? start) eqn:V2; [discriminate|].
      destruct (size <? end_) eqn:V3; [discriminate|].
      apply N.leb_gt in V1. apply N.leb_gt in V2. apply N.ltb_ge in V3.
      fold size in L.
      match type of L with (match ?x with _ => _ end = _) => destruct x as [[cspan' cached']|] eqn:Rf; [|discriminate] end.
      assert (I' : (exists K, cached' = dropN (fst cspan') (takeN K pt) /\ snd cspan' <= K) /\ fst cspan' <= start /\ end_ <= snd cspan').
      { destruct (negb ((start <? fst cspan) || (snd cspan <? end_))) eqn:Hit.
        - inversion Rf; subst. split; auto.
          apply negb_true_iff, orb_false_iff in Hit. destruct Hit as [A B].
          apply N.ltb_ge in A. apply N.ltb_ge in B. lia.
        - destruct (fetch (Some (start / c * c, N.min (checked_mul_or_max (N.min ((end_ - 1) / c + 1) u64max) c) size))) as [data|]; [|discriminate].
          destruct (negb (lenN data =? N.min (checked_mul_or_max (N.min ((end_ - 1) / c + 1) u64max) c) size - start / c * c)) eqn:Ln; [discriminate|].
          apply negb_false_iff, N.eqb_eq in Ln.
          destruct (decrypt_span open (S (length data)) m c (start / c) data) as [ptx|] eqn:Ds; [|discriminate].
          inversion Rf; subst. cbn [fst snd].
          apply span_ok in Ds. destruct Ds as (k & -> & Hk).
          destruct (span_bounds c start end_ size c_pos ltac:(lia) V3 Hsz) as [Hs Hx].
          split; [| split; [exact Hs | exact Hx]].
          exists ((start / c + k) * c). split; [reflexivity|]. lia. }
      destruct I' as (I1 & I2 & I3).
      destruct (ranges_loop open m c fetch rs cspan' cached') as [out|] eqn:Rl; [|discriminate].
      inversion L; subst outs. cbn [map]. f_equal.
      + destruct I1 as (K & -> & HK). apply slice_ok; lia.
      + eapply IH; eauto.
  Qed.
End SpanCorrect.

Section RangesIntegrity.
  Variable open : bytes -> bytes -> bytes -> bytes -> option bytes.
  Variable H : list hcommit.
  Hypothesis H_wf : forall h, In h H -> honest_wf h.
  Hypothesis ideal_aead : forall n a c t p, open n a c t = Some p -> honest_seal H n a p c t.
  Hypothesis nonce_once : forall n a p c t a' p' c' t',
      honest_seal H n a p c t -> honest_seal H n a' p' c' t' -> p = p'.

  Lemma legacy_span_dead m cs fuel idx data :
    m_an m = None -> m_at m = None -> m_av m = None -> data <> [] ->
    decrypt_span open (S fuel) m cs idx data = None.
  Proof.
    intros E1 E2 E3 Hd. cbn [decrypt_span]. destruct data; [congruence|].
    now rewrite (legacy_chunks_dead open H ideal_aead m cs E1 E2 E3).
  Qed.

  Lemma get_ranges_cons strict store_cs loc m fetch r rs :
    get_ranges open strict store_cs loc m fetch (r :: rs) =
    match verify_metadata open strict loc m with
    | VErr => None
    | _ => if validate_ranges (r :: rs) (m_size m)
           then ranges_loop open m (read_chunk_size store_cs m) fetch (r :: rs) (0, 0) [] else None
    end.
  Proof. reflexivity. Qed.

  Theorem get_ranges_integrity strict store_cs loc m fetch rs outs :
    wf_meta m -> lenN loc < two64 -> 0 < store_cs ->
    get_ranges open strict store_cs loc m fetch rs = Some outs ->
    rs = [] \/
    exists h, In h H /\ h_loc h = loc /\
      Forall (fun r => fst r < snd r /\ snd r <= lenN (h_pt h)) rs /\
      outs = map (fun r => takeN (snd r - fst r) (dropN (fst r) (h_pt h))) rs.
  Proof.
    intros Wm Wl Hcs G. destruct rs as [|r0 rs0]; [now left|]. right.
    rewrite get_ranges_cons in G. set (rs := r0 :: rs0) in *.
    destruct (verify_metadata open strict loc m) eqn:V; [| |discriminate].
    - destruct (verify_auth open H H_wf ideal_aead strict loc m Wm Wl V) as (h & Hin & Ev).
      destruct (auth_chunks_honest open H H_wf ideal_aead nonce_once loc m h store_cs Hin Ev) as (c & Ec & Cb & Rc & Dok).
      pose proof (H_wf h Hin) as [_ _ _ _ Wsz _].
      assert (Es : m_size m = lenN (h_pt h)) by (unfold auth_view in Ev; inversion Ev; congruence).
      assert (El : loc = h_loc h) by (unfold auth_view in Ev; now inversion Ev).
      rewrite Rc in G.
      destruct (validate_ranges rs (m_size m)) eqn:Vr; [|discriminate].
      exists h. split; auto. split; auto. split.
      + clear G. rewrite Es in Vr. revert Vr. generalize rs. induction rs1 as [|[s e] rs1 IH]; cbn [validate_ranges]; intros Vr; constructor.
        * cbn [fst snd]. destruct (lenN (h_pt h) <=? s) eqn:A; [discriminate|]. destruct (e <=? s) eqn:B; [discriminate|].
          destruct (lenN (h_pt h) <? e) eqn:C; [discriminate|].
          apply N.leb_gt in B. apply N.ltb_ge in C. lia.
        * destruct (lenN (h_pt h) <=? s); [discriminate|]. destruct (e <=? s); [discriminate|].
          destruct (lenN (h_pt h) <? e); [discriminate|]. auto.
      + pose proof (ranges_ok open m (h_pt h) c ltac:(lia) Dok fetch (wf_size m Wm) rs (0, 0) [] outs Vr) as R.
        specialize (R ltac:(exists 0; split; [reflexivity | cbn; lia]) G).
        rewrite R. apply map_ext. intros [s e]. reflexivity.
    - (* legacy: the first range needs a chunk to open, and none does *)
      exfalso. destruct (verify_legacy open strict loc m V) as (Hs & E1 & E2 & E3 & E4).
      destruct (validate_ranges rs (m_size m)) eqn:Vr; [|discriminate].
      unfold rs in G, Vr. destruct r0 as [s e]. cbn [ranges_loop validate_ranges] in G, Vr.
      destruct (m_size m <=? s) eqn:A; [discriminate|]. destruct (e <=? s) eqn:B; [discriminate|].
      destruct (m_size m <? e) eqn:C; [discriminate|].
      apply N.leb_gt in A. apply N.leb_gt in B. apply N.ltb_ge in C.
      cbn [fst snd] in G.
      replace (negb ((s <? 0) || (0 <? e))) with false in G
        by (symmetry; apply negb_false_iff, orb_true_iff; right; apply N.ltb_lt; lia).
      set (cs := read_chunk_size store_cs m) in *.
      match type of G with context[fetch ?x] => destruct (fetch x) as [data|]; [|discriminate] end.
      match type of G with context[negb (lenN data =? ?d)] => destruct (negb (lenN data =? d)) eqn:Ln; [discriminate|];
         apply negb_false_iff, N.eqb_eq in Ln; assert (Hpos : 0 < d) end.
      { assert (cs_pos : 0 < cs).
        { unfold cs, read_chunk_size. destruct (m_cs m) as [c0|]; [|lia].
          destruct (0 <? c0); [unfold normalize_chunk_size; lia | lia]. }
        destruct (span_bounds cs s e (m_size m) cs_pos B C (wf_size m Wm)). lia. }
      rewrite legacy_span_dead in G; auto; try discriminate.
      intros ->. unfold lenN in Ln. cbn in Ln. lia.
  Qed.
End RangesIntegrity.

(* ------------------------------------------------------------------ copy / rename as read paths of the source *)
Section CopyIntegrity.
  Variable open : bytes -> bytes -> bytes -> bytes -> option bytes.
  Variable H : list hcommit.
  Hypothesis H_wf : forall h, In h H -> honest_wf h.
  Hypothesis ideal_aead : forall n a c t p, open n a c t = Some p -> honest_seal H n a p c t.

  (* whatever the handle's cache holds and whatever the backend holds, the document copy_opts reseals
     for the target passed verify_metadata in the loop iteration that used it *)
  Theorem copy_source_integrity strict loc cached backend has_payload m :
    (forall m', cached = DDoc m' -> wf_meta m') -> (forall m', backend = DDoc m' -> wf_meta m') ->
    lenN loc < two64 ->
    copy_source open strict loc cached backend has_payload = Some m ->
    has_payload m = true /\
    ((exists h, In h H /\ auth_view loc m = auth_view (h_loc h) (h_meta h))
     \/ (strict = false /\ m_an m = None /\ m_at m = None /\ m_av m = None /\ m_gen m = None)).
  Proof.
    intros Wc Wb Wl C. unfold copy_source in C.
    assert (K : forall d, (forall m', d = DDoc m' -> wf_meta m') -> forall x,
                d = DDoc x -> verify_metadata open strict loc x <> VErr ->
                ((exists h, In h H /\ auth_view loc x = auth_view (h_loc h) (h_meta h))
                 \/ (strict = false /\ m_an x = None /\ m_at x = None /\ m_av x = None /\ m_gen x = None))).
    { intros d Wd x Ed V. destruct (verify_metadata open strict loc x) eqn:E; [| |congruence].
      - left. eapply verify_auth; eauto.
      - right. now apply (verify_legacy open strict loc x). }
    assert (K2 : forall m2, backend = DDoc m2 ->
               match verify_metadata open strict loc m2 with
               | VErr => None | _ => if has_payload m2 then Some m2 else None end = Some m ->
               has_payload m = true /\
               ((exists h, In h H /\ auth_view loc m = auth_view (h_loc h) (h_meta h))
                \/ (strict = false /\ m_an m = None /\ m_at m = None /\ m_av m = None /\ m_gen m = None))).
    { intros m2 Eb C2. destruct (verify_metadata open strict loc m2) eqn:V2; try discriminate;
        (destruct (has_payload m2) eqn:P2; [|discriminate]); inversion C2; subst m2; split; auto;
        apply (K backend Wb m Eb); congruence. }
    destruct cached as [| |mc].
    - destruct backend as [| |mb]; try discriminate.
      destruct (verify_metadata open strict loc mb) eqn:V; try discriminate;
        (destruct (has_payload mb) eqn:P; [inversion C; subst; split; auto; apply (K (DDoc m) Wb m eq_refl); congruence
                                          | first [discriminate | apply (K2 mb eq_refl); exact C]]).
    - destruct backend as [| |mb]; try discriminate.
      destruct (verify_metadata open strict loc mb) eqn:V; try discriminate;
        (destruct (has_payload mb) eqn:P; [inversion C; subst; split; auto; apply (K (DDoc m) Wb m eq_refl); congruence
                                          | first [discriminate | apply (K2 mb eq_refl); exact C]]).
    - destruct (verify_metadata open strict loc mc) eqn:V; try discriminate;
        (destruct (has_payload mc) eqn:P;
         [inversion C; subst; split; auto; apply (K (DDoc m) Wc m eq_refl); congruence
         | destruct backend as [| |mb]; try discriminate; apply (K2 mb eq_refl); exact C]).
  Qed.

  (* resealing an authenticated source for the target yields an honest commit of the same plaintext
     whose chunk seals are exactly the source's: no new chunk seal, same nonce, tags and chunk size *)
  Theorem copy_commit_honest seal loc m h to an gen etag ms :
    honest_wf h -> auth_view loc m = auth_view (h_loc h) (h_meta h) ->
    lenN to < two64 -> lenN etag < two64 -> lenN gen < two64 -> ms < two64 ->
    let m' := copy_meta seal m to an gen etag ms CHUNK_AAD_BOUND in
    honest_wf (mkCommit to m' (h_pt h) (h_cts h)) /\
    m_nonce m' = m_nonce (h_meta h) /\ m_tags m' = m_tags (h_meta h) /\ m_cs m' = m_cs (h_meta h) /\
    m_size m' = lenN (h_pt h) /\ m_gen m' = Some gen /\ m_an m' = Some an.
  Proof.
    intros [Wm Wl Wav Wcs Wsz Wct] Ev Ht He Hg Hm. cbv zeta.
    unfold auth_view in Ev. inversion Ev as [[El Es Ee Eo Ev' En Ec Ea Et Eg Em]].
    destruct Wm. unfold copy_meta.
    split; [|cbn; repeat split; congruence].
    constructor; cbn [h_meta h_loc h_pt h_cts m_size m_etag m_otag m_over m_nonce m_tags m_cs m_av m_an m_at m_gen m_ms]; auto; try congruence.
    constructor; cbn [m_size m_etag m_otag m_over m_nonce m_tags m_cs m_av m_an m_at m_gen m_ms wf_ob wf_oN]; auto; try congruence.
    all: try (destruct Wcs as (c & Hc & Hb); exists c; split; [congruence | auto]).
    all: try reflexivity.
  Qed.
End CopyIntegrity.
