(* C09 — executable model of rs/anda_object_store/src/encryption.rs (EncryptedStore).
   Cryptography is symbolic: [open]/[seal] are parameters.  Everything else is transcribed from
   the source in its branch order: metadata_auth_aad (byte for byte, through the layout
   interpreter), chunk_aad, derive_gcm_nonce, verify_metadata with the stripped-field rule,
   chunk_aad_version, read_chunk_size, the get_opts range plan, create_decryption_stream,
   get_ranges, head, listing_entry, and the write side of put_opts / copy_opts.  No proofs here. *)
From Coq Require Import String.
From Coq Require Import List NArith Bool.
From Coq.Strings Require Import Byte.
Close Scope string_scope.
Import ListNotations.
Open Scope N_scope.

Definition bytes := list byte.
Definition lit (s : String.string) : bytes := String.list_byte_of_string s.

Definition byte_of_N (n : N) : byte := match Byte.of_N n with Some b => b | None => x00 end.
Definition lenN {A} (l : list A) : N := N.of_nat (length l).
Definition takeN {A} (n : N) (l : list A) : list A := firstn (N.to_nat n) l.
Definition dropN {A} (n : N) (l : list A) : list A := skipn (N.to_nat n) l.

(* x.to_le_bytes() for a k-byte unsigned integer *)
Fixpoint le_bytes (k : nat) (n : N) : bytes :=
  match k with O => [] | S k' => byte_of_N (n mod 256) :: le_bytes k' (n / 256) end.
Fixpoint le_val (bs : bytes) : N :=
  match bs with [] => 0 | b :: r => Byte.to_N b + 256 * le_val r end.
Definition two64 : N := 18446744073709551616.
Definition u64max : N := 18446744073709551615.
Definition u64_le (n : N) : bytes := le_bytes 8 n.

(* ------------------------------------------------------------------ Metadata (encryption.rs:154) *)
Record meta := mkMeta {
  m_size : N;                 (* s  *)
  m_etag : option bytes;      (* e  *)
  m_otag : option bytes;      (* o  *)
  m_over : option bytes;      (* v  *)
  m_nonce : bytes;            (* n  : 12 bytes *)
  m_tags : list bytes;        (* t  : 16 bytes each *)
  m_cs : option N;            (* c  *)
  m_av : option N;            (* av : u8 *)
  m_an : option bytes;        (* an *)
  m_at : option bytes;        (* at *)
  m_gen : option bytes;       (* g  *)
  m_ms : option N             (* m  *)
}.

(* ------------------------------------------------------------------ AAD encoders *)
(* push_bytes / push_opt_str / push_opt_u64 / push_opt_u8 (encryption.rs:1448-1481) *)
Definition push_bytes (v : bytes) : bytes := u64_le (lenN v) ++ v.
Definition push_opt_str (v : option bytes) : bytes :=
  match v with Some s => x01 :: push_bytes s | None => [x00] end.
Definition push_opt_u64 (v : option N) : bytes :=
  match v with Some n => x01 :: u64_le n | None => [x00] end.
Definition push_opt_u8 (v : option N) : bytes :=
  match v with Some n => [x01; byte_of_N n] | None => [x00] end.
Definition push_tags (ts : list bytes) : bytes := u64_le (lenN ts) ++ concat (map push_bytes ts).

(* the statements of metadata_auth_aad, one constructor per statement shape; the list for the
   current source is generated (gen/Gen_Crypto.aad_layout) and must equal [aad_layout] below *)
Inductive field := F_loc | F_size | F_etag | F_otag | F_over | F_nonce | F_cs | F_av | F_tags | F_gen | F_ms
                 | F_an | F_at.
Inductive item :=
| ILit (s : String.string)                       (* aad.extend_from_slice(b"...")                 *)
| IBytes (f : field)                             (* push_bytes(&mut aad, x)                       *)
| IU64 (f : field)                               (* aad.extend_from_slice(&x.to_le_bytes())       *)
| IOptStr (f : field)                            (* push_opt_str                                  *)
| IOptU64 (f : field)                            (* push_opt_u64                                  *)
| IOptU8 (f : field)                             (* push_opt_u8                                   *)
| ITags (f : field)                              (* len as u64, then push_bytes of every tag      *)
| ITailBytes (marker : String.string) (f : field)  (* if let Some(x) = f { lit; push_bytes }       *)
| ITailU64 (marker : String.string) (f : field).   (* if let Some(x) = f { lit; to_le_bytes }      *)

Definition f_bytes (loc : bytes) (m : meta) (f : field) : bytes :=
  match f with F_loc => loc | F_nonce => m_nonce m | _ => [] end.
Definition f_optbytes (m : meta) (f : field) : option bytes :=
  match f with F_etag => m_etag m | F_otag => m_otag m | F_over => m_over m | F_gen => m_gen m
             | F_an => m_an m | F_at => m_at m | _ => None end.
Definition f_optN (m : meta) (f : field) : option N :=
  match f with F_cs => m_cs m | F_av => m_av m | F_ms => m_ms m | _ => None end.

Definition enc_item (loc : bytes) (m : meta) (i : item) : bytes :=
  match i with
  | ILit s => lit s
  | IBytes f => push_bytes (f_bytes loc m f)
  | IU64 f => match f with F_size => u64_le (m_size m) | _ => [] end
  | IOptStr f => push_opt_str (f_optbytes m f)
  | IOptU64 f => push_opt_u64 (f_optN m f)
  | IOptU8 f => push_opt_u8 (f_optN m f)
  | ITags f => match f with F_tags => push_tags (m_tags m) | _ => [] end
  | ITailBytes mk f => match f_optbytes m f with Some v => lit mk ++ push_bytes v | None => [] end
  | ITailU64 mk f => match f_optN m f with Some v => lit mk ++ u64_le v | None => [] end
  end.
Definition encode_layout (l : list item) (loc : bytes) (m : meta) : bytes :=
  concat (map (enc_item loc m) l).

(* metadata_auth_aad (encryption.rs:1379-1406), statement by statement *)
Definition aad_layout : list item :=
  [ ILit "anda_object_store.encrypted.metadata.v1"%string;
    IBytes F_loc; IU64 F_size; IOptStr F_etag; IOptStr F_otag; IOptStr F_over;
    IBytes F_nonce; IOptU64 F_cs; IOptU8 F_av; ITags F_tags;
    ITailBytes ".g"%string F_gen; ITailU64 ".m"%string F_ms ].
Definition metadata_auth_aad (loc : bytes) (m : meta) : bytes := encode_layout aad_layout loc m.

(* chunk_aad (encryption.rs:1439) *)
Definition chunk_domain : bytes := lit "anda_object_store.encrypted.chunk.v1"%string.
Definition chunk_aad (cs idx : N) : bytes := chunk_domain ++ u64_le cs ++ u64_le idx.

(* derive_gcm_nonce (encryption.rs:1501): bytes 0..4 kept, bytes 4..12 = LE(u64(LE bytes 4..12) wrapping_add idx) *)
Definition derive_gcm_nonce (base : bytes) (idx : N) : bytes :=
  firstn 4 base ++ u64_le ((le_val (firstn 8 (skipn 4 base)) + idx) mod two64).

(* what the authentication tag covers: the path and every field the encoder visits *)
Record aview := mkView {
  v_loc : bytes; v_size : N; v_etag : option bytes; v_otag : option bytes; v_over : option bytes;
  v_nonce : bytes; v_cs : option N; v_av : option N; v_tags : list bytes; v_gen : option bytes; v_ms : option N }.
Definition auth_view (loc : bytes) (m : meta) : aview :=
  mkView loc (m_size m) (m_etag m) (m_otag m) (m_over m) (m_nonce m) (m_cs m) (m_av m) (m_tags m) (m_gen m) (m_ms m).

(* ------------------------------------------------------------------ decoder of the AAD encoding *)
Definition parser (A : Type) := bytes -> option (A * bytes).
Definition p_take (n : N) : parser bytes :=
  fun bs => if n <=? lenN bs then Some (takeN n bs, dropN n bs) else None.
Definition p_u64 : parser N :=
  fun bs => match p_take 8 bs with Some (h, r) => Some (le_val h, r) | None => None end.
Definition p_bytes : parser bytes :=
  fun bs => match p_u64 bs with Some (n, r) => p_take n r | None => None end.
Definition p_opt {A} (p : parser A) : parser (option A) :=
  fun bs => match bs with
            | x01 :: r => match p r with Some (v, r') => Some (Some v, r') | None => None end
            | x00 :: r => Some (None, r)
            | _ => None
            end.
Definition p_u8 : parser N :=
  fun bs => match bs with b :: r => Some (Byte.to_N b, r) | [] => None end.
Fixpoint bytes_eqb (a b : bytes) : bool :=
  match a, b with
  | [], [] => true
  | x :: a', y :: b' => Byte.eqb x y && bytes_eqb a' b'
  | _, _ => false
  end.
Definition p_lit (l : bytes) : parser unit :=
  fun bs => match p_take (lenN l) bs with
            | Some (h, r) => if bytes_eqb h l then Some (tt, r) else None
            | None => None end.
Fixpoint p_many {A} (p : parser A) (n : nat) : parser (list A) :=
  fun bs => match n with
            | O => Some ([], bs)
            | S n' => match p bs with
                      | Some (v, r) => match p_many p n' r with Some (vs, r') => Some (v :: vs, r') | None => None end
                      | None => None end
            end.
Definition p_tags : parser (list bytes) :=
  fun bs => match p_u64 bs with
            | Some (n, r) => if n <=? lenN r then p_many p_bytes (N.to_nat n) r else None
            | None => None end.
(* the two conditional trailers *)
Definition p_tail : parser (option bytes * option N) :=
  fun bs =>
    match bs with
    | [] => Some ((None, None), [])
    | _ =>
      match p_lit (lit ".g"%string) bs with
      | Some (_, r) =>
        match p_bytes r with
        | Some (g, r2) =>
          match r2 with
          | [] => Some ((Some g, None), [])
          | _ => match p_lit (lit ".m"%string) r2 with
                 | Some (_, r3) => match p_u64 r3 with Some (ms, r4) => Some ((Some g, Some ms), r4) | None => None end
                 | None => None end
          end
        | None => None end
      | None =>
        match p_lit (lit ".m"%string) bs with
        | Some (_, r) => match p_u64 r with Some (ms, r2) => Some ((None, Some ms), r2) | None => None end
        | None => None end
      end
    end.

Definition bind {A B} (x : option (A * bytes)) (k : A -> bytes -> option B) : option B :=
  match x with Some (a, r) => k a r | None => None end.

Definition decode_aad (bs : bytes) : option aview :=
  bind (p_lit (lit "anda_object_store.encrypted.metadata.v1"%string) bs) (fun _ r =>
  bind (p_bytes r) (fun loc r =>
  bind (p_u64 r) (fun size r =>
  bind (p_opt p_bytes r) (fun etag r =>
  bind (p_opt p_bytes r) (fun otag r =>
  bind (p_opt p_bytes r) (fun over r =>
  bind (p_bytes r) (fun nonce r =>
  bind (p_opt p_u64 r) (fun cs r =>
  bind (p_opt p_u8 r) (fun av r =>
  bind (p_tags r) (fun tags r =>
  bind (p_tail r) (fun gm r =>
  match r with
  | [] => Some (mkView loc size etag otag over nonce cs av tags (fst gm) (snd gm))
  | _ => None
  end))))))))))).

(* ------------------------------------------------------------------ symbolic AEAD interface *)
Section Store.
  (* open nonce aad ct tag ; seal nonce aad pt = (ct, tag) ; the key is fixed *)
  Variable open : bytes -> bytes -> bytes -> bytes -> option bytes.

  Definition is_some {A} (o : option A) : bool := match o with Some _ => true | None => false end.

  (* chunk_aad_version (encryption.rs:1414): None = Err(unsupported) *)
  Definition CHUNK_AAD_LEGACY : N := 0.
  Definition CHUNK_AAD_BOUND : N := 1.
  Definition chunk_aad_version (m : meta) : option N :=
    let v := match m_av m with
             | Some v => v
             | None => if is_some (m_an m) && is_some (m_at m) then CHUNK_AAD_BOUND else CHUNK_AAD_LEGACY
             end in
    if (v =? CHUNK_AAD_LEGACY) || (v =? CHUNK_AAD_BOUND) then Some v else None.

  (* chunk_aad_for_meta (encryption.rs:1431) *)
  Definition chunk_aad_for_meta (m : meta) (cs idx : N) : option bytes :=
    match chunk_aad_version m with
    | Some v => if v =? CHUNK_AAD_LEGACY then Some [] else Some (chunk_aad cs idx)
    | None => None
    end.

  (* verify_metadata (encryption.rs:1309) *)
  Inductive vres := VAuth | VLegacy | VErr.
  Definition verify_metadata (strict : bool) (loc : bytes) (m : meta) : vres :=
    match m_an m, m_at m with
    | Some nonce, Some tag =>
      match open nonce (metadata_auth_aad loc m) [] tag with
      | Some _ => match chunk_aad_version m with Some _ => VAuth | None => VErr end
      | None => VErr
      end
    | None, None =>
      if is_some (m_av m) || is_some (m_gen m) then VErr       (* stripped authentication fields *)
      else if strict then VErr                                   (* legacy rejected in strict mode *)
      else match chunk_aad_version m with Some _ => VLegacy | None => VErr end
    | None, Some _ => VErr
    | Some _, None => VErr
    end.

  (* normalize_chunk_size / read_chunk_size (encryption.rs:422,1274); usize = u64 *)
  Definition normalize_chunk_size (c : N) : N := N.max 1 (N.min c u64max).
  Definition read_chunk_size (store_cs : N) (m : meta) : N :=
    match m_cs m with
    | Some c => if 0 <? c then normalize_chunk_size c else store_cs
    | None => store_cs
    end.

  (* object_store::GetRange::as_range *)
  Inductive grange := RBounded (s e : N) | ROffset (o : N) | RSuffix (n : N).
  Definition as_range (r : grange) (len : N) : option (N * N) :=
    match r with
    | RBounded s e => if e <=? s then None else if len <=? s then None else if len <? e then Some (s, len) else Some (s, e)
    | ROffset o => if len <=? o then None else Some (o, len)
    | RSuffix n => Some (len - n, len)
    end.

  (* logical_last_modified: Some ms when the document carries a commit timestamp; otherwise the
     generation timestamp / backend time (not modelled: LFallback) *)
  Inductive lmod := LMs (ms : N) | LFallback.
  Definition logical_last_modified (m : meta) : lmod :=
    match m_ms m with Some x => LMs x | None => LFallback end.

  (* ---------------------------------------------------------------- create_decryption_stream *)
  (* one chunk: tag lookup, nonce derivation, AAD, open *)
  Definition open_chunk (m : meta) (cs : N) (idx : N) (ct : bytes) : option bytes :=
    if idx <? lenN (m_tags m) then
      match nth_error (m_tags m) (N.to_nat idx) with
      | Some tag =>
        match chunk_aad_for_meta m cs idx with
        | Some aad => open (derive_gcm_nonce (m_nonce m) idx) aad ct tag
        | None => None
        end
      | None => None
      end
    else None.

  Inductive lres := LDone (out : bytes) | LErr | LMore (buf : bytes) (idx rem : N) (out : bytes).

  Section Stream.
    Variable dec : N -> bytes -> option bytes.     (* idx, ciphertext chunk *)
    Variables (cs start_idx start_offset : N).

    Definition trim_first (idx : N) (p : bytes) : bytes :=
      if (idx =? start_idx) && (0 <? start_offset) then dropN start_offset p else p.

    (* the inner `while remaining > 0 && buf.len() >= chunk_size` over the whole payload
       (the result depends only on the concatenation of the pieces the backend delivers) *)
    Fixpoint stream_loop (fuel : nat) (buf : bytes) (idx rem : N) (out : bytes) : lres :=
      match fuel with
      | O => LErr
      | S f =>
        if cs <=? lenN buf then
          match dec idx (takeN cs buf) with
          | None => LErr
          | Some p =>
            let p1 := trim_first idx p in
            let p2 := if rem <? lenN p1 then takeN rem p1 else p1 in
            let rem' := rem - lenN p2 in
            if rem' =? 0 then LDone (out ++ p2)
            else stream_loop f (dropN cs buf) (idx + 1) rem' (out ++ p2)
          end
        else LMore buf idx rem out
      end.

    (* the code after the loop: short trailing chunk, then the truncation checks *)
    Definition stream_finish (buf : bytes) (idx rem : N) (out : bytes) : option bytes :=
      if (0 <? rem) && (0 <? lenN buf) then
        match dec idx buf with
        | None => None
        | Some p =>
          if (idx =? start_idx) && (0 <? start_offset) && (lenN p <? start_offset) then None
          else
            let p1 := trim_first idx p in
            if lenN p1 <? rem then None else Some (out ++ takeN rem p1)
        end
      else if 0 <? rem then None else Some out.

    Definition stream (size : N) (data : bytes) : option bytes :=
      if size =? 0 then Some []
      else if cs =? 0 then None      (* normalize_chunk_size makes this unreachable *)
      else match stream_loop (S (length data)) data start_idx size [] with
           | LDone out => Some out
           | LErr => None
           | LMore buf idx rem out => stream_finish buf idx rem out
           end.
  End Stream.

  (* ---------------------------------------------------------------- get_opts (encryption.rs:618) *)
  (* the backend as seen by one read: the answer to a bounded range request / a whole-object
     request on the payload object the document points at (None = NotFound or range error) *)
  Definition fetcher := option (N * N) -> option bytes.

  Inductive gres := GOk (data : bytes) (size : N) (etag : option bytes) (lm : lmod) | GErr.

  Definition checked_mul_or_max (a b : N) : N := let v := a * b in if two64 <=? v then u64max else v.

  Definition get_opts (strict : bool) (store_cs : N) (loc : bytes) (m : meta)
             (fetch : fetcher) (range : option grange) (head : bool) : gres :=
    match verify_metadata strict loc m with
    | VErr => GErr
    | _ =>
      match (match range with Some r => as_range r (m_size m) | None => Some (0, m_size m) end) with
      | None => GErr
      | Some (s0, e0) =>
        let '(s, e) := if head then (s0, s0) else (s0, e0) in
        let cs := read_chunk_size store_cs m in
        let '(rs, re) := if s =? e then (s, s)
                         else ((s / cs) * cs, N.min (checked_mul_or_max ((e - 1) / cs + 1) cs) (m_size m)) in
        match fetch (if rs <? re then Some (rs, re) else None) with
        | None => GErr
        | Some data =>
          match stream (open_chunk m cs) cs (rs / cs) (s - rs) (e - s) data with
          | Some out => GOk out (m_size m) (m_etag m) (logical_last_modified m)
          | None => GErr
          end
        end
      end
    end.

  (* ---------------------------------------------------------------- get_ranges (encryption.rs:737) *)
  Fixpoint validate_ranges (rs : list (N * N)) (len : N) : bool :=
    match rs with
    | [] => true
    | (s, e) :: r => if len <=? s then false else if e <=? s then false else if len <? e then false
                     else validate_ranges r len
    end.

  (* data.chunks_mut(cs).enumerate(): decrypt every chunk of a span *)
  Fixpoint decrypt_span (fuel : nat) (m : meta) (cs : N) (idx : N) (data : bytes) : option bytes :=
    match fuel with
    | O => None
    | S f =>
      match data with
      | [] => Some []
      | _ =>
        let c := if cs <=? lenN data then takeN cs data else data in
        let rest := if cs <=? lenN data then dropN cs data else [] in
        match open_chunk m cs idx c with
        | Some p => match decrypt_span f m cs (idx + 1) rest with Some ps => Some (p ++ ps) | None => None end
        | None => None
        end
      end
    end.

  Fixpoint ranges_loop (m : meta) (cs : N) (fetch : fetcher) (rs : list (N * N))
           (cspan : N * N) (cached : bytes) : option (list bytes) :=
    match rs with
    | [] => Some []
    | (start, end_) :: rest =>
      let hit := negb ((start <? fst cspan) || (snd cspan <? end_)) in
      let refreshed :=
        if hit then Some (cspan, cached)
        else
          let span_start := (start / cs) * cs in
          let span_end := N.min (checked_mul_or_max (N.min ((end_ - 1) / cs + 1) u64max) cs) (m_size m) in
          match fetch (Some (span_start, span_end)) with
          | None => None
          | Some data =>
            if negb (lenN data =? span_end - span_start) then None
            else match decrypt_span (S (length data)) m cs (start / cs) data with
                 | Some pt => Some ((span_start, span_end), pt)
                 | None => None
                 end
          end in
      match refreshed with
      | None => None
      | Some (cspan', cached') =>
        let s := start - fst cspan' in
        let e := end_ - fst cspan' in
        match ranges_loop m cs fetch rest cspan' cached' with
        | Some out => Some (takeN (e - s) (dropN s cached') :: out)
        | None => None
        end
      end
    end.

  Definition get_ranges (strict : bool) (store_cs : N) (loc : bytes) (m : meta)
             (fetch : fetcher) (rs : list (N * N)) : option (list bytes) :=
    match rs with
    | [] => Some []
    | _ =>
      match verify_metadata strict loc m with
      | VErr => None
      | _ =>
        if validate_ranges rs (m_size m)
        then ranges_loop m (read_chunk_size store_cs m) fetch rs (0, 0) []
        else None
      end
    end.

  (* ---------------------------------------------------------------- head / listing_entry *)
  Inductive mres := MOk (size : N) (etag : option bytes) (lm : lmod) | MErr | MSkipped.

  (* ObjectStoreExt::head = get_opts with head = true, keeping only the ObjectMeta *)
  Definition head (strict : bool) (store_cs : N) (loc : bytes) (m : meta) (fetch : fetcher) : mres :=
    match get_opts strict store_cs loc m fetch None true with
    | GOk _ sz et lm => MOk sz et lm
    | GErr => MErr
    end.

  (* what the backend holds at meta/<loc> as the store sees it *)
  Inductive docstate := DAbsent | DUndecodable | DDoc (m : meta).

  (* sidecar.rs:651 listing_entry with ListingMetaPolicy::verified(strict, verify_metadata) *)
  Definition listing_entry (strict : bool) (loc : bytes) (d : docstate) : mres :=
    match d with
    | DAbsent => MSkipped
    | DUndecodable => if strict then MErr else MSkipped
    | DDoc m => match verify_metadata strict loc m with
                | VErr => MErr
                | _ => MOk (m_size m) (m_etag m) (logical_last_modified m)
                end
    end.
End Store.


(* ------------------------------------------------------------------ copy / rename: the source as a read path *)
Section Copy.
  Variable open : bytes -> bytes -> bytes -> bytes -> option bytes.

  (* SidecarStore::copy_payload (sidecar.rs:746) with EncryptedStore's verify callback.  The handle's
     metadata cache holds an arbitrary document (whatever an earlier load left there; DAbsent = miss),
     the backend holds [backend]; [has_payload m] = the payload object m points at can be copied.
     Loop: get_meta (cache, else load) ; verify ; copy payload ; on NotFound refresh_meta once and start
     over.  Result: the document copy_opts builds the target's sealed document from. *)
  Definition copy_source (strict : bool) (loc : bytes) (cached backend : docstate)
             (has_payload : meta -> bool) : option meta :=
    match (match cached with DDoc m => DDoc m | _ => backend end) with
    | DDoc m =>
      match verify_metadata open strict loc m with
      | VErr => None
      | _ =>
        if has_payload m then Some m
        else match backend with          (* refresh_meta: reload; the loop head fetches and verifies again *)
             | DDoc m2 =>
               match verify_metadata open strict loc m2 with
               | VErr => None
               | _ => if has_payload m2 then Some m2 else None
               end
             | _ => None
             end
      end
    | _ => None
    end.
End Copy.

(* ------------------------------------------------------------------ the write side *)
Section Write.
  Variable seal : bytes -> bytes -> bytes -> bytes * bytes.   (* nonce aad pt -> (ct, tag) *)
  Variable hash : bytes -> bytes.                              (* base64(SHA3-256(.)) *)

  (* data.chunks(cs) *)
  Fixpoint chunks (fuel : nat) (cs : N) (data : bytes) : list bytes :=
    match fuel with
    | O => []
    | S f => match data with
             | [] => []
             | _ => if cs <=? lenN data then takeN cs data :: chunks f cs (dropN cs data) else [data]
             end
    end.
  Definition chunks_of (cs : N) (data : bytes) : list bytes := chunks (length data) cs data.

  (* for (i, chunk) in data.chunks_mut(cs).enumerate(): nonce = derive(base, i); aad = chunk_aad(cs, i) *)
  Fixpoint seal_chunks (base : bytes) (cs : N) (i : N) (chs : list bytes) : list (bytes * bytes) :=
    match chs with
    | [] => []
    | c :: r => seal (derive_gcm_nonce base i) (chunk_aad cs i) c :: seal_chunks base cs (i + 1) r
    end.

  (* everything put_opts / EncryptedStoreUploader::complete hand to the backend, as a function of
     the sealed chunks only: the payload object and the sealed document *)
  Definition put_writes (loc : bytes) (size : N) (sealed : list (bytes * bytes))
             (base an gen : bytes) (ms cs : N) : bytes * meta :=
    let ct := concat (map fst sealed) in
    let m0 := mkMeta size (Some (hash (base ++ ct))) None None base (map snd sealed)
                     (Some cs) (Some CHUNK_AAD_BOUND) None None (Some gen) (Some ms) in
    let at_ := snd (seal an (metadata_auth_aad loc m0) []) in
    (ct, mkMeta size (Some (hash (base ++ ct))) None None base (map snd sealed)
                (Some cs) (Some CHUNK_AAD_BOUND) (Some an) (Some at_) (Some gen) (Some ms)).

  Definition put_opts (loc pt base an gen : bytes) (ms cs : N) : bytes * meta :=
    put_writes loc (lenN pt) (seal_chunks base cs 0 (chunks_of cs pt)) base an gen ms cs.

  (* copy_opts (encryption.rs:880): payload copied verbatim; document resealed for the target *)
  Definition copy_meta (src : meta) (to an gen etag : bytes) (ms : N) (ver : N) : meta :=
    let m0 := mkMeta (m_size src) (Some etag) None None (m_nonce src) (m_tags src) (m_cs src) (Some ver)
                     (m_an src) (m_at src) (Some gen) (Some ms) in
    let at_ := snd (seal an (metadata_auth_aad to m0) []) in
    mkMeta (m_size src) (Some etag) None None (m_nonce src) (m_tags src) (m_cs src) (Some ver)
           (Some an) (Some at_) (Some gen) (Some ms).
End Write.
