(* C09 — encodings: little-endian round trip, nonce derivation injective, the AAD encoder has a
   decoder (hence is injective), domain separation between the chunk and the metadata AAD. *)
From Coq Require Import String.
From Coq Require Import List NArith Bool Lia PeanoNat.
From Coq.Strings Require Import Byte.
From Verif Require Import Crypto.Model.
Import ListNotations.
Close Scope string_scope.
Open Scope N_scope.

(* ------------------------------------------------------------------ little endian *)
Lemma to_N_byte_of_N n : n < 256 -> Byte.to_N (byte_of_N n) = n.
Proof.
  intros H. unfold byte_of_N. destruct (Byte.of_N n) eqn:E.
  - now apply Byte.to_of_N.
  - apply Byte.of_N_None_iff in E. lia.
Qed.

Lemma le_bytes_length k n : length (le_bytes k n) = k.
Proof. revert n; induction k; intros; cbn [le_bytes length]; auto. Qed.

Lemma le_val_le_bytes k n : n < 256 ^ N.of_nat k -> le_val (le_bytes k n) = n.
Proof.
  revert n; induction k; intros n H.
  - cbn in H. cbn. lia.
  - cbn [le_bytes le_val].
    rewrite to_N_byte_of_N by (apply N.mod_lt; lia).
    rewrite IHk.
    + pose proof (N.div_mod n 256). lia.
    + rewrite Nat2N.inj_succ, N.pow_succ_r' in H.
      apply N.div_lt_upper_bound; lia.
Qed.

Lemma two64_pow : two64 = 256 ^ N.of_nat 8.
Proof. reflexivity. Qed.

Lemma le_val_u64 n : n < two64 -> le_val (u64_le n) = n.
Proof. intros. unfold u64_le. apply le_val_le_bytes. now rewrite <- two64_pow. Qed.

Lemma u64_le_length n : length (u64_le n) = 8%nat.
Proof. apply le_bytes_length. Qed.

Lemma u64_le_inj a b : a < two64 -> b < two64 -> u64_le a = u64_le b -> a = b.
Proof. intros Ha Hb H. rewrite <- (le_val_u64 a Ha), <- (le_val_u64 b Hb). now rewrite H. Qed.

(* ------------------------------------------------------------------ derive_gcm_nonce *)
Lemma wrapping_add_inj c i j :
  i < two64 -> j < two64 -> (c + i) mod two64 = (c + j) mod two64 -> i = j.
Proof.
  intros Hi Hj H.
  pose proof (N.div_mod (c + i) two64) as D1.
  pose proof (N.div_mod (c + j) two64) as D2.
  assert (two64 <> 0) by (unfold two64; lia).
  specialize (D1 H0). specialize (D2 H0).
  rewrite H in D1.
  unfold two64 in *. lia.
Qed.

Theorem derive_gcm_nonce_injective base i j :
  i < two64 -> j < two64 -> derive_gcm_nonce base i = derive_gcm_nonce base j -> i = j.
Proof.
  intros Hi Hj H. unfold derive_gcm_nonce in H.
  apply app_inv_head in H.
  apply u64_le_inj in H; try (apply N.mod_lt; unfold two64; lia).
  eapply wrapping_add_inj; eauto.
Qed.

(* the counter really wraps: the successor of the largest counter is zero *)
Lemma derive_gcm_nonce_wraps base :
  le_val (firstn 8 (skipn 4 base)) = u64max ->
  derive_gcm_nonce base 1 = firstn 4 base ++ u64_le 0.
Proof. intros H. unfold derive_gcm_nonce. rewrite H. reflexivity. Qed.

(* chunk nonces of one object: the indices 0..n-1, n <= 2^64, give pairwise distinct nonces *)
Fixpoint Nseq (start : N) (len : nat) : list N :=
  match len with O => [] | S l => start :: Nseq (start + 1) l end.

Lemma Nseq_In x start len : In x (Nseq start len) -> start <= x < start + N.of_nat len.
Proof.
  revert start; induction len; intros start H; cbn [Nseq In] in H; [tauto|].
  destruct H as [<- | H]; [lia|]. apply IHlen in H. lia.
Qed.

Theorem chunk_nonces_distinct base n :
  N.of_nat n <= two64 -> NoDup (map (derive_gcm_nonce base) (Nseq 0 n)).
Proof.
  intros Hn.
  assert (G : forall len start, start + N.of_nat len <= two64 ->
                                NoDup (map (derive_gcm_nonce base) (Nseq start len))).
  { induction len; intros start Hs; cbn [Nseq map]; constructor.
    - intros Hin. apply in_map_iff in Hin. destruct Hin as [y [Hy Hin]].
      apply Nseq_In in Hin.
      apply derive_gcm_nonce_injective in Hy; lia.
    - apply IHlen. lia. }
  apply G. lia.
Qed.

(* ------------------------------------------------------------------ parsers undo encoders *)
Lemma lenN_app {A} (a b : list A) : lenN (a ++ b) = lenN a + lenN b.
Proof. unfold lenN. rewrite app_length. lia. Qed.

Lemma p_take_app n (a r : bytes) : lenN a = n -> p_take n (a ++ r) = Some (a, r).
Proof.
  intros <-. unfold p_take, takeN, dropN.
  rewrite lenN_app.
  replace (lenN a <=? lenN a + lenN r) with true by (symmetry; apply N.leb_le; lia).
  unfold lenN. rewrite Nat2N.id.
  rewrite firstn_app, firstn_all, Nat.sub_diag, firstn_O, app_nil_r.
  rewrite skipn_app, skipn_all, Nat.sub_diag. reflexivity.
Qed.

Lemma lenN_u64 n : lenN (u64_le n) = 8.
Proof. unfold lenN. now rewrite u64_le_length. Qed.

Lemma p_u64_app n r : n < two64 -> p_u64 (u64_le n ++ r) = Some (n, r).
Proof. intros H. unfold p_u64. rewrite p_take_app by apply lenN_u64. now rewrite le_val_u64. Qed.

Lemma p_bytes_app v r : lenN v < two64 -> p_bytes (push_bytes v ++ r) = Some (v, r).
Proof.
  intros H. unfold p_bytes, push_bytes. rewrite <- app_assoc, p_u64_app by auto.
  now apply p_take_app.
Qed.

Definition wf_ob (o : option bytes) : Prop := match o with Some v => lenN v < two64 | None => True end.
Definition wf_oN (bound : N) (o : option N) : Prop := match o with Some v => v < bound | None => True end.

Lemma p_opt_str_app o r : wf_ob o -> p_opt p_bytes (push_opt_str o ++ r) = Some (o, r).
Proof.
  intros H. destruct o as [v|]; cbn [push_opt_str p_opt app].
  - now rewrite p_bytes_app.
  - reflexivity.
Qed.

Lemma p_opt_u64_app o r : wf_oN two64 o -> p_opt p_u64 (push_opt_u64 o ++ r) = Some (o, r).
Proof.
  intros H. destruct o as [v|]; cbn [push_opt_u64 p_opt app].
  - now rewrite p_u64_app.
  - reflexivity.
Qed.

Lemma p_opt_u8_app o r : wf_oN 256 o -> p_opt p_u8 (push_opt_u8 o ++ r) = Some (o, r).
Proof.
  intros H. destruct o as [v|]; cbn [push_opt_u8 p_opt p_u8 app].
  - now rewrite to_N_byte_of_N.
  - reflexivity.
Qed.

Lemma bytes_eqb_refl a : bytes_eqb a a = true.
Proof. induction a; cbn; auto. rewrite IHa, andb_true_r. now apply Byte.byte_dec_lb. Qed.

Lemma bytes_eqb_eq a b : bytes_eqb a b = true -> a = b.
Proof.
  revert b; induction a; destruct b; cbn; intros H; try discriminate; auto.
  apply andb_true_iff in H. destruct H as [H1 H2].
  apply Byte.byte_dec_bl in H1. subst. f_equal. auto.
Qed.

Lemma p_lit_app l r : p_lit l (l ++ r) = Some (tt, r).
Proof. unfold p_lit. rewrite p_take_app by reflexivity. now rewrite bytes_eqb_refl. Qed.

Lemma p_many_bytes_app ts r :
  Forall (fun t => lenN t < two64) ts ->
  p_many p_bytes (length ts) (concat (map push_bytes ts) ++ r) = Some (ts, r).
Proof.
  induction 1; cbn [length p_many map concat]; auto.
  rewrite <- app_assoc, p_bytes_app by auto. now rewrite IHForall.
Qed.

Lemma concat_push_len ts : lenN ts <= lenN (concat (map push_bytes ts)).
Proof.
  induction ts; cbn [map concat]; [unfold lenN; cbn; lia|].
  rewrite lenN_app. unfold push_bytes at 1. rewrite lenN_app, lenN_u64.
  unfold lenN in *. cbn [length]. lia.
Qed.

Lemma p_tags_app ts r :
  lenN ts < two64 -> Forall (fun t => lenN t < two64) ts ->
  p_tags (push_tags ts ++ r) = Some (ts, r).
Proof.
  intros H1 H2. unfold p_tags, push_tags. rewrite <- app_assoc, p_u64_app by auto.
  match goal with |- context[if ?c then _ else _] => assert (G : c = true) end.
  { apply N.leb_le. rewrite lenN_app. eapply N.le_trans; [apply concat_push_len | apply N.le_add_r]. }
  rewrite G. unfold lenN. rewrite Nat2N.id. now apply p_many_bytes_app.
Qed.

Lemma p_lit2 a b r : p_lit [a; b] (a :: b :: r) = Some (tt, r).
Proof. exact (p_lit_app [a; b] r). Qed.
Lemma p_u64_nil n : n < two64 -> p_u64 (u64_le n) = Some (n, []).
Proof. intros. rewrite <- (app_nil_r (u64_le n)). now apply p_u64_app. Qed.
Lemma p_bytes_nil v : lenN v < two64 -> p_bytes (push_bytes v) = Some (v, []).
Proof. intros. rewrite <- (app_nil_r (push_bytes v)). now apply p_bytes_app. Qed.
Lemma p_lit_g_m r : p_lit [x2e; x67] (x2e :: x6d :: r) = None.
Proof.
  unfold p_lit, p_take.
  assert (L : (lenN [x2e; x67] <=? lenN (x2e :: x6d :: r)) = true).
  { apply N.leb_le. unfold lenN. cbn [length]. lia. }
  rewrite L. reflexivity.
Qed.

Lemma p_tail_ok (g : option bytes) (ms : option N) :
  wf_ob g -> wf_oN two64 ms ->
  p_tail ((match g with Some v => lit ".g" ++ push_bytes v | None => [] end) ++
          (match ms with Some v => lit ".m" ++ u64_le v | None => [] end) ++ []) = Some ((g, ms), []).
Proof.
  intros Hg Hm. rewrite app_nil_r.
  unfold p_tail.
  change (lit ".g") with [x2e; x67]. change (lit ".m") with [x2e; x6d].
  destruct g as [g|], ms as [ms|]; cbn [wf_ob wf_oN] in *; rewrite <- ?app_assoc; cbn [app].
  - rewrite p_lit2, p_bytes_app by auto. rewrite p_lit2, p_u64_nil by auto. reflexivity.
  - rewrite app_nil_r. rewrite p_lit2, p_bytes_nil by auto. reflexivity.
  - rewrite p_lit_g_m, p_lit2, p_u64_nil by auto. reflexivity.
  - reflexivity.
Qed.

(* ------------------------------------------------------------------ the decoder theorem *)
Record wf_meta (m : meta) : Prop := {
  wf_size : m_size m < two64;
  wf_etag : wf_ob (m_etag m);
  wf_otag : wf_ob (m_otag m);
  wf_over : wf_ob (m_over m);
  wf_nonce : lenN (m_nonce m) < two64;
  wf_ntags : lenN (m_tags m) < two64;
  wf_tags : Forall (fun t => lenN t < two64) (m_tags m);
  wf_cs : wf_oN two64 (m_cs m);
  wf_av : wf_oN 256 (m_av m);
  wf_gen : wf_ob (m_gen m);
  wf_ms : wf_oN two64 (m_ms m)
}.

Theorem decode_encode_aad loc m :
  lenN loc < two64 -> wf_meta m ->
  decode_aad (metadata_auth_aad loc m) = Some (auth_view loc m).
Proof.
  intros Hl [].
  unfold metadata_auth_aad, encode_layout, aad_layout.
  cbn [map concat enc_item f_bytes f_optbytes f_optN].
  unfold decode_aad.
  rewrite p_lit_app. cbn [bind].
  rewrite p_bytes_app by auto. cbn [bind].
  rewrite p_u64_app by auto. cbn [bind].
  rewrite p_opt_str_app by auto. cbn [bind].
  rewrite p_opt_str_app by auto. cbn [bind].
  rewrite p_opt_str_app by auto. cbn [bind].
  rewrite p_bytes_app by auto. cbn [bind].
  rewrite p_opt_u64_app by auto. cbn [bind].
  rewrite p_opt_u8_app by auto. cbn [bind].
  rewrite p_tags_app by auto. cbn [bind].
  rewrite p_tail_ok by auto. cbn [bind fst snd].
  reflexivity.
Qed.

Theorem metadata_auth_aad_injective loc m loc' m' :
  lenN loc < two64 -> wf_meta m -> lenN loc' < two64 -> wf_meta m' ->
  metadata_auth_aad loc m = metadata_auth_aad loc' m' ->
  auth_view loc m = auth_view loc' m'.
Proof.
  intros H1 H2 H3 H4 E.
  pose proof (decode_encode_aad loc m H1 H2) as D1.
  pose proof (decode_encode_aad loc' m' H3 H4) as D2.
  rewrite E in D1. congruence.
Qed.

(* ------------------------------------------------------------------ which fields are covered *)
Definition field_eq_dec (a b : field) : {a = b} + {a <> b}.
Proof. decide equality. Defined.
Definition field_mem (f : field) (l : list field) : bool := existsb (fun g => if field_eq_dec f g then true else false) l.
Definition item_field (i : item) : list field :=
  match i with
  | ILit _ => [] | IBytes f | IU64 f | IOptStr f | IOptU64 f | IOptU8 f | ITags f | ITailBytes _ f | ITailU64 _ f => [f]
  end.
Definition layout_fields (l : list item) : list field := flat_map item_field l.
(* an = the AEAD nonce of the seal, at = its tag: bound by the AEAD itself, not by the AAD *)
Definition seal_fields : list field := [F_an; F_at].
Definition covered (l : list item) (fs : list field) : bool :=
  forallb (fun f => field_mem f (layout_fields l ++ seal_fields)) fs.

(* ------------------------------------------------------------------ domain separation *)
Lemma chunk_meta_aad_distinct cs idx loc m : chunk_aad cs idx <> metadata_auth_aad loc m.
Proof.
  intros H. apply (f_equal (fun l => nth 28 l x00)) in H.
  vm_compute in H. discriminate.
Qed.

Lemma chunk_aad_nonempty cs idx : chunk_aad cs idx <> [].
Proof. intros H. apply (f_equal (fun l => nth 0 l x00)) in H. vm_compute in H. discriminate. Qed.

Lemma metadata_aad_nonempty loc m : metadata_auth_aad loc m <> [].
Proof. intros H. apply (f_equal (fun l => nth 0 l x00)) in H. vm_compute in H. discriminate. Qed.

(* chunk AAD binds chunk size and index *)
Lemma app_eq_len {A} (a b c d : list A) : length a = length b -> a ++ c = b ++ d -> a = b /\ c = d.
Proof.
  revert b; induction a; destruct b; cbn; intros L E; try discriminate; auto.
  inversion E. inversion L. destruct (IHa _ H2 H1). subst. auto.
Qed.

Lemma chunk_aad_injective cs i cs' i' :
  cs < two64 -> i < two64 -> cs' < two64 -> i' < two64 ->
  chunk_aad cs i = chunk_aad cs' i' -> cs = cs' /\ i = i'.
Proof.
  intros H1 H2 H3 H4 E. unfold chunk_aad in E. apply app_inv_head in E.
  apply app_eq_len in E; [|now rewrite !u64_le_length].
  destruct E as [Ea Eb]. split; eapply u64_le_inj; eauto.
Qed.
