(* C20 — statements about the whole projection of one proposition ([project] in
   Model.v): a closed form, what ineligible rows contribute, silence, rejection. *)
From Coq Require Import List Ascii String Bool Arith ZArith QArith Lqa Lia Permutation.
From Verif Require Import Belief.Model Belief.Proofs Belief.Components.
Import ListNotations.
Close Scope Q_scope.
Open Scope nat_scope.
Open Scope list_scope.

Definition is_support (s : stance) : bool := match s with Support => true | _ => false end.
Definition is_reject (s : stance) : bool := match s with Reject => true | _ => false end.
Definition is_other (s : stance) : bool := match s with OtherStance => true | _ => false end.

Section ProjectFacts.
  Context {C : Type}.
  Variable cmax : C -> C -> C.
  Variable score : list C -> C.
  Variable czero : C.
  Variable geb ltb : C -> C -> bool.
  Variable modes : list mode.
  Variable unstated : C.
  Variable at_ : string.
  Variable expand : bool.

  Notation elig := (@elig C modes unstated at_).
  Notation project := (project cmax score czero geb ltb modes unstated at_ expand).
  Notation aggregate := (aggregate cmax score czero).

  (* is the row eligible at all *)
  Definition keep (r : row C) : bool := match elig r with inl _ => true | inr _ => false end.

  Definition own_cands (rows : list (row C)) : list (cand C) :=
    flat_map (fun r => match elig r with inl c => [c] | inr _ => [] end) rows.
  Definition own_excl (rows : list (row C)) : list (Z * string) :=
    flat_map (fun r => match elig r with inl _ => [] | inr why => [(r_id r, why)] end) rows.
  Definition as_rival (c : cand C) : cand C :=
    mkCand (c_id c) (c_actor c) (c_evid c) (c_stance c) (c_conf c) true.
  Definition rival_cands (rows : list (row C)) : list (cand C) :=
    flat_map (fun r => match elig r with
                       | inl c => if is_support (c_stance c) then [as_rival c] else []
                       | inr _ => [] end) rows.
  Definition ids_with (P : stance -> bool) (cs : list (cand C)) : list Z :=
    map (@c_id C) (filter (fun c => P (c_stance c)) cs).

  Lemma collect_own_char : forall rows cs l,
    collect_own modes unstated at_ rows cs l =
    (cs ++ own_cands rows,
     mkLedger (l_supporting l ++ ids_with is_support (own_cands rows))
              (l_opposing l ++ ids_with is_reject (own_cands rows))
              (l_uncertain l ++ ids_with is_other (own_cands rows))
              (l_excluded l ++ own_excl rows)).
  Proof.
    induction rows as [|r rest IH]; intros cs l; simpl.
    - rewrite !app_nil_r. destruct l; reflexivity.
    - unfold own_cands, own_excl in *. simpl. destruct (elig r) as [c|why] eqn:E.
      + rewrite IH. unfold ids_with. simpl. destruct (c_stance c); simpl; rewrite <- !app_assoc; reflexivity.
      + rewrite IH. simpl. rewrite <- !app_assoc. reflexivity.
  Qed.

  Lemma collect_rival_char : forall rows cs l,
    collect_rival modes unstated at_ rows cs l =
    (cs ++ rival_cands rows,
     mkLedger (l_supporting l) (l_opposing l ++ map (@c_id C) (rival_cands rows)) (l_uncertain l) (l_excluded l)).
  Proof.
    induction rows as [|r rest IH]; intros cs l; simpl.
    - rewrite !app_nil_r. destruct l; reflexivity.
    - unfold rival_cands in *. simpl. destruct (elig r) as [c|why] eqn:E; [|apply IH].
      unfold as_rival. destruct (c_stance c); simpl; rewrite IH; simpl; rewrite <- ?app_assoc; reflexivity.
  Qed.

  Definition all_cands (own rivals : list (row C)) : list (cand C) :=
    own_cands own ++ (if expand then rival_cands rivals else []).
  Definition the_ledger (own rivals : list (row C)) : ledger :=
    mkLedger (ids_with is_support (own_cands own))
             (ids_with is_reject (own_cands own) ++ (if expand then map (@c_id C) (rival_cands rivals) else []))
             (ids_with is_other (own_cands own))
             (own_excl own).

  (* the projection in closed form *)
  Lemma project_char own rivals p :
    project own rivals p =
    let cs := all_cands own rivals in
    let s := aggregate cs false in
    let o := aggregate cs true in
    mkBelief (classify geb ltb (fst s) (fst o) (snd s) (snd o)
                (List.length (ids_with is_other (own_cands own))) p)
             (fst s) (fst o) (snd s) (snd o) (the_ledger own rivals).
  Proof.
    unfold project, Model.project, all_cands, the_ledger. rewrite collect_own_char. simpl.
    destruct expand.
    - rewrite collect_rival_char. simpl.
      destruct (aggregate (own_cands own ++ rival_cands rivals) false) as [s sg].
      destruct (aggregate (own_cands own ++ rival_cands rivals) true) as [o og]. reflexivity.
    - rewrite !app_nil_r.
      destruct (aggregate (own_cands own) false) as [s sg].
      destruct (aggregate (own_cands own) true) as [o og]. reflexivity.
  Qed.

  Lemma own_cands_keep rows : own_cands (filter keep rows) = own_cands rows.
  Proof.
    unfold own_cands, keep. induction rows as [|r rest IH]; simpl; auto.
    destruct (elig r) eqn:E; simpl; rewrite ?E, IH; reflexivity.
  Qed.
  Lemma rival_cands_keep rows : rival_cands (filter keep rows) = rival_cands rows.
  Proof.
    unfold rival_cands, keep. induction rows as [|r rest IH]; simpl; auto.
    destruct (elig r) eqn:E; simpl; rewrite ?E, IH; reflexivity.
  Qed.
  Lemma own_excl_keep rows : own_excl (filter keep rows) = [].
  Proof.
    unfold own_excl, keep. induction rows as [|r rest IH]; simpl; auto.
    destruct (elig r) eqn:E; simpl; rewrite ?E, ?IH; reflexivity.
  Qed.

  Lemma own_excl_spec rows i why :
    In (i, why) (own_excl rows) <-> exists r, In r rows /\ r_id r = i /\ elig r = inr why.
  Proof.
    unfold own_excl. rewrite in_flat_map. split.
    - intros [r [Hr H]]. destruct (elig r) eqn:E; [destruct H|]. destruct H as [H|[]]. inversion H; subst. eauto.
    - intros [r [Hr [Hi E]]]. exists r. split; auto. rewrite E. left. subst. reflexivity.
  Qed.

  (* rows that fail lifecycle, visibility, valid-time or mode eligibility
     contribute to nothing but the excluded ledger, which lists exactly the
     ineligible rows about the proposition with their reasons *)
  Theorem ineligible_contribute_nothing own rivals p :
    let b := project own rivals p in
    let b' := project (filter keep own) (filter keep rivals) p in
    b_status b = b_status b' /\ b_support b = b_support b' /\ b_opposition b = b_opposition b' /\
    b_sg b = b_sg b' /\ b_og b = b_og b' /\
    l_supporting (b_ledger b) = l_supporting (b_ledger b') /\
    l_opposing (b_ledger b) = l_opposing (b_ledger b') /\
    l_uncertain (b_ledger b) = l_uncertain (b_ledger b') /\
    l_excluded (b_ledger b') = [] /\
    l_excluded (b_ledger b) = own_excl own /\
    (forall i why, In (i, why) (l_excluded (b_ledger b)) <->
                   exists r, In r own /\ r_id r = i /\ elig r = inr why).
  Proof.
    intros b b'. unfold b, b'. rewrite !project_char. unfold all_cands, the_ledger.
    rewrite !own_cands_keep, !rival_cands_keep, own_excl_keep. simpl.
    repeat split; auto; apply own_excl_spec.
  Qed.

  Lemma aggregate_nil opp : aggregate [] opp = (czero, 0).
  Proof. reflexivity. Qed.

  (* silence is insufficient: no eligible assertion about the proposition and no
     eligible supporting assertion about a rival *)
  Theorem silence_insufficient own rivals p :
    (forall r, In r own -> exists why, elig r = inr why) ->
    (forall r c, In r rivals -> elig r = inl c -> c_stance c <> Support) ->
    let b := project own rivals p in
    b_status b = Insufficient /\ b_sg b = 0 /\ b_og b = 0 /\
    l_supporting (b_ledger b) = [] /\ l_opposing (b_ledger b) = [] /\ l_uncertain (b_ledger b) = [].
  Proof.
    intros Ho Hr b. unfold b. rewrite project_char.
    assert (E1 : own_cands own = []).
    { unfold own_cands. clear -Ho. induction own as [|r rest IH]; simpl; auto.
      destruct (Ho r (or_introl eq_refl)) as [why ->]. simpl. apply IH. intros r' H. apply Ho. right; auto. }
    assert (E2 : rival_cands rivals = []).
    { unfold rival_cands. clear -Hr. induction rivals as [|r rest IH]; simpl; auto.
      rewrite IH by (intros r' c H; apply Hr; right; auto).
      destruct (elig r) as [c|] eqn:E; auto.
      pose proof (Hr r c (or_introl eq_refl) E). destruct (c_stance c); simpl; auto. congruence. }
    unfold all_cands, the_ledger. rewrite E1, E2. simpl. destruct expand; simpl; repeat split; reflexivity.
  Qed.

  Lemma groups_of_nonempty (side : list (cand C)) :
    side <> [] -> 0 < List.length (groups_of cmax side).
  Proof.
    intros H. destruct (exists_last H) as [l [c ->]]. unfold groups_of. rewrite fold_left_app. simpl.
    rewrite insert_length. lia.
  Qed.

  Lemma aggregate_no_groups cs opp : snd (aggregate cs opp) = 0 -> fst (aggregate cs opp) = czero.
  Proof.
    unfold Model.aggregate. destruct (side_of opp cs) as [|a s] eqn:E; simpl; auto.
    intros H. assert (0 < List.length (groups_of cmax (a :: s))) by (apply groups_of_nonempty; discriminate). lia.
  Qed.
End ProjectFacts.

(* rejection needs positive opposition: with a coherent policy (material <= accept,
   which Policy::from_settings enforces) a projection is never Rejected without at
   least one opposing group *)
Theorem rejected_needs_opposition_Q modes unstated at_ expand own rivals (p : thresholds Q) :
  (th_material p <= th_accept p)%Q ->
  let b := project qmax qscore 0%Q qgeb qltb modes unstated at_ expand own rivals p in
  b_status b = Rejected -> 0 < b_og b.
Proof.
  intros Hp b. unfold b. rewrite project_char. simpl.
  set (cs := all_cands modes unstated at_ expand own rivals).
  intros HR. apply classify_rejected_needs in HR. destruct HR as [H1 H2].
  destruct (snd (aggregate qmax qscore 0%Q cs true)) eqn:E; [|lia]. exfalso.
  rewrite (aggregate_no_groups _ _ _ _ _ E) in H1.
  unfold qgeb in H1. apply Qle_bool_iff in H1.
  unfold qltb in H2. apply negb_true_iff in H2. apply Qle_bool_false in H2.
  assert (Hs : (0 <= fst (aggregate qmax qscore 0%Q cs false))%Q).
  { unfold aggregate. destruct (side_of false cs); simpl; [lra | apply qscore_range]. }
  lra.
Qed.

(* The whole projection depends only on the multiset of rows, not on the order in
   which they were recorded (exact arithmetic): same status and group counts,
   scores equal as rationals, ledgers equal as multisets. *)
Theorem project_order_independent_Q modes unstated at_ expand
        (own own' rivals rivals' : list (row Q)) (p : thresholds Q) :
  Permutation own own' -> Permutation rivals rivals' ->
  let b := project qmax qscore 0%Q qgeb qltb modes unstated at_ expand own rivals p in
  let b' := project qmax qscore 0%Q qgeb qltb modes unstated at_ expand own' rivals' p in
  b_status b = b_status b' /\
  (b_support b == b_support b')%Q /\ (b_opposition b == b_opposition b')%Q /\
  b_sg b = b_sg b' /\ b_og b = b_og b' /\
  Permutation (l_supporting (b_ledger b)) (l_supporting (b_ledger b')) /\
  Permutation (l_opposing (b_ledger b)) (l_opposing (b_ledger b')) /\
  Permutation (l_uncertain (b_ledger b)) (l_uncertain (b_ledger b')) /\
  Permutation (l_excluded (b_ledger b)) (l_excluded (b_ledger b')).
Proof.
  intros Ho Hr b b'. unfold b, b'. rewrite !project_char. simpl.
  assert (Hoc : Permutation (own_cands modes unstated at_ own) (own_cands modes unstated at_ own'))
    by (unfold own_cands; apply Permutation_flat_map; exact Ho).
  assert (Hrc : Permutation (rival_cands modes unstated at_ rivals) (rival_cands modes unstated at_ rivals'))
    by (unfold rival_cands; apply Permutation_flat_map; exact Hr).
  assert (Hex : Permutation (own_excl modes unstated at_ own) (own_excl modes unstated at_ own'))
    by (unfold own_excl; apply Permutation_flat_map; exact Ho).
  assert (Hids : forall P, Permutation (ids_with P (own_cands modes unstated at_ own))
                                       (ids_with P (own_cands modes unstated at_ own'))).
  { intros P. unfold ids_with. apply Permutation_map. apply Permutation_filter'. exact Hoc. }
  assert (Hall : Permutation (all_cands modes unstated at_ expand own rivals)
                             (all_cands modes unstated at_ expand own' rivals')).
  { unfold all_cands. apply Permutation_app; auto. destruct expand; auto. }
  pose proof (projection_order_independent_Q _ _
                (List.length (ids_with is_other (own_cands modes unstated at_ own))) p Hall) as H.
  cbv zeta in H. destruct H as (S1 & N1 & S2 & N2 & Hc).
  rewrite (Permutation_length (Hids is_other)) in Hc at 2.
  repeat split; auto.
  apply Permutation_app; auto. destruct expand; auto. apply Permutation_map. exact Hrc.
Qed.
