(* C20 — the groups computed by the merge loop are the connected components of
   the "shares an actor or an evidence id" graph, and nothing about them depends
   on the recording order.  Lemmas only; the pinned statements are in Props.v. *)
From Coq Require Import List Ascii String Bool Arith ZArith Lia Permutation Relations.
From Verif Require Import Belief.Model Belief.Proofs.
Import ListNotations.
Open Scope nat_scope.
Open Scope list_scope.

(* the maximum operation of a boolean order *)
Definition cmax_of {C : Type} (cle : C -> C -> bool) (a b : C) : C := if cle a b then b else a.

Section Spec.
  Context {C : Type}.
  Notation group := (group C).
  Notation cand := (cand C).

  (* c's keys all lie in g *)
  Definition member (c : cand) (g : group) : Prop := incl (cand_keys c) (fst g).

  Definition disjoint_groups (gs : list group) : Prop :=
    forall g h, In g gs -> In h gs -> (exists k, In k (fst g) /\ In k (fst h)) -> g = h.

  (* the specification: an edge when two candidates of the side share an actor
     key or an evidence key; connected = reflexive-symmetric-transitive closure *)
  Definition shares (a b : cand) : Prop := exists k, In k (cand_keys a) /\ In k (cand_keys b).
  Definition link (side : list cand) (a b : cand) : Prop := In a side /\ In b side /\ shares a b.
  Definition connected (side : list cand) : cand -> cand -> Prop :=
    clos_refl_sym_trans cand (link side).

  Definition same_group (gs : list group) (a b : cand) : Prop :=
    exists g, In g gs /\ member a g /\ member b g.

  Lemma actor_key_in (c : cand) : In (KActor (c_actor c)) (cand_keys c).
  Proof. left. reflexivity. Qed.

  Lemma connected_mono s s' a b : incl s s' -> connected s a b -> connected s' a b.
  Proof.
    intros Hi H. induction H as [x y [Hx [Hy Hs]]| |x y _ IH|x y z _ IH1 _ IH2].
    - apply rst_step. repeat split; auto.
    - apply rst_refl.
    - apply rst_sym; auto.
    - eapply rst_trans; eauto.
  Qed.

  Lemma connected_perm s s' a b : (forall x, In x s <-> In x s') -> connected s a b <-> connected s' a b.
  Proof. intros H. split; apply connected_mono; intros x Hx; apply H; auto. Qed.
End Spec.

Section Components.
  Context {C : Type}.
  Variable cle : C -> C -> bool.
  Hypothesis cle_total : forall a b, cle a b = true \/ cle b a = true.
  Hypothesis cle_trans : forall a b c, cle a b = true -> cle b c = true -> cle a c = true.

  Notation group := (group C).
  Notation cand := (cand C).
  Notation cmax := (cmax_of cle).
  Notation insert := (insert cmax).
  Notation merge1 := (merge1 cmax).

  Lemma cle_refl a : cle a a = true.
  Proof. destruct (cle_total a a); auto. Qed.
  Lemma cmax_ub_l a b : cle a (cmax a b) = true.
  Proof. unfold cmax_of. destruct (cle a b) eqn:E; auto using cle_refl. Qed.
  Lemma cmax_ub_r a b : cle b (cmax a b) = true.
  Proof. unfold cmax_of. destruct (cle a b) eqn:E; auto using cle_refl. destruct (cle_total a b); congruence. Qed.
  Lemma cmax_either a b : cmax a b = a \/ cmax a b = b.
  Proof. unfold cmax_of. destruct (cle a b); auto. Qed.

  (* the group that receives the candidate: the candidate's keys alone, or the
     first hit extended by the keys and by every later hit *)
  Definition mgroup (keys : list key) (conf : C) (gs : list group) : group :=
    match filter (hit keys) gs with
    | [] => (keys, conf)
    | g :: hs => fold_left merge1 hs (fst g ++ keys, cmax (snd g) conf)
    end.

  Lemma insert_perm keys conf : forall gs,
    Permutation (insert keys conf gs) (mgroup keys conf gs :: filter (miss keys) gs).
  Proof.
    induction gs as [|g r IH]; simpl.
    - unfold mgroup. simpl. apply Permutation_refl.
    - unfold mgroup, miss, hit in *. simpl. destruct (overlaps (fst g) keys) eqn:E; simpl.
      + rewrite absorb_char. apply Permutation_refl.
      + eapply Permutation_trans; [apply perm_skip; exact IH | apply perm_swap].
  Qed.

  Lemma fold_merge1_keys : forall hs acc k,
    In k (fst (fold_left merge1 hs acc)) <-> In k (fst acc) \/ exists h, In h hs /\ In k (fst h).
  Proof.
    induction hs as [|h hs IH]; intros acc k; simpl.
    - split; auto. intros [H|[h [[] _]]]; auto.
    - rewrite IH. unfold Proofs.merge1 at 1. simpl. rewrite in_app_iff. split.
      + intros [[H|H]|[h' [H1 H2]]]; eauto.
      + intros [H|[h' [[->|H1] H2]]]; eauto.
  Qed.

  Lemma fold_merge1_ub : forall hs acc,
    cle (snd acc) (snd (fold_left merge1 hs acc)) = true /\
    forall h, In h hs -> cle (snd h) (snd (fold_left merge1 hs acc)) = true.
  Proof.
    induction hs as [|h hs IH]; intros acc; simpl.
    - split; [apply cle_refl | tauto].
    - destruct (IH (merge1 acc h)) as [H1 H2]. unfold Proofs.merge1 in H1 at 1. simpl in H1. split.
      + eapply cle_trans; [apply cmax_ub_l | exact H1].
      + intros h' [->|Hin]; [eapply cle_trans; [apply cmax_ub_r | exact H1] | auto].
  Qed.

  Lemma fold_merge1_either : forall hs acc,
    snd (fold_left merge1 hs acc) = snd acc \/
    exists h, In h hs /\ snd (fold_left merge1 hs acc) = snd h.
  Proof.
    induction hs as [|h hs IH]; intros acc; simpl; auto.
    destruct (IH (merge1 acc h)) as [H|[h' [H1 H2]]].
    - destruct (cmax_either (snd acc) (snd h)) as [E|E].
      + left. rewrite H. exact E.
      + right. exists h. split; [left; reflexivity | rewrite H; exact E].
    - right. exists h'. split; [right; exact H1 | exact H2].
  Qed.

  Lemma mgroup_keys keys conf gs k :
    In k (fst (mgroup keys conf gs)) <->
    In k keys \/ exists g, In g gs /\ hit keys g = true /\ In k (fst g).
  Proof.
    unfold mgroup.
    assert (HF : forall g, In g (filter (hit keys) gs) <-> In g gs /\ hit keys g = true) by (intros; apply filter_In).
    destruct (filter (hit keys) gs) as [|g hs].
    - simpl. split; auto. intros [H|[g [H1 [H2 _]]]]; auto. destruct (proj2 (HF g)); auto.
    - rewrite fold_merge1_keys. simpl. rewrite in_app_iff. split.
      + intros [[H|H]|[h [H1 H2]]]; auto.
        * right. exists g. destruct (proj1 (HF g)); simpl; auto.
        * right. exists h. destruct (proj1 (HF h)); simpl; auto.
      + intros [H|[h [H1 [H2 H3]]]]; auto.
        destruct (proj2 (HF h) (conj H1 H2)) as [->|Hin]; eauto.
  Qed.

  Lemma mgroup_ub keys conf gs :
    cle conf (snd (mgroup keys conf gs)) = true /\
    forall g, In g gs -> hit keys g = true -> cle (snd g) (snd (mgroup keys conf gs)) = true.
  Proof.
    unfold mgroup.
    assert (HF : forall g, In g (filter (hit keys) gs) <-> In g gs /\ hit keys g = true) by (intros; apply filter_In).
    destruct (filter (hit keys) gs) as [|g hs].
    - simpl. split; [apply cle_refl|]. intros g H1 H2. destruct (proj2 (HF g)); auto.
    - destruct (fold_merge1_ub hs (fst g ++ keys, cmax (snd g) conf)) as [H1 H2]. simpl in H1. split.
      + eapply cle_trans; [apply cmax_ub_r | exact H1].
      + intros h Hh1 Hh2. destruct (proj2 (HF h) (conj Hh1 Hh2)) as [->|Hin]; auto.
        eapply cle_trans; [apply cmax_ub_l | exact H1].
  Qed.

  Lemma mgroup_either keys conf gs :
    snd (mgroup keys conf gs) = conf \/
    exists g, In g gs /\ hit keys g = true /\ snd (mgroup keys conf gs) = snd g.
  Proof.
    unfold mgroup.
    assert (HF : forall g, In g (filter (hit keys) gs) <-> In g gs /\ hit keys g = true) by (intros; apply filter_In).
    destruct (filter (hit keys) gs) as [|g hs]; simpl; auto.
    destruct (fold_merge1_either hs (fst g ++ keys, cmax (snd g) conf)) as [H|[h [H1 H2]]].
    - simpl in H. destruct (cmax_either (snd g) conf) as [E|E]; rewrite E in *; auto.
      right. exists g. destruct (proj1 (HF g)) as [Q1 Q2]; [left; reflexivity|]. auto.
    - right. exists h. destruct (proj1 (HF h)) as [Q1 Q2]; [right; exact H1|]. auto.
  Qed.

  Definition is_max_of (side : list cand) (g : group) : Prop :=
    (forall c, In c side -> member c g -> cle (c_conf c) (snd g) = true) /\
    (exists c, In c side /\ member c g /\ c_conf c = snd g).

  Record Inv (done : list cand) (gs : list group) : Prop := {
    J1n : NoDup gs;
    J1 : disjoint_groups gs;
    J2a : forall c, In c done -> exists g, In g gs /\ member c g;
    J2b : forall g k, In g gs -> In k (fst g) -> exists c, In c done /\ In k (cand_keys c);
    J3 : forall g c1 c2, In g gs -> In c1 done -> In c2 done ->
           member c1 g -> member c2 g -> connected done c1 c2;
    J4 : forall g, In g gs -> is_max_of done g }.

  Lemma inv_member_key done gs c g k :
    Inv done gs -> In c done -> In g gs -> In k (cand_keys c) -> In k (fst g) -> member c g.
  Proof.
    intros I Hc Hg Hk1 Hk2. destruct (J2a _ _ I c Hc) as [g0 [Hg0 Hm]].
    assert (g0 = g) by (apply (J1 _ _ I); eauto). subst. exact Hm.
  Qed.

  Lemma hit_spec keys (g : group) : hit keys g = true <-> exists k, In k (fst g) /\ In k keys.
  Proof. unfold hit. apply overlaps_spec. Qed.

  Lemma inv_step done gs c :
    Inv done gs -> Inv (done ++ [c]) (insert (cand_keys c) (c_conf c) gs).
  Proof.
    intros I.
    set (keys := cand_keys c). set (conf := c_conf c). set (m := mgroup keys conf gs).
    pose proof (insert_perm keys conf gs) as HP. fold m in HP.
    set (gs' := insert keys conf gs) in *.
    assert (Hin : forall x, In x gs' <-> x = m \/ (In x gs /\ hit keys x = false)).
    { intros x. split.
      - intros H. apply (Permutation_in _ HP) in H. destruct H as [<-|H]; auto.
        apply filter_In in H. destruct H as [H1 H2]. unfold miss in H2. right. split; auto.
        destruct (hit keys x); auto; discriminate.
      - intros H. apply (Permutation_in _ (Permutation_sym HP)). destruct H as [->|[H1 H2]]; [left; auto|].
        right. apply filter_In. split; auto. unfold miss. rewrite H2. reflexivity. }
    assert (Hmk : forall k, In k (fst m) <-> In k keys \/ exists g, In g gs /\ hit keys g = true /\ In k (fst g))
      by (intros; apply mgroup_keys).
    assert (Hk0 : In (KActor (c_actor c)) keys) by apply actor_key_in.
    assert (Hmiss : forall g k, hit keys g = false -> In k (fst g) -> In k keys -> False).
    { intros g k Hh H1 H2. assert (hit keys g = true) by (apply hit_spec; eauto). congruence. }
    assert (Hdone : forall x, In x (done ++ [c]) <-> In x done \/ x = c).
    { intros x. rewrite in_app_iff. simpl. intuition. }
    assert (Hmono : forall a b, connected done a b -> connected (done ++ [c]) a b).
    { intros a b. apply connected_mono. intros x Hx. apply in_or_app; auto. }
    (* an old member of the merged group was a member of one of the hits *)
    assert (Hold : forall c1, In c1 done -> member c1 m ->
                     exists g, In g gs /\ hit keys g = true /\ member c1 g).
    { intros c1 Hc1 Hm1. destruct (J2a _ _ I c1 Hc1) as [g [Hg Hmg]].
      exists g. split; auto. split; auto.
      pose proof (Hm1 _ (actor_key_in c1)) as Hk. apply Hmk in Hk. destruct Hk as [Hk|[g1 [Hg1 [Hh1 Hk]]]].
      - apply hit_spec. exists (KActor (c_actor c1)). split; auto. apply Hmg, actor_key_in.
      - assert (g = g1). { apply (J1 _ _ I); auto. exists (KActor (c_actor c1)). split; auto. apply Hmg, actor_key_in. }
        subst; auto. }
    (* every member of a hit is connected to the new candidate *)
    assert (Hconn : forall g c1, In g gs -> hit keys g = true -> In c1 done -> member c1 g ->
                      connected (done ++ [c]) c1 c).
    { intros g c1 Hg Hh Hc1 Hm1. apply hit_spec in Hh. destruct Hh as [k [Hk1 Hk2]].
      destruct (J2b _ _ I g k Hg Hk1) as [c3 [Hc3 Hk3]].
      assert (Hm3 : member c3 g) by (eapply inv_member_key; eauto).
      eapply rst_trans; [apply Hmono; eapply (J3 _ _ I g c1 c3); eauto|].
      apply rst_step. repeat split; [apply Hdone; auto | apply Hdone; auto | exists k; auto]. }
    constructor.
    - (* NoDup *)
      apply (Permutation_NoDup (Permutation_sym HP)). constructor.
      + intros H. apply filter_In in H. destruct H as [_ H]. unfold miss in H.
        destruct (hit keys m) eqn:E; [discriminate|]. apply (Hmiss m _ E); auto. apply Hmk; auto.
      + apply NoDup_filter. apply (J1n _ _ I).
    - (* disjoint *)
      assert (Hone : forall h, In h gs -> hit keys h = false -> (exists k, In k (fst m) /\ In k (fst h)) -> False).
      { intros h Hh1 Hh2 [k [Hk1 Hk2]]. apply Hmk in Hk1. destruct Hk1 as [Hk1|[g [Hg [Hgh Hk1]]]].
        - eapply Hmiss; eauto.
        - assert (g = h) by (apply (J1 _ _ I); eauto). subst. congruence. }
      intros g h Hg Hh Hov. apply Hin in Hg. apply Hin in Hh.
      destruct Hg as [->|[Hg1 Hg2]], Hh as [->|[Hh1 Hh2]]; auto.
      + exfalso. eapply Hone; eauto.
      + exfalso. destruct Hov as [k [Hk1 Hk2]]. eapply (Hone g); eauto.
      + apply (J1 _ _ I); auto.
    - (* J2a *)
      intros c1 Hc1. apply Hdone in Hc1. destruct Hc1 as [Hc1| ->].
      + destruct (J2a _ _ I c1 Hc1) as [g [Hg Hm1]]. destruct (hit keys g) eqn:E.
        * exists m. split; [apply Hin; auto|]. intros k Hk. apply Hmk. right. exists g. auto.
        * exists g. split; [apply Hin; auto | auto].
      + exists m. split; [apply Hin; auto|]. intros k Hk. apply Hmk. auto.
    - (* J2b *)
      intros g k Hg Hk. apply Hin in Hg. destruct Hg as [->|[Hg1 Hg2]].
      + apply Hmk in Hk. destruct Hk as [Hk|[g [Hg [_ Hk]]]].
        * exists c. split; [apply Hdone; auto | auto].
        * destruct (J2b _ _ I g k Hg Hk) as [c1 [H1 H2]]. exists c1. split; [apply Hdone; auto | auto].
      + destruct (J2b _ _ I g k Hg1 Hk) as [c1 [H1 H2]]. exists c1. split; [apply Hdone; auto | auto].
    - (* J3 *)
      intros g c1 c2 Hg Hc1 Hc2 Hm1 Hm2. apply Hin in Hg. apply Hdone in Hc1. apply Hdone in Hc2.
      destruct Hg as [->|[Hg1 Hg2]].
      + assert (Hc : forall x, In x done \/ x = c -> member x m -> connected (done ++ [c]) x c).
        { intros x [Hx| ->] Hmx; [|apply rst_refl].
          destruct (Hold x Hx Hmx) as [g [Hg [Hh Hmg]]]. eapply Hconn; eauto. }
        eapply rst_trans; [apply Hc; auto | apply rst_sym; apply Hc; auto].
      + destruct Hc1 as [Hc1| ->]; [|exfalso; eapply (Hmiss g); eauto].
        destruct Hc2 as [Hc2| ->]; [|exfalso; eapply (Hmiss g); eauto].
        apply Hmono. eapply (J3 _ _ I); eauto.
    - (* J4 *)
      intros g Hg. apply Hin in Hg. destruct Hg as [->|[Hg1 Hg2]].
      + destruct (mgroup_ub keys conf gs) as [U1 U2]. fold m in U1, U2. split.
        * intros c1 Hc1 Hm1. apply Hdone in Hc1. destruct Hc1 as [Hc1| ->]; [|exact U1].
          destruct (Hold c1 Hc1 Hm1) as [g [Hg [Hh Hmg]]].
          destruct (J4 _ _ I g Hg) as [Hub _].
          eapply cle_trans; [apply Hub; eauto | apply U2; auto].
        * destruct (mgroup_either keys conf gs) as [E|[g [Hg [Hh E]]]]; fold m in E.
          -- exists c. split; [apply Hdone; auto|]. split; [intros k Hk; apply Hmk; auto | symmetry; exact E].
          -- destruct (J4 _ _ I g Hg) as [_ [c1 [H1 [H2 H3]]]]. exists c1.
             split; [apply Hdone; auto|]. split; [|congruence].
             intros k Hk. apply Hmk. right. exists g. auto.
      + destruct (J4 _ _ I g Hg1) as [Hub [c1 [H1 [H2 H3]]]]. split.
        * intros c2 Hc2 Hm2. apply Hdone in Hc2. destruct Hc2 as [Hc2| ->]; [auto|].
          exfalso. eapply (Hmiss g); eauto.
        * exists c1. split; [apply Hdone; auto | auto].
  Qed.

  Lemma inv_fold : forall todo done gs,
    Inv done gs ->
    Inv (done ++ todo) (fold_left (fun gs c => insert (cand_keys c) (c_conf c) gs) todo gs).
  Proof.
    induction todo as [|c todo IH]; intros done gs I; simpl.
    - rewrite app_nil_r. exact I.
    - replace (done ++ c :: todo) with ((done ++ [c]) ++ todo) by (rewrite <- app_assoc; reflexivity).
      apply IH. apply inv_step. exact I.
  Qed.

  Lemma inv_nil : Inv [] [].
  Proof.
    constructor; try (intros; simpl in *; tauto).
    - constructor.
    - intros g h [].
  Qed.

  Lemma inv_groups_of side : Inv side (groups_of cmax side).
  Proof. apply (inv_fold side [] [] inv_nil). Qed.
End Components.
