(* C20 — the groups computed by the merge loop are the connected components of
   the "shares an actor or an evidence id" graph, and nothing about them depends
   on the recording order.  Lemmas only; the pinned statements are in Props.v. *)
From Coq Require Import List Ascii String Bool Arith ZArith Lia Permutation Relations.
From Verif Require Import Belief.Model Belief.Proofs.
Import ListNotations.
Open Scope nat_scope.
Open Scope list_scope.

(* the maximum operation of a boolean order *)
Definition cmax_of {C : Type} (cle : C -> C -> bool) (a b : C) : C := if cle a b then b else a.

Section Spec.
  Context {C : Type}.
  Notation group := (group C).
  Notation cand := (cand C).

  (* c's keys all lie in g *)
  Definition member (c : cand) (g : group) : Prop := incl (cand_keys c) (fst g).

  Definition disjoint_groups (gs : list group) : Prop :=
    forall g h, In g gs -> In h gs -> (exists k, In k (fst g) /\ In k (fst h)) -> g = h.

  (* the specification: an edge when two candidates of the side share an actor
     key or an evidence key; connected = reflexive-symmetric-transitive closure *)
  Definition shares (a b : cand) : Prop := exists k, In k (cand_keys a) /\ In k (cand_keys b).
  Definition link (side : list cand) (a b : cand) : Prop := In a side /\ In b side /\ shares a b.
  Definition connected (side : list cand) : cand -> cand -> Prop :=
    clos_refl_sym_trans cand (link side).

  Definition same_group (gs : list group) (a b : cand) : Prop :=
    exists g, In g gs /\ member a g /\ member b g.

  Lemma actor_key_in (c : cand) : In (KActor (c_actor c)) (cand_keys c).
  Proof. left. reflexivity. Qed.

  Lemma connected_mono s s' a b : incl s s' -> connected s a b -> connected s' a b.
  Proof.
    intros Hi H. induction H as [x y [Hx [Hy Hs]]| |x y _ IH|x y z _ IH1 _ IH2].
    - apply rst_step. repeat split; auto.
    - apply rst_refl.
    - apply rst_sym; auto.
    - eapply rst_trans; eauto.
  Qed.

  Lemma connected_perm s s' a b : (forall x, In x s <-> In x s') -> connected s a b <-> connected s' a b.
  Proof. intros H. split; apply connected_mono; intros x Hx; apply H; auto. Qed.
End Spec.

Lemma Forall2_impl_in {A B} (P Q : A -> B -> Prop) l l' :
  (forall a b, In a l -> In b l' -> P a b -> Q a b) -> Forall2 P l l' -> Forall2 Q l l'.
Proof.
  intros H F. induction F; constructor.
  - apply H; auto using in_eq.
  - apply IHF. intros a b Ha Hb. apply H; auto using in_cons.
Qed.

(* two duplicate-free lists related by a relation that is a bijection between
   their elements are equal up to a permutation *)
Lemma bij_perm {A B} (R : A -> B -> Prop) : forall (l : list A) (l' : list B),
  NoDup l -> NoDup l' ->
  (forall a, In a l -> exists b, In b l' /\ R a b) ->
  (forall b, In b l' -> exists a, In a l /\ R a b) ->
  (forall a a' b, In a l -> In a' l -> In b l' -> R a b -> R a' b -> a = a') ->
  (forall a b b', In a l -> In b l' -> In b' l' -> R a b -> R a b' -> b = b') ->
  exists l'', Permutation l' l'' /\ Forall2 R l l''.
Proof.
  induction l as [|a t IH]; intros l' Hn Hn' Hf Hg Hinj Hfun.
  - destruct l' as [|b l']; [exists []; split; constructor|].
    destruct (Hg b (or_introl eq_refl)) as [a [[] _]].
  - destruct (Hf a (or_introl eq_refl)) as [b [Hb Rab]].
    destruct (in_split _ _ Hb) as [l1 [l2 ->]].
    pose proof (NoDup_remove _ _ _ Hn') as [Hn2 Hnb].
    inversion Hn as [|? ? Hna Hnt]; subst.
    destruct (IH (l1 ++ l2)) as [l'' [P F]]; auto.
    + intros a2 Ha2. destruct (Hf a2 (or_intror Ha2)) as [b2 [Hb2 R2]]. exists b2. split; auto.
      apply in_app_or in Hb2. apply in_or_app. destruct Hb2 as [H|[H|H]]; auto.
      subst b2. exfalso. apply Hna. rewrite (Hinj a a2 b); auto using in_eq, in_cons.
    + intros b2 Hb2. assert (Hb2' : In b2 (l1 ++ b :: l2)).
      { apply in_app_or in Hb2. apply in_or_app. destruct Hb2; [left | right; right]; auto. }
      destruct (Hg b2 Hb2') as [a2 [[<-|Ha2] R2]]; [|eauto].
      exfalso. apply Hnb. rewrite (Hfun a b b2); auto using in_eq.
    + intros a1 a2 b0 H1 H2 H3. apply Hinj; auto using in_cons.
      apply in_app_or in H3. apply in_or_app. destruct H3; [left | right; right]; auto.
    + intros a1 b1 b2 H1 H2 H3. apply Hfun; auto using in_cons;
        [apply in_app_or in H2 | apply in_app_or in H3]; apply in_or_app;
        match goal with H : _ \/ _ |- _ => destruct H; [left | right; right]; auto end.
    + exists (b :: l''). split; [|constructor; auto].
      apply Permutation_sym. apply Permutation_cons_app. apply Permutation_sym. exact P.
Qed.

Section Components.
  Context {C : Type}.
  Variable cle : C -> C -> bool.
  Hypothesis cle_total : forall a b, cle a b = true \/ cle b a = true.
  Hypothesis cle_trans : forall a b c, cle a b = true -> cle b c = true -> cle a c = true.

  Notation group := (group C).
  Notation cand := (cand C).
  Notation cmax := (cmax_of cle).
  Notation insert := (insert cmax).
  Notation merge1 := (merge1 cmax).

  Lemma cle_refl a : cle a a = true.
  Proof. destruct (cle_total a a); auto. Qed.
  Lemma cmax_ub_l a b : cle a (cmax a b) = true.
  Proof. unfold cmax_of. destruct (cle a b) eqn:E; auto using cle_refl. Qed.
  Lemma cmax_ub_r a b : cle b (cmax a b) = true.
  Proof. unfold cmax_of. destruct (cle a b) eqn:E; auto using cle_refl. destruct (cle_total a b); congruence. Qed.
  Lemma cmax_either a b : cmax a b = a \/ cmax a b = b.
  Proof. unfold cmax_of. destruct (cle a b); auto. Qed.

  (* the group that receives the candidate: the candidate's keys alone, or the
     first hit extended by the keys and by every later hit *)
  Definition mgroup (keys : list key) (conf : C) (gs : list group) : group :=
    match filter (hit keys) gs with
    | [] => (keys, conf)
    | g :: hs => fold_left merge1 hs (fst g ++ keys, cmax (snd g) conf)
    end.

  Lemma insert_perm keys conf : forall gs,
    Permutation (insert keys conf gs) (mgroup keys conf gs :: filter (miss keys) gs).
  Proof.
    induction gs as [|g r IH]; simpl.
    - unfold mgroup. simpl. apply Permutation_refl.
    - unfold mgroup, miss, hit in *. simpl. destruct (overlaps (fst g) keys) eqn:E; simpl.
      + rewrite absorb_char. apply Permutation_refl.
      + eapply Permutation_trans; [apply perm_skip; exact IH | apply perm_swap].
  Qed.

  Lemma fold_merge1_keys : forall hs acc k,
    In k (fst (fold_left merge1 hs acc)) <-> In k (fst acc) \/ exists h, In h hs /\ In k (fst h).
  Proof.
    induction hs as [|h hs IH]; intros acc k; simpl.
    - split; auto. intros [H|[h [[] _]]]; auto.
    - rewrite IH. unfold Proofs.merge1 at 1. simpl. rewrite in_app_iff. split.
      + intros [[H|H]|[h' [H1 H2]]]; eauto.
      + intros [H|[h' [[->|H1] H2]]]; eauto.
  Qed.

  Lemma fold_merge1_ub : forall hs acc,
    cle (snd acc) (snd (fold_left merge1 hs acc)) = true /\
    forall h, In h hs -> cle (snd h) (snd (fold_left merge1 hs acc)) = true.
  Proof.
    induction hs as [|h hs IH]; intros acc; simpl.
    - split; [apply cle_refl | tauto].
    - destruct (IH (merge1 acc h)) as [H1 H2]. unfold Proofs.merge1 in H1 at 1. simpl in H1. split.
      + eapply cle_trans; [apply cmax_ub_l | exact H1].
      + intros h' [->|Hin]; [eapply cle_trans; [apply cmax_ub_r | exact H1] | auto].
  Qed.

  Lemma fold_merge1_either : forall hs acc,
    snd (fold_left merge1 hs acc) = snd acc \/
    exists h, In h hs /\ snd (fold_left merge1 hs acc) = snd h.
  Proof.
    induction hs as [|h hs IH]; intros acc; simpl; auto.
    destruct (IH (merge1 acc h)) as [H|[h' [H1 H2]]].
    - destruct (cmax_either (snd acc) (snd h)) as [E|E].
      + left. rewrite H. exact E.
      + right. exists h. split; [left; reflexivity | rewrite H; exact E].
    - right. exists h'. split; [right; exact H1 | exact H2].
  Qed.

  Lemma mgroup_keys keys conf gs k :
    In k (fst (mgroup keys conf gs)) <->
    In k keys \/ exists g, In g gs /\ hit keys g = true /\ In k (fst g).
  Proof.
    unfold mgroup.
    assert (HF : forall g, In g (filter (hit keys) gs) <-> In g gs /\ hit keys g = true) by (intros; apply filter_In).
    destruct (filter (hit keys) gs) as [|g hs].
    - simpl. split; auto. intros [H|[g [H1 [H2 _]]]]; auto. destruct (proj2 (HF g)); auto.
    - rewrite fold_merge1_keys. simpl. rewrite in_app_iff. split.
      + intros [[H|H]|[h [H1 H2]]]; auto.
        * right. exists g. destruct (proj1 (HF g)); simpl; auto.
        * right. exists h. destruct (proj1 (HF h)); simpl; auto.
      + intros [H|[h [H1 [H2 H3]]]]; auto.
        destruct (proj2 (HF h) (conj H1 H2)) as [->|Hin]; eauto.
  Qed.

  Lemma mgroup_ub keys conf gs :
    cle conf (snd (mgroup keys conf gs)) = true /\
    forall g, In g gs -> hit keys g = true -> cle (snd g) (snd (mgroup keys conf gs)) = true.
  Proof.
    unfold mgroup.
    assert (HF : forall g, In g (filter (hit keys) gs) <-> In g gs /\ hit keys g = true) by (intros; apply filter_In).
    destruct (filter (hit keys) gs) as [|g hs].
    - simpl. split; [apply cle_refl|]. intros g H1 H2. destruct (proj2 (HF g)); auto.
    - destruct (fold_merge1_ub hs (fst g ++ keys, cmax (snd g) conf)) as [H1 H2]. simpl in H1. split.
      + eapply cle_trans; [apply cmax_ub_r | exact H1].
      + intros h Hh1 Hh2. destruct (proj2 (HF h) (conj Hh1 Hh2)) as [->|Hin]; auto.
        eapply cle_trans; [apply cmax_ub_l | exact H1].
  Qed.

  Lemma mgroup_either keys conf gs :
    snd (mgroup keys conf gs) = conf \/
    exists g, In g gs /\ hit keys g = true /\ snd (mgroup keys conf gs) = snd g.
  Proof.
    unfold mgroup.
    assert (HF : forall g, In g (filter (hit keys) gs) <-> In g gs /\ hit keys g = true) by (intros; apply filter_In).
    destruct (filter (hit keys) gs) as [|g hs]; simpl; auto.
    destruct (fold_merge1_either hs (fst g ++ keys, cmax (snd g) conf)) as [H|[h [H1 H2]]].
    - simpl in H. destruct (cmax_either (snd g) conf) as [E|E]; rewrite E in *; auto.
      right. exists g. destruct (proj1 (HF g)) as [Q1 Q2]; [left; reflexivity|]. auto.
    - right. exists h. destruct (proj1 (HF h)) as [Q1 Q2]; [right; exact H1|]. auto.
  Qed.

  Definition is_max_of (side : list cand) (g : group) : Prop :=
    (forall c, In c side -> member c g -> cle (c_conf c) (snd g) = true) /\
    (exists c, In c side /\ member c g /\ c_conf c = snd g).

  Record Inv (done : list cand) (gs : list group) : Prop := {
    J1n : NoDup gs;
    J1 : disjoint_groups gs;
    J2a : forall c, In c done -> exists g, In g gs /\ member c g;
    J2b : forall g k, In g gs -> In k (fst g) -> exists c, In c done /\ In k (cand_keys c);
    J3 : forall g c1 c2, In g gs -> In c1 done -> In c2 done ->
           member c1 g -> member c2 g -> connected done c1 c2;
    J4 : forall g, In g gs -> is_max_of done g }.

  Lemma inv_member_key done gs c g k :
    Inv done gs -> In c done -> In g gs -> In k (cand_keys c) -> In k (fst g) -> member c g.
  Proof.
    intros I Hc Hg Hk1 Hk2. destruct (J2a _ _ I c Hc) as [g0 [Hg0 Hm]].
    assert (g0 = g) by (apply (J1 _ _ I); eauto). subst. exact Hm.
  Qed.

  Lemma hit_spec keys (g : group) : hit keys g = true <-> exists k, In k (fst g) /\ In k keys.
  Proof. unfold hit. apply overlaps_spec. Qed.

  Lemma inv_step done gs c :
    Inv done gs -> Inv (done ++ [c]) (insert (cand_keys c) (c_conf c) gs).
  Proof.
    intros I.
    set (keys := cand_keys c). set (conf := c_conf c). set (m := mgroup keys conf gs).
    pose proof (insert_perm keys conf gs) as HP. fold m in HP.
    set (gs' := insert keys conf gs) in *.
    assert (Hin : forall x, In x gs' <-> x = m \/ (In x gs /\ hit keys x = false)).
    { intros x. split.
      - intros H. apply (Permutation_in _ HP) in H. destruct H as [<-|H]; auto.
        apply filter_In in H. destruct H as [H1 H2]. unfold miss in H2. right. split; auto.
        destruct (hit keys x); auto; discriminate.
      - intros H. apply (Permutation_in _ (Permutation_sym HP)). destruct H as [->|[H1 H2]]; [left; auto|].
        right. apply filter_In. split; auto. unfold miss. rewrite H2. reflexivity. }
    assert (Hmk : forall k, In k (fst m) <-> In k keys \/ exists g, In g gs /\ hit keys g = true /\ In k (fst g))
      by (intros; apply mgroup_keys).
    assert (Hk0 : In (KActor (c_actor c)) keys) by apply actor_key_in.
    assert (Hmiss : forall (g : group) k, hit keys g = false -> In k (fst g) -> In k keys -> False).
    { intros g k Hh H1 H2. assert (hit keys g = true) by (apply hit_spec; eauto). congruence. }
    assert (Hdone : forall x, In x (done ++ [c]) <-> In x done \/ x = c).
    { intros x. rewrite in_app_iff. simpl. intuition. }
    assert (Hmono : forall a b, connected done a b -> connected (done ++ [c]) a b).
    { intros a b. apply connected_mono. intros x Hx. apply in_or_app; auto. }
    (* an old member of the merged group was a member of one of the hits *)
    assert (Hold : forall c1, In c1 done -> member c1 m ->
                     exists g, In g gs /\ hit keys g = true /\ member c1 g).
    { intros c1 Hc1 Hm1. destruct (J2a _ _ I c1 Hc1) as [g [Hg Hmg]].
      exists g. split; auto. split; auto.
      pose proof (Hm1 _ (actor_key_in c1)) as Hk. apply Hmk in Hk. destruct Hk as [Hk|[g1 [Hg1 [Hh1 Hk]]]].
      - apply hit_spec. exists (KActor (c_actor c1)). split; auto. apply Hmg, actor_key_in.
      - assert (g = g1). { apply (J1 _ _ I); auto. exists (KActor (c_actor c1)). split; auto. apply Hmg, actor_key_in. }
        subst; auto. }
    (* every member of a hit is connected to the new candidate *)
    assert (Hconn : forall g c1, In g gs -> hit keys g = true -> In c1 done -> member c1 g ->
                      connected (done ++ [c]) c1 c).
    { intros g c1 Hg Hh Hc1 Hm1. apply hit_spec in Hh. destruct Hh as [k [Hk1 Hk2]].
      destruct (J2b _ _ I g k Hg Hk1) as [c3 [Hc3 Hk3]].
      assert (Hm3 : member c3 g) by (eapply inv_member_key; eauto).
      eapply rst_trans; [apply Hmono; eapply (J3 _ _ I g c1 c3); eauto|].
      apply rst_step. repeat split; [apply Hdone; auto | apply Hdone; auto | exists k; auto]. }
    constructor.
    - (* NoDup *)
      apply (Permutation_NoDup (Permutation_sym HP)). constructor.
      + intros H. apply filter_In in H. destruct H as [_ H]. unfold miss in H.
        destruct (hit keys m) eqn:E; [discriminate|]. apply (Hmiss m (KActor (c_actor c)) E); auto. apply Hmk; auto.
      + apply NoDup_filter. apply (J1n _ _ I).
    - (* disjoint *)
      assert (Hone : forall h, In h gs -> hit keys h = false -> (exists k, In k (fst m) /\ In k (fst h)) -> False).
      { intros h Hh1 Hh2 [k [Hk1 Hk2]]. apply Hmk in Hk1. destruct Hk1 as [Hk1|[g [Hg [Hgh Hk1]]]].
        - eapply Hmiss; eauto.
        - assert (g = h) by (apply (J1 _ _ I); eauto). subst. congruence. }
      intros g h Hg Hh Hov. apply Hin in Hg. apply Hin in Hh.
      destruct Hg as [->|[Hg1 Hg2]], Hh as [->|[Hh1 Hh2]]; auto.
      + exfalso. eapply Hone; eauto.
      + exfalso. destruct Hov as [k [Hk1 Hk2]]. eapply (Hone g); eauto.
      + apply (J1 _ _ I); auto.
    - (* J2a *)
      intros c1 Hc1. apply Hdone in Hc1. destruct Hc1 as [Hc1| ->].
      + destruct (J2a _ _ I c1 Hc1) as [g [Hg Hm1]]. destruct (hit keys g) eqn:E.
        * exists m. split; [apply Hin; auto|]. intros k Hk. apply Hmk. right. exists g. auto.
        * exists g. split; [apply Hin; auto | auto].
      + exists m. split; [apply Hin; auto|]. intros k Hk. apply Hmk. auto.
    - (* J2b *)
      intros g k Hg Hk. apply Hin in Hg. destruct Hg as [->|[Hg1 Hg2]].
      + apply Hmk in Hk. destruct Hk as [Hk|[g [Hg [_ Hk]]]].
        * exists c. split; [apply Hdone; auto | auto].
        * destruct (J2b _ _ I g k Hg Hk) as [c1 [H1 H2]]. exists c1. split; [apply Hdone; auto | auto].
      + destruct (J2b _ _ I g k Hg1 Hk) as [c1 [H1 H2]]. exists c1. split; [apply Hdone; auto | auto].
    - (* J3 *)
      intros g c1 c2 Hg Hc1 Hc2 Hm1 Hm2. apply Hin in Hg. apply Hdone in Hc1. apply Hdone in Hc2.
      destruct Hg as [->|[Hg1 Hg2]].
      + assert (Hc : forall x, In x done \/ x = c -> member x m -> connected (done ++ [c]) x c).
        { intros x [Hx| ->] Hmx; [|apply rst_refl].
          destruct (Hold x Hx Hmx) as [g [Hg [Hh Hmg]]]. eapply Hconn; eauto. }
        eapply rst_trans; [apply Hc; auto | apply rst_sym; apply Hc; auto].
      + destruct Hc1 as [Hc1| ->]; [|exfalso; eapply (Hmiss g); eauto].
        destruct Hc2 as [Hc2| ->]; [|exfalso; eapply (Hmiss g); eauto].
        apply Hmono. eapply (J3 _ _ I); eauto.
    - (* J4 *)
      intros g Hg. apply Hin in Hg. destruct Hg as [->|[Hg1 Hg2]].
      + destruct (mgroup_ub keys conf gs) as [U1 U2]. fold m in U1, U2. split.
        * intros c1 Hc1 Hm1. apply Hdone in Hc1. destruct Hc1 as [Hc1| ->]; [|exact U1].
          destruct (Hold c1 Hc1 Hm1) as [g [Hg [Hh Hmg]]].
          destruct (J4 _ _ I g Hg) as [Hub _].
          eapply cle_trans; [apply Hub; eauto | apply U2; auto].
        * destruct (mgroup_either keys conf gs) as [E|[g [Hg [Hh E]]]]; fold m in E.
          -- exists c. split; [apply Hdone; auto|]. split; [intros k Hk; apply Hmk; auto | symmetry; exact E].
          -- destruct (J4 _ _ I g Hg) as [_ [c1 [H1 [H2 H3]]]]. exists c1.
             split; [apply Hdone; auto|]. split; [|congruence].
             intros k Hk. apply Hmk. right. exists g. auto.
      + destruct (J4 _ _ I g Hg1) as [Hub [c1 [H1 [H2 H3]]]]. split.
        * intros c2 Hc2 Hm2. apply Hdone in Hc2. destruct Hc2 as [Hc2| ->]; [auto|].
          exfalso. eapply (Hmiss g); eauto.
        * exists c1. split; [apply Hdone; auto | auto].
  Qed.

  Lemma inv_fold : forall todo done gs,
    Inv done gs ->
    Inv (done ++ todo) (fold_left (fun gs c => insert (cand_keys c) (c_conf c) gs) todo gs).
  Proof.
    induction todo as [|c todo IH]; intros done gs I; simpl.
    - rewrite app_nil_r. exact I.
    - replace (done ++ c :: todo) with ((done ++ [c]) ++ todo) by (rewrite <- app_assoc; reflexivity).
      apply IH. apply inv_step. exact I.
  Qed.

  Lemma inv_nil : Inv [] [].
  Proof.
    constructor; try (intros; simpl in *; tauto).
    - constructor.
    - intros g h [].
  Qed.

  Lemma inv_groups_of side : Inv side (groups_of cmax side).
  Proof. apply (inv_fold side [] [] inv_nil). Qed.

  (* ---- consequences of the invariant ---- *)

  Lemma inv_group_unique done gs c g g' :
    Inv done gs -> In g gs -> In g' gs ->
    (exists k, In k (cand_keys c) /\ In k (fst g)) -> member c g' -> g = g'.
  Proof.
    intros I Hg Hg' [k [Hk1 Hk2]] Hm. apply (J1 _ _ I); auto. exists k. split; auto.
  Qed.

  Lemma same_group_sym (gs : list group) a b : same_group gs a b -> same_group gs b a.
  Proof. intros [g [H1 [H2 H3]]]. exists g. auto. Qed.

  Lemma inv_connected_same_group done gs a b :
    Inv done gs -> connected done a b ->
    (In a done <-> In b done) /\ (In a done -> same_group gs a b).
  Proof.
    intros I H. induction H as [x y [Hx [Hy [k [Hk1 Hk2]]]]|x|x y _ IH|x y z _ IH1 _ IH2].
    - split; [tauto|]. intros _.
      destruct (J2a _ _ I x Hx) as [g [Hg Hmx]]. destruct (J2a _ _ I y Hy) as [h [Hh Hmy]].
      assert (g = h) by (apply (J1 _ _ I); auto; exists k; split; [apply Hmx | apply Hmy]; auto).
      subst. exists h. auto.
    - split; [tauto|]. intros Hx. destruct (J2a _ _ I x Hx) as [g [Hg Hmx]]. exists g. auto.
    - destruct IH as [E S]. split; [tauto|]. intros Hy. apply same_group_sym. tauto.
    - destruct IH1 as [E1 S1], IH2 as [E2 S2]. split; [tauto|]. intros Hx.
      destruct (S1 Hx) as [g [Hg [Hgx Hgy]]]. destruct (S2 (proj1 E1 Hx)) as [h [Hh [Hhy Hhz]]].
      assert (g = h).
      { apply (J1 _ _ I); auto. exists (KActor (c_actor y)). split; [apply Hgy | apply Hhy]; apply actor_key_in. }
      subst. exists h. auto.
  Qed.

  Lemma inv_components done gs a b :
    Inv done gs -> In a done -> In b done -> (same_group gs a b <-> connected done a b).
  Proof.
    intros I Ha Hb. split.
    - intros [g [Hg [H1 H2]]]. eapply (J3 _ _ I); eauto.
    - intros H. apply (inv_connected_same_group _ _ _ _ I H). exact Ha.
  Qed.

  (* (a) the groups are the connected components, each with the maximum of its members *)
  Theorem groups_are_components side :
    let gs := groups_of cmax side in
    NoDup gs /\ disjoint_groups gs
    /\ (forall c, In c side -> exists g, In g gs /\ member c g /\
          forall g', In g' gs -> (exists k, In k (cand_keys c) /\ In k (fst g')) -> g' = g)
    /\ (forall g k, In g gs -> In k (fst g) -> exists c, In c side /\ In k (cand_keys c) /\ member c g)
    /\ (forall a b, In a side -> In b side -> (same_group gs a b <-> connected side a b))
    /\ (forall g, In g gs -> is_max_of side g).
  Proof.
    intros gs. pose proof (inv_groups_of side) as I. fold gs in I.
    split; [apply (J1n _ _ I)|]. split; [apply (J1 _ _ I)|]. split; [|split; [|split]].
    - intros c Hc. destruct (J2a _ _ I c Hc) as [g [Hg Hm]]. exists g. split; auto. split; auto.
      intros g' Hg' Hov. eapply inv_group_unique; eauto.
    - intros g k Hg Hk. destruct (J2b _ _ I g k Hg Hk) as [c [Hc Hkc]]. exists c. split; auto. split; auto.
      eapply inv_member_key; eauto.
    - intros a b Ha Hb. apply inv_components; auto.
    - apply (J4 _ _ I).
  Qed.

  (* ---- (b) recording order ---- *)

  Variable ceq : C -> C -> Prop.
  Hypothesis cle_antisym : forall a b, cle a b = true -> cle b a = true -> ceq a b.

  Lemma groups_perm_rel side side' :
    Permutation side side' ->
    exists l, Permutation (groups_of cmax side') l /\
      Forall2 (fun g g' => exists c, In c side /\ member c g /\ member c g' /\ ceq (snd g) (snd g'))
        (groups_of cmax side) l.
  Proof.
    intros HP.
    pose proof (inv_groups_of side) as I. pose proof (inv_groups_of side') as I'.
    set (gs := groups_of cmax side) in *. set (gs' := groups_of cmax side') in *.
    assert (Hs : forall x, In x side <-> In x side').
    { intros x. split; apply Permutation_in; auto using Permutation_sym. }
    assert (Hc : forall a b, connected side a b <-> connected side' a b) by (intros; apply connected_perm; auto).
    set (R := fun g g' : group => exists c, In c side /\ member c g /\ member c g').
    (* two groups related by R have the same members *)
    assert (Hmem : forall g g' c2, In g gs -> In g' gs' -> R g g' -> In c2 side ->
                     (member c2 g <-> member c2 g')).
    { intros g g' c2 Hg Hg' [c [Hcs [Hm Hm']]] Hc2. split; intros H2.
      - assert (S : same_group gs' c c2).
        { apply (inv_components _ _ _ _ I'); try (apply Hs; auto). apply Hc.
          apply (inv_components _ _ _ _ I); auto. exists g. auto. }
        destruct S as [h [Hh [Hh1 Hh2]]].
        assert (h = g'). { apply (J1 _ _ I'); auto. exists (KActor (c_actor c)). split; [apply Hh1 | apply Hm']; apply actor_key_in. }
        subst; auto.
      - assert (S : same_group gs c c2).
        { apply (inv_components _ _ _ _ I); auto. apply Hc.
          apply (inv_components _ _ _ _ I'); try (apply Hs; auto). exists g'. auto. }
        destruct S as [h [Hh [Hh1 Hh2]]].
        assert (h = g). { apply (J1 _ _ I); auto. exists (KActor (c_actor c)). split; [apply Hh1 | apply Hm]; apply actor_key_in. }
        subst; auto. }
    assert (Hle : forall g g', In g gs -> In g' gs' -> R g g' -> cle (snd g) (snd g') = true).
    { intros g g' Hg Hg' HR. destruct (J4 _ _ I g Hg) as [_ [c3 [H1 [H2 H3]]]].
      destruct (J4 _ _ I' g' Hg') as [Hub _]. rewrite <- H3. apply Hub; [apply Hs; auto|].
      apply (Hmem g g' c3); auto. }
    assert (Hge : forall g g', In g gs -> In g' gs' -> R g g' -> cle (snd g') (snd g) = true).
    { intros g g' Hg Hg' HR. destruct (J4 _ _ I' g' Hg') as [_ [c3 [H1 [H2 H3]]]].
      destruct (J4 _ _ I g Hg) as [Hub _]. rewrite <- H3. apply Hub; [apply Hs; auto|].
      apply (Hmem g g' c3); auto. apply Hs; auto. }
    destruct (bij_perm R gs gs') as [l [Hl1 Hl2]].
    - apply (J1n _ _ I).
    - apply (J1n _ _ I').
    - intros g Hg. destruct (J4 _ _ I g Hg) as [_ [c [H1 [H2 _]]]].
      destruct (J2a _ _ I' c (proj1 (Hs c) H1)) as [g' [Hg' Hm']]. exists g'. split; auto. exists c. auto.
    - intros g' Hg'. destruct (J4 _ _ I' g' Hg') as [_ [c [H1 [H2 _]]]].
      destruct (J2a _ _ I c (proj2 (Hs c) H1)) as [g [Hg Hm]]. exists g. split; auto. exists c. split; [apply Hs|]; auto.
    - intros g1 g2 g' H1 H2 Hg' R1 R2. destruct R1 as [c1 [Hc1 [M1 M1']]].
      assert (M2 : member c1 g2) by (apply (Hmem g2 g' c1); auto).
      apply (J1 _ _ I); auto. exists (KActor (c_actor c1)). split; [apply M1 | apply M2]; apply actor_key_in.
    - intros g g1' g2' Hg H1 H2 R1 R2. destruct R1 as [c1 [Hc1 [M1 M1']]].
      assert (M2 : member c1 g2') by (apply (Hmem g g2' c1); auto).
      apply (J1 _ _ I'); auto. exists (KActor (c_actor c1)). split; [apply M1' | apply M2]; apply actor_key_in.
    - exists l. split; auto.
      apply (Forall2_impl_in R); auto.
      intros g g' Hg Hg' HR.
      assert (Hg'' : In g' gs') by (eapply Permutation_in; [apply Permutation_sym; exact Hl1 | exact Hg']).
      destruct HR as [c [Hc1 [Hc2 Hc3]]]. exists c. repeat split; auto.
      apply cle_antisym; [apply Hle | apply Hge]; auto; exists c; auto.
  Qed.
End Components.

Lemma Forall2_len {A B} (R : A -> B -> Prop) l l' : Forall2 R l l' -> List.length l = List.length l'.
Proof. induction 1; simpl; auto. Qed.

Lemma Permutation_filter' {A} (f : A -> bool) l l' :
  Permutation l l' -> Permutation (filter f l) (filter f l').
Proof.
  induction 1 as [|x l l' _ IH|x y l|l l' l'' _ IH1 _ IH2]; simpl.
  - constructor.
  - destruct (f x); auto.
  - destruct (f x), (f y); auto using perm_swap.
  - eapply Permutation_trans; eauto.
Qed.

Section Order.
  Context {C : Type}.
  Variable cle : C -> C -> bool.
  Hypothesis cle_total : forall a b, cle a b = true \/ cle b a = true.
  Hypothesis cle_trans : forall a b c, cle a b = true -> cle b c = true -> cle a c = true.
  Variable ceq : C -> C -> Prop.
  Hypothesis cle_antisym : forall a b, cle a b = true -> cle b a = true -> ceq a b.
  Notation cmax := (cmax_of cle).

  (* (b) the number of groups and the multiset of group maxima do not depend on
     the recording order *)
  Theorem aggregate_perm_gen side side' :
    Permutation side side' ->
    List.length (groups_of cmax side) = List.length (groups_of cmax side') /\
    exists ms, Permutation (map snd (groups_of cmax side')) ms /\
               Forall2 ceq (map snd (groups_of cmax side)) ms.
  Proof.
    intros HP.
    destruct (groups_perm_rel cle cle_total cle_trans ceq cle_antisym side side' HP) as [l [P F]].
    split.
    - rewrite (Forall2_len _ _ _ F). symmetry. apply Permutation_length. exact P.
    - exists (map snd l). split; [apply Permutation_map; exact P|].
      clear P. induction F as [|g g' gs gs' [c [_ [_ [_ E]]]] _ IH]; simpl; constructor; auto.
  Qed.

  Variable score : list C -> C.
  Variable czero : C.
  Variable seq : C -> C -> Prop.
  Hypothesis seq_zero : seq czero czero.
  Hypothesis score_compat :
    forall ms ms' l, Permutation ms' l -> Forall2 ceq ms l -> seq (score ms) (score ms').

  Theorem aggregate_order_independent cs cs' opposing :
    Permutation cs cs' ->
    seq (fst (aggregate cmax score czero cs opposing)) (fst (aggregate cmax score czero cs' opposing)) /\
    snd (aggregate cmax score czero cs opposing) = snd (aggregate cmax score czero cs' opposing).
  Proof.
    intros HP. unfold aggregate.
    pose proof (Permutation_filter' (on_side opposing) _ _ HP) as HS. fold (side_of opposing cs) (side_of opposing cs') in HS.
    destruct (aggregate_perm_gen _ _ HS) as [HL [ms [P F]]].
    destruct (side_of opposing cs) as [|a s] eqn:E1, (side_of opposing cs') as [|a' s'] eqn:E2.
    - simpl. auto.
    - apply Permutation_nil in HS. discriminate.
    - apply Permutation_sym, Permutation_nil in HS. discriminate.
    - simpl fst. simpl snd. split; [eapply score_compat; eauto | exact HL].
  Qed.
End Order.

(* Leibniz antisymmetry: the multisets of maxima are equal *)
Theorem aggregate_perm {C : Type} (cle : C -> C -> bool) :
  (forall a b, cle a b = true \/ cle b a = true) ->
  (forall a b c, cle a b = true -> cle b c = true -> cle a c = true) ->
  (forall a b, cle a b = true -> cle b a = true -> a = b) ->
  forall side side' : list (cand C), Permutation side side' ->
    List.length (groups_of (cmax_of cle) side) = List.length (groups_of (cmax_of cle) side') /\
    Permutation (map snd (groups_of (cmax_of cle) side)) (map snd (groups_of (cmax_of cle) side')).
Proof.
  intros Ht Htr Ha side side' HP.
  destruct (aggregate_perm_gen cle Ht Htr eq Ha side side' HP) as [HL [ms [P F]]].
  split; auto.
  assert (map snd (groups_of (cmax_of cle) side) = ms).
  { clear P. induction F; [reflexivity | f_equal; auto]. }
  subst ms. apply Permutation_sym. exact P.
Qed.

(* ---------- the exact instance: rationals, Qle_bool, qscore ---------- *)
From Coq Require Import QArith Lqa.

Definition qgeb (a b : Q) : bool := Qle_bool b a.
Definition qltb (a b : Q) : bool := negb (Qle_bool b a).

Lemma qle_total a b : Qle_bool a b = true \/ Qle_bool b a = true.
Proof. rewrite !Qle_bool_iff. destruct (Qlt_le_dec a b) as [H|H]; [left; apply Qlt_le_weak|right]; auto. Qed.
Lemma qle_trans a b c : Qle_bool a b = true -> Qle_bool b c = true -> Qle_bool a c = true.
Proof. rewrite !Qle_bool_iff. apply Qle_trans. Qed.
Lemma qle_antisym a b : Qle_bool a b = true -> Qle_bool b a = true -> (a == b)%Q.
Proof. rewrite !Qle_bool_iff. apply Qle_antisym. Qed.

Lemma qclamp_compat a b : (a == b)%Q -> (qclamp a == qclamp b)%Q.
Proof.
  intros H. unfold qclamp.
  assert (E0 : Qle_bool a 0 = Qle_bool b 0) by (rewrite H; reflexivity).
  assert (E1 : Qle_bool 1 a = Qle_bool 1 b) by (rewrite H; reflexivity).
  rewrite E0, E1. destruct (Qle_bool b 0); [reflexivity|]. destruct (Qle_bool 1 b); [reflexivity | exact H].
Qed.

Lemma qprod_compat : forall ms ms', Forall2 Qeq ms ms' -> forall a a', (a == a')%Q -> (qprod ms a == qprod ms' a')%Q.
Proof.
  induction 1 as [|x y l l' Hxy _ IH]; intros a a' Ha; simpl; [exact Ha|].
  apply IH. rewrite Ha, (qclamp_compat _ _ Hxy). reflexivity.
Qed.

Lemma qscore_compat ms ms' l :
  Permutation ms' l -> Forall2 Qeq ms l -> (qscore ms == qscore ms')%Q.
Proof.
  intros P F. rewrite (qscore_perm _ _ P). unfold qscore. fold (qprod ms 1) (qprod l 1).
  rewrite (qprod_compat _ _ F 1 1); reflexivity.
Qed.

Lemma classify_Qeq s s' o o' sg og nu (p : thresholds Q) :
  (s == s')%Q -> (o == o')%Q ->
  classify qgeb qltb s o sg og nu p = classify qgeb qltb s' o' sg og nu p.
Proof.
  intros Hs Ho. unfold classify, qgeb, qltb.
  assert (E : forall t, Qle_bool t s = Qle_bool t s') by (intros t; rewrite Hs; reflexivity).
  assert (F : forall t, Qle_bool t o = Qle_bool t o') by (intros t; rewrite Ho; reflexivity).
  rewrite !E, !F. reflexivity.
Qed.

Lemma qmax_is_cmax : qmax = cmax_of Qle_bool.
Proof. reflexivity. Qed.

(* the aggregate (score, count) on both sides and the classification do not
   depend on the order in which the assertions were recorded *)
Theorem projection_order_independent_Q (cs cs' : list (cand Q)) nu (p : thresholds Q) :
  Permutation cs cs' ->
  let a := aggregate qmax qscore 0%Q in
  (fst (a cs false) == fst (a cs' false))%Q /\ snd (a cs false) = snd (a cs' false) /\
  (fst (a cs true) == fst (a cs' true))%Q /\ snd (a cs true) = snd (a cs' true) /\
  classify qgeb qltb (fst (a cs false)) (fst (a cs true)) (snd (a cs false)) (snd (a cs true)) nu p =
  classify qgeb qltb (fst (a cs' false)) (fst (a cs' true)) (snd (a cs' false)) (snd (a cs' true)) nu p.
Proof.
  intros HP a. unfold a. rewrite qmax_is_cmax.
  assert (H : forall opp,
    (fst (aggregate (cmax_of Qle_bool) qscore 0%Q cs opp) == fst (aggregate (cmax_of Qle_bool) qscore 0%Q cs' opp))%Q /\
    snd (aggregate (cmax_of Qle_bool) qscore 0%Q cs opp) = snd (aggregate (cmax_of Qle_bool) qscore 0%Q cs' opp)).
  { intros opp. apply (aggregate_order_independent Qle_bool qle_total qle_trans Qeq qle_antisym qscore 0%Q Qeq);
      [reflexivity | apply qscore_compat | exact HP]. }
  destruct (H false) as [S1 N1], (H true) as [S2 N2].
  repeat split; auto. rewrite N1, N2. apply classify_Qeq; auto.
Qed.
