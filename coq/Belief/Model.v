(* C20 — executable model of rs/anda_cognitive_nexus/src/projection/mod.rs
   (eligible, aggregate, classify).  No proofs in this file. *)
From Coq Require Import List Ascii String Bool Arith ZArith QArith Floats Sorting.Mergesort Orders.
Import ListNotations.
Close Scope Q_scope.
Open Scope nat_scope.
Open Scope string_scope.
Open Scope list_scope.

(* A grouping key: the code builds the strings "actor:<a>" and "evidence:<e>";
   the two prefixes differ in their first character, so a tagged sum is the
   same thing. *)
Inductive key := KActor (a : string) | KEvid (e : string).

Definition key_eqb (a b : key) : bool :=
  match a, b with
  | KActor x, KActor y => String.eqb x y
  | KEvid x, KEvid y => String.eqb x y
  | _, _ => false
  end.

Definition key_mem (k : key) (l : list key) : bool := existsb (key_eqb k) l.

(* groups[index].0.iter().any(|key| keys.contains(key)) *)
Definition overlaps (gkeys keys : list key) : bool :=
  existsb (fun k => key_mem k keys) gkeys.

Inductive stance := Support | Reject | OtherStance.

Section Generic.
  Context {C : Type}.
  Variable cmax : C -> C -> C.

  Record cand := mkCand {
    c_id : Z; c_actor : string; c_evid : list string;
    c_stance : stance; c_conf : C; c_opp : bool }.

  Definition group := (list key * C)%type.

  Definition cand_keys (c : cand) : list key :=
    KActor (c_actor c) :: map KEvid (c_evid c).

  (* After the first hit at [acc]: every later overlapping group is removed and
     merged into the target (the `Some(target)` arm; `target < index` always). *)
  Fixpoint absorb (keys : list key) (acc : group) (todo : list group)
    : group * list group :=
    match todo with
    | [] => (acc, [])
    | g :: r =>
        if overlaps (fst g) keys
        then absorb keys (fst acc ++ fst g, cmax (snd acc) (snd g)) r
        else let '(a, r') := absorb keys acc r in (a, g :: r')
    end.

  (* One iteration of `for candidate in side`. *)
  Fixpoint insert (keys : list key) (conf : C) (gs : list group) : list group :=
    match gs with
    | [] => [(keys, conf)]
    | g :: r =>
        if overlaps (fst g) keys
        then let '(a, r') := absorb keys (fst g ++ keys, cmax (snd g) conf) r in a :: r'
        else g :: insert keys conf r
    end.

  Definition on_side (opposing : bool) (c : cand) : bool :=
    if opposing
    then c_opp c || match c_stance c with Reject => true | _ => false end
    else negb (c_opp c) && match c_stance c with Support => true | _ => false end.

  Definition groups_of (side : list cand) : list group :=
    fold_left (fun gs c => insert (cand_keys c) (c_conf c) gs) side [].

  Definition side_of (opposing : bool) (cs : list cand) : list cand :=
    filter (on_side opposing) cs.

  (* score is a parameter: a function of the list of group maxima *)
  Variable score : list C -> C.
  Variable czero : C.

  Definition aggregate (cs : list cand) (opposing : bool) : C * nat :=
    let side := side_of opposing cs in
    match side with
    | [] => (czero, 0)
    | _ => let gs := groups_of side in (score (map snd gs), List.length gs)
    end.

  Inductive status := Accepted | Rejected | Contested | Uncertain | Insufficient.

  Variable geb ltb : C -> C -> bool.

  Record thresholds := { th_accept : C; th_material : C }.

  Definition classify (support opposition : C) (sg og n_uncertain : nat) (p : thresholds) : status :=
    let engaged := Nat.ltb 0 sg || Nat.ltb 0 og || Nat.ltb 0 n_uncertain in
    if negb engaged then Insufficient
    else if geb support (th_accept p) && ltb opposition (th_material p) then Accepted
    else if geb opposition (th_accept p) && ltb support (th_material p) then Rejected
    else if geb support (th_material p) && geb opposition (th_material p) then Contested
    else Uncertain.
End Generic.

Arguments mkCand {C}.
Arguments cand : clear implicits.
Arguments group : clear implicits.
Arguments thresholds : clear implicits.

(* ---------- eligibility (stages 4-6) ---------- *)

Inductive mode := Observed | Stated | Inferred | Predicted | Hypothetical | Imported.
Definition mode_eqb (a b : mode) : bool :=
  match a, b with
  | Observed, Observed | Stated, Stated | Inferred, Inferred
  | Predicted, Predicted | Hypothetical, Hypothetical | Imported, Imported => true
  | _, _ => false
  end.

Definition parse_mode (s : string) : option mode :=
  if String.eqb s "observed" then Some Observed
  else if String.eqb s "stated" then Some Stated
  else if String.eqb s "inferred" then Some Inferred
  else if String.eqb s "predicted" then Some Predicted
  else if String.eqb s "hypothetical" then Some Hypothetical
  else if String.eqb s "imported" then Some Imported
  else None.

Definition parse_stance (s : string) : stance :=
  if String.eqb s "support" then Support
  else if String.eqb s "reject" then Reject else OtherStance.

(* &str comparison = bytewise lexicographic *)
Definition str_ltb (a b : string) : bool :=
  match String.compare a b with Lt => true | _ => false end.
Definition str_leb (a b : string) : bool :=
  match String.compare a b with Gt => false | _ => true end.

Record row (C : Type) := mkRow {
  r_id : Z; r_status : string; r_state : string;
  r_valid_from : string; r_valid_until : string; r_mode : string;
  r_actor : string (* asserted_by_key; "" = no recorded actor (not produced by KML: an absent
                      asserted_by is stored with the endpoint key of JSON null) *);
  r_evid : list string; r_stance : string;
  r_conf : C; r_conf_neg : bool  (* row.confidence < 0.0 *) }.
Arguments mkRow {C}.
Arguments r_id {C}. Arguments r_status {C}. Arguments r_state {C}.
Arguments r_valid_from {C}. Arguments r_valid_until {C}. Arguments r_mode {C}.
Arguments r_actor {C}. Arguments r_evid {C}. Arguments r_stance {C}.
Arguments r_conf {C}. Arguments r_conf_neg {C}.

Fixpoint pos_bits (p : positive) : string :=
  match p with
  | xH => "1"
  | xO q => String "0"%char (pos_bits q)
  | xI q => String "1"%char (pos_bits q)
  end.
(* only has to be injective: used for "anonymous:<id>" *)
Definition z_to_string (z : Z) : string :=
  match z with
  | Z0 => "z"
  | Zpos p => String "p"%char (pos_bits p)
  | Zneg p => String "n"%char (pos_bits p)
  end.

Definition mode_exclusion (m : option mode) : string :=
  match m with
  | Some Hypothetical => "hypothetical_not_requested"
  | Some Predicted => "prediction_not_requested"
  | None => "invalid_schema"
  | _ => "policy_excluded"
  end.

Section Elig.
  Context {C : Type}.
  Variable modes : list mode.
  Variable unstated : C.
  Variable at_ : string.

  Definition admits (m : option mode) : bool :=
    match m with None => false | Some m => existsb (mode_eqb m) modes end.

  (* inl candidate | inr reason *)
  Definition eligible (r : row C) : cand C + string :=
    if negb (String.eqb (r_status r) "active") then
      inr (if String.eqb (r_status r) "retracted" then "retracted"
           else if String.eqb (r_status r) "superseded" then "superseded"
           else if String.eqb (r_status r) "expired" then "expired"
           else "invalid_schema")
    else if negb (String.eqb (r_state r) "active") then inr "not_visible"
    else if negb (String.eqb (r_valid_from r) "") && str_ltb at_ (r_valid_from r)
      then inr "outside_valid_time"
    else if negb (String.eqb (r_valid_until r) "") && str_leb (r_valid_until r) at_
      then inr "outside_valid_time"
    else let m := parse_mode (r_mode r) in
    if negb (admits m) then inr (mode_exclusion m)
    else inl (mkCand (r_id r)
                (if String.eqb (r_actor r) "" then String.append "anonymous:" (z_to_string (r_id r)) else r_actor r)
                (r_evid r) (parse_stance (r_stance r))
                (if r_conf_neg r then unstated else r_conf r) false).
End Elig.

(* ---------- the projection of one proposition ---------- *)

Record ledger := mkLedger {
  l_supporting : list Z; l_opposing : list Z; l_uncertain : list Z;
  l_excluded : list (Z * string) }.

Section Project.
  Context {C : Type}.
  Variable cmax : C -> C -> C.
  Variable score : list C -> C.
  Variable czero : C.
  Variable geb ltb : C -> C -> bool.
  Variable modes : list mode.
  Variable unstated : C.
  Variable at_ : string.
  Variable expand : bool.

  Definition elig := @eligible C modes unstated at_.

  Fixpoint collect_own (rows : list (row C)) (cs : list (cand C)) (l : ledger)
    : list (cand C) * ledger :=
    match rows with
    | [] => (cs, l)
    | r :: rest =>
        match elig r with
        | inl c =>
            let l' := match c_stance c with
                      | Support => mkLedger (l_supporting l ++ [c_id c]) (l_opposing l) (l_uncertain l) (l_excluded l)
                      | Reject => mkLedger (l_supporting l) (l_opposing l ++ [c_id c]) (l_uncertain l) (l_excluded l)
                      | OtherStance => mkLedger (l_supporting l) (l_opposing l) (l_uncertain l ++ [c_id c]) (l_excluded l)
                      end in
            collect_own rest (cs ++ [c]) l'
        | inr why => collect_own rest cs
                       (mkLedger (l_supporting l) (l_opposing l) (l_uncertain l) (l_excluded l ++ [(r_id r, why)]))
        end
    end.

  Fixpoint collect_rival (rows : list (row C)) (cs : list (cand C)) (l : ledger)
    : list (cand C) * ledger :=
    match rows with
    | [] => (cs, l)
    | r :: rest =>
        match elig r with
        | inl c =>
            match c_stance c with
            | Support =>
                let c' := mkCand (c_id c) (c_actor c) (c_evid c) (c_stance c) (c_conf c) true in
                collect_rival rest (cs ++ [c'])
                  (mkLedger (l_supporting l) (l_opposing l ++ [c_id c]) (l_uncertain l) (l_excluded l))
            | _ => collect_rival rest cs l
            end
        | inr _ => collect_rival rest cs l
        end
    end.

  Record belief := mkBelief {
    b_status : status; b_support : C; b_opposition : C;
    b_sg : nat; b_og : nat; b_ledger : ledger }.

  Definition project (own rivals : list (row C)) (p : thresholds C) : belief :=
    let '(cs, l) := collect_own own [] (mkLedger [] [] [] []) in
    let '(cs, l) := if expand then collect_rival rivals cs l else (cs, l) in
    let '(s, sg) := aggregate cmax score czero cs false in
    let '(o, og) := aggregate cmax score czero cs true in
    mkBelief (classify geb ltb s o sg og (List.length (l_uncertain l)) p) s o sg og l.
End Project.

(* ---------- instance over Q (exact arithmetic; the algebraic laws) ---------- *)

Definition qmax (a b : Q) : Q := if Qle_bool a b then b else a.
Definition qclamp (c : Q) : Q := if Qle_bool c 0 then 0%Q else if Qle_bool 1 c then 1%Q else c.
Definition qscore (ms : list Q) : Q :=
  (1 - fold_left (fun acc c => acc * (1 - qclamp c)) ms 1)%Q.

(* ---------- instance over binary64 (bit-exact execution) ---------- *)

Open Scope float_scope.

(* f64::max: if one operand is NaN the other is returned *)
Definition fmax (a b : float) : float :=
  if PrimFloat.is_nan a then b else if PrimFloat.is_nan b then a
  else if PrimFloat.ltb a b then b else a.

(* f64::clamp(0.0, 1.0): NaN stays NaN, -0.0 stays -0.0 *)
Definition fclamp (c : float) : float :=
  if PrimFloat.ltb c 0 then 0 else if PrimFloat.ltb 1 c then 1 else c.

(* f64::total_cmp as an integer key on the classes that occur for confidences
   (no NaN payload distinction) *)
Definition f_total_leb (a b : float) : bool :=
  let neg x := match PrimFloat.classify x with
               | FloatClass.NNormal | FloatClass.NSubn | FloatClass.NZero | FloatClass.NInf => true
               | _ => false end in
  if PrimFloat.is_nan a then PrimFloat.is_nan b || false
  else if PrimFloat.is_nan b then true
  else if PrimFloat.ltb a b then true
  else if PrimFloat.ltb b a then false
  else (* equal or both zero *) neg a || negb (neg b).

Module FloatOrder <: TotalLeBool.
  Definition t := float.
  Definition leb := f_total_leb.
  Theorem leb_total : forall a1 a2, leb a1 a2 = true \/ leb a2 a1 = true.
  Proof.
    intros a b. unfold leb, f_total_leb.
    destruct (PrimFloat.is_nan a) eqn:Ha, (PrimFloat.is_nan b) eqn:Hb; simpl; auto.
    destruct (PrimFloat.ltb a b) eqn:Hab; auto.
    destruct (PrimFloat.ltb b a) eqn:Hba; auto.
    destruct (PrimFloat.classify a), (PrimFloat.classify b); simpl; auto.
  Qed.
End FloatOrder.
Module FloatSort := Sort FloatOrder.

Definition fscore_unsorted (ms : list float) : float :=
  1 - fold_left (fun acc c => acc * (1 - fclamp c)) ms 1.

(* the code as it is NOW (see gen/Gen_Policy.v: score_fold_sorted) *)
Definition fscore (sorted : bool) (ms : list float) : float :=
  if sorted then fscore_unsorted (FloatSort.sort ms) else fscore_unsorted ms.

Close Scope float_scope.
