(* C20 — the order-independence results at the type the code uses: binary64
   confidences with f64::max, restricted to values that are neither NaN nor -0.0
   (a boolean premise the harness checks on every generated case). *)
From Coq Require Import List Bool Arith ZArith Lia Permutation Floats Eqdep_dec.
From Verif Require Import Belief.Model Belief.Proofs Belief.Components.
Import ListNotations.
Open Scope nat_scope.
Open Scope list_scope.

(* ---------- grouping commutes with a homomorphism of the confidence type ---------- *)
Section Hom.
  Context {C D : Type}.
  Variable cmaxC : C -> C -> C.
  Variable cmaxD : D -> D -> D.
  Variable h : C -> D.
  Hypothesis h_max : forall a b, cmaxD (h a) (h b) = h (cmaxC a b).

  Definition gmap (g : group C) : group D := (fst g, h (snd g)).
  Definition cmap (c : cand C) : cand D :=
    mkCand (c_id c) (c_actor c) (c_evid c) (c_stance c) (h (c_conf c)) (c_opp c).

  Lemma absorb_hom keys : forall todo acc,
    absorb cmaxD keys (gmap acc) (map gmap todo) =
    (gmap (fst (absorb cmaxC keys acc todo)), map gmap (snd (absorb cmaxC keys acc todo))).
  Proof.
    induction todo as [|g r IH]; intros acc; simpl; [reflexivity|].
    destruct (overlaps (fst g) keys) eqn:E.
    - rewrite h_max. apply (IH (fst acc ++ fst g, cmaxC (snd acc) (snd g))).
    - rewrite IH. destruct (absorb cmaxC keys acc r). reflexivity.
  Qed.

  Lemma insert_hom keys conf : forall gs,
    insert cmaxD keys (h conf) (map gmap gs) = map gmap (insert cmaxC keys conf gs).
  Proof.
    induction gs as [|g r IH]; simpl; [reflexivity|].
    destruct (overlaps (fst g) keys) eqn:E.
    - rewrite h_max.
      pose proof (absorb_hom keys r (fst g ++ keys, cmaxC (snd g) conf)) as H. unfold gmap at 1 in H. simpl in H.
      rewrite H. destruct (absorb cmaxC keys (fst g ++ keys, cmaxC (snd g) conf) r). reflexivity.
    - rewrite IH. reflexivity.
  Qed.

  Lemma groups_of_hom side :
    groups_of cmaxD (map cmap side) = map gmap (groups_of cmaxC side).
  Proof.
    unfold groups_of. change (@nil (group D)) with (map gmap []). generalize (@nil (group C)).
    induction side as [|c side IH]; intros gs; simpl; [reflexivity|].
    change (cand_keys (cmap c)) with (cand_keys c). change (c_conf (cmap c)) with (h (c_conf c)).
    rewrite insert_hom. apply IH.
  Qed.
End Hom.

(* ---------- the restricted float order ---------- *)

Definition is_nzero (f : float) : bool :=
  match PrimFloat.classify f with FloatClass.NZero => true | _ => false end.
(* the premise checked on every generated case: not NaN, not -0.0 *)
Definition fgood (f : float) : bool := negb (PrimFloat.is_nan f) && negb (is_nzero f).
Definition fle (a b : float) : bool := negb (PrimFloat.ltb b a).

Section FloatMax.
  (* IEEE-754 facts about `<` on values that are not NaN and not -0.0; premises of
     the theorems, named in the trusted base *)
  Hypothesis lt_asym : forall a b, fgood a = true -> fgood b = true ->
    PrimFloat.ltb a b = true -> PrimFloat.ltb b a = false.
  Hypothesis lt_negtrans : forall a b c, fgood a = true -> fgood b = true -> fgood c = true ->
    PrimFloat.ltb b a = false -> PrimFloat.ltb c b = false -> PrimFloat.ltb c a = false.
  Hypothesis lt_tri : forall a b, fgood a = true -> fgood b = true ->
    PrimFloat.ltb a b = false -> PrimFloat.ltb b a = false -> a = b.

  Definition G : Type := { f : float | fgood f = true }.
  Definition gval (x : G) : float := proj1_sig x.
  Definition gle (x y : G) : bool := fle (gval x) (gval y).

  Lemma gval_inj x y : gval x = gval y -> x = y.
  Proof.
    destruct x as [a Ha], y as [b Hb]. simpl. intros ->. f_equal.
    apply UIP_dec. apply bool_dec.
  Qed.

  Lemma gle_total a b : gle a b = true \/ gle b a = true.
  Proof.
    unfold gle, fle. destruct a as [a Ha], b as [b Hb]. simpl.
    destruct (PrimFloat.ltb b a) eqn:E; auto. right. rewrite (lt_asym b a); auto.
  Qed.
  Lemma gle_trans a b c : gle a b = true -> gle b c = true -> gle a c = true.
  Proof.
    unfold gle, fle. destruct a as [a Ha], b as [b Hb], c as [c Hc]. simpl.
    rewrite !negb_true_iff. intros H1 H2. apply (lt_negtrans a b c); auto.
  Qed.
  Lemma gle_antisym a b : gle a b = true -> gle b a = true -> a = b.
  Proof.
    unfold gle, fle. intros H1 H2. apply gval_inj. destruct a as [a Ha], b as [b Hb]. simpl in *.
    rewrite negb_true_iff in H1, H2. apply lt_tri; auto.
  Qed.

  (* on good values f64::max is the max of that order *)
  Lemma fmax_is_gmax a b : fmax (gval a) (gval b) = gval (cmax_of gle a b).
  Proof.
    unfold cmax_of, gle, fle, fmax. destruct a as [a Ha], b as [b Hb]. simpl.
    pose proof Ha as Ha'. pose proof Hb as Hb'. unfold fgood in Ha', Hb'.
    apply andb_true_iff in Ha', Hb'. destruct Ha' as [Na _], Hb' as [Nb _].
    rewrite negb_true_iff in Na, Nb. rewrite Na, Nb.
    destruct (PrimFloat.ltb a b) eqn:E1.
    - rewrite (lt_asym a b); auto.
    - destruct (PrimFloat.ltb b a) eqn:E2; simpl; auto.
  Qed.

  Lemma lift_side : forall side : list (cand float),
    Forall (fun c => fgood (c_conf c) = true) side ->
    exists sg : list (cand G), map (cmap gval) sg = side.
  Proof.
    induction 1 as [|c side Hc _ [sg IH]].
    - exists []. reflexivity.
    - exists (mkCand (c_id c) (c_actor c) (c_evid c) (c_stance c) (exist _ (c_conf c) Hc) (c_opp c) :: sg).
      simpl. rewrite IH. destruct c; reflexivity.
  Qed.

  Lemma cmap_gval_inj (x y : cand G) : cmap gval x = cmap gval y -> x = y.
  Proof.
    destruct x, y. unfold cmap. simpl. intros H. inversion H. subst. f_equal. apply gval_inj. assumption.
  Qed.

  Lemma map_inj {A B} (f : A -> B) : (forall x y, f x = f y -> x = y) ->
    forall l l', map f l = map f l' -> l = l'.
  Proof.
    intros Hf. induction l as [|a l IH]; destruct l' as [|b l']; simpl; intros H; try discriminate; auto.
    inversion H. f_equal; auto.
  Qed.

  (* (b) for binary64: number of groups and multiset of group maxima *)
  Theorem aggregate_perm_float (side side' : list (cand float)) :
    Forall (fun c => fgood (c_conf c) = true) side ->
    Permutation side side' ->
    List.length (groups_of fmax side) = List.length (groups_of fmax side') /\
    Permutation (map snd (groups_of fmax side)) (map snd (groups_of fmax side')).
  Proof.
    intros Hg HP.
    assert (Hg' : Forall (fun c => fgood (c_conf c) = true) side').
    { rewrite Forall_forall in *. intros c Hc. apply Hg. eapply Permutation_in; [apply Permutation_sym; exact HP | exact Hc]. }
    destruct (lift_side side Hg) as [sg Es]. destruct (lift_side side' Hg') as [sg' Es'].
    assert (HPg : Permutation sg sg').
    { rewrite <- Es, <- Es' in HP. apply Permutation_sym in HP.
      destruct (Permutation_map_inv _ _ HP) as [l3 [E3 P3]].
      apply (map_inj _ cmap_gval_inj) in E3. subst. first [exact P3 | apply Permutation_sym; exact P3]. }
    destruct (aggregate_perm gle gle_total gle_trans gle_antisym sg sg' HPg) as [HL HM].
    rewrite <- Es, <- Es'.
    rewrite !(groups_of_hom (cmax_of gle) fmax gval fmax_is_gmax).
    rewrite !map_length. split; [exact HL|].
    assert (E : forall l : list (group G), map snd (map (gmap gval) l) = map gval (map snd l)).
    { intros l. rewrite !map_map. reflexivity. }
    rewrite !E. apply Permutation_map. exact HM.
  Qed.

  (* hence the aggregate the code computes (score over the sorted maxima, count)
     is the same in every recording order, as an equality of binary64 values *)
  Hypothesis total_antisym : forall a b, f_total_leb a b = true -> f_total_leb b a = true -> a = b.
  Hypothesis total_trans : forall a b c, f_total_leb a b = true -> f_total_leb b c = true -> f_total_leb a c = true.

  Theorem aggregate_float_order_independent (cs cs' : list (cand float)) (opposing : bool) :
    Forall (fun c => fgood (c_conf c) = true) cs ->
    Permutation cs cs' ->
    aggregate fmax (fscore true) 0%float cs opposing = aggregate fmax (fscore true) 0%float cs' opposing.
  Proof.
    intros Hg HP. unfold aggregate.
    pose proof (Permutation_filter' (on_side opposing) _ _ HP) as HS.
    fold (side_of opposing cs) (side_of opposing cs') in HS.
    assert (Hgs : Forall (fun c => fgood (c_conf c) = true) (side_of opposing cs)).
    { rewrite Forall_forall in *. intros c Hc. apply Hg. unfold side_of in Hc. apply filter_In in Hc. tauto. }
    destruct (aggregate_perm_float _ _ Hgs HS) as [HL HM].
    destruct (side_of opposing cs) as [|a s] eqn:E1, (side_of opposing cs') as [|a' s'] eqn:E2.
    - reflexivity.
    - apply Permutation_nil in HS. discriminate.
    - apply Permutation_sym, Permutation_nil in HS. discriminate.
    - f_equal; [|exact HL]. unfold fscore.
      rewrite (float_sort_canonical total_antisym total_trans _ _ HM). reflexivity.
  Qed.
End FloatMax.
