(* C20 — pinned statements only.  Each is closed by [exact] of a lemma proved in
   Belief/Proofs*.v and followed by Print Assumptions. *)
From Coq Require Import List String Bool Arith ZArith QArith Permutation.
From Verif Require Import Belief.Model Belief.Proofs.
Import ListNotations.
Close Scope Q_scope.

(* Repetition is not support: a candidate that shares an actor or an evidence id
   with an existing group never increases the number of independent groups. *)
Theorem C20_repetition_no_new_group :
  forall (C : Type) (cmax : C -> C -> C) keys conf (gs : list (group C)) g,
    In g gs -> overlaps (fst g) keys = true ->
    List.length (insert cmax keys conf gs) <= List.length gs.
Proof. exact (@insert_no_new_group). Qed.
Print Assumptions C20_repetition_no_new_group.

(* A candidate opens a new group exactly when it shares no key with any group. *)
Theorem C20_new_group_iff_independent :
  forall (C : Type) (cmax : C -> C -> C) keys conf (gs : list (group C)),
    List.length (insert cmax keys conf gs) = S (List.length gs) <->
    (forall g, In g gs -> overlaps (fst g) keys = false).
Proof. exact (@insert_new_group_iff). Qed.
Print Assumptions C20_new_group_iff_independent.

Theorem C20_candidate_keys_in_one_group :
  forall (C : Type) (cmax : C -> C -> C) keys conf (gs : list (group C)),
    exists g, In g (insert cmax keys conf gs) /\ incl keys (fst g).
Proof. exact (@insert_covers). Qed.
Print Assumptions C20_candidate_keys_in_one_group.

(* Silence is insufficient, never rejected. *)
Theorem C20_insufficient_iff_nobody_engaged :
  forall (C : Type) (geb ltb : C -> C -> bool) s o sg og nu (p : thresholds C),
    classify geb ltb s o sg og nu p = Insufficient <-> (sg = 0 /\ og = 0 /\ nu = 0).
Proof. exact (@classify_insufficient_iff). Qed.
Print Assumptions C20_insufficient_iff_nobody_engaged.

Theorem C20_rejected_needs_decisive_opposition :
  forall (C : Type) (geb ltb : C -> C -> bool) s o sg og nu (p : thresholds C),
    classify geb ltb s o sg og nu p = Rejected ->
    geb o (th_accept p) = true /\ ltb s (th_material p) = true.
Proof. exact (@classify_rejected_needs). Qed.
Print Assumptions C20_rejected_needs_decisive_opposition.

(* Scores stay within [0,1] and never decrease when a group's maximum rises
   (exact arithmetic). *)
Theorem C20_score_in_unit_interval : forall ms, (0 <= qscore ms <= 1)%Q.
Proof. exact qscore_range. Qed.
Print Assumptions C20_score_in_unit_interval.

Theorem C20_score_monotone :
  forall pre post c c', (c <= c')%Q ->
    (qscore (pre ++ c :: post) <= qscore (pre ++ c' :: post))%Q.
Proof. exact qscore_monotone. Qed.
Print Assumptions C20_score_monotone.

Theorem C20_score_symmetric :
  forall ms ms', Permutation ms ms' -> (qscore ms == qscore ms')%Q.
Proof. exact qscore_perm. Qed.
Print Assumptions C20_score_symmetric.

(* non-vacuity: a concrete bridging candidate *)
Example C20_bridge_nonvacuous :
  let gs := [([KActor "a"], 1%Z); ([KActor "b"; KEvid "e"], 2%Z)] in
  insert Z.max [KActor "a"; KEvid "e"] 3%Z gs
  = [([KActor "a"; KActor "a"; KEvid "e"; KActor "b"; KEvid "e"], 3%Z)].
Proof. vm_compute. reflexivity. Qed.

(* ---------- order independence of the reported (binary64) score ---------- *)
From Coq Require Import Floats.
From Verif Require Import gen.Gen_Policy.

(* For any multiset of group maxima the fold over the sorted list is a function
   of the multiset.  The two premises are facts about f64::total_cmp (a total
   order on bit patterns); they are named in the trusted base, not assumed as
   axioms. *)
Theorem C20_sorted_fold_order_independent :
  (forall a b, f_total_leb a b = true -> f_total_leb b a = true -> a = b) ->
  (forall a b c, f_total_leb a b = true -> f_total_leb b c = true -> f_total_leb a c = true) ->
  forall ms ms', Permutation ms ms' -> fscore true ms = fscore true ms'.
Proof.
  intros Hanti Htrans ms ms' Hp. unfold fscore.
  rewrite (float_sort_canonical Hanti Htrans ms ms' Hp). reflexivity.
Qed.
Print Assumptions C20_sorted_fold_order_independent.

(* generated facts: the code as it is now *)
Theorem C20_gen_code_folds_sorted : score_fold_sorted = true.
Proof. reflexivity. Qed.
Print Assumptions C20_gen_code_folds_sorted.

Theorem C20_gen_group_keeps_maximum : group_conf_uses_max = true.
Proof. reflexivity. Qed.
Print Assumptions C20_gen_group_keeps_maximum.

Theorem C20_gen_classify_order :
  classify_order = [Insufficient; Accepted; Rejected; Contested; Uncertain].
Proof. reflexivity. Qed.
Print Assumptions C20_gen_classify_order.

Theorem C20_gen_baseline_coherent :
  PrimFloat.leb baseline_material baseline_accept = true /\
  PrimFloat.ltb 0 baseline_material = true /\ PrimFloat.leb baseline_accept 1 = true /\
  existsb (mode_eqb Hypothetical) baseline_modes = false /\
  existsb (mode_eqb Predicted) baseline_modes = false.
Proof. vm_compute. repeat split; reflexivity. Qed.
Print Assumptions C20_gen_baseline_coherent.

(* the un-sorted fold (the code before the fix) does depend on the order *)
Theorem C20_unsorted_fold_order_dependent_refuted :
  exists ms ms', Permutation ms ms' /\ fscore false ms <> fscore false ms'.
Proof.
  exists [0x1p-2; 0x1.3333333333333p-1; 0x1.999999999999ap-2]%float,
         [0x1.3333333333333p-1; 0x1.999999999999ap-2; 0x1p-2]%float. split.
  - apply Permutation_sym.
    apply Permutation_trans with ([0x1.3333333333333p-1; 0x1p-2; 0x1.999999999999ap-2]%float).
    + apply perm_skip. apply perm_swap.
    + apply perm_swap.
  - intros H.
    pose proof (f_equal (fun x => PrimFloat.eqb x
      (fscore false [0x1p-2; 0x1.3333333333333p-1; 0x1.999999999999ap-2]%float)) H) as E.
    vm_compute in E. discriminate E.
Qed.
Print Assumptions C20_unsorted_fold_order_dependent_refuted.
