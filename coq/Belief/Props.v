(* C20 — pinned statements only.  Each is closed by [exact] of a lemma proved in
   Belief/Proofs*.v and followed by Print Assumptions. *)
From Coq Require Import List String Bool Arith ZArith QArith Permutation.
From Verif Require Import Belief.Model Belief.Proofs.
Import ListNotations.
Close Scope Q_scope.

(* Repetition is not support: a candidate that shares an actor or an evidence id
   with an existing group never increases the number of independent groups. *)
Theorem C20_repetition_no_new_group :
  forall (C : Type) (cmax : C -> C -> C) keys conf (gs : list (group C)) g,
    In g gs -> overlaps (fst g) keys = true ->
    List.length (insert cmax keys conf gs) <= List.length gs.
Proof. exact (@insert_no_new_group). Qed.
Print Assumptions C20_repetition_no_new_group.

(* A candidate opens a new group exactly when it shares no key with any group. *)
Theorem C20_new_group_iff_independent :
  forall (C : Type) (cmax : C -> C -> C) keys conf (gs : list (group C)),
    List.length (insert cmax keys conf gs) = S (List.length gs) <->
    (forall g, In g gs -> overlaps (fst g) keys = false).
Proof. exact (@insert_new_group_iff). Qed.
Print Assumptions C20_new_group_iff_independent.

Theorem C20_candidate_keys_in_one_group :
  forall (C : Type) (cmax : C -> C -> C) keys conf (gs : list (group C)),
    exists g, In g (insert cmax keys conf gs) /\ incl keys (fst g).
Proof. exact (@insert_covers). Qed.
Print Assumptions C20_candidate_keys_in_one_group.

(* Silence is insufficient, never rejected. *)
Theorem C20_insufficient_iff_nobody_engaged :
  forall (C : Type) (geb ltb : C -> C -> bool) s o sg og nu (p : thresholds C),
    classify geb ltb s o sg og nu p = Insufficient <-> (sg = 0 /\ og = 0 /\ nu = 0).
Proof. exact (@classify_insufficient_iff). Qed.
Print Assumptions C20_insufficient_iff_nobody_engaged.

Theorem C20_rejected_needs_decisive_opposition :
  forall (C : Type) (geb ltb : C -> C -> bool) s o sg og nu (p : thresholds C),
    classify geb ltb s o sg og nu p = Rejected ->
    geb o (th_accept p) = true /\ ltb s (th_material p) = true.
Proof. exact (@classify_rejected_needs). Qed.
Print Assumptions C20_rejected_needs_decisive_opposition.

(* Scores stay within [0,1] and never decrease when a group's maximum rises
   (exact arithmetic). *)
Theorem C20_score_in_unit_interval : forall ms, (0 <= qscore ms <= 1)%Q.
Proof. exact qscore_range. Qed.
Print Assumptions C20_score_in_unit_interval.

Theorem C20_score_monotone :
  forall pre post c c', (c <= c')%Q ->
    (qscore (pre ++ c :: post) <= qscore (pre ++ c' :: post))%Q.
Proof. exact qscore_monotone. Qed.
Print Assumptions C20_score_monotone.

Theorem C20_score_symmetric :
  forall ms ms', Permutation ms ms' -> (qscore ms == qscore ms')%Q.
Proof. exact qscore_perm. Qed.
Print Assumptions C20_score_symmetric.

(* non-vacuity: a concrete bridging candidate *)
Example C20_bridge_nonvacuous :
  let gs := [([KActor "a"], 1%Z); ([KActor "b"; KEvid "e"], 2%Z)] in
  insert Z.max [KActor "a"; KEvid "e"] 3%Z gs
  = [([KActor "a"; KActor "a"; KEvid "e"; KActor "b"; KEvid "e"], 3%Z)].
Proof. vm_compute. reflexivity. Qed.

(* ---------- order independence of the reported (binary64) score ---------- *)
From Coq Require Import Floats.
From Verif Require Import gen.Gen_Policy.

(* For any multiset of group maxima the fold over the sorted list is a function
   of the multiset.  The two premises are facts about f64::total_cmp (a total
   order on bit patterns); they are named in the trusted base, not assumed as
   axioms. *)
Theorem C20_sorted_fold_order_independent :
  (forall a b, f_total_leb a b = true -> f_total_leb b a = true -> a = b) ->
  (forall a b c, f_total_leb a b = true -> f_total_leb b c = true -> f_total_leb a c = true) ->
  forall ms ms', Permutation ms ms' -> fscore true ms = fscore true ms'.
Proof.
  intros Hanti Htrans ms ms' Hp. unfold fscore.
  rewrite (float_sort_canonical Hanti Htrans ms ms' Hp). reflexivity.
Qed.
Print Assumptions C20_sorted_fold_order_independent.

(* generated facts: the code as it is now *)
Theorem C20_gen_code_folds_sorted : score_fold_sorted = true.
Proof. reflexivity. Qed.
Print Assumptions C20_gen_code_folds_sorted.

Theorem C20_gen_group_keeps_maximum : group_conf_uses_max = true.
Proof. reflexivity. Qed.
Print Assumptions C20_gen_group_keeps_maximum.

(* what the code does now: `eligible` takes its anonymous arm for an empty actor key
   only (the model's [r_actor r = ""] case); an absent asserted_by is stored with the
   non-empty endpoint key of JSON null and is therefore an ordinary, shared actor key *)
Theorem C20_gen_anonymous_only_for_empty_key : unattributed_is_anonymous = false.
Proof. reflexivity. Qed.
Print Assumptions C20_gen_anonymous_only_for_empty_key.

(* `eligible` compares the evaluation instant with valid_from / valid_until as TEXT.
   That is the chronological comparison only when both sides are in the stored form
   (fixed-width UTC `YYYY-MM-DDTHH:MM:SS.mmmZ`).  The code as it is now: the stored
   form is what time::format writes (Millis, Z), normalize and now go through it,
   every `cx.at = ...` in kql::run assigns time::normalize(..) of the FOR TIME
   argument (never the raw argument), the context starts at time::now(), and
   match_belief hands exactly that `at` to project_belief. *)
Theorem C20_gen_projection_time_is_normalized :
  for_time_at_normalized = true /\ default_at_is_now = true /\
  stored_time_is_millis_utc = true /\ belief_evaluated_at_context_time = true.
Proof. repeat split; reflexivity. Qed.
Print Assumptions C20_gen_projection_time_is_normalized.

Theorem C20_gen_classify_order :
  classify_order = [Insufficient; Accepted; Rejected; Contested; Uncertain].
Proof. reflexivity. Qed.
Print Assumptions C20_gen_classify_order.

Theorem C20_gen_baseline_coherent :
  PrimFloat.leb baseline_material baseline_accept = true /\
  PrimFloat.ltb 0 baseline_material = true /\ PrimFloat.leb baseline_accept 1 = true /\
  existsb (mode_eqb Hypothetical) baseline_modes = false /\
  existsb (mode_eqb Predicted) baseline_modes = false.
Proof. vm_compute. repeat split; reflexivity. Qed.
Print Assumptions C20_gen_baseline_coherent.

(* the un-sorted fold (the code before the fix) does depend on the order *)
Theorem C20_unsorted_fold_order_dependent_refuted :
  exists ms ms', Permutation ms ms' /\ fscore false ms <> fscore false ms'.
Proof.
  exists [0x1p-2; 0x1.3333333333333p-1; 0x1.999999999999ap-2]%float,
         [0x1.3333333333333p-1; 0x1.999999999999ap-2; 0x1p-2]%float. split.
  - apply Permutation_sym.
    apply Permutation_trans with ([0x1.3333333333333p-1; 0x1p-2; 0x1.999999999999ap-2]%float).
    + apply perm_skip. apply perm_swap.
    + apply perm_swap.
  - intros H.
    pose proof (f_equal (fun x => PrimFloat.eqb x
      (fscore false [0x1p-2; 0x1.3333333333333p-1; 0x1.999999999999ap-2]%float)) H) as E.
    vm_compute in E. discriminate E.
Qed.
Print Assumptions C20_unsorted_fold_order_dependent_refuted.

(* ---------- groups = connected components; recording order ---------- *)
From Verif Require Import Belief.Components Belief.Project.

(* Specification (Components.v): [connected side] is the reflexive-symmetric-
   transitive closure of "both on the side and share an actor key or an evidence
   key"; [member c g] = all keys of c lie in g; [same_group gs a b] = some group
   has both as members; [is_max_of side g] = snd g is an upper bound of its
   members' confidences and is attained by one of them.
   For every side, in the order recorded: the groups are duplicate-free and
   pairwise key-disjoint; every candidate is a member of exactly one group (and no
   other group holds any of its keys); a group holds only keys of its members; two
   candidates are in one group iff they are connected; each group carries the
   maximum of its members.  [cle] is any total transitive boolean order. *)
Theorem C20_groups_are_components :
  forall (C : Type) (cle : C -> C -> bool),
    (forall a b, cle a b = true \/ cle b a = true) ->
    (forall a b c, cle a b = true -> cle b c = true -> cle a c = true) ->
    forall side : list (cand C),
    let gs := groups_of (cmax_of cle) side in
    NoDup gs /\ disjoint_groups gs
    /\ (forall c, In c side -> exists g, In g gs /\ member c g /\
          forall g', In g' gs -> (exists k, In k (cand_keys c) /\ In k (fst g')) -> g' = g)
    /\ (forall g k, In g gs -> In k (fst g) -> exists c, In c side /\ In k (cand_keys c) /\ member c g)
    /\ (forall a b, In a side -> In b side -> (same_group gs a b <-> connected side a b))
    /\ (forall g, In g gs -> is_max_of cle side g).
Proof. exact (@groups_are_components). Qed.
Print Assumptions C20_groups_are_components.

(* The number of groups and the multiset of group maxima are the same for every
   recording order (Leibniz-antisymmetric total order, e.g. Z or Qc). *)
Theorem C20_aggregate_perm :
  forall (C : Type) (cle : C -> C -> bool),
    (forall a b, cle a b = true \/ cle b a = true) ->
    (forall a b c, cle a b = true -> cle b c = true -> cle a c = true) ->
    (forall a b, cle a b = true -> cle b a = true -> a = b) ->
    forall side side' : list (cand C), Permutation side side' ->
      List.length (groups_of (cmax_of cle) side) = List.length (groups_of (cmax_of cle) side') /\
      Permutation (map snd (groups_of (cmax_of cle) side)) (map snd (groups_of (cmax_of cle) side')).
Proof. exact (@aggregate_perm). Qed.
Print Assumptions C20_aggregate_perm.

(* The same up to an equivalence [ceq] (antisymmetry up to ceq, e.g. Qeq), and
   lifted through `aggregate` (side filter, empty side, score, count) for any
   score that is a function of the multiset of maxima up to ceq. *)
Theorem C20_aggregate_order_independent :
  forall (C : Type) (cle : C -> C -> bool),
    (forall a b, cle a b = true \/ cle b a = true) ->
    (forall a b c, cle a b = true -> cle b c = true -> cle a c = true) ->
    forall ceq : C -> C -> Prop,
    (forall a b, cle a b = true -> cle b a = true -> ceq a b) ->
    forall (score : list C -> C) (czero : C) (seq : C -> C -> Prop),
    seq czero czero ->
    (forall ms ms' l, Permutation ms' l -> Forall2 ceq ms l -> seq (score ms) (score ms')) ->
    forall (cs cs' : list (cand C)) (opposing : bool), Permutation cs cs' ->
      seq (fst (aggregate (cmax_of cle) score czero cs opposing))
          (fst (aggregate (cmax_of cle) score czero cs' opposing)) /\
      snd (aggregate (cmax_of cle) score czero cs opposing) =
      snd (aggregate (cmax_of cle) score czero cs' opposing).
Proof. exact (@aggregate_order_independent). Qed.
Print Assumptions C20_aggregate_order_independent.

(* Exact arithmetic: scores (up to ==), group counts and the classification of a
   candidate multiset do not depend on the recording order. *)
Theorem C20_projection_order_independent_exact :
  forall (cs cs' : list (cand Q)) (nu : nat) (p : thresholds Q),
    Permutation cs cs' ->
    let a := aggregate qmax qscore 0%Q in
    (fst (a cs false) == fst (a cs' false))%Q /\ snd (a cs false) = snd (a cs' false) /\
    (fst (a cs true) == fst (a cs' true))%Q /\ snd (a cs true) = snd (a cs' true) /\
    Model.classify qgeb qltb (fst (a cs false)) (fst (a cs true)) (snd (a cs false)) (snd (a cs true)) nu p =
    Model.classify qgeb qltb (fst (a cs' false)) (fst (a cs' true)) (snd (a cs' false)) (snd (a cs' true)) nu p.
Proof. exact projection_order_independent_Q. Qed.
Print Assumptions C20_projection_order_independent_exact.

(* non-vacuity: Z.leb meets the order premises, and a bridged side recorded in
   two orders gives one group with the same maximum *)
Example C20_order_premises_nonvacuous :
  (forall a b, Z.leb a b = true \/ Z.leb b a = true) /\
  (forall a b c, Z.leb a b = true -> Z.leb b c = true -> Z.leb a c = true) /\
  (forall a b, Z.leb a b = true -> Z.leb b a = true -> a = b).
Proof.
  repeat split; intros.
  - destruct (Z.leb_spec a b); auto. right. apply Z.leb_le. apply Z.lt_le_incl. assumption.
  - apply Z.leb_le. apply Z.leb_le in H, H0. eapply Z.le_trans; eauto.
  - apply Z.leb_le in H, H0. apply Z.le_antisymm; auto.
Qed.

Example C20_components_nonvacuous :
  let a := mkCand 1%Z "alice" ["E1"] Support 5%Z false in
  let b := mkCand 2%Z "bob" ["E2"] Support 7%Z false in
  let c := mkCand 3%Z "carol" ["E1"; "E2"] Support 6%Z false in
  let d := mkCand 4%Z "dave" [] Support 9%Z false in
  map snd (groups_of (cmax_of Z.leb) [a; b; c; d]) = [7%Z; 9%Z] /\
  map snd (groups_of (cmax_of Z.leb) [d; c; b; a]) = [9%Z; 7%Z] /\
  List.length (groups_of (cmax_of Z.leb) [a; b; d]) = 3.
Proof. vm_compute. repeat split; reflexivity. Qed.

(* ---------- the projection of one proposition ---------- *)

(* [keep] = the row passes `eligible`; [own_excl own] = the (id, reason) of every
   ineligible row about the proposition, in order.  Ineligible rows (retracted,
   superseded, expired, not visible, outside valid time, mode not admitted, no
   mode) — own or rival — change nothing but the excluded ledger. *)
Theorem C20_ineligible_contribute_nothing :
  forall (C : Type) (cmax : C -> C -> C) (score : list C -> C) (czero : C) (geb ltb : C -> C -> bool)
         (modes : list mode) (unstated : C) (at_ : string) (expand : bool)
         (own rivals : list (row C)) (p : thresholds C),
    let keep := keep modes unstated at_ in
    let b := project cmax score czero geb ltb modes unstated at_ expand own rivals p in
    let b' := project cmax score czero geb ltb modes unstated at_ expand (filter keep own) (filter keep rivals) p in
    b_status b = b_status b' /\ b_support b = b_support b' /\ b_opposition b = b_opposition b' /\
    b_sg b = b_sg b' /\ b_og b = b_og b' /\
    l_supporting (b_ledger b) = l_supporting (b_ledger b') /\
    l_opposing (b_ledger b) = l_opposing (b_ledger b') /\
    l_uncertain (b_ledger b) = l_uncertain (b_ledger b') /\
    l_excluded (b_ledger b') = [] /\
    l_excluded (b_ledger b) = own_excl modes unstated at_ own /\
    (forall i why, In (i, why) (l_excluded (b_ledger b)) <->
                   exists r, In r own /\ r_id r = i /\ eligible modes unstated at_ r = inr why).
Proof. exact (@ineligible_contribute_nothing). Qed.
Print Assumptions C20_ineligible_contribute_nothing.

(* Silence is insufficient, at the level of the whole projection. *)
Theorem C20_silence_insufficient :
  forall (C : Type) (cmax : C -> C -> C) (score : list C -> C) (czero : C) (geb ltb : C -> C -> bool)
         (modes : list mode) (unstated : C) (at_ : string) (expand : bool)
         (own rivals : list (row C)) (p : thresholds C),
    (forall r, In r own -> exists why, eligible modes unstated at_ r = inr why) ->
    (forall r c, In r rivals -> eligible modes unstated at_ r = inl c -> c_stance c <> Support) ->
    let b := project cmax score czero geb ltb modes unstated at_ expand own rivals p in
    b_status b = Insufficient /\ b_sg b = 0 /\ b_og b = 0 /\
    l_supporting (b_ledger b) = [] /\ l_opposing (b_ledger b) = [] /\ l_uncertain (b_ledger b) = [].
Proof. exact (@silence_insufficient). Qed.
Print Assumptions C20_silence_insufficient.

(* Rejection needs positive opposition (exact arithmetic; material <= accept is
   what Policy::from_settings enforces and the baseline satisfies). *)
Theorem C20_rejected_needs_opposition :
  forall (modes : list mode) (unstated : Q) (at_ : string) (expand : bool)
         (own rivals : list (row Q)) (p : thresholds Q),
    (th_material p <= th_accept p)%Q ->
    let b := project qmax qscore 0%Q qgeb qltb modes unstated at_ expand own rivals p in
    b_status b = Rejected -> 0 < b_og b.
Proof. exact rejected_needs_opposition_Q. Qed.
Print Assumptions C20_rejected_needs_opposition.

(* The whole projection depends only on the multiset of rows recorded about the
   proposition and about its rivals, never on the recording order (exact
   arithmetic): same status and group counts, scores equal as rationals, and the
   four ledgers equal as multisets. *)
Theorem C20_project_order_independent_exact :
  forall (modes : list mode) (unstated : Q) (at_ : string) (expand : bool)
         (own own' rivals rivals' : list (row Q)) (p : thresholds Q),
    Permutation own own' -> Permutation rivals rivals' ->
    let b := project qmax qscore 0%Q qgeb qltb modes unstated at_ expand own rivals p in
    let b' := project qmax qscore 0%Q qgeb qltb modes unstated at_ expand own' rivals' p in
    b_status b = b_status b' /\
    (b_support b == b_support b')%Q /\ (b_opposition b == b_opposition b')%Q /\
    b_sg b = b_sg b' /\ b_og b = b_og b' /\
    Permutation (l_supporting (b_ledger b)) (l_supporting (b_ledger b')) /\
    Permutation (l_opposing (b_ledger b)) (l_opposing (b_ledger b')) /\
    Permutation (l_uncertain (b_ledger b)) (l_uncertain (b_ledger b')) /\
    Permutation (l_excluded (b_ledger b)) (l_excluded (b_ledger b')).
Proof. exact project_order_independent_Q. Qed.
Print Assumptions C20_project_order_independent_exact.

Example C20_project_nonvacuous :
  let r i st m a s c := mkRow i st "active" "" "" m a [] s c false in
  let own := [r 1%Z "active" "stated" "alice" "reject" (9#10); r 2%Z "retracted" "stated" "bob" "support" (9#10);
              r 3%Z "active" "hypothetical" "carol" "support" 1]%Q in
  let b := project qmax qscore 0%Q qgeb qltb [Observed; Stated] (1#2)%Q "2026" true own []
             {| th_accept := (7#10)%Q; th_material := (3#10)%Q |} in
  b_status b = Rejected /\ b_og b = 1 /\ b_sg b = 0 /\
  l_excluded (b_ledger b) = [(2%Z, "retracted"%string); (3%Z, "hypothetical_not_requested"%string)].
Proof. vm_compute. repeat split; reflexivity. Qed.

(* ---------- order independence at the type the code uses (binary64, f64::max) ---------- *)
From Verif Require Import Belief.FloatOrder.

(* [fgood f] = f is neither NaN nor -0.0 (checked by the harness on every case).
   The three premises are IEEE-754 facts about `<` on such values; they are named
   in the trusted base.  For every side whose confidences are good, the number of
   groups and the multiset of group maxima computed with f64::max do not depend on
   the recording order. *)
Theorem C20_aggregate_perm_float :
  (forall a b, fgood a = true -> fgood b = true ->
     PrimFloat.ltb a b = true -> PrimFloat.ltb b a = false) ->
  (forall a b c, fgood a = true -> fgood b = true -> fgood c = true ->
     PrimFloat.ltb b a = false -> PrimFloat.ltb c b = false -> PrimFloat.ltb c a = false) ->
  (forall a b, fgood a = true -> fgood b = true ->
     PrimFloat.ltb a b = false -> PrimFloat.ltb b a = false -> a = b) ->
  forall side side' : list (cand float),
    Forall (fun c => fgood (c_conf c) = true) side ->
    Permutation side side' ->
    List.length (groups_of fmax side) = List.length (groups_of fmax side') /\
    Permutation (map snd (groups_of fmax side)) (map snd (groups_of fmax side')).
Proof. exact aggregate_perm_float. Qed.
Print Assumptions C20_aggregate_perm_float.

(* Together with the canonical sorted fold: what `aggregate` returns (the binary64
   score and the group count) is the same value in every recording order. *)
Theorem C20_aggregate_float_order_independent :
  (forall a b, fgood a = true -> fgood b = true ->
     PrimFloat.ltb a b = true -> PrimFloat.ltb b a = false) ->
  (forall a b c, fgood a = true -> fgood b = true -> fgood c = true ->
     PrimFloat.ltb b a = false -> PrimFloat.ltb c b = false -> PrimFloat.ltb c a = false) ->
  (forall a b, fgood a = true -> fgood b = true ->
     PrimFloat.ltb a b = false -> PrimFloat.ltb b a = false -> a = b) ->
  (forall a b, f_total_leb a b = true -> f_total_leb b a = true -> a = b) ->
  (forall a b c, f_total_leb a b = true -> f_total_leb b c = true -> f_total_leb a c = true) ->
  forall (cs cs' : list (cand float)) (opposing : bool),
    Forall (fun c => fgood (c_conf c) = true) cs ->
    Permutation cs cs' ->
    aggregate fmax (fscore true) 0%float cs opposing = aggregate fmax (fscore true) 0%float cs' opposing.
Proof. exact aggregate_float_order_independent. Qed.
Print Assumptions C20_aggregate_float_order_independent.

(* non-vacuity: the premise holds of ordinary confidences and fails of -0.0 and NaN;
   f64::max then behaves as the maximum *)
Example C20_fgood_nonvacuous :
  forallb fgood [0; 0x1p-1; 1; 0x1.3333333333333p-2]%float = true /\
  fgood (-0)%float = false /\ fgood PrimFloat.nan = false /\
  map snd (groups_of fmax [mkCand 1%Z "a" ["e"] Support 0x1p-1%float false;
                           mkCand 2%Z "b" ["e"] Support 0x1p-2%float false;
                           mkCand 3%Z "c" [] Support 1%float false]) = [0x1p-1; 1]%float.
Proof. vm_compute. repeat split; reflexivity. Qed.
