(* C20 — lemmas about the model in Belief/Model.v *)
From Coq Require Import List Ascii String Bool Arith ZArith QArith Lqa Lia Permutation Sorting.Mergesort Sorted Orders.
From Verif Require Import Belief.Model.
Import ListNotations.
Close Scope Q_scope.
Open Scope nat_scope.
Open Scope list_scope.

(* ---------- keys ---------- *)

Lemma key_eqb_spec a b : reflect (a = b) (key_eqb a b).
Proof.
  destruct a as [x|x], b as [y|y]; simpl;
    try (destruct (String.eqb_spec x y); constructor; congruence);
    constructor; congruence.
Qed.

Lemma key_mem_In k l : key_mem k l = true <-> In k l.
Proof.
  unfold key_mem. rewrite existsb_exists. split.
  - intros [x [Hx He]]. destruct (key_eqb_spec k x); [subst; auto | discriminate].
  - intros H. exists k. split; auto. destruct (key_eqb_spec k k); congruence.
Qed.

Lemma overlaps_spec g ks :
  overlaps g ks = true <-> exists k, In k g /\ In k ks.
Proof.
  unfold overlaps. rewrite existsb_exists. split.
  - intros [k [H1 H2]]. exists k. rewrite key_mem_In in H2. auto.
  - intros [k [H1 H2]]. exists k. rewrite key_mem_In. auto.
Qed.

Section Grouping.
  Context {C : Type}.
  Variable cmax : C -> C -> C.

  Notation group := (group C).
  Notation insert := (insert cmax).
  Notation absorb := (absorb cmax).

  Definition hit (keys : list key) (g : group) : bool := overlaps (fst g) keys.
  Definition miss (keys : list key) (g : group) : bool := negb (hit keys g).

  Definition merge1 (a g : group) : group := (fst a ++ fst g, cmax (snd a) (snd g)).

  (* absorb = merge every later hit into the target, keep the misses in order *)
  Lemma absorb_char keys : forall todo acc,
    absorb keys acc todo =
      (fold_left merge1 (filter (hit keys) todo) acc, filter (miss keys) todo).
  Proof.
    induction todo as [|g r IH]; intros acc; simpl; [reflexivity|].
    unfold miss, hit in *.
    destruct (overlaps (fst g) keys) eqn:E; simpl; rewrite IH; reflexivity.
  Qed.

  (* the number of groups after one candidate = 1 + the groups it does not touch *)
  Lemma insert_length keys conf : forall gs,
    List.length (insert keys conf gs) = S (List.length (filter (miss keys) gs)).
  Proof.
    induction gs as [|g r IH]; simpl; [reflexivity|].
    unfold miss, hit in *. destruct (overlaps (fst g) keys) eqn:E; simpl.
    - rewrite absorb_char. simpl. reflexivity.
    - rewrite IH. reflexivity.
  Qed.

  Lemma filter_length_le {A} (f : A -> bool) l : List.length (filter f l) <= List.length l.
  Proof. induction l as [|a l IH]; simpl; [lia|]. destruct (f a); simpl; lia. Qed.

  Lemma filter_length_lt {A} (f : A -> bool) l x :
    In x l -> f x = false -> List.length (filter f l) < List.length l.
  Proof.
    induction l as [|a l IH]; simpl; [tauto|].
    intros [->|Hin] Hf.
    - rewrite Hf. pose proof (filter_length_le f l). lia.
    - specialize (IH Hin Hf). destruct (f a); simpl; lia.
  Qed.

  (* at most one new group per candidate ... *)
  Lemma insert_length_le keys conf gs :
    List.length (insert keys conf gs) <= S (List.length gs).
  Proof. rewrite insert_length. pose proof (filter_length_le (miss keys) gs). lia. Qed.

  (* ... and none at all when the candidate shares an actor or an evidence id
     with a group already there *)
  Lemma insert_no_new_group keys conf gs g :
    In g gs -> overlaps (fst g) keys = true ->
    List.length (insert keys conf gs) <= List.length gs.
  Proof.
    intros Hin Hov. rewrite insert_length.
    assert (List.length (filter (miss keys) gs) < List.length gs).
    { apply filter_length_lt with (x := g); auto. unfold miss, hit. rewrite Hov. reflexivity. }
    lia.
  Qed.

  Lemma insert_new_group_iff keys conf gs :
    List.length (insert keys conf gs) = S (List.length gs) <->
    (forall g, In g gs -> overlaps (fst g) keys = false).
  Proof.
    rewrite insert_length. split.
    - intros H g Hin. destruct (overlaps (fst g) keys) eqn:E; auto.
      assert (List.length (filter (miss keys) gs) < List.length gs).
      { apply filter_length_lt with (x := g); auto. unfold miss, hit. rewrite E. reflexivity. }
      lia.
    - intros H. f_equal. clear conf. induction gs as [|g r IH]; simpl; auto.
      unfold miss, hit in *. rewrite (H g (or_introl eq_refl)). simpl. f_equal.
      apply IH. intros g' Hg'. apply H. right; auto.
  Qed.

  (* every key of the candidate ends up in one group *)
  Lemma fold_merge1_keys_incl : forall hs acc k,
    In k (fst acc) -> In k (fst (fold_left merge1 hs acc)).
  Proof.
    induction hs as [|h hs IH]; intros acc k Hk; simpl; auto.
    apply IH. unfold merge1; simpl. apply in_or_app; auto.
  Qed.

  Lemma insert_covers keys conf : forall gs,
    exists g, In g (insert keys conf gs) /\ incl keys (fst g).
  Proof.
    induction gs as [|g r IH]; simpl.
    - exists (keys, conf). split; [left; reflexivity | apply incl_refl].
    - destruct (overlaps (fst g) keys) eqn:E.
      + rewrite absorb_char. eexists. split; [left; reflexivity|].
        intros k Hk. apply fold_merge1_keys_incl. simpl. apply in_or_app; auto.
      + destruct IH as [g' [Hin Hincl]]. exists g'. split; [right; auto | auto].
  Qed.
End Grouping.

(* ---------- classification ---------- *)

Section Classify.
  Context {C : Type}.
  Variable geb ltb : C -> C -> bool.

  Lemma classify_silence s o (p : thresholds C) :
    classify geb ltb s o 0 0 0 p = Insufficient.
  Proof. reflexivity. Qed.

  Lemma classify_insufficient_iff s o sg og nu (p : thresholds C) :
    classify geb ltb s o sg og nu p = Insufficient <-> (sg = 0 /\ og = 0 /\ nu = 0).
  Proof.
    unfold classify. split.
    - destruct sg, og, nu; simpl; auto;
        repeat match goal with |- context [if ?b then _ else _] => destruct b end;
        discriminate.
    - intros (-> & -> & ->). reflexivity.
  Qed.

  Lemma classify_rejected_needs s o sg og nu (p : thresholds C) :
    classify geb ltb s o sg og nu p = Rejected ->
    geb o (th_accept p) = true /\ ltb s (th_material p) = true.
  Proof.
    unfold classify.
    destruct (negb _); [discriminate|].
    destruct (geb s (th_accept p) && ltb o (th_material p)); [discriminate|].
    destruct (geb o (th_accept p)) eqn:E1, (ltb s (th_material p)) eqn:E2; simpl; auto;
      destruct (geb s (th_material p) && geb o (th_material p)); discriminate.
  Qed.
End Classify.

(* ---------- the score over exact rationals ---------- *)

Open Scope Q_scope.

Lemma Qle_bool_false a b : Qle_bool a b = false -> b < a.
Proof.
  intros H. apply Qnot_le_lt. intros Hle. apply Qle_bool_iff in Hle. congruence.
Qed.

Ltac qb :=
  repeat match goal with
  | H : Qle_bool _ _ = true |- _ => apply Qle_bool_iff in H
  | H : Qle_bool _ _ = false |- _ => apply Qle_bool_false in H
  end.

Lemma qclamp_range c : 0 <= qclamp c <= 1.
Proof.
  unfold qclamp. destruct (Qle_bool c 0) eqn:E0; [lra|].
  destruct (Qle_bool 1 c) eqn:E1; [lra|]. qb. lra.
Qed.

Lemma qclamp_mono a b : a <= b -> qclamp a <= qclamp b.
Proof.
  intros Hab. unfold qclamp.
  destruct (Qle_bool a 0) eqn:Ea0, (Qle_bool b 0) eqn:Eb0,
           (Qle_bool 1 a) eqn:Ea1, (Qle_bool 1 b) eqn:Eb1; qb; lra.
Qed.

Definition qprod (ms : list Q) (acc : Q) : Q :=
  fold_left (fun acc c => acc * (1 - qclamp c)) ms acc.

Lemma qprod_range : forall ms acc, 0 <= acc <= 1 -> 0 <= qprod ms acc <= 1.
Proof.
  induction ms as [|c ms IH]; intros acc Hacc; simpl; [exact Hacc|].
  apply IH. pose proof (qclamp_range c). nra.
Qed.

Lemma qscore_range ms : 0 <= qscore ms <= 1.
Proof.
  unfold qscore. fold (qprod ms 1).
  assert (H : 0 <= qprod ms 1 <= 1) by (apply qprod_range; lra). lra.
Qed.

Lemma qprod_mono_acc : forall ms a b, 0 <= a -> a <= b -> qprod ms a <= qprod ms b.
Proof.
  induction ms as [|c ms IH]; intros a b Ha Hab; simpl; [assumption|].
  pose proof (qclamp_range c). apply IH; nra.
Qed.

(* raising one group's strongest confidence never lowers the score *)
Lemma qscore_monotone pre post c c' :
  c <= c' -> qscore (pre ++ c :: post) <= qscore (pre ++ c' :: post).
Proof.
  intros Hc. unfold qscore.
  assert (H : qprod (pre ++ c' :: post) 1 <= qprod (pre ++ c :: post) 1).
  { unfold qprod. rewrite !fold_left_app. simpl.
    fold (qprod pre 1).
    assert (Hp : 0 <= qprod pre 1 <= 1) by (apply qprod_range; lra).
    pose proof (qclamp_range c'). pose proof (qclamp_range c).
    pose proof (qclamp_mono _ _ Hc).
    apply (qprod_mono_acc post); nra. }
  unfold qprod in H. lra.
Qed.

(* the exact score is a symmetric function of the multiset of maxima *)
Lemma qprod_perm ms ms' : Permutation ms ms' -> forall acc, qprod ms acc == qprod ms' acc.
Proof.
  induction 1 as [|x l l' _ IH|x y l|l l' l'' _ IH1 _ IH2]; intros acc; simpl.
  - reflexivity.
  - apply IH.
  - assert (E : acc * (1 - qclamp y) * (1 - qclamp x) == acc * (1 - qclamp x) * (1 - qclamp y)) by ring.
    revert E. generalize (acc * (1 - qclamp y) * (1 - qclamp x)) (acc * (1 - qclamp x) * (1 - qclamp y)).
    clear. induction l as [|c l IH]; intros a b E; simpl; [assumption|].
    apply IH. rewrite E. reflexivity.
  - rewrite IH1. apply IH2.
Qed.

Lemma qscore_perm ms ms' : Permutation ms ms' -> qscore ms == qscore ms'.
Proof. intros H. unfold qscore. fold (qprod ms 1) (qprod ms' 1). rewrite (qprod_perm _ _ H). reflexivity. Qed.

Close Scope Q_scope.

(* ---------- sorted fold: a canonical form of the multiset (needs no float reasoning) ---------- *)

Section Canon.
  Context {A : Type} (leb : A -> A -> bool).
  (* antisymmetry up to Leibniz equality is what makes the sorted list canonical *)
  Hypothesis leb_antisym : forall a b, leb a b = true -> leb b a = true -> a = b.

  Lemma sorted_perm_eq : forall l l',
    StronglySorted (fun a b => is_true (leb a b)) l ->
    StronglySorted (fun a b => is_true (leb a b)) l' ->
    Permutation l l' -> l = l'.
  Proof.
    induction l as [|a l IH]; intros l' Hs Hs' Hp.
    - apply Permutation_nil in Hp. subst. reflexivity.
    - destruct l' as [|b l'].
      { apply Permutation_sym, Permutation_nil in Hp. discriminate. }
      inversion Hs as [|? ? Hsl Hal]; subst. inversion Hs' as [|? ? Hsl' Hbl']; subst.
      assert (a = b).
      { assert (Ha : In a (b :: l')) by (eapply Permutation_in; [exact Hp | left; reflexivity]).
        assert (Hb : In b (a :: l)) by (eapply Permutation_in; [apply Permutation_sym; exact Hp | left; reflexivity]).
        destruct Ha as [->|Ha]; [reflexivity|]. destruct Hb as [->|Hb]; [reflexivity|].
        rewrite Forall_forall in Hal, Hbl'.
        apply leb_antisym; [apply Hal; assumption | apply Hbl'; assumption]. }
      subst b. f_equal. apply IH; auto. eapply Permutation_cons_inv; eauto.
  Qed.
End Canon.

Lemma float_sort_canonical :
  (forall a b, f_total_leb a b = true -> f_total_leb b a = true -> a = b) ->
  (forall a b c, f_total_leb a b = true -> f_total_leb b c = true -> f_total_leb a c = true) ->
  forall l l', Permutation l l' -> FloatSort.sort l = FloatSort.sort l'.
Proof.
  intros Hanti Htrans l l' Hp. apply (sorted_perm_eq f_total_leb Hanti).
  - apply FloatSort.StronglySorted_sort. intros a b c. apply Htrans.
  - apply FloatSort.StronglySorted_sort. intros a b c. apply Htrans.
  - eapply Permutation_trans; [apply Permutation_sym, FloatSort.Permuted_sort|].
    eapply Permutation_trans; [exact Hp | apply FloatSort.Permuted_sort].
Qed.
