(* C20 — the float instance that mirrors the code as it is now (gen/Gen_Policy.v),
   and the case runner used by the correspondence check. *)
From Coq Require Import List Ascii String Bool Arith ZArith Floats.
From Verif Require Import Belief.Model gen.Gen_Policy.
Import ListNotations.
Open Scope list_scope.

Definition fgeb (a b : float) : bool := PrimFloat.leb b a.   (* a >= b *)
Definition fltb (a b : float) : bool := PrimFloat.ltb a b.

Definition fscore_now : list float -> float := fscore score_fold_sorted.

(* bit equality of binary64 values that are not NaN: equal and same sign of zero *)
Definition f_same (a b : float) : bool :=
  match PrimFloat.is_nan a, PrimFloat.is_nan b with
  | true, true => true
  | false, false => PrimFloat.eqb a b && PrimFloat.eqb (1 / a) (1 / b)
  | _, _ => false
  end.

Definition status_eqb (a b : status) : bool :=
  match a, b with
  | Accepted, Accepted | Rejected, Rejected | Contested, Contested
  | Uncertain, Uncertain | Insufficient, Insufficient => true
  | _, _ => false
  end.

(* pure-stage case: candidates, accept, material *)
Definition pcand := (Z * string * list string * stance * float * bool)%type.
Definition pcase := (list pcand * float * float)%type.
Definition pobs := (float * nat * float * nat * status)%type.

Definition mk_cand (c : pcand) : cand float :=
  let '(i, a, e, s, f, o) := c in mkCand i a e s f o.

Definition run_pure (c : pcase) : pobs :=
  let '(cs, acc, mat) := c in
  let cs := map mk_cand cs in
  let '(s, sg) := aggregate fmax fscore_now 0%float cs false in
  let '(o, og) := aggregate fmax fscore_now 0%float cs true in
  let nu := List.length (filter (fun c => negb (c_opp c) &&
               match c_stance c with OtherStance => true | _ => false end) cs) in
  (s, sg, o, og, classify fgeb fltb s o sg og nu {| th_accept := acc; th_material := mat |}).

Definition pobs_eqb (a b : pobs) : bool :=
  let '(s, sg, o, og, st) := a in
  let '(s', sg', o', og', st') := b in
  f_same s s' && Nat.eqb sg sg' && f_same o o' && Nat.eqb og og' && status_eqb st st'.

Definition check_pure (co : pcase * pobs) : bool := pobs_eqb (run_pure (fst co)) (snd co).
