(* C20 — the float instance that mirrors the code as it is now (gen/Gen_Policy.v),
   and the case runner used by the correspondence check. *)
From Coq Require Import List Ascii String Bool Arith ZArith Floats.
From Verif Require Import Belief.Model gen.Gen_Policy.
Import ListNotations.
Open Scope list_scope.

Definition fgeb (a b : float) : bool := PrimFloat.leb b a.   (* a >= b *)
Definition fltb (a b : float) : bool := PrimFloat.ltb a b.

Definition fscore_now : list float -> float := fscore score_fold_sorted.

(* bit equality of binary64 values that are not NaN: equal and same sign of zero *)
Definition f_same (a b : float) : bool :=
  match PrimFloat.is_nan a, PrimFloat.is_nan b with
  | true, true => true
  | false, false => PrimFloat.eqb a b && PrimFloat.eqb (1 / a) (1 / b)
  | _, _ => false
  end.

Definition status_eqb (a b : status) : bool :=
  match a, b with
  | Accepted, Accepted | Rejected, Rejected | Contested, Contested
  | Uncertain, Uncertain | Insufficient, Insufficient => true
  | _, _ => false
  end.

(* pure-stage case: candidates, accept, material *)
Definition pcand := (Z * string * list string * stance * float * bool)%type.
Definition pcase := (list pcand * float * float)%type.
Definition pobs := (float * nat * float * nat * status)%type.

Definition mk_cand (c : pcand) : cand float :=
  let '(i, a, e, s, f, o) := c in mkCand i a e s f o.

Definition run_pure (c : pcase) : pobs :=
  let '(cs, acc, mat) := c in
  let cs := map mk_cand cs in
  let '(s, sg) := aggregate fmax fscore_now 0%float cs false in
  let '(o, og) := aggregate fmax fscore_now 0%float cs true in
  let nu := List.length (filter (fun c => negb (c_opp c) &&
               match c_stance c with OtherStance => true | _ => false end) cs) in
  (s, sg, o, og, classify fgeb fltb s o sg og nu {| th_accept := acc; th_material := mat |}).

Definition pobs_eqb (a b : pobs) : bool :=
  let '(s, sg, o, og, st) := a in
  let '(s', sg', o', og', st') := b in
  f_same s s' && Nat.eqb sg sg' && f_same o o' && Nat.eqb og og' && status_eqb st st'.

Definition check_pure (co : pcase * pobs) : bool := pobs_eqb (run_pure (fst co)) (snd co).

(* ---------- end-to-end case: the rows a real Nexus holds about one proposition
   (and about its functional rivals), the policy in force and the evaluation
   time; the observation is what `FIND(?b) WHERE { ... ?b BELIEF (?p) }` returned ---------- *)

(* (id, status, state, valid_from, valid_until, mode, actor key, evidence ids,
    stance, confidence, confidence < 0) *)
Definition prow :=
  (Z * string * string * string * string * string * string * list string * string * float * bool)%type.
(* (modes, accept, material, unstated_confidence, at, expand_conflicts) *)
Definition ppolicy := (list mode * float * float * float * string * bool)%type.
Definition ecase := (list prow * list prow * ppolicy)%type.
(* (status, support, support groups, opposition, opposition groups,
    (supporting, opposing, uncertain, excluded)) *)
Definition eobs :=
  (status * float * nat * float * nat * (list Z * list Z * list Z * list (Z * string)))%type.

Definition mk_row (r : prow) : row float :=
  let '(i, st, state, vf, vu, m, a, e, s, c, neg) := r in mkRow i st state vf vu m a e s c neg.

Definition run_e2e (c : ecase) : eobs :=
  let '(own, rivals, (modes, acc, mat, unstated, at_, expand)) := c in
  let b := project fmax fscore_now 0%float fgeb fltb modes unstated at_ expand
             (map mk_row own) (map mk_row rivals) {| th_accept := acc; th_material := mat |} in
  let l := b_ledger b in
  (b_status b, b_support b, b_sg b, b_opposition b, b_og b,
   (l_supporting l, l_opposing l, l_uncertain l, l_excluded l)).

Definition zlist_eqb (a b : list Z) : bool :=
  Nat.eqb (List.length a) (List.length b) && forallb (fun p => Z.eqb (fst p) (snd p)) (combine a b).
Definition excl_eqb (a b : list (Z * string)) : bool :=
  Nat.eqb (List.length a) (List.length b) &&
  forallb (fun p => Z.eqb (fst (fst p)) (fst (snd p)) && String.eqb (snd (fst p)) (snd (snd p))) (combine a b).

(* ledgers are compared as sets: both sides sorted by assertion id (the engine lists
   them in index-posting order, which is not part of the property) *)
Fixpoint zins (x : Z) (l : list Z) : list Z :=
  match l with [] => [x] | y :: r => if Z.leb x y then x :: l else y :: zins x r end.
Definition zsort (l : list Z) : list Z := fold_right zins [] l.
Fixpoint xins (x : Z * string) (l : list (Z * string)) : list (Z * string) :=
  match l with [] => [x] | y :: r => if Z.leb (fst x) (fst y) then x :: l else y :: xins x r end.
Definition xsort (l : list (Z * string)) : list (Z * string) := fold_right xins [] l.

Definition eobs_eqb (a b : eobs) : bool :=
  let '(st, s, sg, o, og, (ls, lo, lu, lx)) := a in
  let '(st', s', sg', o', og', (ls', lo', lu', lx')) := b in
  status_eqb st st' && f_same s s' && Nat.eqb sg sg' && f_same o o' && Nat.eqb og og' &&
  zlist_eqb (zsort ls) (zsort ls') && zlist_eqb (zsort lo) (zsort lo') &&
  zlist_eqb (zsort lu) (zsort lu') && excl_eqb (xsort lx) (xsort lx').

Definition check_e2e (co : ecase * eobs) : bool := eobs_eqb (run_e2e (fst co)) (snd co).

(* ---------- the premise of the binary64 order-independence theorems
   (Belief/FloatOrder.v), checked on every generated case: every confidence that
   reaches `aggregate` is neither NaN nor -0.0 ---------- *)
From Verif Require Import Belief.FloatOrder.

Definition pure_good (co : pcase * pobs) : bool :=
  let '(cs, _, _) := fst co in forallb (fun c => fgood (c_conf (mk_cand c))) cs.

Definition e2e_good (co : ecase * eobs) : bool :=
  let '(own, rivals, (_, _, _, unstated, _, _)) := fst co in
  forallb (fun r => let r := mk_row r in fgood (if r_conf_neg r then unstated else r_conf r)) (own ++ rivals).

(* ---------- the textual comparisons of `eligible` are chronological only on stored-form
   timestamps: every time string of a case is `YYYY-MM-DDTHH:MM:SS.mmmZ` (or empty = no bound) ---------- *)
Definition is_digit (c : ascii) : bool :=
  let n := nat_of_ascii c in Nat.leb 48 n && Nat.leb n 57.
Fixpoint match_pat (pat s : list ascii) : bool :=
  match pat, s with
  | [], [] => true
  | p :: pr, c :: sr => (if Ascii.eqb p "d" then is_digit c else Ascii.eqb p c) && match_pat pr sr
  | _, _ => false
  end.
Definition canonical_ts (s : string) : bool :=
  match_pat (list_ascii_of_string "dddd-dd-ddTdd:dd:dd.dddZ") (list_ascii_of_string s).

Definition e2e_times_canonical (co : ecase * eobs) : bool :=
  let '(own, rivals, (_, _, _, _, at_, _)) := fst co in
  canonical_ts at_ &&
  forallb (fun r => let r := mk_row r in
             (String.eqb (r_valid_from r) "" || canonical_ts (r_valid_from r)) &&
             (String.eqb (r_valid_until r) "" || canonical_ts (r_valid_until r))) (own ++ rivals).
