(* C04 — any number of writers contending for ONE key of ONE unique index, interleaved at the code's atomic
   steps.  The uniqueness re-check inside the posting entry lock (dashmap entry: BTreeIndex::insert /
   insert_array) is one atomic test-and-insert; the storage write and the id registration are separate steps;
   a failed add runs its rollback closure (remove(id, value): the index was recorded before the insert), a failed
   update has nothing recorded for the failing index.

   Writers: WAdd = add(doc holding the value), WUpdate = update(own doc -> the value).  [s_post] is the posting of
   the contested key, [s_stored] the ids whose stored document holds the value. *)
From Coq Require Import List ZArith Bool Lia.
From Verif Require Import Uniq.Model Uniq.Proofs.
Import ListNotations.
Open Scope list_scope.

Inductive wkind := WAdd | WUpdate.
Inductive pc := Start | Failed | Inserted | Stored | DoneOk | DoneErr.
Record writer := mkW { w_id : Z; w_kind : wkind; w_pc : pc }.

Definition conflictL (post : list Z) (id : Z) : bool := nonempty post && negb (memz id post).

(* one atomic step of one writer *)
Definition step_one (post stored : list Z) (w : writer) : list Z * list Z * writer :=
  let id := w_id w in
  match w_pc w with
  | Start => if conflictL post id then (post, stored, mkW id (w_kind w) Failed)
             else (push id post, stored, mkW id (w_kind w) Inserted)          (* test-and-insert *)
  | Failed => match w_kind w with
              | WAdd => (drop id post, stored, mkW id WAdd DoneErr)           (* rollback: remove(id, value) *)
              | WUpdate => (post, stored, mkW id WUpdate DoneErr)
              end
  | Inserted => (post, id :: stored, mkW id (w_kind w) Stored)                 (* storage.create / storage.put *)
  | Stored => (post, stored, mkW id (w_kind w) DoneOk)                         (* doc_ids / return *)
  | DoneOk | DoneErr => (post, stored, w)
  end.

Record sys := mkSys { s_post : list Z; s_stored : list Z; s_ws : list writer }.

Fixpoint step_ws (id : Z) (post stored : list Z) (ws : list writer) : list Z * list Z * list writer :=
  match ws with
  | [] => (post, stored, [])
  | w :: r => if Z.eqb (w_id w) id
              then let '(p, st, w') := step_one post stored w in (p, st, w' :: r)
              else let '(p, st, r') := step_ws id post stored r in (p, st, w :: r')
  end.

Definition sys_step (s : sys) (id : Z) : sys :=
  let '(p, st, ws) := step_ws id (s_post s) (s_stored s) (s_ws s) in mkSys p st ws.

(* a schedule names, step by step, the writer that moves *)
Definition run_sched (s : sys) (sched : list Z) : sys := fold_left sys_step sched s.

Definition wins (w : writer) : bool := match w_pc w with Inserted | Stored | DoneOk => true | _ => false end.
Definition wrote (w : writer) : bool := match w_pc w with Stored | DoneOk => true | _ => false end.
Definition done (w : writer) : bool := match w_pc w with DoneOk | DoneErr => true | _ => false end.

(* the sequential reference: one writer runs to completion alone *)
Definition complete (ps : list Z * list Z) (w : writer) : list Z * list Z :=
  let '(post, stored) := ps in
  if conflictL post (w_id w) then (post, stored) else (push (w_id w) post, w_id w :: stored).
Definition seq_all (post stored : list Z) (ws : list writer) : list Z * list Z := fold_left complete ws (post, stored).

(* ---------- invariant ---------- *)
Record CInv (h0 stored0 : list Z) (s : sys) : Prop := {
  ci_ids : NoDup (map w_id (s_ws s));
  ci_h0 : forall h, In h h0 -> ~ In h (map w_id (s_ws s));
  ci_post : forall x, In x (s_post s) <-> In x h0 \/ exists w, In w (s_ws s) /\ wins w = true /\ w_id w = x;
  ci_uniq : forall a b, In a (s_post s) -> In b (s_post s) -> a = b;
  ci_idle : s_post s = [] -> forall w, In w (s_ws s) -> w_pc w = Start;
  ci_stored : (s_stored s = stored0 /\ forall w, In w (s_ws s) -> wrote w = false) \/
              (exists w, In w (s_ws s) /\ wrote w = true /\ s_stored s = w_id w :: stored0)
}.

Lemma conflictL_spec post id : conflictL post id = true <-> ~ In id post /\ exists x, In x post.
Proof. unfold conflictL. rewrite andb_true_iff, negb_true_iff, memz_false, nonempty_ex. tauto. Qed.

Lemma step_ws_split id post stored ws :
  (~ In id (map w_id ws) /\ step_ws id post stored ws = (post, stored, ws)) \/
  exists l1 w l2, ws = l1 ++ w :: l2 /\ w_id w = id /\
    let '(p, st, w') := step_one post stored w in step_ws id post stored ws = (p, st, l1 ++ w' :: l2).
Proof.
  induction ws as [|w r IH]; simpl.
  - left. tauto.
  - destruct (Z.eqb_spec (w_id w) id) as [E|N].
    + right. exists [], w, r. simpl. repeat split; auto. destruct (step_one post stored w) as [[p st] w']. auto.
    + destruct IH as [[H1 H2]|(l1 & w0 & l2 & H1 & H2 & H3)].
      * left. rewrite H2. split; auto. intros [X|X]; auto.
      * right. exists (w :: l1), w0, l2. subst r. simpl. repeat split; auto.
        destruct (step_one post stored w0) as [[p st] w']. rewrite H3. auto.
Qed.

Lemma step_one_id post stored w : w_id (snd (step_one post stored w)) = w_id w.
Proof. unfold step_one. destruct (w_pc w); simpl; auto; [destruct (conflictL post (w_id w)) | destruct (w_kind w)]; auto. Qed.

Lemma one_winner h0 stored0 s w1 w2 :
  CInv h0 stored0 s -> In w1 (s_ws s) -> In w2 (s_ws s) -> wins w1 = true -> wins w2 = true -> w1 = w2.
Proof.
  intros I H1 H2 W1 W2.
  assert (E : w_id w1 = w_id w2).
  { apply (ci_uniq _ _ _ I); apply (ci_post _ _ _ I); right; eauto. }
  pose proof (ci_ids _ _ _ I) as ND. clear -H1 H2 E ND. induction (s_ws s) as [|w r IH]; simpl in *; [tauto|].
  inversion ND; subst. destruct H1 as [->|H1], H2 as [->|H2]; auto.
  - exfalso. apply H3. rewrite E. apply in_map. auto.
  - exfalso. apply H3. rewrite <- E. apply in_map. auto.
Qed.

Lemma In_mid {A} (l1 l2 : list A) w x : In x (l1 ++ w :: l2) <-> x = w \/ In x (l1 ++ l2).
Proof. rewrite !in_app_iff. simpl. intuition. Qed.

Lemma NoDup_mid_id l1 l2 (w w' : writer) :
  w_id w' = w_id w -> NoDup (map w_id (l1 ++ w :: l2)) -> NoDup (map w_id (l1 ++ w' :: l2)).
Proof. intros E. rewrite !map_app. simpl. rewrite E. auto. Qed.

Lemma mid_other l1 l2 (w x : writer) :
  NoDup (map w_id (l1 ++ w :: l2)) -> In x (l1 ++ l2) -> w_id x <> w_id w.
Proof.
  rewrite map_app. simpl. intros ND H E. apply NoDup_remove_2 in ND. apply ND. rewrite <- E, <- map_app. apply in_map. auto.
Qed.

Theorem step_CInv h0 stored0 s id : CInv h0 stored0 s -> CInv h0 stored0 (sys_step s id).
Proof.
  intros I. unfold sys_step.
  destruct (step_ws_split id (s_post s) (s_stored s) (s_ws s)) as [[_ E]|(l1 & w & l2 & E1 & E2 & E3)].
  { rewrite E. destruct s; auto. }
  destruct (step_one (s_post s) (s_stored s) w) as [[p st] w'] eqn:SO. rewrite E3. clear E3.
  pose proof (step_one_id (s_post s) (s_stored s) w) as IDW. rewrite SO in IDW. simpl in IDW.
  pose proof (ci_ids _ _ _ I) as ND. pose proof (ci_post _ _ _ I) as CP. pose proof (ci_uniq _ _ _ I) as CU.
  pose proof (ci_idle _ _ _ I) as CI. pose proof (ci_stored _ _ _ I) as CS. pose proof (ci_h0 _ _ _ I) as CH.
  rewrite E1 in *.
  assert (OTH : forall x, In x (l1 ++ l2) -> w_id x <> w_id w) by (intros; eapply mid_other; eauto).
  assert (NW : wins w = false -> ~ In (w_id w) (s_post s)).
  { intros F X. apply CP in X. destruct X as [X|(x & X1 & X2 & X3)].
    - apply (CH _ X). rewrite map_app. simpl. apply in_or_app. right. left. auto.
    - apply In_mid in X1. destruct X1 as [->|X1]; [congruence|]. apply (OTH _ X1). auto. }
  assert (SAME : forall (Pw : writer -> bool), Pw w' = Pw w ->
            forall x, (exists y, In y (l1 ++ w' :: l2) /\ Pw y = true /\ w_id y = x) <->
                      (exists y, In y (l1 ++ w :: l2) /\ Pw y = true /\ w_id y = x)).
  { intros Pw EP x. split; intros (y & Y1 & Y2 & Y3); apply In_mid in Y1; destruct Y1 as [->|Y1].
    - exists w. rewrite In_mid. rewrite <- EP. repeat split; auto. congruence.
    - exists y. rewrite In_mid. auto.
    - exists w'. rewrite In_mid. rewrite EP. repeat split; auto. congruence.
    - exists y. rewrite In_mid. auto. }
  assert (KEEP : forall (Pw : writer -> bool), Pw w' = Pw w \/ Pw w' = false -> (forall x, In x (l1 ++ w :: l2) -> Pw x = false) ->
            forall x, In x (l1 ++ w' :: l2) -> Pw x = false).
  { intros Pw EP H x X. apply In_mid in X. destruct X as [->|X].
    - destruct EP as [EP|EP]; auto. rewrite EP. apply H. apply In_mid. auto.
    - apply H. apply In_mid. auto. }
  unfold step_one in SO. destruct (w_pc w) eqn:PC.
  - (* Start *)
    destruct (conflictL (s_post s) (w_id w)) eqn:C; inversion SO; subst; clear SO.
    + apply conflictL_spec in C. destruct C as [C1 [y C2]].
      constructor; simpl; auto.
      * eapply NoDup_mid_id; eauto.
      * intros h Hh. rewrite map_app in *. simpl in *. apply CH. auto.
      * intros x. rewrite CP. apply or_iff_compat_l. symmetry. apply SAME. unfold wins. simpl. rewrite PC. auto.
      * intros X. rewrite X in C2. destruct C2.
      * destruct CS as [[S1 S2]|(x & S1 & S2 & S3)]; [left; split; auto; eapply KEEP; eauto; unfold wrote; simpl; rewrite PC; auto|].
        right. apply In_mid in S1. destruct S1 as [->|S1]; [unfold wrote in S2; rewrite PC in S2; discriminate|].
        exists x. rewrite In_mid. auto.
    + assert (PE : s_post s = []).
      { destruct (s_post s) as [|y t] eqn:PS; auto. exfalso.
        assert (X : conflictL (y :: t) (w_id w) = true); [|congruence].
        apply conflictL_spec. split; [|exists y; simpl; auto]. apply NW. unfold wins. rewrite PC. auto. }
      constructor; simpl.
      * eapply NoDup_mid_id; eauto.
      * intros h Hh. rewrite map_app in *. simpl in *. apply CH. auto.
      * intros x. rewrite push_In, CP. split.
        -- intros [->|[X|(y & Y1 & Y2 & Y3)]]; auto.
           ++ right. exists (mkW (w_id w) (w_kind w) Inserted). rewrite In_mid. auto.
           ++ right. apply In_mid in Y1. destruct Y1 as [->|Y1]; [unfold wins in Y2; rewrite PC in Y2; discriminate|].
              exists y. rewrite In_mid. auto.
        -- intros [X|(y & Y1 & Y2 & Y3)]; auto. apply In_mid in Y1. destruct Y1 as [->|Y1]; [simpl in Y3; auto|].
           right. right. exists y. rewrite In_mid. auto.
      * rewrite PE. unfold push. simpl. intros a b [<-|[]] [<-|[]]. auto.
      * rewrite PE. unfold push. simpl. discriminate.
      * destruct CS as [[S1 S2]|(x & S1 & S2 & S3)]; [left; split; auto; eapply KEEP; eauto; unfold wrote; simpl; auto|].
        right. apply In_mid in S1. destruct S1 as [->|S1]; [unfold wrote in S2; rewrite PC in S2; discriminate|].
        exists x. rewrite In_mid. auto.
  - (* Failed *)
    assert (NI : ~ In (w_id w) (s_post s)) by (apply NW; unfold wins; rewrite PC; auto).
    assert (NE : s_post s <> []).
    { intros X. specialize (CI X w). rewrite PC in CI. assert (Failed = Start); [|discriminate]. apply CI. apply In_mid. auto. }
    assert (DE : forall x, In x (drop (w_id w) (s_post s)) <-> In x (s_post s)).
    { intros x. rewrite drop_In. split; [tauto|]. intros X. split; auto. intros ->. auto. }
    assert (G : forall k : bool, CInv h0 stored0 (mkSys (if k then drop (w_id w) (s_post s) else s_post s) (s_stored s)
                                            (l1 ++ mkW (w_id w) (if k then WAdd else WUpdate) DoneErr :: l2))).
    { intros k. set (w1 := mkW (w_id w) (if k then WAdd else WUpdate) DoneErr).
      assert (PI : forall x, In x (if k then drop (w_id w) (s_post s) else s_post s) <-> In x (s_post s)) by (destruct k; [apply DE | tauto]).
      constructor; simpl.
      * apply (NoDup_mid_id l1 l2 w); [reflexivity | exact ND].
      * intros h Hh. rewrite map_app in *. simpl in *. apply CH. auto.
      * intros x. rewrite PI, CP. apply or_iff_compat_l.
        split; intros (y & Y1 & Y2 & Y3); apply In_mid in Y1; destruct Y1 as [->|Y1];
          try (unfold wins in Y2; simpl in Y2; rewrite ?PC in Y2; discriminate); exists y; rewrite In_mid; auto.
      * intros a b Ha Hb. apply CU; apply PI; auto.
      * intros X. exfalso. destruct (s_post s) as [|y t] eqn:PS; [congruence|].
        assert (In y (if k then drop (w_id w) (y :: t) else y :: t)) by (apply PI; simpl; auto). rewrite X in H. destruct H.
      * destruct CS as [[S1 S2]|(x & S1 & S2 & S3)].
        -- left. split; auto. intros x X. apply In_mid in X. destruct X as [->|X]; auto. apply S2. apply In_mid. auto.
        -- right. apply In_mid in S1. destruct S1 as [->|S1]; [unfold wrote in S2; rewrite PC in S2; discriminate|].
           exists x. rewrite In_mid. auto. }
    destruct (w_kind w); inversion SO; subst; [apply (G true) | apply (G false)].
  - (* Inserted -> Stored *)
    inversion SO; subst; clear SO.
    assert (WW : wins w = true) by (unfold wins; rewrite PC; auto).
    constructor; simpl; auto.
    + eapply NoDup_mid_id; eauto.
    + intros h Hh. rewrite map_app in *. simpl in *. apply CH. auto.
    + intros x. rewrite CP. apply or_iff_compat_l. symmetry. apply SAME. unfold wins. simpl. rewrite PC. auto.
    + intros X. specialize (CI X w). rewrite PC in CI. assert (Inserted = Start); [|discriminate]. apply CI. apply In_mid. auto.
    + right. exists (mkW (w_id w) (w_kind w) Stored). rewrite In_mid. split; auto. split; auto. simpl.
      destruct CS as [[S1 S2]|(x & S1 & S2 & S3)]; [rewrite S1; auto|]. exfalso.
      apply In_mid in S1. destruct S1 as [->|S1]; [unfold wrote in S2; rewrite PC in S2; discriminate|].
      assert (x = w).
      { apply (one_winner h0 stored0 s); auto; rewrite ?E1; try (apply In_mid; auto).
        unfold wins. unfold wrote in S2. destruct (w_pc x); auto; discriminate. }
      subst. unfold wrote in S2. rewrite PC in S2. discriminate.
  - (* Stored -> DoneOk *)
    inversion SO; subst; clear SO.
    constructor; simpl; auto.
    + eapply NoDup_mid_id; eauto.
    + intros h Hh. rewrite map_app in *. simpl in *. apply CH. auto.
    + intros x. rewrite CP. apply or_iff_compat_l. symmetry. apply SAME. unfold wins. simpl. rewrite PC. auto.
    + intros X. specialize (CI X w). rewrite PC in CI. assert (Stored = Start); [|discriminate]. apply CI. apply In_mid. auto.
    + destruct CS as [[S1 S2]|(x & S1 & S2 & S3)].
      * specialize (S2 w). unfold wrote in S2. rewrite PC in S2. assert (true = false); [|discriminate]. apply S2. apply In_mid. auto.
      * right. apply In_mid in S1. destruct S1 as [->|S1].
        -- exists (mkW (w_id w) (w_kind w) DoneOk). rewrite In_mid. auto.
        -- exists x. rewrite In_mid. auto.
  - inversion SO; subst. destruct s; simpl in *; subst; auto.
  - inversion SO; subst. destruct s; simpl in *; subst; auto.
Qed.

Lemma run_CInv h0 stored0 sched : forall s, CInv h0 stored0 s -> CInv h0 stored0 (run_sched s sched).
Proof. induction sched as [|id r IH]; intros s I; simpl; auto. apply IH. apply step_CInv. auto. Qed.

Definition initial (h0 stored0 : list Z) (ws : list writer) : sys := mkSys h0 stored0 ws.

Lemma CInv_initial h0 stored0 ws :
  NoDup (map w_id ws) -> (forall w, In w ws -> w_pc w = Start) -> (forall h, In h h0 -> ~ In h (map w_id ws)) ->
  (forall a b, In a h0 -> In b h0 -> a = b) ->
  CInv h0 stored0 (initial h0 stored0 ws).
Proof.
  intros ND ST H0 U. constructor; simpl; auto.
  - intros x. split; auto. intros [X|(w & W1 & W2 & _)]; auto. unfold wins in W2. rewrite (ST _ W1) in W2. discriminate.
  - left. split; auto. intros w W. unfold wrote. rewrite (ST _ W). auto.
Qed.

Definition all_done (s : sys) : Prop := forall w, In w (s_ws s) -> done w = true.

(* in every reachable state the contested key has at most one owner and at most one writer has got past the
   test-and-insert; for ANY schedule *)
Theorem conc_at_most_one ws stored0 h0 sched :
  NoDup (map w_id ws) -> (forall w, In w ws -> w_pc w = Start) -> (forall h, In h h0 -> ~ In h (map w_id ws)) ->
  (forall a b, In a h0 -> In b h0 -> a = b) ->
  let s := run_sched (initial h0 stored0 ws) sched in
  (forall a b, In a (s_post s) -> In b (s_post s) -> a = b) /\
  (forall w1 w2, In w1 (s_ws s) -> In w2 (s_ws s) -> wins w1 = true -> wins w2 = true -> w1 = w2).
Proof.
  intros ND ST H0 U s. pose proof (run_CInv h0 stored0 sched _ (CInv_initial h0 stored0 ws ND ST H0 U)) as I.
  split; [apply (ci_uniq _ _ _ I) | intros; eapply one_winner; eauto].
Qed.

(* the value is free: when every writer has finished, exactly one succeeded, it owns the key, its document is
   the only new one *)
Theorem conc_exactly_one_winner ws stored0 sched :
  ws <> [] -> NoDup (map w_id ws) -> (forall w, In w ws -> w_pc w = Start) ->
  let s := run_sched (initial [] stored0 ws) sched in
  all_done s ->
  exists w, In w (s_ws s) /\ w_pc w = DoneOk /\
            (forall w', In w' (s_ws s) -> w' <> w -> w_pc w' = DoneErr) /\
            (forall x, In x (s_post s) <-> x = w_id w) /\ s_stored s = w_id w :: stored0.
Proof.
  intros NE ND ST s AD.
  assert (I : CInv [] stored0 s).
  { apply run_CInv. apply CInv_initial; auto; simpl; intros; contradiction. }
  assert (LEN : forall sched s0, List.length (s_ws (run_sched s0 sched)) = List.length (s_ws s0)).
  { clear. induction sched as [|id r IH]; intros s0; simpl; auto. rewrite IH. unfold sys_step.
    destruct (step_ws_split id (s_post s0) (s_stored s0) (s_ws s0)) as [[_ E]|(l1 & w & l2 & E1 & E2 & E3)].
    - rewrite E. auto.
    - destruct (step_one (s_post s0) (s_stored s0) w) as [[p st] w']. rewrite E3. simpl. rewrite E1, !app_length. auto. }
  assert (NE' : s_ws s <> []).
  { intros X. specialize (LEN sched (initial [] stored0 ws)). fold s in LEN. rewrite X in LEN. simpl in LEN.
    destruct ws; [congruence | discriminate]. }
  assert (PN : s_post s <> []).
  { intros X. destruct (s_ws s) as [|w r] eqn:W; [congruence|].
    pose proof (ci_idle _ _ _ I X w) as Y. rewrite W in Y. specialize (Y (or_introl eq_refl)).
    specialize (AD w). rewrite W in AD. specialize (AD (or_introl eq_refl)). unfold done in AD. rewrite Y in AD. discriminate. }
  destruct (s_post s) as [|x t] eqn:PS; [congruence|].
  assert (X : In x (s_post s)) by (rewrite PS; simpl; auto).
  apply (ci_post _ _ _ I) in X. destruct X as [[]|(w & W1 & W2 & W3)].
  assert (DW : w_pc w = DoneOk).
  { pose proof (AD w W1) as D. unfold done in D. unfold wins in W2. destruct (w_pc w); auto; discriminate. }
  exists w. repeat split; auto.
  - intros w' W' N. pose proof (AD w' W') as D. unfold done in D. destruct (w_pc w') eqn:P; auto; try discriminate.
    exfalso. apply N. eapply one_winner; eauto. unfold wins. rewrite P. auto.
  - rewrite <- PS. intros Y. apply (ci_uniq _ _ _ I); auto. rewrite PS. subst x. simpl. auto.
  - intros ->. rewrite <- PS. apply (ci_post _ _ _ I). right. eauto.
  - destruct (ci_stored _ _ _ I) as [[S1 S2]|(y & S1 & S2 & S3)].
    + specialize (S2 w W1). unfold wrote in S2. rewrite DW in S2. discriminate.
    + assert (y = w); [|subst; auto]. eapply one_winner; eauto. unfold wins. unfold wrote in S2. destruct (w_pc y); auto; discriminate.
Qed.

(* the value is held by a document that no contender owns: everybody loses, nothing changes *)
Theorem conc_held_all_lose ws stored0 h sched :
  NoDup (map w_id ws) -> (forall w, In w ws -> w_pc w = Start) -> ~ In h (map w_id ws) ->
  let s := run_sched (initial [h] stored0 ws) sched in
  (forall w, In w (s_ws s) -> wins w = false) /\ (forall x, In x (s_post s) <-> x = h) /\ s_stored s = stored0.
Proof.
  intros ND ST NH s.
  assert (I : CInv [h] stored0 s).
  { apply run_CInv. apply CInv_initial; auto; [intros ? [<-|[]]; auto | intros a b [<-|[]] [<-|[]]; auto]. }
  assert (NW : forall w, In w (s_ws s) -> wins w = false).
  { intros w W. destruct (wins w) eqn:X; auto. exfalso.
    assert (In (w_id w) (s_post s)) by (apply (ci_post _ _ _ I); right; eauto).
    assert (In h (s_post s)) by (apply (ci_post _ _ _ I); left; simpl; auto).
    apply (ci_h0 _ _ _ I h (or_introl eq_refl)). rewrite (ci_uniq _ _ _ I h (w_id w)); auto. apply in_map. auto. }
  split; auto. split.
  - intros x. rewrite (ci_post _ _ _ I). split; [intros [[<-|[]]|(w & W1 & W2 & _)]; auto; rewrite (NW _ W1) in W2; discriminate | intros ->; left; simpl; auto].
  - destruct (ci_stored _ _ _ I) as [[S1 _]|(y & S1 & S2 & _)]; auto.
    pose proof (NW _ S1) as X. unfold wins in X. unfold wrote in S2. destruct (w_pc y); discriminate.
Qed.

(* the final state is the state of a sequential order: the winner first, then the others in any order *)
Lemma seq_losers post stored ws :
  (exists x, In x post) -> (forall w, In w ws -> ~ In (w_id w) post) -> seq_all post stored ws = (post, stored).
Proof.
  intros NE. unfold seq_all. induction ws as [|w r IH]; intros H; simpl; auto.
  assert (C : conflictL post (w_id w) = true) by (apply conflictL_spec; split; auto; apply H; simpl; auto).
  rewrite C. apply IH. intros; apply H; simpl; auto.
Qed.

Theorem conc_final_is_sequential ws stored0 sched :
  ws <> [] -> NoDup (map w_id ws) -> (forall w, In w ws -> w_pc w = Start) ->
  let s := run_sched (initial [] stored0 ws) sched in
  all_done s ->
  exists w others, (forall x, In x (s_ws s) <-> x = w \/ In x others) /\ ~ In (w_id w) (map w_id others) /\
    let '(post, stored) := seq_all [] stored0 (w :: others) in
    (forall x, In x (s_post s) <-> In x post) /\ s_stored s = stored.
Proof.
  intros NE ND ST s AD. destruct (conc_exactly_one_winner ws stored0 sched NE ND ST AD) as (w & W1 & W2 & W3 & W4 & W5).
  fold s in W1, W3, W4, W5.
  assert (I : CInv [] stored0 s).
  { apply run_CInv. apply CInv_initial; auto; simpl; intros; contradiction. }
  destruct (in_split _ _ W1) as (l1 & l2 & E). exists w, (l1 ++ l2). split; [|split].
  - intros x. rewrite E. apply In_mid.
  - pose proof (ci_ids _ _ _ I) as N. rewrite E, map_app in N. simpl in N. apply NoDup_remove_2 in N. rewrite map_app. auto.
  - unfold seq_all. simpl. unfold conflictL. simpl. unfold push. simpl.
    fold (seq_all [w_id w] (w_id w :: stored0) (l1 ++ l2)). rewrite seq_losers.
    + split; auto. intros x. rewrite W4. simpl. intuition.
    + exists (w_id w). simpl. auto.
    + intros x X [Y|[]]. pose proof (ci_ids _ _ _ I) as N. rewrite E in N. apply (mid_other _ _ _ _ N X). auto.
Qed.
