(* C04 — the instance of the model for the code as it is now (gen/Gen_Uniq.v) and the case runner used by the
   correspondence check: the model predicts accept/reject (with the error class) of every operation of a history
   and the final observable state (ids, documents, every queried posting, the poison flag). *)
From Coq Require Import List ZArith String Bool.
From Verif Require Import Uniq.Model gen.Gen_Uniq.
Import ListNotations.
Open Scope list_scope.

Definition insf_now : bool := btree_update_insert_first.
Definition front_now : bool := unique_index_front.
Definition comp_now : bool := update_compensates_failed_index.

Definition ucase := (list field * list (list string) * list op)%type.
Definition uobs := (list res * list Z * list (Z * list val) * list (nat * key * list Z) * bool)%type.

Definition build_indexes (sch : schema) (specs : list (list string)) : list index :=
  fold_left (fun acc fs => match mk_index sch fs with Some ix => register front_now acc ix | None => acc end) specs [].

Definition err_eq_dec : forall a b : err, {a = b} + {a <> b}.
Proof. decide equality. Defined.
Definition res_eq_dec : forall a b : res, {a = b} + {a <> b}.
Proof. decide equality; [apply Z.eq_dec | apply bool_dec | apply err_eq_dec]. Defined.

Definition eqb_of {A} (dec : forall a b : A, {a = b} + {a <> b}) (a b : A) : bool := if dec a b then true else false.

Definition names (sch : schema) : list string := map f_name sch.

Definition find_post (s : state) (fs : list string) : option post1 :=
  match find (fun e : index * post1 => eqb_of (list_eq_dec string_dec) (ix_fields (fst e)) fs) (st_ix s) with
  | Some (_, p) => Some p
  | None => None
  end.

Definition same_set (a b : list Z) : bool :=
  Nat.eqb (List.length a) (List.length b) && forallb (fun x => memz x b) a && forallb (fun x => memz x a) b.

Definition final_state (c : ucase) : state * list res :=
  let '(sch, specs, ops) := c in
  run insf_now comp_now sch (init (build_indexes sch specs)) ops.

Definition check_case (co : ucase * uobs) : bool :=
  let '(c, o) := co in
  let '(sch, specs, ops) := c in
  let '(rs, ids, docs, looks, poisoned) := o in
  let '(s, rs') := final_state c in
  eqb_of (list_eq_dec res_eq_dec) rs rs'
  && eqb_of (list_eq_dec Z.eq_dec) ids (map fst (st_docs s))
  && forallb (fun e : Z * list val =>
                match get_doc (st_docs s) (fst e) with
                | Some d => eqb_of (list_eq_dec val_eq_dec) (map d (names sch)) (snd e)
                | None => false
                end) docs
  && Nat.eqb (List.length docs) (List.length (st_docs s))
  && forallb (fun e : nat * key * list Z =>
                let '(j, k, l) := e in
                match nth_error specs j with
                | Some fs => match find_post s fs with Some p => same_set (p k) l | None => false end
                | None => false
                end) looks
  && Bool.eqb poisoned (st_poison s).

(* what the model computes, for the report of a disagreeing case *)
Definition show_case (c : ucase) (looks : list (nat * key)) :=
  let '(sch, specs, ops) := c in
  let '(s, rs) := final_state c in
  (rs, map fst (st_docs s), map (fun e : Z * doc => (fst e, map (snd e) (names sch))) (st_docs s),
   map (fun e : nat * key => match nth_error specs (fst e) with
                             | Some fs => match find_post s fs with Some p => p (snd e) | None => [] end
                             | None => [] end) looks,
   st_poison s).
