(* C04 — sequential model of Collection::{add,update,remove} over its B-tree indexes.

   Transcribes (same step order, same rollback closures):
     rs/anda_db/src/collection.rs      add_impl / update_impl / remove_impl, create_btree_index (position 0 for
                                       unique and multi-field indexes)
     rs/anda_db/src/index/mod.rs       IndexHooks::btree_index_value (default), virtual_field_value
     rs/anda_db/src/index/btree.rs     BTree::insert / remove / update / batch_update (shape dispatch)
     rs/anda_db_btree/src/btree.rs     BTreeIndex::insert / remove / insert_array / remove_array / batch_update

   Abstractions (stated, not verified): a posting list is a list of ids read as a set (UniqueVec; order is not
   observable through query_all_ids after sorting); bucket accounting, the ordered key set used for range scans and
   statistics are left out (C10); the multi-field key (concatenated canonical CBOR) is an injective tuple; a missing
   field and Null index alike (get_field = None | Some Null); storage always succeeds unless a fault is supplied.
   No proofs here. *)
From Coq Require Import List ZArith String Bool.
Import ListNotations.
Open Scope list_scope.

(* ---------- values, keys ---------- *)
Inductive scalar := SInt (z : Z) | SText (s : string).
Inductive val := VNull | VS (s : scalar) | VArr (l : list scalar).
Inductive key := KS (s : scalar) | KT (l : list val).

Definition scalar_eq_dec : forall a b : scalar, {a = b} + {a <> b}.
Proof. decide equality; [apply Z.eq_dec | apply string_dec]. Defined.
Definition val_eq_dec : forall a b : val, {a = b} + {a <> b}.
Proof. decide equality; [apply scalar_eq_dec | apply (list_eq_dec scalar_eq_dec)]. Defined.
Definition key_eq_dec : forall a b : key, {a = b} + {a <> b}.
Proof. decide equality; [apply scalar_eq_dec | apply (list_eq_dec val_eq_dec)]. Defined.

(* value handed to an index by the hook: a field value, or the composite of several *)
Inductive ival := IV (v : val) | IC (l : list val).
Definition ival_eq_dec : forall a b : ival, {a = b} + {a <> b}.
Proof. decide equality; [apply val_eq_dec | apply (list_eq_dec val_eq_dec)]. Defined.

(* ---------- schema ---------- *)
Inductive ftype := TInt | TText | TArrInt | TArrText.
Record field := mkField { f_name : string; f_ty : ftype; f_opt : bool; f_unique : bool }.
Definition schema := list field.

Definition scalar_ok (t : ftype) (s : scalar) : bool :=
  match t, s with
  | (TInt | TArrInt), SInt z => (0 <=? z)%Z          (* U64 *)
  | (TText | TArrText), SText _ => true
  | _, _ => false
  end.

(* FieldEntry::validate: Null only for Option(_); otherwise FieldType::validate *)
Definition val_ok (f : field) (v : val) : bool :=
  match v with
  | VNull => f_opt f
  | VS s => match f_ty f with TInt | TText => scalar_ok (f_ty f) s | _ => false end
  | VArr l => match f_ty f with TArrInt | TArrText => forallb (scalar_ok (f_ty f)) l | _ => false end
  end.

(* a document: field name -> value; an absent field reads as VNull *)
Definition doc := string -> val.
Definition empty_doc : doc := fun _ => VNull.
Definition set (d : doc) (n : string) (v : val) : doc :=
  fun m => if string_dec m n then v else d m.

Definition find_field (sch : schema) (n : string) : option field :=
  find (fun f => if string_dec (f_name f) n then true else false) sch.

Inductive err := ENotFound | EEmpty | EUnknown | ESchema | EUnique | EStorage.

(* Document::set_field *)
Definition set_field (sch : schema) (d : doc) (n : string) (v : val) : doc + err :=
  match find_field sch n with
  | None => inr EUnknown
  | Some f => if val_ok f v then inl (set d n v) else inr ESchema
  end.

Fixpoint set_fields (sch : schema) (d : doc) (fs : list (string * val)) : doc + err :=
  match fs with
  | [] => inl d
  | (n, v) :: r => match set_field sch d n v with inl d' => set_fields sch d' r | inr e => inr e end
  end.

(* Schema::validate: every schema field present and valid, or absent and optional *)
Definition validate (sch : schema) (d : doc) : bool := forallb (fun f => val_ok f (d (f_name f))) sch.

(* ---------- indexes ---------- *)
Record index := mkIndex { ix_fields : list string; ix_unique : bool }.

(* create_btree_index / load_indexes: unique single-field and every multi-field index go to position 0 *)
Definition register (front : bool) (ixs : list index) (ix : index) : list index :=
  if ix_unique ix && front then ix :: ixs else ixs ++ [ix].

(* create_btree_index: a multi-field index is always unique (allow_duplicates = false) *)
Definition mk_index (sch : schema) (fields : list string) : option index :=
  match fields with
  | [] => None
  | [n] => match find_field sch n with Some f => Some (mkIndex [n] (f_unique f)) | None => None end
  | _ => if forallb (fun n => match find_field sch n with Some _ => true | None => false end) fields
         then Some (mkIndex fields true) else None
  end.

(* IndexHooks::btree_index_value (default) *)
Definition hook (ix : index) (d : doc) : option ival :=
  match ix_fields ix with
  | [] => None
  | [n] => Some (IV (d n))
  | ns => Some (IC (map d ns))
  end.

Definition keys (v : ival) : list key :=
  match v with
  | IV VNull => []
  | IV (VS s) => [KS s]
  | IV (VArr l) => map KS l
  | IC l => [KT l]
  end.

Definition is_null (v : ival) : bool := match v with IV VNull => true | _ => false end.

(* ---------- one B-tree: key -> posting ---------- *)
Definition post1 := key -> list Z.
Definition empty_post : post1 := fun _ => [].
Definition upd (p : post1) (k : key) (l : list Z) : post1 :=
  fun k' => if key_eq_dec k' k then l else p k'.

Definition memz (x : Z) (l : list Z) : bool := existsb (Z.eqb x) l.
Definition push (x : Z) (l : list Z) : list Z := if memz x l then l else l ++ [x].
Definition drop (x : Z) (l : list Z) : list Z := filter (fun y => negb (Z.eqb x y)) l.
Definition nonempty (l : list Z) : bool := match l with [] => false | _ => true end.

(* the test made under the posting entry lock: an occupied posting that does not contain doc_id *)
Definition conflict (uniq : bool) (p : post1) (id : Z) (k : key) : bool :=
  uniq && nonempty (p k) && negb (memz id (p k)).

(* BTreeIndex::insert *)
Definition bt_insert (uniq : bool) (p : post1) (id : Z) (k : key) : option post1 :=
  if conflict uniq p id k then None else Some (upd p k (push id (p k))).

(* BTreeIndex::remove *)
Definition bt_remove (p : post1) (id : Z) (k : key) : post1 := upd p k (drop id (p k)).

(* BTreeIndex::insert_array: pre-check over all values, then the loop that re-checks under the entry lock and
   stops at the first conflict (what was applied before it stays applied) *)
Fixpoint ins_loop (uniq : bool) (p : post1) (id : Z) (ks : list key) : post1 * bool :=
  match ks with
  | [] => (p, true)
  | k :: r => match bt_insert uniq p id k with
              | None => (p, false)
              | Some p' => ins_loop uniq p' id r
              end
  end.

Definition bt_insert_array (uniq : bool) (p : post1) (id : Z) (ks : list key) : post1 * bool :=
  if existsb (conflict uniq p id) ks then (p, false) else ins_loop uniq p id ks.

Definition bt_remove_array (p : post1) (id : Z) (ks : list key) : post1 :=
  fold_left (fun q k => bt_remove q id k) ks p.

Definition memk (k : key) (l : list key) : bool := existsb (fun k' => if key_eq_dec k k' then true else false) l.
Definition diffk (a b : list key) : list key := nodup key_eq_dec (filter (fun k => negb (memk k b)) a).

(* BTreeIndex::batch_update: insert (new - old), then remove (old - new) *)
Definition bt_batch_update (uniq : bool) (p : post1) (id : Z) (old new : list key) : post1 * bool :=
  let '(p1, ok) := bt_insert_array uniq p id (diffk new old) in
  if ok then (bt_remove_array p1 id (diffk old new), true) else (p1, false).

(* ---------- index/btree.rs: dispatch on the shape of the value ---------- *)
Definition ix_insert (uniq : bool) (p : post1) (id : Z) (v : ival) : post1 * bool :=
  match v with
  | IV VNull => (p, true)
  | IV (VArr l) => bt_insert_array uniq p id (map KS l)
  | IV (VS s) => match bt_insert uniq p id (KS s) with Some p' => (p', true) | None => (p, false) end
  | IC l => match bt_insert uniq p id (KT l) with Some p' => (p', true) | None => (p, false) end
  end.

Definition ix_remove (p : post1) (id : Z) (v : ival) : post1 :=
  match v with
  | IV VNull => p
  | IV (VArr l) => bt_remove_array p id (map KS l)
  | IV (VS s) => bt_remove p id (KS s)
  | IC l => bt_remove p id (KT l)
  end.

(* BTree::update.  [insert_first] is the generated fact: the code does insert(new)? and then remove(old). *)
Definition ix_update (insert_first : bool) (uniq : bool) (p : post1) (id : Z) (old new : ival) : post1 * bool :=
  if ival_eq_dec old new then (p, true)
  else if is_null old then ix_insert uniq p id new
  else if is_null new then (ix_remove p id old, true)
  else match old, new with
       | IV (VArr o), IV (VArr n) => bt_batch_update uniq p id (map KS o) (map KS n)
       | _, _ =>
         if insert_first then
           let '(p1, ok) := ix_insert uniq p id new in
           if ok then (ix_remove p1 id old, true) else (p1, false)
         else
           ix_insert uniq (ix_remove p id old) id new
       end.

(* ---------- the collection ---------- *)
Record state := mkState {
  st_ix : list (index * post1);       (* btree_indexes, in evaluation order, each with its postings *)
  st_docs : list (Z * doc);           (* stored documents = doc_ids *)
  st_next : Z;                        (* max_document_id *)
  st_poison : bool
}.

Definition init (ixs : list index) : state :=
  mkState (map (fun ix => (ix, empty_post)) ixs) [] 0 false.

Fixpoint get_doc (ds : list (Z * doc)) (id : Z) : option doc :=
  match ds with
  | [] => None
  | (i, d) :: r => if Z.eqb i id then Some d else get_doc r id
  end.
Definition del_doc (ds : list (Z * doc)) (id : Z) : list (Z * doc) :=
  filter (fun e => negb (Z.eqb (fst e) id)) ds.
Definition put_doc (ds : list (Z * doc)) (id : Z) (d : doc) : list (Z * doc) :=
  map (fun e => if Z.eqb (fst e) id then (id, d) else e) ds.

Definition uniq_of (ix : index) : bool := ix_unique ix.

(* add_impl, index phase: for each index in order — skip None/Null, record in btree_inserted, insert; stop at the
   first error.  The third component says whether the index was recorded for rollback. *)
Fixpoint add_loop (id : Z) (d : doc) (ixs : list (index * post1)) : list (index * post1 * bool) * bool :=
  match ixs with
  | [] => ([], true)
  | (ix, p) :: rest =>
    match hook ix d with
    | None => let '(r, ok) := add_loop id d rest in ((ix, p, false) :: r, ok)
    | Some v =>
      if is_null v then let '(r, ok) := add_loop id d rest in ((ix, p, false) :: r, ok)
      else
        let '(p', ok) := ix_insert (uniq_of ix) p id v in
        if ok then let '(r, ok2) := add_loop id d rest in ((ix, p', true) :: r, ok2)
        else ((ix, p', true) :: map (fun e : index * post1 => (e, false)) rest, false)
    end
  end.

(* add_impl rollback closure: remove(id, value) on every recorded index *)
Definition add_rollback (id : Z) (d : doc) (l : list (index * post1 * bool)) : list (index * post1) :=
  map (fun e : index * post1 * bool => let '(ix, p, r) := e in
                if r then match hook ix d with Some v => (ix, ix_remove p id v) | None => (ix, p) end
                else (ix, p)) l.

Definition strip (l : list (index * post1 * bool)) : list (index * post1) := map fst l.

(* storage faults: the outcome of the document write of this operation *)
Inductive fault := NoFault | WriteFails (cleanup_ok : bool).

Definition add (sch : schema) (s : state) (fs : list (string * val)) (ft : fault) : state * (Z + err) :=
  match set_fields sch empty_doc fs with
  | inr e => (s, inr e)
  | inl d =>
    if negb (validate sch d) then (s, inr ESchema)
    else
      let id := (st_next s + 1)%Z in
      let '(l, ok) := add_loop id d (st_ix s) in
      if negb ok then
        (mkState (add_rollback id d l) (st_docs s) id (st_poison s), inr EUnique)
      else match ft with
           | WriteFails cleanup_ok =>
             (mkState (add_rollback id d l) (st_docs s) id (st_poison s || negb cleanup_ok), inr EStorage)
           | NoFault =>
             (mkState (strip l) (st_docs s ++ [(id, d)]) id (st_poison s), inl id)
           end
  end.

Definition touches (ix : index) (names : list string) : bool :=
  existsb (fun n => existsb (fun m => if string_dec n m then true else false) (ix_fields ix)) names.

Definition hook_or_null (ix : index) (d : doc) : ival :=
  match hook ix d with Some v => v | None => IV VNull end.

(* update_impl, index phase: for each index whose fields intersect the updated names: update(old, new)?, then
   record in btree_updated *)
(* [comp] is the generated fact: when index.update fails, the code runs the reverse update on that index before
   returning (the failing index is not in btree_updated, so the rollback closure would skip it) *)
Fixpoint upd_loop (insf comp : bool) (id : Z) (names : list string) (od nd : doc) (ixs : list (index * post1))
  : list (index * post1 * bool) * bool :=
  match ixs with
  | [] => ([], true)
  | (ix, p) :: rest =>
    if touches ix names then
      let '(p', ok) := ix_update insf (uniq_of ix) p id (hook_or_null ix od) (hook_or_null ix nd) in
      if ok then let '(r, ok2) := upd_loop insf comp id names od nd rest in ((ix, p', true) :: r, ok2)
      else
        let p'' := if comp then fst (ix_update insf (uniq_of ix) p' id (hook_or_null ix nd) (hook_or_null ix od)) else p' in
        ((ix, p'', false) :: map (fun e : index * post1 => (e, false)) rest, false)
    else let '(r, ok) := upd_loop insf comp id names od nd rest in ((ix, p, false) :: r, ok)
  end.

(* update_impl rollback closure: update(new -> old) on every recorded index; false if any restore failed *)
Fixpoint upd_rollback (insf : bool) (id : Z) (od nd : doc) (l : list (index * post1 * bool))
  : list (index * post1) * bool :=
  match l with
  | [] => ([], true)
  | (ix, p, r) :: rest =>
    let '(rs, okr) := upd_rollback insf id od nd rest in
    if r then
      let '(p', ok) := ix_update insf (uniq_of ix) p id (hook_or_null ix nd) (hook_or_null ix od) in
      ((ix, p') :: rs, ok && okr)
    else ((ix, p) :: rs, okr)
  end.

Definition update (insf comp : bool) (sch : schema) (s : state) (id : Z) (fs : list (string * val)) (ft : fault)
  : state * (unit + err) :=
  match get_doc (st_docs s) id with
  | None => (s, inr ENotFound)
  | Some od =>
    match fs with
    | [] => (s, inr EEmpty)
    | _ =>
      match set_fields sch od fs with
      | inr e => (s, inr e)
      | inl nd =>
        if negb (validate sch nd) then (s, inr ESchema)
        else
          let '(l, ok) := upd_loop insf comp id (map fst fs) od nd (st_ix s) in
          if negb ok then
            let '(ixs, restored) := upd_rollback insf id od nd l in
            (mkState ixs (st_docs s) (st_next s) (st_poison s || negb restored), inr EUnique)
          else match ft with
               | WriteFails _ =>
                 let '(ixs, _) := upd_rollback insf id od nd l in
                 (mkState ixs (st_docs s) (st_next s) true, inr EStorage)
               | NoFault =>
                 (mkState (strip l) (put_doc (st_docs s) id nd) (st_next s) (st_poison s), inl tt)
               end
      end
    end
  end.

(* remove_impl: remove(id, value) on every index with a non-null value, delete the object, drop the id *)
Definition rem_loop (id : Z) (d : doc) (ixs : list (index * post1)) : list (index * post1) :=
  map (fun e : index * post1 => let '(ix, p) := e in
                match hook ix d with
                | Some v => if is_null v then (ix, p) else (ix, ix_remove p id v)
                | None => (ix, p)
                end) ixs.

Definition remove (s : state) (id : Z) (ft : fault) : state * (bool + err) :=
  match get_doc (st_docs s) id with
  | None => (s, inl false)
  | Some d =>
    match ft with
    | WriteFails _ =>
      (* rollback re-inserts what was removed; the handle is poisoned unconditionally *)
      (mkState (st_ix s) (st_docs s) (st_next s) true, inr EStorage)
    | NoFault => (mkState (rem_loop id d (st_ix s)) (del_doc (st_docs s) id) (st_next s) (st_poison s), inl true)
    end
  end.

(* ---------- histories ---------- *)
Inductive op :=
| OAdd (fs : list (string * val)) (ft : fault)
| OUpdate (id : Z) (fs : list (string * val)) (ft : fault)
| ORemove (id : Z) (ft : fault).

Inductive res := RId (id : Z) | ROk | RRemoved (b : bool) | RErr (e : err).

(* a poisoned handle refuses every mutation (mutation_lease / ensure_mutable); the caller builds the document of an
   add (Document::set_field) before the call *)
Definition step (insf comp : bool) (sch : schema) (s : state) (o : op) : state * res :=
  match o with
  | OAdd fs ft =>
    match set_fields sch empty_doc fs with
    | inr e => (s, RErr e)
    | inl _ =>
      if st_poison s then (s, RErr EStorage) else
      let '(s', r) := add sch s fs ft in (s', match r with inl i => RId i | inr e => RErr e end)
    end
  | OUpdate id fs ft =>
    if st_poison s then (s, RErr EStorage) else
    let '(s', r) := update insf comp sch s id fs ft in (s', match r with inl _ => ROk | inr e => RErr e end)
  | ORemove id ft =>
    if st_poison s then (s, RErr EStorage) else
    let '(s', r) := remove s id ft in (s', match r with inl b => RRemoved b | inr e => RErr e end)
  end.

Fixpoint run (insf comp : bool) (sch : schema) (s : state) (os : list op) : state * list res :=
  match os with
  | [] => (s, [])
  | o :: r => let '(s1, x) := step insf comp sch s o in
              let '(s2, xs) := run insf comp sch s1 r in (s2, x :: xs)
  end.

(* query_all_ids(Eq k) on the i-th index *)
Definition lookup (s : state) (i : nat) (k : key) : list Z :=
  match nth_error (st_ix s) i with Some (_, p) => p k | None => [] end.
