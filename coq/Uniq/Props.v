(* C04 — pinned statements only.  Each is closed by [exact] of a lemma proved in Uniq/Proofs*.v / Uniq/Conc.v and
   followed by Print Assumptions.  The sequential theorems are stated over the generated facts of gen/Gen_Uniq.v
   (the order insert(new)?/remove(old) of BTree::update, position 0 for unique indexes): they re-check against
   the source on every run. *)
From Coq Require Import List ZArith String Bool.
From Verif Require Import Uniq.Model Uniq.Proofs Uniq.Proofs2 Uniq.Proofs3 Uniq.Proofs4 Uniq.Conc Uniq.Conc2 Uniq.Run gen.Gen_Uniq.
Import ListNotations.
Open Scope list_scope.

(* states reachable by any history of add/update/remove (accepted, rejected, storage faults) from the empty
   collection, with the B-tree update order the code has now *)
Definition reachable_now (sch : schema) (ixs : list index) (s : state) : Prop :=
  exists os, s = fst (run btree_update_insert_first update_compensates_failed_index sch (init ixs) os).

(* (1) no two live documents share a key of a unique index, in every reachable state *)
Theorem C04_unique_inv :
  forall sch ixs s i ix p k a b,
    wf_indexes sch ixs -> reachable_now sch ixs s ->
    nth_error (st_ix s) i = Some (ix, p) -> ix_unique ix = true ->
    In a (lookup s i k) -> In b (lookup s i k) -> a = b.
Proof. exact unique_inv. Qed.
Print Assumptions C04_unique_inv.

(* the observable form: query_all_ids(Eq k) on a unique index returns at most one id *)
Theorem C04_unique_cardinality :
  forall sch ixs s i ix p k,
    wf_indexes sch ixs -> reachable_now sch ixs s ->
    nth_error (st_ix s) i = Some (ix, p) -> ix_unique ix = true ->
    (List.length (lookup s i k) <= 1)%nat.
Proof. exact unique_cardinality. Qed.
Print Assumptions C04_unique_cardinality.

Theorem C04_no_two_live_docs_share_unique_key :
  forall sch ixs s i ix p k a b da db,
    wf_indexes sch ixs -> reachable_now sch ixs s ->
    nth_error (st_ix s) i = Some (ix, p) -> ix_unique ix = true ->
    get_doc (st_docs s) a = Some da -> get_doc (st_docs s) b = Some db ->
    In k (dkeys ix da) -> In k (dkeys ix db) -> a = b.
Proof. exact no_shared_unique_key. Qed.
Print Assumptions C04_no_two_live_docs_share_unique_key.

(* every posting is exactly what the stored documents derive (null skipped, arrays expanded, composite tuple) *)
Theorem C04_postings_are_derived :
  forall sch ixs s i ix p k id,
    wf_indexes sch ixs -> reachable_now sch ixs s -> nth_error (st_ix s) i = Some (ix, p) ->
    (In id (lookup s i k) <-> exists d, get_doc (st_docs s) id = Some d /\ In k (dkeys ix d)).
Proof. exact postings_derived. Qed.
Print Assumptions C04_postings_are_derived.

(* (2) an operation that returns an error leaves documents, ids, the index list and ALL postings identical,
   and — unless the error is a storage fault — the handle healthy *)
Theorem C04_rejected_noop :
  forall sch ixs s o s' e,
    wf_indexes sch ixs -> reachable_now sch ixs s ->
    step btree_update_insert_first update_compensates_failed_index sch s o = (s', RErr e) ->
    st_docs s' = st_docs s /\ map fst (st_ix s') = map fst (st_ix s) /\
    (forall i k id, In id (lookup s' i k) <-> In id (lookup s i k)) /\
    (e <> EStorage -> st_poison s' = st_poison s).
Proof. exact rejected_noop. Qed.
Print Assumptions C04_rejected_noop.

(* (3) the value is available again as soon as the holder is removed / gives it up / and a free value is insertable *)
Theorem C04_value_released_remove :
  forall sch ixs s id s' i ix p' k d,
    wf_indexes sch ixs -> reachable_now sch ixs s ->
    step btree_update_insert_first update_compensates_failed_index sch s (ORemove id NoFault) = (s', RRemoved true) ->
    get_doc (st_docs s) id = Some d ->
    nth_error (st_ix s') i = Some (ix, p') -> ix_unique ix = true -> In k (dkeys ix d) ->
    lookup s' i k = [].
Proof. exact value_released_remove. Qed.
Print Assumptions C04_value_released_remove.

Theorem C04_value_released_update :
  forall sch ixs s id fs s' i ix p' k od nd a,
    wf_indexes sch ixs -> reachable_now sch ixs s ->
    step btree_update_insert_first update_compensates_failed_index sch s (OUpdate id fs NoFault) = (s', ROk) ->
    get_doc (st_docs s) id = Some od -> get_doc (st_docs s') id = Some nd ->
    nth_error (st_ix s') i = Some (ix, p') -> ix_unique ix = true ->
    In k (dkeys ix od) -> ~ In k (dkeys ix nd) ->
    ~ In a (lookup s' i k).
Proof. exact value_released_update. Qed.
Print Assumptions C04_value_released_update.

Theorem C04_free_value_insertable :
  forall sch ixs s fs d,
    wf_indexes sch ixs -> reachable_now sch ixs s -> st_poison s = false ->
    set_fields sch empty_doc fs = inl d -> validate sch d = true ->
    (forall i ix p k, nth_error (st_ix s) i = Some (ix, p) -> ix_unique ix = true -> In k (dkeys ix d) -> lookup s i k = []) ->
    exists s', step btree_update_insert_first update_compensates_failed_index sch s (OAdd fs NoFault) = (s', RId (st_next s + 1)).
Proof. exact free_value_insertable. Qed.
Print Assumptions C04_free_value_insertable.

(* insert_array is all-or-nothing without a concurrent writer: it can fail only in its pre-check *)
Theorem C04_insert_array_all_or_nothing :
  forall u p id ks p', bt_insert_array u p id ks = (p', false) -> p' = p.
Proof. exact bt_insert_array_fail. Qed.
Print Assumptions C04_insert_array_all_or_nothing.

(* unique (and multi-field) indexes are evaluated first *)
Theorem C04_unique_indexes_first :
  forall ixs ix, unique_prefix ixs -> unique_prefix (register unique_index_front ixs ix).
Proof. exact register_unique_prefix. Qed.
Print Assumptions C04_unique_indexes_first.

(* ---------- concurrency: any number of writers, one contested key, any interleaving of the atomic steps ---------- *)
Theorem C04_two_writers_one_winner :
  forall ws stored0 h0 sched,
    NoDup (map w_id ws) -> (forall w, In w ws -> w_pc w = Start) -> (forall h, In h h0 -> ~ In h (map w_id ws)) ->
    (forall a b, In a h0 -> In b h0 -> a = b) ->
    let s := run_sched (initial h0 stored0 ws) sched in
    (forall a b, In a (s_post s) -> In b (s_post s) -> a = b) /\
    (forall w1 w2, In w1 (s_ws s) -> In w2 (s_ws s) -> wins w1 = true -> wins w2 = true -> w1 = w2).
Proof. exact conc_at_most_one. Qed.
Print Assumptions C04_two_writers_one_winner.

Theorem C04_conc_exactly_one_winner :
  forall ws stored0 sched,
    ws <> [] -> NoDup (map w_id ws) -> (forall w, In w ws -> w_pc w = Start) ->
    let s := run_sched (initial [] stored0 ws) sched in
    all_done s ->
    exists w, In w (s_ws s) /\ w_pc w = DoneOk /\
              (forall w', In w' (s_ws s) -> w' <> w -> w_pc w' = DoneErr) /\
              (forall x, In x (s_post s) <-> x = w_id w) /\ s_stored s = w_id w :: stored0.
Proof. exact conc_exactly_one_winner. Qed.
Print Assumptions C04_conc_exactly_one_winner.

Theorem C04_conc_held_value_all_lose :
  forall ws stored0 h sched,
    NoDup (map w_id ws) -> (forall w, In w ws -> w_pc w = Start) -> ~ In h (map w_id ws) ->
    let s := run_sched (initial [h] stored0 ws) sched in
    (forall w, In w (s_ws s) -> wins w = false) /\ (forall x, In x (s_post s) <-> x = h) /\ s_stored s = stored0.
Proof. exact conc_held_all_lose. Qed.
Print Assumptions C04_conc_held_value_all_lose.

Theorem C04_conc_final_is_sequential :
  forall ws stored0 sched,
    ws <> [] -> NoDup (map w_id ws) -> (forall w, In w ws -> w_pc w = Start) ->
    let s := run_sched (initial [] stored0 ws) sched in
    all_done s ->
    exists w others, (forall x, In x (s_ws s) <-> x = w \/ In x others) /\ ~ In (w_id w) (map w_id others) /\
      let '(post, stored) := seq_all [] stored0 (w :: others) in
      (forall x, In x (s_post s) <-> In x post) /\ s_stored s = stored.
Proof. exact conc_final_is_sequential. Qed.
Print Assumptions C04_conc_final_is_sequential.

(* ---------- generated facts: the code as it is now ---------- *)
Theorem C04_gen_btree_update_inserts_before_removing :
  btree_update_insert_first = true /\ btree_update_arrays_use_batch = true /\ batch_update_insert_first = true.
Proof. repeat split; reflexivity. Qed.
Print Assumptions C04_gen_btree_update_inserts_before_removing.

Theorem C04_gen_unique_check_under_entry_lock :
  insert_unique_check_under_entry_lock = true /\ insert_array_recheck_under_entry_lock = true.
Proof. split; reflexivity. Qed.
Print Assumptions C04_gen_unique_check_under_entry_lock.

Theorem C04_gen_unique_indexes_at_front :
  unique_index_front = true /\ virtual_index_unique = true /\ field_index_unique_iff_field_unique = true.
Proof. repeat split; reflexivity. Qed.
Print Assumptions C04_gen_unique_indexes_at_front.

Theorem C04_gen_add_shape :
  add_records_before_insert = true /\ add_rollback_removes_recorded = true /\ add_skips_null = true /\
  add_steps = ["validate"; "allocate_id"; "watermark"; "index_loop"; "rollback_on_index_error"; "storage_create";
               "register_id"]%string.
Proof. repeat split; reflexivity. Qed.
Print Assumptions C04_gen_add_shape.

Theorem C04_gen_update_shape :
  update_records_after_update = true /\ update_compensates_failed_index = true /\
  update_rollback_restores_or_poisons = true /\ update_only_touched_indexes = true /\
  update_steps = ["missing_doc"; "empty_fields"; "doc_lock"; "load"; "set_fields"; "validate"; "intent"; "index_loop";
                  "rollback_on_index_error"; "storage_put"]%string.
Proof. repeat split; reflexivity. Qed.
Print Assumptions C04_gen_update_shape.

Theorem C04_gen_remove_shape :
  remove_steps = ["missing_doc"; "doc_lock"; "load"; "intent"; "index_loop"; "storage_delete"; "unregister_id"]%string.
Proof. reflexivity. Qed.
Print Assumptions C04_gen_remove_shape.

(* ---------- what would break: remove(old) before insert(new) loses the old value on a conflict ---------- *)
Definition sch0 : schema := [mkField "email" TText false true].
Definition ixs0 : list index := [mkIndex ["email"%string] true].
Definition hist0 : list op :=
  [OAdd [("email"%string, VS (SText "a"))] NoFault; OAdd [("email"%string, VS (SText "b"))] NoFault;
   OUpdate 2 [("email"%string, VS (SText "a"))] NoFault].

Theorem C04_remove_first_update_refuted :
  exists s, s = fst (run false false sch0 (init ixs0) hist0) /\
            nth 2 (snd (run false false sch0 (init ixs0) hist0)) ROk = RErr EUnique /\
            lookup s 0 (KS (SText "b")) = [] /\
            exists d, get_doc (st_docs s) 2 = Some d /\ d "email"%string = VS (SText "b").
Proof. eexists. split; [reflexivity|]. vm_compute. repeat split. eexists. split; reflexivity. Qed.
Print Assumptions C04_remove_first_update_refuted.

(* ---------- beyond one contested key: array updates over several keys (the race found on the implementation) ---------- *)
(* insert_array pre-checks all values and then re-checks each one under its entry lock; a writer that takes [v]
   between the two leaves the loop stopped at [v] with [x] already applied. *)
Theorem C04_insert_array_partial_under_race :
  exists p id1 id2 x v p1 p',
    (existsb (conflict true p id1) [x; v] = false) /\
    (bt_insert true p id2 v = Some p1) /\
    (ins_loop true p1 id1 [x; v] = (p', false)) /\
    (p' x = [id1]).
Proof.
  exists empty_post, 1%Z, 2%Z, (KS (SText "x")), (KS (SText "v")).
  eexists. eexists. split; [reflexivity|]. split; [reflexivity|]. split; [vm_compute; reflexivity|].
  vm_compute; reflexivity.
Qed.
Print Assumptions C04_insert_array_partial_under_race.

(* the code before fix 197295c (no reverse update on the failing index): a schedule of two writers after which the
   rejected writer 1 still owns "x", which its document does not contain *)
Theorem C04_conc_array_update_partial_refuted :
  let s := run2 false (init2 post00 specs00) sched00 in
  map a_pc (y_ws s) = [PErr; POk] /\ y_post s kx = [1%Z] /\ ~ In kx [ko1].
Proof. exact conc2_without_compensation_leaks. Qed.
Print Assumptions C04_conc_array_update_partial_refuted.

(* the reverse update restores an index on which the forward update applied any subset S of its inserts and none
   of its removals *)
Theorem C04_compensation_restores_index :
  forall u p p' id old new (S : list key),
    compat old new -> owns p id (keys old) ->
    (forall k id', In id' (p' k) <-> In id' (p k) \/ (id' = id /\ In k S)) ->
    (forall k, In k S -> In k (keys new)) ->
    snd (ix_update btree_update_insert_first u p' id new old) = true /\
    peq p (fst (ix_update btree_update_insert_first u p' id new old)).
Proof. exact compensate_restores. Qed.
Print Assumptions C04_compensation_restores_index.

(* the code as it is now: any number of writers, each replacing its key set in one unique array index, any
   interleaving of pre-check / per-key test-and-insert / per-key removal / compensation steps: the index stays
   unique, a finished writer owns exactly its new keys if it succeeded and exactly its old keys if it was
   rejected, bystanders keep their postings *)
Theorem C04_conc_rejected_array_update_leaves_nothing :
  forall post0 specs sched,
    NoDup (map (fun e : Z * list key * list key => fst (fst e)) specs) -> uniq_post post0 ->
    Forall (fun e : Z * list key * list key => owns post0 (fst (fst e)) (snd (fst e))) specs ->
    let s := run2 update_compensates_failed_index (init2 post0 specs) sched in
    uniq_post (y_post s) /\
    (forall w, In w (y_ws s) -> a_pc w = POk -> owns (y_post s) (a_id w) (a_new w)) /\
    (forall w, In w (y_ws s) -> a_pc w = PErr -> owns (y_post s) (a_id w) (a_old w)) /\
    (forall id, ~ In id (map a_id (y_ws s)) -> forall k, In id (y_post s k) <-> In id (post0 k)).
Proof. exact conc2_rejected_leaves_nothing. Qed.
Print Assumptions C04_conc_rejected_array_update_leaves_nothing.

Example C04_conc2_nonvacuous :
  let s := run2 update_compensates_failed_index (init2 post00 specs00) sched00 in
  map a_pc (y_ws s) = [PErr; POk] /\ y_post s kx = [] /\ y_post s kv = [2%Z] /\ y_post s ko1 = [1%Z].
Proof. exact conc2_with_compensation_same_schedule. Qed.

(* non-vacuity: a history with an accepted add, a rejected duplicate, a rejected update, a release and a re-use *)
Example C04_history_nonvacuous :
  let h := [OAdd [("email"%string, VS (SText "a"))] NoFault; OAdd [("email"%string, VS (SText "a"))] NoFault;
            OAdd [("email"%string, VS (SText "b"))] NoFault; OUpdate 3 [("email"%string, VS (SText "a"))] NoFault;
            ORemove 1 NoFault; OUpdate 3 [("email"%string, VS (SText "a"))] NoFault] in
  let '(s, rs) := run btree_update_insert_first update_compensates_failed_index sch0 (init ixs0) h in
  rs = [RId 1; RErr EUnique; RId 3; RErr EUnique; RRemoved true; ROk] /\
  lookup s 0 (KS (SText "a")) = [3%Z] /\ lookup s 0 (KS (SText "b")) = [] /\ wf_indexes sch0 ixs0.
Proof.
  vm_compute. repeat split. constructor; [|constructor]. intros n [<-|[]]. eexists. split; [left; reflexivity | reflexivity].
Qed.

Example C04_conc_nonvacuous :
  let ws := [mkW 5 WAdd Start; mkW 2 WUpdate Start; mkW 7 WAdd Start] in
  let s := run_sched (initial [] [] ws) [2; 5; 7; 5; 2; 7; 2; 2]%Z in
  s_post s = [2%Z] /\ s_stored s = [2%Z] /\ map w_pc (s_ws s) = [DoneErr; DoneOk; DoneErr].
Proof. vm_compute. repeat split. Qed.
