(* C04 — collection level: the invariant, add/update/remove with their rollbacks, histories. *)
From Coq Require Import List ZArith String Bool Lia.
From Verif Require Import Uniq.Model Uniq.Proofs.
Import ListNotations.
Open Scope list_scope.

(* ---------- documents ---------- *)
Lemma get_doc_In ds id d : get_doc ds id = Some d -> In (id, d) ds.
Proof.
  induction ds as [|[i e] r IH]; simpl; [discriminate|].
  destruct (Z.eqb_spec i id); [intros H; inversion H; subst; auto | auto].
Qed.

Lemma get_doc_none ds id : get_doc ds id = None <-> ~ In id (map fst ds).
Proof.
  induction ds as [|[i e] r IH]; simpl; [tauto|].
  destruct (Z.eqb_spec i id); [subst; split; [discriminate | tauto] | rewrite IH; tauto].
Qed.

Lemma get_doc_app ds id d x : get_doc ds x = None -> get_doc (ds ++ [(x, d)]) id = if Z.eqb x id then Some d else get_doc ds id.
Proof.
  induction ds as [|[i e] r IH]; simpl; auto.
  destruct (Z.eqb_spec i x); [discriminate|]. intros H. rewrite (IH H).
  destruct (Z.eqb_spec i id), (Z.eqb_spec x id); subst; congruence.
Qed.

Lemma get_doc_put ds id d x : get_doc (put_doc ds x d) id =
  match get_doc ds id with Some e => if Z.eqb id x then Some d else Some e | None => None end.
Proof.
  induction ds as [|[i e] r IH]; simpl; auto.
  destruct (Z.eqb_spec i x); simpl.
  - subst. destruct (Z.eqb_spec x id); [subst; rewrite Z.eqb_refl; auto|]. apply IH.
  - destruct (Z.eqb_spec i id); [subst|apply IH]. destruct (Z.eqb_spec id x); congruence.
Qed.

Lemma get_doc_del ds id x : get_doc (del_doc ds x) id = if Z.eqb id x then None else get_doc ds id.
Proof.
  induction ds as [|[i e] r IH]; simpl.
  - destruct (Z.eqb id x); auto.
  - destruct (Z.eqb_spec i x); simpl.
    + subst. rewrite IH. destruct (Z.eqb_spec id x); auto. destruct (Z.eqb_spec x id); congruence.
    + destruct (Z.eqb_spec i id); [subst|apply IH]. destruct (Z.eqb_spec id x); congruence.
Qed.

Lemma map_fst_put ds x d : map fst (put_doc ds x d) = map fst ds.
Proof.
  induction ds as [|[i e] r IH]; simpl; auto. rewrite IH. destruct (Z.eqb_spec i x); simpl; congruence.
Qed.

(* ---------- schema, typing of index values ---------- *)
Definition wf_index (sch : schema) (ix : index) : Prop :=
  forall n, In n (ix_fields ix) -> exists f, In f sch /\ f_name f = n.

Definition shape (f : field) (v : val) : Prop :=
  match v with
  | VNull => True
  | VS _ => f_ty f = TInt \/ f_ty f = TText
  | VArr _ => f_ty f = TArrInt \/ f_ty f = TArrText
  end.

Lemma val_ok_shape f v : val_ok f v = true -> shape f v.
Proof. destruct v; simpl; auto; destruct (f_ty f); auto; discriminate. Qed.

Lemma validate_field sch d f : validate sch d = true -> In f sch -> val_ok f (d (f_name f)) = true.
Proof. unfold validate. rewrite forallb_forall. auto. Qed.

Lemma hook_compat sch ix d1 d2 :
  wf_index sch ix -> validate sch d1 = true -> validate sch d2 = true ->
  compat (hook_or_null ix d1) (hook_or_null ix d2).
Proof.
  intros W V1 V2. unfold hook_or_null, hook. destruct (ix_fields ix) as [|n [|m r]] eqn:E; simpl; auto.
  destruct (W n) as (f & Hf & <-); [rewrite E; simpl; auto|].
  pose proof (val_ok_shape _ _ (validate_field _ _ _ V1 Hf)) as S1.
  pose proof (val_ok_shape _ _ (validate_field _ _ _ V2 Hf)) as S2.
  destruct (d1 (f_name f)), (d2 (f_name f)); simpl in *; auto;
    destruct S1 as [S1|S1], S2 as [S2|S2]; congruence.
Qed.

Lemma set_field_other sch d n v d' m : set_field sch d n v = inl d' -> m <> n -> d' m = d m.
Proof.
  unfold set_field. destruct (find_field sch n); [|discriminate]. destruct (val_ok f v); [|discriminate].
  intros H N. inversion H. unfold set. destruct (string_dec m n); congruence.
Qed.

Lemma set_fields_other sch fs : forall d d' m, set_fields sch d fs = inl d' -> ~ In m (map fst fs) -> d' m = d m.
Proof.
  induction fs as [|[n v] r IH]; simpl; intros d d' m H N.
  - inversion H. reflexivity.
  - destruct (set_field sch d n v) as [d1|] eqn:E; [|discriminate].
    rewrite (IH _ _ _ H) by tauto. eapply set_field_other; eauto.
Qed.

Lemma touches_false ix names : touches ix names = false -> forall n, In n (ix_fields ix) -> ~ In n names.
Proof.
  unfold touches. intros H n Hn Hin.
  assert (existsb (fun n0 => existsb (fun m => if string_dec n0 m then true else false) (ix_fields ix)) names = true); [|congruence].
  apply existsb_exists. exists n. split; auto. apply existsb_exists. exists n. split; auto.
  destruct (string_dec n n); congruence.
Qed.

Lemma hook_untouched sch ix fs od nd :
  set_fields sch od fs = inl nd -> touches ix (map fst fs) = false -> hook_or_null ix nd = hook_or_null ix od.
Proof.
  intros S T. pose proof (touches_false _ _ T) as F.
  assert (E : forall n, In n (ix_fields ix) -> nd n = od n).
  { intros n Hn. eapply set_fields_other; eauto. }
  unfold hook_or_null, hook. destruct (ix_fields ix) as [|n [|m r]] eqn:X; auto.
  - rewrite E; simpl; auto.
  - f_equal. apply map_ext_in. intros a Ha. apply E. exact Ha.
Qed.

(* ---------- the invariant ---------- *)
Definition dkeys (ix : index) (d : doc) : list key := keys (hook_or_null ix d).

(* every posting is exactly what the stored documents derive (C02), unique indexes have one owner per key *)
Definition ix_ok (ds : list (Z * doc)) (e : index * post1) : Prop :=
  let '(ix, p) := e in
  (forall id k, In id (p k) <-> exists d, get_doc ds id = Some d /\ In k (dkeys ix d)) /\
  (ix_unique ix = true -> uniq_post p).

Record Inv (sch : schema) (s : state) : Prop := {
  inv_ix : Forall (ix_ok (st_docs s)) (st_ix s);
  inv_wf : Forall (fun e => wf_index sch (fst e)) (st_ix s);
  inv_valid : forall id d, get_doc (st_docs s) id = Some d -> validate sch d = true;
  inv_next : forall id, In id (map fst (st_docs s)) -> (id <= st_next s)%Z
}.

(* observable equality of two index lists: same indexes, same posting sets *)
Definition ixs_eq (a b : list (index * post1)) : Prop :=
  Forall2 (fun x y => fst x = fst y /\ peq (snd x) (snd y)) a b.

Lemma ixs_eq_refl a : ixs_eq a a.
Proof. induction a; constructor; auto. split; auto. apply peq_refl. Qed.

Lemma ix_ok_peq ds ix p q : peq p q -> ix_ok ds (ix, p) -> ix_ok ds (ix, q).
Proof.
  intros E [H1 H2]. split.
  - intros id k. rewrite <- (E k id). apply H1.
  - intros U k a b Ha Hb. apply (H2 U k); apply E; auto.
Qed.

Lemma ixs_eq_ok ds a b : ixs_eq a b -> Forall (ix_ok ds) a -> Forall (ix_ok ds) b.
Proof.
  induction 1 as [|[ix p] [ix' q] a b [E1 E2] _ IH]; intros H; inversion H; subst; constructor; auto.
  simpl in *. subst. eapply ix_ok_peq; eauto.
Qed.

Lemma ixs_eq_wf sch a b : ixs_eq a b -> Forall (fun e => wf_index sch (fst e)) a -> Forall (fun e => wf_index sch (fst e)) b.
Proof.
  induction 1 as [|x y a b [E1 E2] _ IH]; intros H; inversion H; subst; constructor; auto. rewrite <- E1. auto.
Qed.

Lemma hook_null_keys ix d : (hook ix d = None \/ exists v, hook ix d = Some v /\ is_null v = true) -> dkeys ix d = [].
Proof.
  unfold dkeys, hook_or_null. intros [->|(v & -> & N)]; simpl; auto. apply is_null_keys. auto.
Qed.

(* ---------- add ---------- *)
Definition fresh (id : Z) (ixs : list (index * post1)) : Prop :=
  Forall (fun e : index * post1 => forall k, ~ In id (snd e k)) ixs.

(* the add loop: on success every index gained exactly (id, dkeys); in every case the rollback closure
   restores every posting set *)
Lemma add_loop_spec id d : forall ixs l ok,
  fresh id ixs ->
  add_loop id d ixs = (l, ok) ->
  ixs_eq ixs (add_rollback id d l) /\
  (ok = true ->
     Forall2 (fun x y => fst x = fst y /\
                forall k id', In id' (snd y k) <-> In id' (snd x k) \/ (id' = id /\ In k (dkeys (fst x) d)))
             ixs (strip l) /\
     Forall (fun x => forall k, In k (dkeys (fst x) d) -> conflict (ix_unique (fst x)) (snd x) id k = false) ixs) /\
  (ok = false -> Exists (fun x => exists k, In k (dkeys (fst x) d) /\ conflict (ix_unique (fst x)) (snd x) id k = true) ixs).
Proof.
  induction ixs as [|[ix p] rest IH]; intros l ok F E; simpl in E.
  - inversion E; subst. simpl. repeat split; try constructor. discriminate.
  - inversion F as [|? ? Fp Fr]; subst. simpl in Fp.
    assert (SKIP : forall r ok0, add_loop id d rest = (r, ok0) -> dkeys ix d = [] ->
              (l, ok) = ((ix, p, false) :: r, ok0) ->
              ixs_eq ((ix, p) :: rest) (add_rollback id d l) /\
              (ok = true -> Forall2 (fun x y => fst x = fst y /\
                  forall k id', In id' (snd y k) <-> In id' (snd x k) \/ (id' = id /\ In k (dkeys (fst x) d)))
                  ((ix, p) :: rest) (strip l) /\
                Forall (fun x => forall k, In k (dkeys (fst x) d) -> conflict (ix_unique (fst x)) (snd x) id k = false) ((ix, p) :: rest)) /\
              (ok = false -> Exists (fun x => exists k, In k (dkeys (fst x) d) /\ conflict (ix_unique (fst x)) (snd x) id k = true) ((ix, p) :: rest))).
    { intros r ok0 Er K X. inversion X; subst. destruct (IH _ _ Fr Er) as (I1 & I2 & I3). simpl. repeat split.
      - constructor; auto. split; auto. apply peq_refl.
      - constructor; [|apply I2; auto]. simpl. split; auto. intros. rewrite K. simpl. tauto.
      - constructor; [|apply I2; auto]. simpl. rewrite K. intros k [].
      - intros H. apply Exists_cons_tl. auto. }
    destruct (hook ix d) as [v|] eqn:Hk.
    2:{ destruct (add_loop id d rest) as [r ok0] eqn:Er. eapply SKIP; eauto. apply hook_null_keys. auto. }
    destruct (is_null v) eqn:Nv.
    { destruct (add_loop id d rest) as [r ok0] eqn:Er. eapply SKIP; eauto. apply hook_null_keys. eauto. }
    assert (DK : dkeys ix d = keys v) by (unfold dkeys, hook_or_null; rewrite Hk; auto).
    unfold uniq_of in E.
    destruct (ix_insert (ix_unique ix) p id v) as [p' okI] eqn:EI. destruct okI.
    + destruct (add_loop id d rest) as [r ok2] eqn:Er. inversion E; subst.
      destruct (IH _ _ Fr eq_refl) as (I1 & I2 & I3). apply ix_insert_ok in EI. destruct EI as [C1 C2].
      simpl. rewrite Hk. repeat split.
      * constructor; auto. simpl. split; auto. intros k id'. rewrite ix_remove_spec, C2.
        split; [intros H; split; auto; intros [-> _]; eapply Fp; eauto | tauto].
      * constructor; [|apply I2; auto]. simpl. split; auto. intros. rewrite DK. apply C2.
      * constructor; [|apply I2; auto]. simpl. rewrite DK. auto.
      * intros H. apply Exists_cons_tl. auto.
    + inversion E; subst. pose proof (ix_insert_fail _ _ _ _ _ EI) as ->.
      pose proof (ix_insert_fail_iff (ix_unique ix) p id v) as FI. rewrite EI in FI. simpl in FI.
      simpl. rewrite Hk. repeat split; try discriminate.
      * constructor.
        -- simpl. split; auto. intros k id'. rewrite ix_remove_spec.
           split; [intros H; split; auto; intros [-> _]; eapply Fp; eauto | tauto].
        -- clear. induction rest as [|[ix' q] r IH]; simpl; constructor; auto. simpl. split; auto. apply peq_refl.
      * intros _. apply Exists_cons_hd. simpl. rewrite DK. apply FI. auto.
Qed.

Lemma Inv_fresh sch s id : Inv sch s -> (st_next s < id)%Z -> fresh id (st_ix s).
Proof.
  intros I L. pose proof (inv_ix _ _ I) as H. unfold fresh. rewrite Forall_forall in *.
  intros [ix p] Hin k Hid. simpl in Hid. destruct (H _ Hin) as [H1 _].
  apply H1 in Hid. destruct Hid as (d & G & _). apply get_doc_In in G.
  assert (In id (map fst (st_docs s))) by (apply in_map_iff; exists (id, d); auto).
  pose proof (inv_next _ _ I _ H0). lia.
Qed.

(* observable equality of states: same documents, same posting sets *)
Definition obs_eq (s s' : state) : Prop := st_docs s' = st_docs s /\ ixs_eq (st_ix s) (st_ix s').

Lemma Inv_obs_eq sch s s' : Inv sch s -> obs_eq s s' -> (st_next s <= st_next s')%Z -> Inv sch s'.
Proof.
  intros I [E1 E2] L. constructor; rewrite ?E1.
  - eapply ixs_eq_ok; eauto. apply I.
  - eapply ixs_eq_wf; eauto. apply I.
  - apply I.
  - intros id H. pose proof (inv_next _ _ I id H). lia.
Qed.

Lemma Forall2_ix_ok_add ds id d ixs ixs' :
  get_doc ds id = None ->
  Forall (ix_ok ds) ixs ->
  Forall2 (fun x y : index * post1 => fst x = fst y /\
     forall k id', In id' (snd y k) <-> In id' (snd x k) \/ (id' = id /\ In k (dkeys (fst x) d))) ixs ixs' ->
  Forall (fun x : index * post1 => forall k, In k (dkeys (fst x) d) -> conflict (ix_unique (fst x)) (snd x) id k = false) ixs ->
  Forall (ix_ok (ds ++ [(id, d)])) ixs'.
Proof.
  intros G H F2. revert H. induction F2 as [|[ix p] [ix' p'] a b [E S] _ IH]; intros H C; constructor;
    inversion H; subst; inversion C; subst; auto.
  simpl in *. subst ix'. destruct H2 as [K1 K2]. split.
  - intros id' k. rewrite S, K1. split.
    + intros [(d' & G' & Hk)|[-> Hk]].
      * exists d'. split; auto. rewrite get_doc_app by auto. destruct (Z.eqb_spec id id'); [subst; congruence | auto].
      * exists d. split; auto. rewrite get_doc_app by auto. rewrite Z.eqb_refl. auto.
    + intros (d' & G' & Hk). rewrite get_doc_app in G' by auto.
      destruct (Z.eqb_spec id id'); [inversion G'; subst; auto | left; eauto].
  - intros U. eapply (uniq_after_insert (ix_unique ix) p id (dkeys ix d) p'); eauto.
Qed.

Lemma Forall2_wf sch (ixs ixs' : list (index * post1)) (R : index * post1 -> index * post1 -> Prop) :
  (forall x y, R x y -> fst x = fst y) -> Forall2 R ixs ixs' ->
  Forall (fun e => wf_index sch (fst e)) ixs -> Forall (fun e => wf_index sch (fst e)) ixs'.
Proof.
  intros HR F. induction F as [|x y a b Rxy F IH]; intros W; inversion W; subst; constructor; auto.
  rewrite <- (HR _ _ Rxy). auto.
Qed.

Lemma set_fields_valid sch fs : forall d d', set_fields sch d fs = inl d' -> True.
Proof. auto. Qed.

Theorem add_correct sch s fs ft s' r :
  Inv sch s -> add sch s fs ft = (s', r) ->
  Inv sch s' /\
  match r with
  | inr e => obs_eq s s' /\ (e <> EStorage -> st_poison s' = st_poison s)
  | inl id => st_poison s' = st_poison s /\ exists d, get_doc (st_docs s) id = None /\ st_docs s' = st_docs s ++ [(id, d)]
  end.
Proof.
  intros I. unfold add.
  destruct (set_fields sch empty_doc fs) as [d|e] eqn:SF.
  2:{ intros H; inversion H; subst. split; auto. split; [split; auto; apply ixs_eq_refl | auto]. }
  destruct (validate sch d) eqn:V; simpl.
  2:{ intros H; inversion H; subst. split; auto. split; [split; auto; apply ixs_eq_refl | auto]. }
  destruct (add_loop (st_next s + 1) d (st_ix s)) as [l ok] eqn:AL.
  assert (FR : fresh (st_next s + 1) (st_ix s)) by (eapply Inv_fresh; eauto; lia).
  destruct (add_loop_spec _ _ _ _ _ FR AL) as (R1 & R2 & R3).
  assert (RB : forall po, let s1 := mkState (add_rollback (st_next s + 1) d l) (st_docs s) (st_next s + 1) po in
               Inv sch s1 /\ obs_eq s s1).
  { intros po s1. assert (O : obs_eq s s1) by (split; auto).
    split; auto. eapply Inv_obs_eq; eauto. simpl. lia. }
  destruct ok; simpl.
  - destruct ft.
    + intros H; inversion H; subst. clear H. destruct (R2 eq_refl) as [A1 A2].
      assert (G : get_doc (st_docs s) (st_next s + 1) = None).
      { apply get_doc_none. intros X. pose proof (inv_next _ _ I _ X). lia. }
      split; [|split; auto; exists d; auto].
      constructor; simpl.
      * apply (Forall2_ix_ok_add (st_docs s) (st_next s + 1) d (st_ix s)); auto. apply I.
      * eapply Forall2_wf; [| exact A1 | apply I]. intros x y [E _]. exact E.
      * intros id d'. rewrite get_doc_app by auto. destruct (Z.eqb_spec (st_next s + 1) id).
        -- intros X; inversion X; subst; auto.
        -- apply I.
      * intros id. rewrite map_app, in_app_iff. simpl. intros [X|[<-|[]]]; [|lia].
        pose proof (inv_next _ _ I _ X). lia.
    + intros H; inversion H; subst. destruct (RB (st_poison s || negb cleanup_ok)) as [B1 B2]. split; auto. split; auto.
      congruence.
  - intros H; inversion H; subst. destruct (RB (st_poison s)) as [B1 B2]. split; auto.
Qed.

(* an add whose keys are free in every unique index is accepted *)
Theorem add_accepts_free sch s fs d :
  Inv sch s -> set_fields sch empty_doc fs = inl d -> validate sch d = true ->
  Forall (fun e : index * post1 => ix_unique (fst e) = true -> forall k, In k (dkeys (fst e) d) -> snd e k = []) (st_ix s) ->
  exists s', add sch s fs NoFault = (s', inl (st_next s + 1)%Z).
Proof.
  intros I SF V Free. unfold add. rewrite SF, V. simpl.
  destruct (add_loop (st_next s + 1) d (st_ix s)) as [l ok] eqn:AL.
  assert (FR : fresh (st_next s + 1) (st_ix s)) by (eapply Inv_fresh; eauto; lia).
  destruct (add_loop_spec _ _ _ _ _ FR AL) as (R1 & R2 & R3).
  destruct ok; simpl; eauto. exfalso.
  specialize (R3 eq_refl). rewrite Exists_exists in R3. destruct R3 as ([ix p] & Hin & k & Hk & C).
  rewrite Forall_forall in Free. specialize (Free _ Hin). simpl in *.
  apply conflict_spec in C. destruct C as (U & _ & id' & Hid'). rewrite (Free U k Hk) in Hid'. destruct Hid'.
Qed.

(* ---------- update ---------- *)
Definition upd_pre (id : Z) (od nd : doc) (e : index * post1) : Prop :=
  let '(ix, p) := e in
  owns p id (dkeys ix od) /\ (ix_unique ix = true -> uniq_post p) /\ compat (hook_or_null ix od) (hook_or_null ix nd).

Lemma rollback_one u p id old new p1 :
  compat old new -> (u = true -> uniq_post p) -> owns p id (keys old) ->
  ix_update true u p id old new = (p1, true) ->
  exists p2, ix_update true u p1 id new old = (p2, true) /\ peq p p2.
Proof.
  intros C U O F. pose proof (ix_update_ok _ _ _ _ _ _ C F) as [F1 F2].
  destruct (ix_update true u p1 id new old) as [p2 ok] eqn:B.
  assert (ok = true).
  { destruct ok; auto. exfalso.
    pose proof (ix_update_fail_iff u p1 id new old (compat_sym _ _ C)) as X. rewrite B in X. simpl in X.
    destruct X as [X _]. destruct (X eq_refl) as (k & K1 & K2 & K3).
    apply conflict_other in K3. destruct K3 as (Hu & Hn & id' & Hin & Hne).
    apply F2 in Hin. destruct Hin as [[Hin|[-> _]] _]; [|congruence].
    apply Hne. apply (U Hu k); auto. apply O. auto. }
  subst ok. exists p2. split; auto.
  pose proof (ix_update_ok _ _ _ _ _ _ (compat_sym _ _ C) B) as [_ B2].
  intros k id'. rewrite B2, F2. pose proof (O k) as Ok.
  destruct (Z.eq_dec id' id) as [->|N]; [|tauto].
  destruct (in_dec key_eq_dec k (keys old)), (in_dec key_eq_dec k (keys new)); tauto.
Qed.

(* the reverse update on an index where the forward update applied only part of its inserts (any subset S of the new
   keys: none sequentially, a prefix of the loop under a racing writer) and none of its removals restores it *)
Lemma compensate_restores u p p' id old new (S : list key) :
  compat old new -> owns p id (keys old) ->
  (forall k id', In id' (p' k) <-> In id' (p k) \/ (id' = id /\ In k S)) ->
  (forall k, In k S -> In k (keys new)) ->
  snd (ix_update true u p' id new old) = true /\ peq p (fst (ix_update true u p' id new old)).
Proof.
  intros C O HS Sub.
  destruct (ix_update true u p' id new old) as [p2 ok] eqn:B. simpl.
  assert (ok = true).
  { destruct ok; auto. exfalso.
    pose proof (ix_update_fail_iff u p' id new old (compat_sym _ _ C)) as X. rewrite B in X. simpl in X.
    destruct X as [X _]. destruct (X eq_refl) as (k & K1 & K2 & K3).
    apply conflict_spec in K3. destruct K3 as (_ & Hn & _). apply Hn. apply HS. left. apply O. auto. }
  subst ok. split; auto.
  pose proof (ix_update_ok _ _ _ _ _ _ (compat_sym _ _ C) B) as [_ B2].
  intros k id'. rewrite B2, HS. pose proof (O k) as Ok. pose proof (Sub k) as Sk.
  destruct (Z.eq_dec id' id) as [->|N]; [|tauto].
  destruct (in_dec key_eq_dec k (keys old)), (in_dec key_eq_dec k (keys new)), (in_dec key_eq_dec k S); tauto.
Qed.

Lemma upd_loop_spec sch fs id od nd :
  set_fields sch od fs = inl nd ->
  forall ixs l ok,
  Forall (upd_pre id od nd) ixs ->
  upd_loop true true id (map fst fs) od nd ixs = (l, ok) ->
  (exists ixs2, upd_rollback true id od nd l = (ixs2, true) /\ ixs_eq ixs ixs2) /\
  (ok = true ->
     Forall2 (fun x y => fst x = fst y /\
                (forall k, In id (snd y k) <-> In k (dkeys (fst x) nd)) /\
                (forall k id', id' <> id -> (In id' (snd y k) <-> In id' (snd x k))) /\
                (ix_unique (fst x) = true -> uniq_post (snd y)))
             ixs (strip l)) /\
  (ok = false -> Exists (fun x => exists k, In k (dkeys (fst x) nd) /\ ~ In k (dkeys (fst x) od) /\
                                           conflict (ix_unique (fst x)) (snd x) id k = true) ixs).
Proof.
  intros SF. induction ixs as [|[ix p] rest IH]; intros l ok F E; simpl in E.
  - inversion E; subst. simpl. repeat split; try constructor; try discriminate. exists []. split; auto. constructor.
  - inversion F as [|? ? Fp Fr]; subst. destruct Fp as (Own & Uq & Cp).
    destruct (touches ix (map fst fs)) eqn:T.
    + unfold uniq_of in E.
      destruct (ix_update true (ix_unique ix) p id (hook_or_null ix od) (hook_or_null ix nd)) as [p' okU] eqn:EU.
      destruct okU.
      * destruct (upd_loop true true id (map fst fs) od nd rest) as [r ok2] eqn:Er. inversion E; subst.
        destruct (IH _ _ Fr eq_refl) as ((ixs2 & I1 & I1') & I2 & I3).
        destruct (rollback_one _ _ _ _ _ _ Cp Uq Own EU) as (p2 & RB & PE).
        pose proof (ix_update_ok _ _ _ _ _ _ Cp EU) as [U1 U2].
        repeat split.
        -- simpl. rewrite I1. unfold uniq_of. rewrite RB. simpl. exists ((ix, p2) :: ixs2). split; auto.
           constructor; auto.
        -- intros H. constructor; [|apply I2; auto]. simpl. split; auto. unfold dkeys in *. split; [|split].
           ++ intros k. rewrite U2. pose proof (Own k).
              destruct (in_dec key_eq_dec k (keys (hook_or_null ix od))), (in_dec key_eq_dec k (keys (hook_or_null ix nd))); tauto.
           ++ intros k id' N. rewrite U2. tauto.
           ++ intros Hu k a b Ha Hb. apply U2 in Ha. apply U2 in Hb.
              assert (X : forall c, In c (p k) -> In k (keys (hook_or_null ix nd)) -> c = id).
              { intros c Hc Hk. destruct (in_dec key_eq_dec k (keys (hook_or_null ix od))) as [i|n].
                - apply (Uq Hu k); auto. apply Own. auto.
                - destruct (Z.eq_dec c id); auto. exfalso.
                  assert (CF : conflict (ix_unique ix) p id k = true); [|rewrite U1 in CF; auto; discriminate].
                  apply conflict_spec. repeat split; auto; [|eauto]. intros Y. apply n. apply Own. auto. }
              destruct Ha as [[Ha|[-> [Ha _]]] _], Hb as [[Hb|[-> [Hb _]]] _]; auto.
              ** apply (Uq Hu k); auto.
              ** symmetry; auto.
        -- intros H. apply Exists_cons_tl. auto.
      * inversion E; subst. pose proof (ix_update_fail _ _ _ _ _ _ Cp EU) as ->.
        destruct (compensate_restores (ix_unique ix) p p id _ _ [] Cp Own) as [_ CR];
          [intros; simpl; tauto | intros k [] |].
        repeat split; try discriminate.
        -- simpl. assert (Z : forall r, upd_rollback true id od nd (map (fun e : index * post1 => (e, false)) r) = (r, true)).
           { induction r as [|[ix' q] r IHr]; simpl; auto. rewrite IHr. auto. }
           rewrite Z. eexists. split; [reflexivity|]. constructor; [split; [reflexivity | exact CR] | apply ixs_eq_refl].
        -- intros _. apply Exists_cons_hd. simpl.
           pose proof (ix_update_fail_iff (ix_unique ix) p id _ _ Cp) as X. rewrite EU in X. simpl in X.
           apply X. auto.
    + destruct (upd_loop true true id (map fst fs) od nd rest) as [r ok0] eqn:Er. inversion E; subst.
      destruct (IH _ _ Fr eq_refl) as ((ixs2 & I1 & I1') & I2 & I3).
      pose proof (hook_untouched _ _ _ _ _ SF T) as HU.
      repeat split.
      * simpl. rewrite I1. exists ((ix, p) :: ixs2). split; auto. constructor; auto. split; auto. apply peq_refl.
      * intros H. constructor; [|apply I2; auto]. simpl. split; auto. unfold dkeys. rewrite HU. split; [|split].
        -- intros k. apply Own.
        -- intros; tauto.
        -- exact Uq.
      * intros H. apply Exists_cons_tl. auto.
Qed.

Lemma Inv_upd_pre sch s id od nd :
  Inv sch s -> get_doc (st_docs s) id = Some od -> validate sch nd = true ->
  Forall (upd_pre id od nd) (st_ix s).
Proof.
  intros I G V. pose proof (inv_ix _ _ I) as H. pose proof (inv_wf _ _ I) as W.
  rewrite Forall_forall in *. intros [ix p] Hin. destruct (H _ Hin) as [H1 H2]. repeat split; auto.
  - intros X. apply H1 in X. destruct X as (d & G' & K). congruence.
  - intros X. apply H1. eauto.
  - eapply hook_compat; eauto. apply (W _ Hin). eapply inv_valid; eauto.
Qed.

Lemma Forall2_ix_ok_put ds id od nd ixs ixs' :
  get_doc ds id = Some od ->
  Forall (ix_ok ds) ixs ->
  Forall2 (fun x y : index * post1 => fst x = fst y /\
                (forall k, In id (snd y k) <-> In k (dkeys (fst x) nd)) /\
                (forall k id', id' <> id -> (In id' (snd y k) <-> In id' (snd x k))) /\
                (ix_unique (fst x) = true -> uniq_post (snd y))) ixs ixs' ->
  Forall (ix_ok (put_doc ds id nd)) ixs'.
Proof.
  intros G H F2. revert H. induction F2 as [|[ix p] [ix' p'] a b (E & S1 & S2 & S3) _ IH]; intros H; constructor;
    inversion H; subst; auto.
  simpl in *. subst ix'. destruct H2 as [K1 K2]. split; auto.
  intros id' k. destruct (Z.eq_dec id' id) as [->|N].
  - rewrite S1. rewrite get_doc_put, G, Z.eqb_refl. split; [eauto | intros (d & X & Y); inversion X; subst; auto].
  - rewrite S2, K1 by auto. split; intros (d & X & Y); exists d; split; auto.
    + rewrite get_doc_put, X. destruct (Z.eqb_spec id' id); congruence.
    + rewrite get_doc_put in X. destruct (get_doc ds id'); [|discriminate]. destruct (Z.eqb_spec id' id); congruence.
Qed.

Theorem update_correct sch s id fs ft s' r :
  Inv sch s -> update true true sch s id fs ft = (s', r) ->
  Inv sch s' /\
  match r with
  | inr e => obs_eq s s' /\ (e <> EStorage -> st_poison s' = st_poison s)
  | inl _ => st_poison s' = st_poison s /\ exists od nd, get_doc (st_docs s) id = Some od /\ set_fields sch od fs = inl nd /\
                                                          st_docs s' = put_doc (st_docs s) id nd
  end.
Proof.
  intros I. unfold update.
  assert (NOOP : forall e, (s, inr e) = (s', r) -> Inv sch s' /\ match r with
       | inr e => obs_eq s s' /\ (e <> EStorage -> st_poison s' = st_poison s)
       | inl _ => st_poison s' = st_poison s /\ exists od nd, get_doc (st_docs s) id = Some od /\ set_fields sch od fs = inl nd /\
                                                          st_docs s' = put_doc (st_docs s) id nd end).
  { intros e H; inversion H; subst. split; auto. split; [split; auto; apply ixs_eq_refl | auto]. }
  destruct (get_doc (st_docs s) id) as [od|] eqn:G; [|apply NOOP].
  destruct fs as [|f0 fs0]; [apply NOOP|]. remember (f0 :: fs0) as fs.
  destruct (set_fields sch od fs) as [nd|e] eqn:SF; [|apply NOOP].
  destruct (validate sch nd) eqn:V; simpl; [|apply NOOP].
  destruct (upd_loop true true id (map fst fs) od nd (st_ix s)) as [l ok] eqn:UL.
  pose proof (Inv_upd_pre _ _ _ _ _ I G V) as PRE.
  destruct (upd_loop_spec _ _ _ _ _ SF _ _ _ PRE UL) as ((ixs2 & R1 & R1') & R2 & R3).
  rewrite R1.
  assert (RB : forall po, let s1 := mkState ixs2 (st_docs s) (st_next s) po in Inv sch s1 /\ obs_eq s s1).
  { intros po s1. assert (O : obs_eq s s1) by (split; auto).
    split; auto. eapply Inv_obs_eq; eauto. simpl. lia. }
  destruct ok; simpl.
  - destruct ft.
    + intros H; inversion H; subst. clear H. specialize (R2 eq_refl).
      split; [|split; eauto].
      constructor; simpl.
      * apply (Forall2_ix_ok_put (st_docs s) id od nd (st_ix s)); auto. apply I.
      * eapply Forall2_wf; [| exact R2 | apply I]. intros x y [E _]. exact E.
      * intros id' d'. rewrite get_doc_put. destruct (get_doc (st_docs s) id') eqn:G'; [|discriminate].
        destruct (Z.eqb_spec id' id); intros X; inversion X; subst; auto. eapply inv_valid; eauto.
      * rewrite map_fst_put. apply I.
    + intros H; inversion H; subst. destruct (RB true) as [B1 B2]. split; auto. split; auto. congruence.
  - intros H; inversion H; subst. rewrite orb_false_r. destruct (RB (st_poison s)) as [B1 B2]. split; auto.
Qed.

(* ---------- remove ---------- *)
Lemma rem_loop_ok ds id d ixs :
  get_doc ds id = Some d -> Forall (ix_ok ds) ixs -> Forall (ix_ok (del_doc ds id)) (rem_loop id d ixs).
Proof.
  intros G. induction ixs as [|[ix p] r IH]; intros H; inversion H; subst; simpl; constructor; auto.
  destruct H2 as [K1 K2].
  assert (X : exists p', (match hook ix d with
                          | Some v => if is_null v then (ix, p) else (ix, ix_remove p id v)
                          | None => (ix, p) end) = (ix, p') /\
                         forall k id', In id' (p' k) <-> In id' (p k) /\ ~ (id' = id /\ In k (dkeys ix d))).
  { unfold dkeys, hook_or_null. destruct (hook ix d) as [v|] eqn:Hk.
    - destruct (is_null v) eqn:N.
      + exists p. split; auto. rewrite (is_null_keys _ N). simpl. tauto.
      + exists (ix_remove p id v). split; auto. intros. apply ix_remove_spec.
    - exists p. split; auto. simpl. tauto. }
  destruct X as (p' & -> & S). split.
  - intros id' k. rewrite S, K1, get_doc_del. destruct (Z.eqb_spec id' id) as [->|N].
    + split; [intros [(d' & X & Y) Z]; exfalso; apply Z; split; auto; congruence | intros (d' & X & _); discriminate].
    + split; [tauto | intros H0; split; auto; tauto].
  - intros U k a b Ha Hb. apply S in Ha. apply S in Hb. apply (K2 U k); tauto.
Qed.

Lemma rem_loop_fst id d ixs : map fst (rem_loop id d ixs) = map fst ixs.
Proof.
  induction ixs as [|[ix p] r IH]; simpl; auto. rewrite IH. f_equal.
  destruct (hook ix d) as [v|]; auto. destruct (is_null v); auto.
Qed.

Theorem remove_correct sch s id ft s' r :
  Inv sch s -> remove s id ft = (s', r) ->
  Inv sch s' /\
  match r with
  | inr _ => obs_eq s s'
  | inl false => s' = s /\ get_doc (st_docs s) id = None
  | inl true => st_poison s' = st_poison s /\ st_docs s' = del_doc (st_docs s) id /\
                exists d, get_doc (st_docs s) id = Some d /\
                Forall (fun e : index * post1 => forall k, In k (dkeys (fst e) d) -> ix_unique (fst e) = true -> snd e k = []) (st_ix s')
  end.
Proof.
  intros I. unfold remove. destruct (get_doc (st_docs s) id) as [d|] eqn:G.
  2:{ intros H; inversion H; subst. auto. }
  destruct ft.
  - intros H; inversion H; subst. clear H. simpl.
    pose proof (rem_loop_ok _ _ _ _ G (inv_ix _ _ I)) as OK.
    split.
    + constructor; simpl; auto.
      * pose proof (inv_wf _ _ I) as W. rewrite Forall_forall in *. intros [ix p] Hin.
        assert (In ix (map fst (rem_loop id d (st_ix s)))) by (apply in_map_iff; exists (ix, p); auto).
        rewrite rem_loop_fst in H. apply in_map_iff in H. destruct H as ([ix' q] & <- & Hq). apply (W _ Hq).
      * intros id' d'. rewrite get_doc_del. destruct (Z.eqb id' id); [discriminate | apply I].
      * intros id' X. apply I. unfold del_doc in X. apply in_map_iff in X. destruct X as (e & <- & X).
        apply filter_In in X. apply in_map. tauto.
    + repeat split; auto. exists d. split; auto. rewrite Forall_forall in *. intros [ix p] Hin k Hk U. simpl in *.
      destruct (OK _ Hin) as [K1 K2]. destruct (p k) as [|a t] eqn:E; auto. exfalso.
      assert (A : In a (p k)) by (rewrite E; simpl; auto).
      apply K1 in A. destruct A as (d' & X & _). rewrite get_doc_del in X.
      destruct (Z.eqb_spec a id); [discriminate|].
      (* a <> id owns k in the unique index, but id owned k before the removal *)
      assert (In ix (map fst (rem_loop id d (st_ix s)))) by (apply in_map_iff; exists (ix, p); auto).
      clear -I G Hin Hk U E n.
      pose proof (inv_ix _ _ I) as H0.
      assert (Y : exists q, In (ix, q) (st_ix s) /\ forall k' id', In id' (p k') -> In id' (q k')).
      { revert Hin. generalize (st_ix s). induction l as [|[ix' q] r IH]; simpl; [tauto|].
        intros [X|X].
        - exists q. assert (ix' = ix /\ forall k' id', In id' (p k') -> In id' (q k')).
          { destruct (hook ix' d) as [v|]; [destruct (is_null v)|]; inversion X; subst; split; auto.
            intros k' id'. rewrite ix_remove_spec. tauto. }
          destruct H; subst. split; auto.
        - destruct (IH X) as (q0 & A & B). exists q0. split; auto. }
      destruct Y as (q & Hq & Sub). rewrite Forall_forall in H0. destruct (H0 _ Hq) as [Q1 Q2].
      assert (In id (q k)) by (apply Q1; eauto).
      assert (In a (q k)) by (apply Sub; rewrite E; simpl; auto).
      apply n. apply (Q2 U k); auto.
  - intros H; inversion H; subst. split.
    + eapply Inv_obs_eq; [eauto | split; simpl; auto; apply ixs_eq_refl | simpl; lia].
    + split; simpl; auto. apply ixs_eq_refl.
Qed.

(* ---------- histories ---------- *)
Definition wf_indexes (sch : schema) (ixs : list index) : Prop := Forall (wf_index sch) ixs.

Lemma Inv_init sch ixs : wf_indexes sch ixs -> Inv sch (init ixs).
Proof.
  intros W. constructor; simpl.
  - induction ixs as [|ix0 r0 IHr]; simpl; constructor; auto.
    + split; [|intros _ k a b []]. intros id k. split; [intros [] | intros (d & X & _); discriminate].
    + apply IHr. inversion W; auto.
  - induction W; simpl; constructor; auto.
  - discriminate.
  - intros id [].
Qed.

Lemma step_Inv sch s o s' r : Inv sch s -> step true true sch s o = (s', r) -> Inv sch s'.
Proof.
  intros I. unfold step. destruct o.
  - destruct (set_fields sch empty_doc fs); [|intros H; inversion H; subst; auto].
    destruct (st_poison s); [intros H; inversion H; subst; auto|].
    destruct (add sch s fs ft) as [s1 r1] eqn:E. intros H; inversion H; subst. destruct (add_correct _ _ _ _ _ _ I E) as [X _]; exact X.
  - destruct (st_poison s); [intros H; inversion H; subst; auto|].
    destruct (update true true sch s id fs ft) as [s1 r1] eqn:E. intros H; inversion H; subst. destruct (update_correct _ _ _ _ _ _ _ I E) as [X _]; exact X.
  - destruct (st_poison s); [intros H; inversion H; subst; auto|].
    destruct (remove s id ft) as [s1 r1] eqn:E. intros H; inversion H; subst. destruct (remove_correct _ _ _ _ _ _ I E) as [X _]; exact X.
Qed.

Lemma run_Inv sch os : forall s, Inv sch s -> Inv sch (fst (run true true sch s os)).
Proof.
  induction os as [|o r IH]; intros s I; simpl; auto.
  destruct (step true true sch s o) as [s1 x] eqn:E. specialize (IH s1 (step_Inv _ _ _ _ _ I E)).
  destruct (run true true sch s1 r); auto.
Qed.

Definition reachable (sch : schema) (ixs : list index) (s : state) : Prop :=
  exists os, s = fst (run true true sch (init ixs) os).

Lemma reachable_Inv sch ixs s : wf_indexes sch ixs -> reachable sch ixs s -> Inv sch s.
Proof. intros W [os ->]. apply run_Inv. apply Inv_init. auto. Qed.

(* lookups by position *)
Lemma lookup_ok sch s i ix p :
  Inv sch s -> nth_error (st_ix s) i = Some (ix, p) -> ix_ok (st_docs s) (ix, p).
Proof.
  intros I H. pose proof (inv_ix _ _ I) as F. rewrite Forall_forall in F. apply F. eapply nth_error_In; eauto.
Qed.

Lemma ixs_eq_lookup a b i : ixs_eq a b ->
  match nth_error a i, nth_error b i with
  | Some (ix, p), Some (ix', q) => ix = ix' /\ peq p q
  | None, None => True
  | _, _ => False
  end.
Proof.
  intros H. revert i. induction H as [|[ix p] [ix' q] la lb [E1 E2] _ IH]; intros [|i]; simpl; auto.
  apply IH.
Qed.

(* register keeps unique indexes in front *)
Fixpoint unique_prefix (ixs : list index) : Prop :=
  match ixs with
  | [] => True
  | ix :: r => (ix_unique ix = false -> Forall (fun j => ix_unique j = false) r) /\ unique_prefix r
  end.

Lemma register_unique_prefix ixs ix : unique_prefix ixs -> unique_prefix (register true ixs ix).
Proof.
  unfold register. destruct (ix_unique ix) eqn:U; simpl.
  - intros H. split; auto. congruence.
  - induction ixs as [|j r IH]; simpl.
    + intros _. split; auto.
    + intros [H1 H2]. split; auto. intros Hj. apply Forall_app. split; auto.
Qed.
