(* C04 — history-level statements derived from the invariant. *)
From Coq Require Import List ZArith String Bool Lia.
From Verif Require Import Uniq.Model Uniq.Proofs Uniq.Proofs2.
Import ListNotations.
Open Scope list_scope.

Lemma lookup_nth s i k : lookup s i k = match nth_error (st_ix s) i with Some (_, p) => p k | None => [] end.
Proof. reflexivity. Qed.

(* every posting is derived from the stored documents *)
Lemma postings_derived sch ixs s i ix p k id :
  wf_indexes sch ixs -> reachable sch ixs s -> nth_error (st_ix s) i = Some (ix, p) ->
  (In id (lookup s i k) <-> exists d, get_doc (st_docs s) id = Some d /\ In k (dkeys ix d)).
Proof.
  intros W R N. pose proof (lookup_ok _ _ _ _ _ (reachable_Inv _ _ _ W R) N) as [H _].
  unfold lookup. rewrite N. apply H.
Qed.

Lemma unique_inv sch ixs s i ix p k a b :
  wf_indexes sch ixs -> reachable sch ixs s -> nth_error (st_ix s) i = Some (ix, p) -> ix_unique ix = true ->
  In a (lookup s i k) -> In b (lookup s i k) -> a = b.
Proof.
  intros W R N U. pose proof (lookup_ok _ _ _ _ _ (reachable_Inv _ _ _ W R) N) as [_ H].
  unfold lookup. rewrite N. apply (H U k).
Qed.

Lemma no_shared_unique_key sch ixs s i ix p k a b da db :
  wf_indexes sch ixs -> reachable sch ixs s -> nth_error (st_ix s) i = Some (ix, p) -> ix_unique ix = true ->
  get_doc (st_docs s) a = Some da -> get_doc (st_docs s) b = Some db ->
  In k (dkeys ix da) -> In k (dkeys ix db) -> a = b.
Proof.
  intros W R N U Ga Gb Ka Kb. eapply (unique_inv sch ixs s i ix p k); eauto;
    apply (postings_derived sch ixs s i ix p k); eauto.
Qed.

Lemma obs_eq_lookup s s' : obs_eq s s' ->
  st_docs s' = st_docs s /\ map fst (st_ix s') = map fst (st_ix s) /\
  forall i k id, In id (lookup s' i k) <-> In id (lookup s i k).
Proof.
  intros [E1 E2]. split; auto. split.
  - clear E1. induction E2 as [|x y a b [E _] _ IH]; simpl; auto. rewrite IH, E. auto.
  - intros i k id. unfold lookup. pose proof (ixs_eq_lookup _ _ i E2) as L.
    destruct (nth_error (st_ix s) i) as [[ix p]|], (nth_error (st_ix s') i) as [[ix' q]|]; try tauto.
    destruct L as [_ L]. symmetry. apply L.
Qed.

(* a rejected operation changes nothing observable *)
Lemma rejected_noop sch ixs s o s' e :
  wf_indexes sch ixs -> reachable sch ixs s -> step true true sch s o = (s', RErr e) ->
  st_docs s' = st_docs s /\ map fst (st_ix s') = map fst (st_ix s) /\
  (forall i k id, In id (lookup s' i k) <-> In id (lookup s i k)) /\
  (e <> EStorage -> st_poison s' = st_poison s).
Proof.
  intros W R. pose proof (reachable_Inv _ _ _ W R) as I. unfold step.
  assert (SAME : (s, RErr e) = (s', RErr e) -> st_docs s' = st_docs s /\ map fst (st_ix s') = map fst (st_ix s) /\
     (forall i k id, In id (lookup s' i k) <-> In id (lookup s i k)) /\ (e <> EStorage -> st_poison s' = st_poison s)).
  { intros H; inversion H; subst. repeat split; auto; tauto. }
  assert (X : forall s1, obs_eq s s1 -> (e <> EStorage -> st_poison s1 = st_poison s) ->
     st_docs s1 = st_docs s /\ map fst (st_ix s1) = map fst (st_ix s) /\
     (forall i k id, In id (lookup s1 i k) <-> In id (lookup s i k)) /\ (e <> EStorage -> st_poison s1 = st_poison s)).
  { intros s1 O Q. destruct (obs_eq_lookup _ _ O) as (A & B & C). auto. }
  destruct o.
  - destruct (set_fields sch empty_doc fs); [|intros H; inversion H; subst; apply SAME; auto].
    destruct (st_poison s) eqn:P; [intros H; inversion H; subst; apply SAME; auto|].
    destruct (add sch s fs ft) as [s1 r1] eqn:E. destruct (add_correct _ _ _ _ _ _ I E) as [_ Y].
    destruct r1; intros H; inversion H; subst. rewrite ?P in Y. apply X; tauto.
  - destruct (st_poison s) eqn:P; [intros H; inversion H; subst; apply SAME; auto|].
    destruct (update true true sch s id fs ft) as [s1 r1] eqn:E. destruct (update_correct _ _ _ _ _ _ _ I E) as [_ Y].
    destruct r1; intros H; inversion H; subst. rewrite ?P in Y. apply X; tauto.
  - destruct (st_poison s) eqn:P; [intros H; inversion H; subst; apply SAME; auto|].
    destruct (remove s id ft) as [s1 r1] eqn:E. destruct (remove_correct _ _ _ _ _ _ I E) as [_ Y].
    destruct r1; intros H; inversion H; subst. apply X; auto.
    rewrite <- P. unfold remove in E. destruct (get_doc (st_docs s) id); [|inversion E]. destruct ft; inversion E; subst.
    simpl. intros N. congruence.
Qed.

(* after the holder is removed, each of its unique keys has no owner *)
Lemma value_released_remove sch ixs s id s' i ix p' k d :
  wf_indexes sch ixs -> reachable sch ixs s ->
  step true true sch s (ORemove id NoFault) = (s', RRemoved true) ->
  get_doc (st_docs s) id = Some d ->
  nth_error (st_ix s') i = Some (ix, p') -> ix_unique ix = true -> In k (dkeys ix d) ->
  lookup s' i k = [].
Proof.
  intros W R S G N U K. pose proof (reachable_Inv _ _ _ W R) as I. unfold step in S.
  destruct (st_poison s); [discriminate|].
  destruct (remove s id NoFault) as [s1 r1] eqn:E. destruct (remove_correct _ _ _ _ _ _ I E) as [_ Y].
  destruct r1 as [[|]|]; inversion S; subst.
  destruct Y as (_ & _ & d' & G' & F). assert (d' = d) by congruence. subst.
  rewrite Forall_forall in F. unfold lookup. rewrite N.
  apply (F (ix, p') (nth_error_In _ _ N) k K U).
Qed.

Lemma Forall2_map_fst (R : index * post1 -> index * post1 -> Prop) a b :
  (forall x y, R x y -> fst x = fst y) -> Forall2 R a b -> map fst b = map fst a.
Proof. intros HR F. induction F as [|x y la lb Rxy _ IH]; simpl; auto. rewrite IH, (HR _ _ Rxy). auto. Qed.

(* after the holder's update, the unique keys it gave up have no owner *)
Lemma value_released_update sch ixs s id fs s' i ix p' k od nd a :
  wf_indexes sch ixs -> reachable sch ixs s ->
  step true true sch s (OUpdate id fs NoFault) = (s', ROk) ->
  get_doc (st_docs s) id = Some od -> get_doc (st_docs s') id = Some nd ->
  nth_error (st_ix s') i = Some (ix, p') -> ix_unique ix = true ->
  In k (dkeys ix od) -> ~ In k (dkeys ix nd) ->
  ~ In a (lookup s' i k).
Proof.
  intros W R S Go Gn N U Ko Kn Ha. pose proof (reachable_Inv _ _ _ W R) as I.
  pose proof (step_Inv _ _ _ _ _ I S) as I'. unfold step in S.
  destruct (st_poison s); [discriminate|].
  destruct (update true true sch s id fs NoFault) as [s1 r1] eqn:E. destruct (update_correct _ _ _ _ _ _ _ I E) as [_ Y].
  destruct r1; inversion S; subst. destruct Y as (_ & od' & nd' & G1 & SF & D).
  pose proof (lookup_ok _ _ _ _ _ I' N) as [C' _].
  unfold lookup in Ha. rewrite N in Ha. apply C' in Ha. destruct Ha as (da & Ga & Ka).
  destruct (Z.eq_dec a id) as [->|Ne]; [congruence|].
  (* a also owned k before the update: a and id would both own k in the unique index *)
  rewrite D, get_doc_put in Ga. destruct (get_doc (st_docs s) a) as [da0|] eqn:Ga0; [|discriminate].
  destruct (Z.eqb_spec a id); [congruence|]. inversion Ga; subst da0.
  (* find the same index in s *)
  pose proof (update_correct _ _ _ _ _ _ _ I E) as [_ Y2]. clear Y2.
  assert (M : map fst (st_ix s') = map fst (st_ix s)).
  { unfold update in E. rewrite Go in E. destruct fs as [|f0 fr]; [inversion E|]. remember (f0 :: fr) as fs0.
    destruct (set_fields sch od fs0) as [ndx|] eqn:SF2; [|inversion E].
    destruct (validate sch ndx) eqn:V; [|inversion E]. cbn [negb] in E.
    destruct (upd_loop true true id (map fst fs0) od ndx (st_ix s)) as [l ok] eqn:UL.
    pose proof (Inv_upd_pre _ _ _ _ _ I Go V) as PRE.
    destruct (upd_loop_spec _ _ _ _ _ SF2 _ _ _ PRE UL) as (_ & R2 & _).
    destruct ok; cbn [negb] in E.
    - inversion E; subst s'. simpl. specialize (R2 eq_refl).
      eapply Forall2_map_fst; [|exact R2]. intros x y [Exy _]. exact Exy.
    - destruct (upd_rollback true id od ndx l); inversion E. }
  assert (N0 : exists p, nth_error (st_ix s) i = Some (ix, p)).
  { assert (X : nth_error (map fst (st_ix s')) i = Some ix) by (rewrite nth_error_map, N; auto).
    rewrite M, nth_error_map in X. destruct (nth_error (st_ix s) i) as [[ix0 p0]|]; inversion X; subst. eauto. }
  destruct N0 as [p N0].
  apply Ne. eapply (no_shared_unique_key sch ixs s i ix p k a id); eauto.
  assert (od' = od) by congruence. subst. exact Ko.
Qed.

(* a valid document whose unique keys have no owner is accepted *)
Lemma free_value_insertable sch ixs s fs d :
  wf_indexes sch ixs -> reachable sch ixs s -> st_poison s = false ->
  set_fields sch empty_doc fs = inl d -> validate sch d = true ->
  (forall i ix p k, nth_error (st_ix s) i = Some (ix, p) -> ix_unique ix = true -> In k (dkeys ix d) -> lookup s i k = []) ->
  exists s', step true true sch s (OAdd fs NoFault) = (s', RId (st_next s + 1)).
Proof.
  intros W R P SF V F. pose proof (reachable_Inv _ _ _ W R) as I.
  destruct (add_accepts_free sch s fs d I SF V) as [s' E].
  - rewrite Forall_forall. intros [ix p] Hin U k K. simpl in *.
    destruct (In_nth_error _ _ Hin) as [i N]. specialize (F i ix p k N U K). unfold lookup in F. rewrite N in F. auto.
  - exists s'. unfold step. rewrite SF, P, E. reflexivity.
Qed.
