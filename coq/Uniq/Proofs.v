(* C04 — lemmas about one B-tree (postings read as sets) and about the index-level dispatch. *)
From Coq Require Import List ZArith String Bool Lia.
From Verif Require Import Uniq.Model.
Import ListNotations.
Open Scope list_scope.

(* ---------- lists of ids as sets ---------- *)
Lemma memz_In x l : memz x l = true <-> In x l.
Proof.
  unfold memz. rewrite existsb_exists. split.
  - intros [y [Hy E]]. apply Z.eqb_eq in E. subst. exact Hy.
  - intros H. exists x. split; [exact H | apply Z.eqb_refl].
Qed.

Lemma memz_false x l : memz x l = false <-> ~ In x l.
Proof. rewrite <- memz_In. destruct (memz x l); split; intros; congruence. Qed.

Lemma push_In x l y : In y (push x l) <-> y = x \/ In y l.
Proof.
  unfold push. destruct (memz x l) eqn:E.
  - apply memz_In in E. split; [auto | intros [->|]; auto].
  - rewrite in_app_iff. simpl. split; [intros [|[|[]]]; auto | intros [|]; auto].
Qed.

Lemma drop_In x l y : In y (drop x l) <-> In y l /\ y <> x.
Proof.
  unfold drop. rewrite filter_In. split; intros [H1 H2]; split; auto.
  - intros ->. rewrite Z.eqb_refl in H2. discriminate.
  - destruct (Z.eqb_spec x y); [subst; congruence | reflexivity].
Qed.


Lemma nonempty_ex l : nonempty l = true <-> exists x : Z, In x l.
Proof. destruct l; simpl; split; try discriminate; [intros [x []] | eauto | eauto]. Qed.

Lemma upd_same p k l : upd p k l k = l.
Proof. unfold upd. destruct (key_eq_dec k k); congruence. Qed.
Lemma upd_other p k l k' : k' <> k -> upd p k l k' = p k'.
Proof. unfold upd. destruct (key_eq_dec k' k); congruence. Qed.

(* a posting map has at most one owner per key *)
Definition uniq_post (p : post1) : Prop := forall k a b, In a (p k) -> In b (p k) -> a = b.
(* the postings of [id] are exactly [ks] *)
Definition owns (p : post1) (id : Z) (ks : list key) : Prop := forall k, In id (p k) <-> In k ks.
(* same sets everywhere *)
Definition peq (p q : post1) : Prop := forall k id, In id (p k) <-> In id (q k).

Lemma peq_refl p : peq p p. Proof. firstorder. Qed.
Lemma peq_sym p q : peq p q -> peq q p. Proof. firstorder. Qed.
Lemma peq_trans p q r : peq p q -> peq q r -> peq p r.
Proof. intros H1 H2 k id. rewrite (H1 k id). apply H2. Qed.

Lemma conflict_spec u p id k :
  conflict u p id k = true <-> u = true /\ ~ In id (p k) /\ exists id', In id' (p k).
Proof.
  unfold conflict. rewrite !andb_true_iff, negb_true_iff, memz_false, nonempty_ex. tauto.
Qed.

Lemma conflict_other u p id k :
  conflict u p id k = true <-> u = true /\ ~ In id (p k) /\ exists id', In id' (p k) /\ id' <> id.
Proof.
  rewrite conflict_spec. split; intros (Hu & Hn & id' & H); repeat split; auto.
  - exists id'. split; auto. intros ->. auto.
  - exists id'. tauto.
Qed.

(* ---------- BTreeIndex::insert / remove ---------- *)
Lemma bt_insert_some u p id k p' :
  bt_insert u p id k = Some p' ->
  conflict u p id k = false /\
  forall k' id', In id' (p' k') <-> In id' (p k') \/ (id' = id /\ k' = k).
Proof.
  unfold bt_insert. destruct (conflict u p id k) eqn:C; [discriminate|]. intros E. inversion E; subst. clear E.
  split; auto. intros k' id'. destruct (key_eq_dec k' k) as [->|N].
  - rewrite upd_same, push_In. tauto.
  - rewrite upd_other by auto. tauto.
Qed.

Lemma bt_insert_none u p id k : bt_insert u p id k = None <-> conflict u p id k = true.
Proof. unfold bt_insert. destruct (conflict u p id k); split; congruence. Qed.

Lemma bt_remove_spec p id k k' id' :
  In id' (bt_remove p id k k') <-> In id' (p k') /\ ~ (id' = id /\ k' = k).
Proof.
  unfold bt_remove. destruct (key_eq_dec k' k) as [->|N].
  - rewrite upd_same, drop_In. tauto.
  - rewrite upd_other by auto. tauto.
Qed.

Lemma bt_remove_array_spec ks : forall p id k' id',
  In id' (bt_remove_array p id ks k') <-> In id' (p k') /\ ~ (id' = id /\ In k' ks).
Proof.
  unfold bt_remove_array. induction ks as [|k ks IH]; intros; simpl.
  - tauto.
  - rewrite IH, bt_remove_spec. split.
    + intros [[H1 H2] H3]. split; auto. intros [-> [->|H]]; tauto.
    + intros [H1 H2]. repeat split; auto; intros [-> H]; subst; tauto.
Qed.

(* ---------- insert_array ---------- *)
Lemma ins_loop_spec u ks : forall p id p' ok,
  ins_loop u p id ks = (p', ok) ->
  (forall k' id', In id' (p' k') -> In id' (p k') \/ (id' = id /\ In k' ks)) /\
  (forall k' id', In id' (p k') -> In id' (p' k')) /\
  (ok = true -> forall k', In k' ks -> In id (p' k')).
Proof.
  induction ks as [|k ks IH]; intros p id p' ok E; simpl in E.
  - inversion E; subst. repeat split; auto. intros _ k' [].
  - destruct (bt_insert u p id k) as [p1|] eqn:B.
    + apply bt_insert_some in B. destruct B as [_ B]. apply IH in E. destruct E as (E1 & E2 & E3).
      repeat split.
      * intros k' id' H. apply E1 in H. destruct H as [H|[-> H]].
        -- apply B in H. destruct H as [H|[-> ->]]; [auto | right; simpl; auto].
        -- right. simpl. auto.
      * intros k' id' H. apply E2. apply B. auto.
      * intros Hok k' [->|H]; [apply E2, B; auto | apply E3; auto].
    + inversion E; subst. repeat split; auto. discriminate.
Qed.

Lemma ins_loop_no_conflict u ks : forall p id,
  (forall k, In k ks -> conflict u p id k = false) -> snd (ins_loop u p id ks) = true.
Proof.
  induction ks as [|k ks IH]; intros p id H; simpl; auto.
  destruct (bt_insert u p id k) as [p1|] eqn:B.
  - apply IH. intros k' Hk'. pose proof (H k' (or_intror Hk')) as C.
    apply bt_insert_some in B. destruct B as [_ B].
    destruct (conflict u p1 id k') eqn:C1; auto. exfalso.
    apply conflict_other in C1. destruct C1 as (Hu & Hn & id' & Hin & Hne).
    apply B in Hin. destruct Hin as [Hin|[-> _]]; [|congruence].
    assert (conflict u p id k' = true); [|congruence].
    apply conflict_spec. repeat split; auto.
    + intros X. apply Hn. apply B. auto.
    + eauto.
  - apply bt_insert_none in B. rewrite H in B by (left; auto). discriminate.
Qed.

(* sequentially, insert_array is all-or-nothing: it fails only in the pre-check *)
Lemma bt_insert_array_fail u p id ks p' : bt_insert_array u p id ks = (p', false) -> p' = p.
Proof.
  unfold bt_insert_array. destruct (existsb (conflict u p id) ks) eqn:E.
  - intros H. inversion H. reflexivity.
  - intros H. pose proof (ins_loop_no_conflict u ks p id) as L. rewrite H in L. simpl in L.
    assert (false = true); [|discriminate]. apply L. intros k Hk.
    destruct (conflict u p id k) eqn:C; auto.
    assert (existsb (conflict u p id) ks = true) by (apply existsb_exists; eauto). congruence.
Qed.

Lemma bt_insert_array_fail_iff u p id ks :
  snd (bt_insert_array u p id ks) = false <-> exists k, In k ks /\ conflict u p id k = true.
Proof.
  unfold bt_insert_array. destruct (existsb (conflict u p id) ks) eqn:E; simpl.
  - apply existsb_exists in E. tauto.
  - split; [|intros [k [Hk C]]; assert (existsb (conflict u p id) ks = true) by (apply existsb_exists; eauto); congruence].
    intros H. rewrite ins_loop_no_conflict in H; [discriminate|].
    intros k Hk. destruct (conflict u p id k) eqn:C; auto.
    assert (existsb (conflict u p id) ks = true) by (apply existsb_exists; eauto). congruence.
Qed.

Lemma bt_insert_array_ok u p id ks p' :
  bt_insert_array u p id ks = (p', true) ->
  (forall k, In k ks -> conflict u p id k = false) /\
  forall k' id', In id' (p' k') <-> In id' (p k') \/ (id' = id /\ In k' ks).
Proof.
  unfold bt_insert_array. destruct (existsb (conflict u p id) ks) eqn:E; [discriminate|].
  intros H. split.
  - intros k Hk. destruct (conflict u p id k) eqn:C; auto.
    assert (existsb (conflict u p id) ks = true) by (apply existsb_exists; eauto). congruence.
  - apply ins_loop_spec in H. destruct H as (H1 & H2 & H3). intros k' id'. split.
    + apply H1.
    + intros [H|[-> H]]; [apply H2; auto | apply H3; auto].
Qed.

Lemma uniq_after_insert u p id ks p' :
  (u = true -> uniq_post p) ->
  (forall k, In k ks -> conflict u p id k = false) ->
  (forall k' id', In id' (p' k') <-> In id' (p k') \/ (id' = id /\ In k' ks)) ->
  (u = true -> uniq_post p').
Proof.
  intros HU HC HS Hu k a b Ha Hb. specialize (HU Hu).
  apply HS in Ha. apply HS in Hb.
  assert (X : forall c, In c (p k) -> In k ks -> c = id).
  { intros c Hc Hk. destruct (Z.eq_dec c id); auto. exfalso.
    assert (C : conflict u p id k = true); [|rewrite HC in C; auto; discriminate].
    apply conflict_spec. repeat split; auto; [|eauto].
    intros Hid. apply n. apply (HU k); auto. }
  destruct Ha as [Ha|[-> Ha]], Hb as [Hb|[-> Hb]]; auto.
  - apply (HU k); auto.
  - symmetry. auto.
Qed.

(* ---------- memk / diffk ---------- *)
Lemma memk_In k l : memk k l = true <-> In k l.
Proof.
  unfold memk. rewrite existsb_exists. split.
  - intros [k' [H E]]. destruct (key_eq_dec k k'); [subst; auto | discriminate].
  - intros H. exists k. split; auto. destruct (key_eq_dec k k); congruence.
Qed.

Lemma diffk_In a b k : In k (diffk a b) <-> In k a /\ ~ In k b.
Proof.
  unfold diffk. rewrite nodup_In, filter_In, negb_true_iff. rewrite <- (memk_In k b).
  destruct (memk k b); split; intros [H1 H2]; split; auto; try congruence.
Qed.

(* ---------- batch_update ---------- *)
Lemma bt_batch_update_fail u p id o n p' : bt_batch_update u p id o n = (p', false) -> p' = p.
Proof.
  unfold bt_batch_update. destruct (bt_insert_array u p id (diffk n o)) as [p1 ok] eqn:E.
  destruct ok; [discriminate|]. intros H. inversion H; subst. eapply bt_insert_array_fail; eauto.
Qed.

Lemma bt_batch_update_ok u p id o n p' :
  bt_batch_update u p id o n = (p', true) ->
  (forall k, In k n -> ~ In k o -> conflict u p id k = false) /\
  forall k' id', In id' (p' k') <->
    (In id' (p k') \/ (id' = id /\ In k' n /\ ~ In k' o)) /\ ~ (id' = id /\ In k' o /\ ~ In k' n).
Proof.
  unfold bt_batch_update. destruct (bt_insert_array u p id (diffk n o)) as [p1 ok] eqn:E.
  destruct ok; [|discriminate]. intros H. inversion H; subst. clear H.
  apply bt_insert_array_ok in E. destruct E as [E1 E2]. split.
  - intros k H1 H2. apply E1. apply diffk_In. auto.
  - intros k' id'. rewrite bt_remove_array_spec, E2, !diffk_In. tauto.
Qed.

Lemma bt_batch_update_fail_iff u p id o n :
  snd (bt_batch_update u p id o n) = false <-> exists k, In k n /\ ~ In k o /\ conflict u p id k = true.
Proof.
  unfold bt_batch_update. destruct (bt_insert_array u p id (diffk n o)) as [p1 ok] eqn:E.
  pose proof (bt_insert_array_fail_iff u p id (diffk n o)) as F. rewrite E in F. simpl in F.
  destruct ok; simpl.
  - split; [discriminate|]. intros (k & H1 & H2 & H3).
    destruct F as [_ F]. apply F. exists k. rewrite diffk_In. auto.
  - split; auto. intros _. destruct F as [F _]. destruct (F eq_refl) as (k & H1 & H2).
    apply diffk_In in H1. exists k. tauto.
Qed.

(* ---------- index/btree.rs dispatch, in terms of [keys] ---------- *)
Lemma ix_insert_keys u p id v : ix_insert u p id v = bt_insert_array u p id (keys v).
Proof.
  destruct v as [[| s | l] | l]; simpl; auto.
  - unfold bt_insert_array. simpl. rewrite orb_false_r.
    unfold bt_insert. destruct (conflict u p id (KS s)); reflexivity.
  - unfold bt_insert_array. simpl. rewrite orb_false_r.
    unfold bt_insert. destruct (conflict u p id (KT l)); reflexivity.
Qed.

Lemma ix_remove_keys p id v : ix_remove p id v = bt_remove_array p id (keys v).
Proof. destruct v as [[| s | l] | l]; reflexivity. Qed.

Lemma ix_remove_spec p id v k' id' :
  In id' (ix_remove p id v k') <-> In id' (p k') /\ ~ (id' = id /\ In k' (keys v)).
Proof. rewrite ix_remove_keys. apply bt_remove_array_spec. Qed.

Lemma ix_insert_fail u p id v p' : ix_insert u p id v = (p', false) -> p' = p.
Proof. rewrite ix_insert_keys. apply bt_insert_array_fail. Qed.

Lemma ix_insert_ok u p id v p' :
  ix_insert u p id v = (p', true) ->
  (forall k, In k (keys v) -> conflict u p id k = false) /\
  forall k' id', In id' (p' k') <-> In id' (p k') \/ (id' = id /\ In k' (keys v)).
Proof. rewrite ix_insert_keys. apply bt_insert_array_ok. Qed.

Lemma ix_insert_fail_iff u p id v :
  snd (ix_insert u p id v) = false <-> exists k, In k (keys v) /\ conflict u p id k = true.
Proof. rewrite ix_insert_keys. apply bt_insert_array_fail_iff. Qed.

(* two values of one field (or two composites) have compatible shapes *)
Definition compat (a b : ival) : Prop :=
  match a, b with
  | IV VNull, _ | _, IV VNull => True
  | IV (VS _), IV (VS _) => True
  | IV (VArr _), IV (VArr _) => True
  | IC _, IC _ => True
  | _, _ => False
  end.

Lemma compat_sym a b : compat a b -> compat b a.
Proof. destruct a as [[| |]|], b as [[| |]|]; simpl; auto. Qed.

Lemma is_null_keys v : is_null v = true -> keys v = [].
Proof. destruct v as [[| |]|]; simpl; congruence. Qed.

(* BTree::update, with insert(new) before remove(old): failure changes nothing; success moves the postings of
   [id] from (keys old) to (keys new) *)
Lemma ix_update_fail u p id old new p' :
  compat old new -> ix_update true u p id old new = (p', false) -> p' = p.
Proof.
  intros C. unfold ix_update. destruct (ival_eq_dec old new); [discriminate|].
  destruct (is_null old) eqn:No; [apply ix_insert_fail|].
  destruct (is_null new) eqn:Nn; [discriminate|].
  destruct old as [[| so | lo] | lo], new as [[| sn | ln] | ln]; simpl in *; try discriminate; try contradiction;
    try (apply bt_batch_update_fail).
  - destruct (bt_insert u p id (KS sn)); [discriminate|]. intros H; inversion H; auto.
  - destruct (bt_insert u p id (KT ln)); [discriminate|]. intros H; inversion H; auto.
Qed.

Lemma scalar_keys_neq (a b : ival) :
  a <> b -> match a, b with IV (VS _), IV (VS _) | IC _, IC _ => True | _, _ => False end ->
  forall k, In k (keys a) -> In k (keys b) -> False.
Proof.
  destruct a as [[| sa | la] | la], b as [[| sb | lb] | lb]; simpl; try tauto;
    intros N _ k [<-|[]] [E|[]]; apply N; congruence.
Qed.

Lemma ix_update_ok u p id old new p' :
  compat old new -> ix_update true u p id old new = (p', true) ->
  (forall k, In k (keys new) -> ~ In k (keys old) -> conflict u p id k = false) /\
  forall k' id', In id' (p' k') <->
    (In id' (p k') \/ (id' = id /\ In k' (keys new) /\ ~ In k' (keys old)))
    /\ ~ (id' = id /\ In k' (keys old) /\ ~ In k' (keys new)).
Proof.
  intros C. unfold ix_update. destruct (ival_eq_dec old new) as [->|N].
  { intros H. inversion H; subst. split; [tauto|]. intros. tauto. }
  destruct (is_null old) eqn:No.
  { intros H. apply ix_insert_ok in H. destruct H as [H1 H2]. rewrite (is_null_keys _ No).
    split; [intros; apply H1; auto|]. intros k' id'. rewrite H2. simpl. tauto. }
  destruct (is_null new) eqn:Nn.
  { intros H. inversion H; subst. rewrite (is_null_keys _ Nn). split; [intros k []|].
    intros k' id'. rewrite ix_remove_spec. simpl. tauto. }
  assert (G :
    (let '(p1, ok) := ix_insert u p id new in if ok then (ix_remove p1 id old, true) else (p1, false)) = (p', true) ->
    (forall k, In k (keys new) -> In k (keys old) -> False) ->
    (forall k, In k (keys new) -> ~ In k (keys old) -> conflict u p id k = false) /\
    forall k' id', In id' (p' k') <->
      (In id' (p k') \/ (id' = id /\ In k' (keys new) /\ ~ In k' (keys old)))
      /\ ~ (id' = id /\ In k' (keys old) /\ ~ In k' (keys new))).
  { intros H D. destruct (ix_insert u p id new) as [p1 ok] eqn:E. destruct ok; [|discriminate].
    inversion H; subst. apply ix_insert_ok in E. destruct E as [E1 E2]. split; [intros; apply E1; auto|].
    intros k' id'. rewrite ix_remove_spec, E2. pose proof (D k'). tauto.
  }
  destruct old as [[| so | lo] | lo], new as [[| sn | ln] | ln]; simpl in C, No, Nn; try discriminate; try contradiction.
  - intros H. apply (G H). apply scalar_keys_neq; simpl; auto.
  - intros H. apply bt_batch_update_ok in H. exact H.
  - intros H. apply (G H). apply scalar_keys_neq; simpl; auto.
Qed.

Lemma ix_update_fail_iff u p id old new :
  compat old new ->
  snd (ix_update true u p id old new) = false <->
  exists k, In k (keys new) /\ ~ In k (keys old) /\ conflict u p id k = true.
Proof.
  intros C. unfold ix_update. destruct (ival_eq_dec old new) as [->|N].
  { simpl. split; [discriminate | intros (k & H1 & H2 & _); tauto]. }
  destruct (is_null old) eqn:No.
  { rewrite ix_insert_fail_iff, (is_null_keys _ No). simpl. firstorder. }
  destruct (is_null new) eqn:Nn.
  { simpl. rewrite (is_null_keys _ Nn). split; [discriminate | intros (k & [] & _)]. }
  assert (G : (forall k, In k (keys new) -> In k (keys old) -> False) ->
    snd (let '(p1, ok) := ix_insert u p id new in if ok then (ix_remove p1 id old, true) else (p1, false)) = false <->
    exists k, In k (keys new) /\ ~ In k (keys old) /\ conflict u p id k = true).
  { intros D. pose proof (ix_insert_fail_iff u p id new) as F.
    destruct (ix_insert u p id new) as [p1 ok]. simpl in F. destruct ok; simpl.
    - split; [discriminate|]. intros (k & H1 & H2 & H3). apply F. eauto.
    - split; auto. intros _. destruct F as [F _]. destruct (F eq_refl) as (k & H1 & H2). exists k.
      repeat split; auto. intros X. apply (D k); auto. }
  destruct old as [[| so | lo] | lo], new as [[| sn | ln] | ln]; simpl in C, No, Nn; try discriminate; try contradiction.
  - apply G. apply scalar_keys_neq; simpl; auto.
  - apply bt_batch_update_fail_iff.
  - apply G. apply scalar_keys_neq; simpl; auto.
Qed.
