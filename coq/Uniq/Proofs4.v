(* C04 — posting lists never hold an id twice, hence "at most one owner" is "length <= 1". *)
From Coq Require Import List ZArith String Bool Lia.
From Verif Require Import Uniq.Model Uniq.Proofs Uniq.Proofs2 Uniq.Proofs3.
Import ListNotations.
Open Scope list_scope.

Definition nd_post (p : post1) : Prop := forall k, NoDup (p k).

Lemma NoDup_snoc (l : list Z) x : NoDup l -> ~ In x l -> NoDup (l ++ [x]).
Proof.
  induction l as [|a l IH]; simpl; intros N H.
  - constructor; auto.
  - inversion N; subst. constructor.
    + rewrite in_app_iff. simpl. intros [X|[X|[]]]; auto.
    + apply IH; auto.
Qed.

Lemma push_NoDup x l : NoDup l -> NoDup (push x l).
Proof.
  intros N. unfold push. destruct (memz x l) eqn:E; auto. apply NoDup_snoc; auto. apply memz_false. auto.
Qed.

Lemma drop_NoDup x l : NoDup l -> NoDup (drop x l).
Proof.
  unfold drop. induction l as [|a l IH]; simpl; intros N; auto. inversion N; subst.
  destruct (negb (x =? a)%Z); auto. constructor; auto. rewrite filter_In. tauto.
Qed.

Lemma upd_nd p k l : nd_post p -> NoDup l -> nd_post (upd p k l).
Proof. intros H N k'. unfold upd. destruct (key_eq_dec k' k); auto. Qed.

Lemma bt_insert_nd u p id k p' : nd_post p -> bt_insert u p id k = Some p' -> nd_post p'.
Proof.
  unfold bt_insert. intros H. destruct (conflict u p id k); [discriminate|]. intros E; inversion E.
  apply upd_nd; auto. apply push_NoDup. auto.
Qed.

Lemma bt_remove_nd p id k : nd_post p -> nd_post (bt_remove p id k).
Proof. intros H. apply upd_nd; auto. apply drop_NoDup. auto. Qed.

Lemma ins_loop_nd u ks : forall p id, nd_post p -> nd_post (fst (ins_loop u p id ks)).
Proof.
  induction ks as [|k r IH]; intros p id H; simpl; auto.
  destruct (bt_insert u p id k) as [p1|] eqn:E; simpl; auto. apply IH. eapply bt_insert_nd; eauto.
Qed.

Lemma bt_insert_array_nd u p id ks : nd_post p -> nd_post (fst (bt_insert_array u p id ks)).
Proof. intros H. unfold bt_insert_array. destruct (existsb _ ks); simpl; auto. apply ins_loop_nd. auto. Qed.

Lemma bt_remove_array_nd ks : forall p id, nd_post p -> nd_post (bt_remove_array p id ks).
Proof.
  unfold bt_remove_array. induction ks as [|k r IH]; intros p id H; simpl; auto. apply IH. apply bt_remove_nd. auto.
Qed.

Lemma bt_batch_update_nd u p id o n : nd_post p -> nd_post (fst (bt_batch_update u p id o n)).
Proof.
  intros H. unfold bt_batch_update. pose proof (bt_insert_array_nd u p id (diffk n o) H) as X.
  destruct (bt_insert_array u p id (diffk n o)) as [p1 ok]. simpl in X. destruct ok; simpl; auto.
  apply bt_remove_array_nd. auto.
Qed.

Lemma ix_insert_nd u p id v : nd_post p -> nd_post (fst (ix_insert u p id v)).
Proof. intros H. rewrite ix_insert_keys. apply bt_insert_array_nd. auto. Qed.

Lemma ix_remove_nd p id v : nd_post p -> nd_post (ix_remove p id v).
Proof. intros H. rewrite ix_remove_keys. apply bt_remove_array_nd. auto. Qed.

Lemma ix_update_nd insf u p id old new : nd_post p -> nd_post (fst (ix_update insf u p id old new)).
Proof.
  intros H. unfold ix_update. destruct (ival_eq_dec old new); simpl; auto.
  destruct (is_null old); [apply ix_insert_nd; auto|].
  destruct (is_null new); [simpl; apply ix_remove_nd; auto|].
  assert (G : nd_post (fst (if insf
     then let '(p1, ok) := ix_insert u p id new in if ok then (ix_remove p1 id old, true) else (p1, false)
     else ix_insert u (ix_remove p id old) id new))).
  { destruct insf.
    - pose proof (ix_insert_nd u p id new H) as X. destruct (ix_insert u p id new) as [p1 ok]. simpl in X.
      destruct ok; simpl; auto. apply ix_remove_nd. auto.
    - apply ix_insert_nd. apply ix_remove_nd. auto. }
  destruct old as [[| so | lo] | lo], new as [[| sn | ln] | ln]; auto; apply bt_batch_update_nd; auto.
Qed.

Definition nd_ixs (ixs : list (index * post1)) : Prop := Forall (fun e => nd_post (snd e)) ixs.

Lemma add_loop_nd id d : forall ixs, nd_ixs ixs -> Forall (fun e : index * post1 * bool => nd_post (snd (fst e))) (fst (add_loop id d ixs)).
Proof.
  induction ixs as [|[ix p] r IH]; intros H; simpl; [constructor|]. inversion H; subst. specialize (IH H3). simpl in H2.
  assert (SK : Forall (fun e : index * post1 * bool => nd_post (snd (fst e)))
                 (fst (let '(r0, ok) := add_loop id d r in ((ix, p, false) :: r0, ok)))).
  { destruct (add_loop id d r) as [r0 ok]. simpl in *. constructor; auto. }
  destruct (hook ix d) as [v|]; auto. destruct (is_null v); auto.
  pose proof (ix_insert_nd (uniq_of ix) p id v H2) as X. destruct (ix_insert (uniq_of ix) p id v) as [p' ok]. simpl in X.
  destruct ok.
  - destruct (add_loop id d r) as [r0 ok2]. simpl in *. constructor; auto.
  - simpl. constructor; auto. clear -H3. induction H3; simpl; constructor; auto.
Qed.

Lemma add_rollback_nd id d l :
  Forall (fun e : index * post1 * bool => nd_post (snd (fst e))) l -> nd_ixs (add_rollback id d l).
Proof.
  induction 1 as [|[[ix p] b] l H _ IH]; simpl; constructor; auto. simpl in H.
  destruct b; simpl; auto. destruct (hook ix d); simpl; auto. apply ix_remove_nd. auto.
Qed.

Lemma strip_nd l : Forall (fun e : index * post1 * bool => nd_post (snd (fst e))) l -> nd_ixs (strip l).
Proof. induction 1 as [|[[ix p] b] l H _ IH]; simpl; constructor; auto. Qed.

Lemma upd_loop_nd insf comp id names od nd : forall ixs, nd_ixs ixs ->
  Forall (fun e : index * post1 * bool => nd_post (snd (fst e))) (fst (upd_loop insf comp id names od nd ixs)).
Proof.
  induction ixs as [|[ix p] r IH]; intros H; simpl; [constructor|]. inversion H; subst. specialize (IH H3). simpl in H2.
  destruct (touches ix names).
  - pose proof (ix_update_nd insf (uniq_of ix) p id (hook_or_null ix od) (hook_or_null ix nd) H2) as X.
    destruct (ix_update insf (uniq_of ix) p id (hook_or_null ix od) (hook_or_null ix nd)) as [p' ok]. simpl in X.
    destruct ok.
    + destruct (upd_loop insf comp id names od nd r) as [r0 ok2]. simpl in *. constructor; auto.
    + simpl. constructor.
      * simpl. destruct comp; auto. apply ix_update_nd. auto.
      * clear -H3. induction H3; simpl; constructor; auto.
  - destruct (upd_loop insf comp id names od nd r) as [r0 ok]. simpl in *. constructor; auto.
Qed.

Lemma upd_rollback_nd insf id od nd l :
  Forall (fun e : index * post1 * bool => nd_post (snd (fst e))) l -> nd_ixs (fst (upd_rollback insf id od nd l)).
Proof.
  induction 1 as [|[[ix p] b] l H _ IH]; simpl; [constructor|]. simpl in H.
  destruct (upd_rollback insf id od nd l) as [rs okr]. simpl in IH. destruct b.
  - pose proof (ix_update_nd insf (uniq_of ix) p id (hook_or_null ix nd) (hook_or_null ix od) H) as X.
    destruct (ix_update insf (uniq_of ix) p id (hook_or_null ix nd) (hook_or_null ix od)) as [p' ok]. simpl in *.
    constructor; auto.
  - simpl. constructor; auto.
Qed.

Lemma rem_loop_nd id d ixs : nd_ixs ixs -> nd_ixs (rem_loop id d ixs).
Proof.
  induction 1 as [|[ix p] l H _ IH]; simpl; constructor; auto. simpl in H.
  destruct (hook ix d) as [v|]; simpl; auto. destruct (is_null v); simpl; auto. apply ix_remove_nd. auto.
Qed.

Lemma add_nd sch s fs ft : nd_ixs (st_ix s) -> nd_ixs (st_ix (fst (add sch s fs ft))).
Proof.
  intros H. unfold add. destruct (set_fields sch empty_doc fs) as [d|e]; [|exact H].
  destruct (negb (validate sch d)); [exact H|].
  pose proof (add_loop_nd (st_next s + 1) d _ H) as X. destruct (add_loop (st_next s + 1) d (st_ix s)) as [l ok].
  cbn [fst] in X. destruct (negb ok); [apply add_rollback_nd; auto|].
  destruct ft; cbn [fst st_ix]; [apply strip_nd | apply add_rollback_nd]; auto.
Qed.

Lemma update_nd insf comp sch s id fs ft : nd_ixs (st_ix s) -> nd_ixs (st_ix (fst (update insf comp sch s id fs ft))).
Proof.
  intros H. unfold update. destruct (get_doc (st_docs s) id) as [od|]; [|exact H].
  destruct fs as [|f0 fr]; [exact H|]. remember (f0 :: fr) as fs0.
  destruct (set_fields sch od fs0) as [nd|e]; [|exact H].
  destruct (negb (validate sch nd)); [exact H|].
  pose proof (upd_loop_nd insf comp id (map fst fs0) od nd _ H) as X.
  destruct (upd_loop insf comp id (map fst fs0) od nd (st_ix s)) as [l ok]. cbn [fst] in X.
  pose proof (upd_rollback_nd insf id od nd l X) as Y. destruct (upd_rollback insf id od nd l) as [ixs r]. cbn [fst] in Y.
  destruct (negb ok); [exact Y|]. destruct ft; cbn [fst st_ix]; [apply strip_nd; auto | exact Y].
Qed.

Lemma remove_nd s id ft : nd_ixs (st_ix s) -> nd_ixs (st_ix (fst (remove s id ft))).
Proof.
  intros H. unfold remove. destruct (get_doc (st_docs s) id) as [d|]; [|exact H].
  destruct ft; cbn [fst st_ix]; [apply rem_loop_nd; auto | exact H].
Qed.

Lemma step_nd insf comp sch s o : nd_ixs (st_ix s) -> nd_ixs (st_ix (fst (step insf comp sch s o))).
Proof.
  intros H. unfold step. destruct o.
  - destruct (set_fields sch empty_doc fs); [|exact H]. destruct (st_poison s); [exact H|].
    pose proof (add_nd sch s fs ft H) as X. destruct (add sch s fs ft) as [s1 r1]. exact X.
  - destruct (st_poison s); [exact H|].
    pose proof (update_nd insf comp sch s id fs ft H) as X. destruct (update insf comp sch s id fs ft) as [s1 r1]. exact X.
  - destruct (st_poison s); [exact H|].
    pose proof (remove_nd s id ft H) as X. destruct (remove s id ft) as [s1 r1]. exact X.
Qed.

Lemma run_nd insf comp sch os : forall s, nd_ixs (st_ix s) -> nd_ixs (st_ix (fst (run insf comp sch s os))).
Proof.
  induction os as [|o r IH]; intros s H; simpl; auto.
  pose proof (step_nd insf comp sch s o H) as X. destruct (step insf comp sch s o) as [s1 x]. simpl in X.
  specialize (IH s1 X). destruct (run insf comp sch s1 r). auto.
Qed.

Lemma init_nd ixs : nd_ixs (st_ix (init ixs)).
Proof. induction ixs; simpl; constructor; auto. intros k. constructor. Qed.

Lemma lookup_NoDup sch ixs s i k : reachable sch ixs s -> NoDup (lookup s i k).
Proof.
  intros [os ->]. pose proof (run_nd true true sch os _ (init_nd ixs)) as H. unfold lookup.
  destruct (nth_error _ i) as [[ix p]|] eqn:N; [|constructor].
  unfold nd_ixs in H. rewrite Forall_forall in H. apply (H (ix, p)). eapply nth_error_In; eauto.
Qed.

(* query_all_ids(Eq k) on a unique index returns at most one id *)
Theorem unique_cardinality sch ixs s i ix p k :
  wf_indexes sch ixs -> reachable sch ixs s -> nth_error (st_ix s) i = Some (ix, p) -> ix_unique ix = true ->
  (List.length (lookup s i k) <= 1)%nat.
Proof.
  intros W R N U. pose proof (lookup_NoDup sch ixs s i k R) as ND.
  pose proof (unique_inv sch ixs s i ix p k) as UQ.
  destruct (lookup s i k) as [|a [|b t]]; simpl; auto. exfalso.
  assert (a = b) by (apply UQ; simpl; auto). subst. inversion ND; subst. apply H1. simpl. auto.
Qed.
