(* C04 — any number of writers updating a unique ARRAY index over SEVERAL keys each, interleaved at the code's
   atomic steps (the race found on the implementation):

     update_impl -> BTree::update -> BTreeIndex::batch_update(old, new):
       insert_array(new - old):  pre-check, key by key (no lock held across keys)            PPre
                                 loop: per key, test-and-insert under the posting entry lock   PIns
                                       first conflict stops the loop, applied keys stay
       remove_array(old - new):  per key                                                       PRem
     storage.put                                                                               PPut
     on an index error, with the generated fact update_compensates_failed_index:
       the reverse update: re-insert old keys (idempotent: the writer still owns them — no state change, not a
       step here), remove the new-only keys, per key                                           PComp

   Every step changes the membership of the stepping writer's id at one key only.  With [comp = true]: for every
   schedule the index stays unique and, when everybody has finished, a writer owns exactly its new keys if it
   succeeded and exactly its old keys if it was rejected.  With [comp = false] (the code before the fix) a
   schedule leaves a posting of a rejected writer behind. *)
From Coq Require Import List ZArith String Bool Lia.
From Verif Require Import Uniq.Model Uniq.Proofs.
Import ListNotations.
Open Scope list_scope.

Inductive pc2 :=
| PPre (todo : list key)
| PIns (done todo : list key)
| PComp (todo : list key)
| PRem (todo : list key)
| PPut | POk | PErr.

Record w2 := mkW2 { a_id : Z; a_old : list key; a_new : list key; a_pc : pc2 }.

Definition set_pc (w : w2) (pc : pc2) : w2 := mkW2 (a_id w) (a_old w) (a_new w) pc.
Definition start2 (id : Z) (old new : list key) : w2 := mkW2 id old new (PPre (diffk new old)).

(* one atomic step of one writer on the shared posting map; the second component: did the step write the document *)
Definition step2 (comp : bool) (post : post1) (w : w2) : post1 * w2 :=
  let id := a_id w in
  let fail := if comp then PComp (diffk (a_new w) (a_old w)) else PErr in
  match a_pc w with
  | PPre [] => (post, set_pc w (PIns [] (diffk (a_new w) (a_old w))))
  | PPre (k :: r) => if conflict true post id k then (post, set_pc w fail) else (post, set_pc w (PPre r))
  | PIns done [] => (post, set_pc w (PRem (diffk (a_old w) (a_new w))))
  | PIns done (k :: r) =>
      match bt_insert true post id k with
      | None => (post, set_pc w fail)
      | Some post' => (post', set_pc w (PIns (k :: done) r))
      end
  | PComp [] => (post, set_pc w PErr)
  | PComp (k :: r) => (bt_remove post id k, set_pc w (PComp r))
  | PRem [] => (post, set_pc w PPut)
  | PRem (k :: r) => (bt_remove post id k, set_pc w (PRem r))
  | PPut => (post, set_pc w POk)
  | POk | PErr => (post, w)
  end.

Fixpoint step2_ws (comp : bool) (id : Z) (post : post1) (ws : list w2) : post1 * list w2 :=
  match ws with
  | [] => (post, [])
  | w :: r => if Z.eqb (a_id w) id
              then let '(p, w') := step2 comp post w in (p, w' :: r)
              else let '(p, r') := step2_ws comp id post r in (p, w :: r')
  end.

Record sys2 := mkSys2 { y_post : post1; y_ws : list w2 }.
Definition sys2_step (comp : bool) (s : sys2) (id : Z) : sys2 :=
  let '(p, ws) := step2_ws comp id (y_post s) (y_ws s) in mkSys2 p ws.
Definition run2 (comp : bool) (s : sys2) (sched : list Z) : sys2 := fold_left (sys2_step comp) sched s.

(* ---------- what a writer owns at each program point ---------- *)
Definition winv (post : post1) (w : w2) : Prop :=
  let id := a_id w in
  match a_pc w with
  | PPre todo => owns post id (a_old w)
  | PErr => owns post id (a_old w)
  | PIns done todo =>
      (forall k, In id (post k) <-> In k (a_old w) \/ In k done) /\
      (forall k, In k done \/ In k todo <-> In k (a_new w) /\ ~ In k (a_old w))
  | PComp todo =>
      (forall k, In id (post k) -> In k (a_old w) \/ In k todo) /\
      (forall k, In k (a_old w) -> In id (post k)) /\
      (forall k, In k todo -> ~ In k (a_old w))
  | PRem todo =>
      (forall k, In id (post k) <-> In k (a_new w) \/ In k todo) /\
      (forall k, In k todo -> ~ In k (a_new w)) /\ NoDup todo
  | PPut | POk => owns post id (a_new w)
  end.

(* membership of [id] is all that [winv] looks at *)
Lemma winv_frame post post' w :
  (forall k, In (a_id w) (post' k) <-> In (a_id w) (post k)) -> winv post w -> winv post' w.
Proof.
  intros F. unfold winv, owns. destruct (a_pc w); intros H.
  1, 5, 6, 7: intros k; rewrite F; apply H.
  - destruct H as [H1 H2]. split; auto. intros k. rewrite F. apply H1.
  - destruct H as (H1 & H2 & H3). split; [|split]; auto; intros k K; [apply H1; apply F; auto | apply F; apply H2; auto].
  - destruct H as (H1 & H2 & H3). split; [|split]; auto. intros k. rewrite F. apply H1.
Qed.

(* a step touches only the stepping writer's id *)
Lemma step2_frame comp post w post' w' id' :
  step2 comp post w = (post', w') -> id' <> a_id w -> forall k, In id' (post' k) <-> In id' (post k).
Proof.
  unfold step2. intros E N k.
  destruct (a_pc w) as [[|k0 r]|dn [|k0 r]|[|k0 r]|[|k0 r]| | |]; try (inversion E; subst; tauto).
  - destruct (conflict true post (a_id w) k0); inversion E; subst; tauto.
  - destruct (bt_insert true post (a_id w) k0) as [p1|] eqn:B; inversion E; subst; [|tauto].
    apply bt_insert_some in B. destruct B as [_ B]. rewrite B. tauto.
  - inversion E; subst. rewrite bt_remove_spec. tauto.
  - inversion E; subst. rewrite bt_remove_spec. tauto.
Qed.

Lemma step2_id comp post w : a_id (snd (step2 comp post w)) = a_id w.
Proof.
  unfold step2. destruct (a_pc w) as [[|k0 r]|dn [|k0 r]|[|k0 r]|[|k0 r]| | |]; simpl; auto.
  - destruct (conflict true post (a_id w) k0); auto.
  - destruct (bt_insert true post (a_id w) k0); auto.
Qed.

Lemma step2_uniq comp post w post' w' : step2 comp post w = (post', w') -> uniq_post post -> uniq_post post'.
Proof.
  unfold step2. intros E U.
  destruct (a_pc w) as [[|k0 r]|dn [|k0 r]|[|k0 r]|[|k0 r]| | |]; try (inversion E; subst; exact U).
  - destruct (conflict true post (a_id w) k0); inversion E; subst; exact U.
  - destruct (bt_insert true post (a_id w) k0) as [p1|] eqn:B; inversion E; subst; [|exact U].
    apply bt_insert_some in B. destruct B as [C B].
    apply (uniq_after_insert true post (a_id w) [k0] post'); auto.
    + intros k [<-|[]]. exact C.
    + intros k' id'. rewrite B. simpl. intuition (subst; auto).
  - inversion E; subst. intros k a b Ha Hb. apply bt_remove_spec in Ha. apply bt_remove_spec in Hb. apply (U k); tauto.
  - inversion E; subst. intros k a b Ha Hb. apply bt_remove_spec in Ha. apply bt_remove_spec in Hb. apply (U k); tauto.
Qed.

(* the stepping writer keeps its own invariant (with the compensation) *)
Lemma step2_winv post w post' w' :
  step2 true post w = (post', w') -> winv post w -> winv post' w'.
Proof.
  unfold step2, winv, owns.
  destruct (a_pc w) as [[|k0 r]|dn [|k0 r]|[|k0 r]|[|k0 r]| | |] eqn:PC; intros E H.
  - (* PPre [] -> PIns *) inversion E; subst. simpl. split.
    + intros k. rewrite H. simpl. tauto.
    + intros k. rewrite diffk_In. simpl. tauto.
  - (* PPre (k::r) *)
    destruct (conflict true post (a_id w) k0); inversion E; subst; simpl; auto.
    repeat split.
    + intros k K. left. apply H. exact K.
    + intros k K. apply H. exact K.
    + intros k K. apply diffk_In in K. tauto.
  - (* PIns done [] -> PRem *) inversion E; subst. simpl. destruct H as [H1 H2]. split.
    + intros k. rewrite H1, diffk_In. specialize (H2 k). simpl in H2.
      destruct (in_dec key_eq_dec k (a_new w)), (in_dec key_eq_dec k (a_old w)); tauto.
    + split; [intros k K; apply diffk_In in K; tauto | apply NoDup_nodup].
  - (* PIns done (k::r) *)
    destruct H as [H1 H2].
    destruct (bt_insert true post (a_id w) k0) as [p1|] eqn:B; inversion E; subst; simpl.
    + apply bt_insert_some in B. destruct B as [_ B]. split.
      * intros k. rewrite B, H1. simpl. split; [intros [[K|K]|[_ ->]]; auto | intros [K|[->|K]]; auto].
      * intros k. rewrite <- H2. simpl. tauto.
    + repeat split.
      * intros k K. apply H1 in K. destruct K as [K|K]; auto. right. apply diffk_In. apply H2. auto.
      * intros k K. apply H1. auto.
      * intros k K. apply diffk_In in K. tauto.
  - (* PComp [] -> PErr *) inversion E; subst. simpl. destruct H as (H1 & H2 & H3). intros k. split; auto.
    intros K. destruct (H1 k K) as [X|[]]. exact X.
  - (* PComp (k::r) *) inversion E; subst. simpl. destruct H as (H1 & H2 & H3). repeat split.
    + intros k K. apply bt_remove_spec in K. destruct K as [K N]. destruct (H1 k K) as [X|[X|X]]; auto.
      exfalso. apply N. auto.
    + intros k K. apply bt_remove_spec. split; auto. intros [_ ->]. apply (H3 k0); simpl; auto.
    + intros k K. apply H3. simpl. auto.
  - (* PRem [] -> PPut *) inversion E; subst. simpl. destruct H as (H1 & H2 & _). intros k. rewrite H1. simpl. tauto.
  - (* PRem (k::r) *) inversion E; subst. simpl. destruct H as (H1 & H2 & ND). inversion ND; subst. split; [|split]; auto.
    + intros k. rewrite bt_remove_spec, H1. simpl. split.
      * intros [[K|[K|K]] N]; auto. exfalso. apply N. auto.
      * intros [K|K]; split; auto.
        -- intros [_ ->]. apply (H2 k0); simpl; auto.
        -- intros [_ ->]. auto.
    + intros k K. apply H2. simpl. auto.
  - inversion E; subst. simpl. exact H.
  - inversion E; subst. rewrite PC. exact H.
  - inversion E; subst. rewrite PC. exact H.
Qed.

(* ---------- the system ---------- *)
Lemma step2_ws_split comp id post ws :
  (~ In id (map a_id ws) /\ step2_ws comp id post ws = (post, ws)) \/
  exists l1 w l2, ws = l1 ++ w :: l2 /\ a_id w = id /\
    let '(p, w') := step2 comp post w in step2_ws comp id post ws = (p, l1 ++ w' :: l2).
Proof.
  induction ws as [|w r IH]; simpl.
  - left. tauto.
  - destruct (Z.eqb_spec (a_id w) id) as [E|N].
    + right. exists [], w, r. simpl. repeat split; auto. destruct (step2 comp post w) as [p w']. auto.
    + destruct IH as [[H1 H2]|(l1 & w0 & l2 & H1 & H2 & H3)].
      * left. rewrite H2. split; auto. intros [X|X]; auto.
      * right. exists (w :: l1), w0, l2. subst r. simpl. repeat split; auto.
        destruct (step2 comp post w0) as [p w']. rewrite H3. auto.
Qed.

Record Inv2 (post0 : post1) (s : sys2) : Prop := {
  i2_ids : NoDup (map a_id (y_ws s));
  i2_uniq : uniq_post (y_post s);
  i2_w : Forall (winv (y_post s)) (y_ws s);
  (* documents that nobody updates keep their postings *)
  i2_frame : forall id, ~ In id (map a_id (y_ws s)) -> forall k, In id (y_post s k) <-> In id (post0 k)
}.

Theorem step2_Inv post0 s id : Inv2 post0 s -> Inv2 post0 (sys2_step true s id).
Proof.
  intros I. unfold sys2_step.
  destruct (step2_ws_split true id (y_post s) (y_ws s)) as [[_ E]|(l1 & w & l2 & E1 & E2 & E3)].
  { rewrite E. destruct s; auto. }
  destruct (step2 true (y_post s) w) as [p w'] eqn:SO. rewrite E3. clear E3.
  pose proof (step2_id true (y_post s) w) as IDW. rewrite SO in IDW. simpl in IDW.
  pose proof (i2_ids _ _ I) as ND. pose proof (i2_w _ _ I) as FW. rewrite E1 in ND, FW.
  constructor; simpl.
  - rewrite map_app in *. simpl in *. rewrite IDW. exact ND.
  - eapply step2_uniq; eauto. apply I.
  - apply Forall_app in FW. destruct FW as [F1 F2]. inversion F2 as [|? ? Fw F3]; subst.
    assert (OTH : forall x, In x (l1 ++ l2) -> a_id x <> a_id w).
    { intros x X Ex. rewrite map_app in ND. simpl in ND. apply NoDup_remove_2 in ND. apply ND.
      rewrite <- Ex, <- map_app. apply in_map. exact X. }
    apply Forall_app. split; [|constructor].
    + rewrite Forall_forall in *. intros x X. apply (winv_frame (y_post s)); auto.
      intros k. eapply step2_frame; eauto. apply OTH. apply in_or_app. auto.
    + eapply step2_winv; eauto.
    + rewrite Forall_forall in *. intros x X. apply (winv_frame (y_post s)); auto.
      intros k. eapply step2_frame; eauto. apply OTH. apply in_or_app. auto.
  - intros id' N k. rewrite <- (i2_frame _ _ I id').
    + eapply step2_frame; eauto. intros ->. apply N. rewrite map_app. simpl. apply in_or_app. right. left. exact IDW.
    + rewrite E1. intros X. apply N. rewrite map_app in *. simpl in *. rewrite IDW. exact X.
Qed.

Lemma run2_Inv post0 sched : forall s, Inv2 post0 s -> Inv2 post0 (run2 true s sched).
Proof. induction sched as [|id r IH]; intros s I; simpl; auto. apply IH. apply step2_Inv. auto. Qed.

(* initial state: every writer owns its old keys, the index is unique *)
Definition init2 (post0 : post1) (specs : list (Z * list key * list key)) : sys2 :=
  mkSys2 post0 (map (fun e => let '(id, o, n) := e in start2 id o n) specs).

Lemma Inv2_init post0 specs :
  NoDup (map (fun e : Z * list key * list key => fst (fst e)) specs) -> uniq_post post0 ->
  Forall (fun e : Z * list key * list key => owns post0 (fst (fst e)) (snd (fst e))) specs ->
  Inv2 post0 (init2 post0 specs).
Proof.
  intros ND U O. constructor; simpl; auto.
  - rewrite map_map.
    replace (map (fun x : Z * list key * list key => a_id (let '(id, o, n) := x in start2 id o n)) specs)
      with (map (fun e : Z * list key * list key => fst (fst e)) specs); [exact ND|].
    apply map_ext. intros [[id o] n]. reflexivity.
  - clear ND. induction O as [|[[id o] n] l H _ IH]; simpl; constructor; [unfold winv; simpl; exact H | exact IH].
  - tauto.
Qed.

Definition finished (w : w2) : Prop := a_pc w = POk \/ a_pc w = PErr.

(* for EVERY schedule: the index stays unique, and once everybody has finished a writer owns exactly its new keys
   if its update went through and exactly its old keys if it was rejected — nothing of a rejected update is left *)
Theorem conc2_rejected_leaves_nothing post0 specs sched :
  NoDup (map (fun e : Z * list key * list key => fst (fst e)) specs) -> uniq_post post0 ->
  Forall (fun e : Z * list key * list key => owns post0 (fst (fst e)) (snd (fst e))) specs ->
  let s := run2 true (init2 post0 specs) sched in
  uniq_post (y_post s) /\
  (forall w, In w (y_ws s) -> a_pc w = POk -> owns (y_post s) (a_id w) (a_new w)) /\
  (forall w, In w (y_ws s) -> a_pc w = PErr -> owns (y_post s) (a_id w) (a_old w)) /\
  (forall id, ~ In id (map a_id (y_ws s)) -> forall k, In id (y_post s k) <-> In id (post0 k)).
Proof.
  intros ND U O s. pose proof (run2_Inv post0 sched _ (Inv2_init post0 specs ND U O)) as I. fold s in I.
  split; [apply I|]. split; [|split; [|apply I]].
  - intros w W P. pose proof (i2_w _ _ I) as F. rewrite Forall_forall in F. specialize (F w W). unfold winv in F.
    rewrite P in F. exact F.
  - intros w W P. pose proof (i2_w _ _ I) as F. rewrite Forall_forall in F. specialize (F w W). unfold winv in F.
    rewrite P in F. exact F.
Qed.

(* the code before the fix (no compensation): a writer takes "v" between the other writer's pre-check and its
   loop; the loop stops at "v" with "x" applied; the update is rejected and (x -> 1) stays *)
Definition kx := KS (SText "x").
Definition kv := KS (SText "v").
Definition ko1 := KS (SText "o1").
Definition ko2 := KS (SText "o2").
Definition post00 : post1 := upd (upd empty_post ko1 [1%Z]) ko2 [2%Z].
Definition specs00 : list (Z * list key * list key) := [(1%Z, [ko1], [ko1; kx; kv]); (2%Z, [ko2], [ko2; kv])].
(* writer 1: pre-check x, v, enter loop; writer 2: pre-check v, enter loop, insert v; writer 1: insert x, hit v *)
Definition sched00 : list Z := [1; 1; 1; 2; 2; 2; 1; 1; 2; 2; 2; 1; 1; 1; 1]%Z.

Theorem conc2_without_compensation_leaks :
  let s := run2 false (init2 post00 specs00) sched00 in
  map a_pc (y_ws s) = [PErr; POk] /\ y_post s kx = [1%Z] /\ ~ In kx [ko1].
Proof. vm_compute. repeat split. intros [H|[]]. discriminate H. Qed.

Example conc2_with_compensation_same_schedule :
  let s := run2 true (init2 post00 specs00) sched00 in
  map a_pc (y_ws s) = [PErr; POk] /\ y_post s kx = [] /\ y_post s kv = [2%Z] /\ y_post s ko1 = [1%Z].
Proof. vm_compute. repeat split. Qed.
