(* C17 — theorems about the model of the transaction engine (Nexus/Tx.v). *)
From Coq Require Import List ZArith Bool Lia.
From Verif Require Import Nexus.Model Nexus.Proofs Nexus.Tx.
Import ListNotations.
Open Scope Z_scope.

(* Everything a transaction does to the store before its write loop is appending shells with fresh ids. *)
Definition Shelled (E0 : list elem) (n0 : Z) (t : txs) : Prop :=
  exists sh, t_store t = E0 ++ sh /\ map e_id sh = t_shells t
             /\ Forall (fun id => n0 <= id) (t_shells t) /\ n0 <= t_next t.

Lemma shelled_mint E0 n0 t kind : Shelled E0 n0 t -> Shelled E0 n0 (fst (mint t kind)).
Proof.
  intros [sh [S [M [F N]]]]. unfold mint; simpl.
  exists (sh ++ [shell (t_next t) kind]). rewrite S, app_assoc, map_app, M. simpl.
  repeat split; auto; try lia. apply Forall_app. split; auto.
Qed.

Lemma shelled_same_store E0 n0 t t' :
  t_store t' = t_store t -> t_shells t' = t_shells t -> t_next t' = t_next t ->
  Shelled E0 n0 t -> Shelled E0 n0 t'.
Proof. intros A B C [sh H]. exists sh. rewrite A, B, C. exact H. Qed.

Lemma shelled_apply f E0 n0 t co t' : Shelled E0 n0 t -> apply f t co = Some t' -> Shelled E0 n0 t'.
Proof.
  intros S A. destruct co as [[kind key dig pay ok|named key dig|id dig changes ok] oid]; simpl in A.
  - destruct oid; [|discriminate]. destruct ok; [|discriminate]. inversion A; subst.
    eapply shelled_same_store; eauto.
  - destruct (if f_ensure_staged f then staged_tuple f key (t_staged t) else None).
    + inversion A; subst; auto.
    + destruct (committed_tuple key (t_store t)).
      * inversion A; subst; auto.
      * inversion A; subst. pose proof (shelled_mint _ _ _ 2 S) as S1.
        eapply shelled_same_store; [| | |exact S1]; reflexivity.
  - destruct (find_e id (t_store t)); [|discriminate].
    destruct (e_state e =? PENDING); [discriminate|].
    destruct ok; [|discriminate]. inversion A; subst. eapply shelled_same_store; eauto.
Qed.

Lemma shelled_upto f E0 n0 cs : forall t, Shelled E0 n0 t -> Shelled E0 n0 (fst (apply_upto f t cs)).
Proof.
  induction cs as [|c cs IH]; intros t S; simpl; auto.
  destruct (apply f t c) eqn:A; simpl; auto. apply IH. eapply shelled_apply; eauto.
Qed.

Lemma shelled_plan f E0 n0 t cs : Shelled E0 n0 t -> Shelled E0 n0 (fst (plan f t cs)).
Proof.
  intros S. unfold plan.
  pose proof (shelled_upto f E0 n0 (filter (in_pass 0) cs) t S) as S0.
  destruct (apply_upto f t (filter (in_pass 0) cs)) as [t0 ok0]; simpl in S0.
  destruct ok0; simpl; auto.
  pose proof (shelled_upto f E0 n0 (filter (in_pass 1) cs) t0 S0) as S1.
  destruct (apply_upto f t0 (filter (in_pass 1) cs)) as [t1 ok1]; simpl in S1.
  destruct ok1; simpl; auto.
  apply shelled_upto; auto.
Qed.

Lemma shelled_declare E0 n0 cs : forall t, Shelled E0 n0 t -> Shelled E0 n0 (fst (declare t cs)).
Proof.
  induction cs as [|c cs IH]; intros t S; simpl; auto.
  destruct c as [kind key dig pay ok|named key dig|id dig changes ok].
  - pose proof (shelled_mint _ _ _ kind S) as S1. unfold mint in S1. simpl in S1.
    specialize (IH _ S1). destruct (declare _ cs) as [t2 r]. exact IH.
  - specialize (IH t S). destruct (declare t cs) as [t2 r]. exact IH.
  - specialize (IH t S). destruct (declare t cs) as [t2 r]. exact IH.
Qed.

Lemma next_id_above l : forall e, In e l -> e_id e < next_id l.
Proof.
  induction l as [|a l IH]; simpl; intros e I; [tauto|].
  destruct I as [->|I]; [lia|]. specialize (IH _ I). unfold next_id in *. lia.
Qed.

Lemma discard_shelled E0 n0 t :
  (forall e, In e E0 -> e_id e < n0) -> Shelled E0 n0 t -> discard (t_shells t) (t_store t) = E0.
Proof.
  intros B [sh [S [M [F N]]]]. unfold discard. rewrite S, filter_app.
  assert (filter (fun e => negb (memZ (e_id e) (t_shells t))) E0 = E0) as ->.
  { clear S. induction E0 as [|e E0 IH]; simpl; auto.
    assert (memZ (e_id e) (t_shells t) = false) as ->.
    { apply memZ_false. intros I. rewrite Forall_forall in F. specialize (F _ I).
      specialize (B e (or_introl eq_refl)). lia. }
    simpl. f_equal. apply IH. intros; apply B; simpl; auto. }
  assert (filter (fun e => negb (memZ (e_id e) (t_shells t))) sh = []) as ->.
  { rewrite <- M. clear.
    assert (forall pre, filter (fun e0 => negb (memZ (e_id e0) (pre ++ map e_id sh))) sh = []) as G.
    { induction sh as [|x sh IHs]; intros pre; simpl; auto.
      assert (memZ (e_id x) (pre ++ e_id x :: map e_id sh) = true) as ->.
      { apply memZ_In. apply in_app_iff. right. simpl; auto. }
      simpl. specialize (IHs (pre ++ [e_id x])). rewrite <- app_assoc in IHs. exact IHs. }
    exact (G []). }
  apply app_nil_r.
Qed.

(* The ways out of a statement that do not reach the write loop leave the space exactly as it was,
   except for the sequence counter. *)
Theorem tx_refused_noop f dry time s stmt o s' :
  f_plan_abort f = true -> f_refusal_discards f = true -> f_dry_discards f = true ->
  run_statement f dry time s stmt = (o, s') ->
  o = OPlanRefused \/ o = OCommitRefused \/ o = ODry ->
  proj s' = proj s /\ s_seq s' = s_seq s + 1.
Proof.
  intros F1 F2 F3 R O. unfold run_statement in R.
  set (t0 := mkT (s_elems s) [] [] (next_id (s_elems s))) in *.
  assert (Shelled (s_elems s) (next_id (s_elems s)) t0) as S0.
  { exists []. simpl. rewrite app_nil_r. repeat split; auto. lia. }
  pose proof (shelled_declare _ _ stmt _ S0) as S1.
  destruct (declare t0 stmt) as [t1 cs]. simpl in S1.
  pose proof (shelled_plan f _ _ _ cs S1) as S2.
  destruct (plan f t1 cs) as [t2 ok]. simpl in S2.
  pose proof (discard_shelled _ _ _ (next_id_above (s_elems s)) S2) as D.
  rewrite F1, F2, F3, D in R.
  destruct ok; simpl in R.
  - destruct dry.
    + inversion R; subst. unfold proj; simpl. auto.
    + destruct (key_conflict t2).
      * inversion R; subst. unfold proj; simpl. auto.
      * destruct (write_loop (s_seq s + 1) (t_store t2) (s_vlog s) [] (t_staged t2)) as [[[st vl] ch] wrote].
        destruct wrote; simpl in R; inversion R; subst; destruct O as [O|[O|O]]; discriminate.
  - inversion R; subst. unfold proj; simpl. auto.
Qed.

(* Without the staged lookup in ENSURE (the code as it was), a refused statement commits part of itself. *)
Theorem tx_refused_noop_refuted_without_staged_lookup :
  exists s stmt s',
    run_statement (mkF true true true false true) false 0 s stmt = (OWriteFailed, s')
    /\ resp_of OWriteFailed = Refused
    /\ List.length (filter (fun e => negb (e_state e =? PENDING)) (s_elems s')) = 3%nat
    /\ List.length (s_vlog s') = 3%nat /\ s_journal s' = [] /\ s_elems s = [].
Proof.
  exists (mkS [] [] [] 0 0), [CCreate 1 0 11 0 true; CCreate 1 0 12 0 true; CEnsure true 77 13; CEnsure true 77 14].
  eexists. vm_compute. repeat split; reflexivity.
Qed.

(* With a staged lookup that walks only what the block's handles name, an anonymous ENSURE is invisible to
   a later ENSURE of the same tuple: the statement is refused in the write loop with rows already written. *)
Theorem tx_refused_noop_refuted_with_handle_only_lookup :
  exists s stmt s',
    run_statement (mkF true true true true false) false 0 s stmt = (OWriteFailed, s')
    /\ resp_of OWriteFailed = Refused
    /\ List.length (filter (fun e => negb (e_state e =? PENDING)) (s_elems s')) = 3%nat
    /\ List.length (s_vlog s') = 3%nat /\ s_journal s' = [] /\ s_elems s = [].
Proof.
  exists (mkS [] [] [] 0 0), [CCreate 1 0 11 0 true; CCreate 1 0 12 0 true; CEnsure false 77 13; CEnsure true 77 14].
  eexists. vm_compute. repeat split; reflexivity.
Qed.

(* Without the discard at a refused commit check (the code as it was), shells stay behind. *)
Theorem tx_refused_commit_left_shells_without_discard :
  exists s stmt s',
    run_statement (mkF true false true true true) false 0 s stmt = (OCommitRefused, s')
    /\ s_elems s = [] /\ List.length (s_elems s') = 2%nat.
Proof.
  exists (mkS [] [] [] 0 0), [CCreate 1 5 11 0 true; CCreate 1 5 12 0 true].
  eexists. vm_compute. repeat split; reflexivity.
Qed.

(* A commit takes exactly the next sequence number and journals exactly one row. *)
Theorem tx_commit_one_seq f dry time s stmt q st ch s' :
  run_statement f dry time s stmt = (OCommitted q st ch, s') ->
  q = s_seq s + 1 /\ s_seq s' = q /\ s_journal s' = s_journal s ++ [mkJ q st time (map fst ch)]
  /\ (ch = [] <-> st = 1).
Proof.
  unfold run_statement. destruct (declare _ stmt) as [t1 cs]. destruct (plan f t1 cs) as [t2 ok].
  destruct ok; simpl; [|intros R; inversion R].
  destruct dry; [intros R; inversion R|].
  destruct (key_conflict t2); [intros R; inversion R|].
  destruct (write_loop _ _ _ _ _) as [[[store vl] ch'] wrote].
  destruct wrote; simpl; intros R; inversion R; subst. simpl.
  repeat split; auto; destruct ch; intros; try congruence; try discriminate.
Qed.

(* The write loop writes each staged element at most once, one version up (new elements at 1). *)
Lemma write_loop_versions q : forall gs store vl ch store' vl' ch' w,
  write_loop q store vl ch gs = (store', vl', ch', w) ->
  exists added, ch' = ch ++ added
    /\ Forall (fun c => exists g, In g gs /\ g_changed g = true /\ fst c = g_id g
                                  /\ snd c = (if g_new g then 1 else e_ver (g_row g) + 1)) added
    /\ List.length vl' = (List.length vl + List.length added)%nat.
Proof.
  induction gs as [|g gs IH]; intros store vl ch store' vl' ch' w W; simpl in W.
  - inversion W; subst. exists []. rewrite app_nil_r. repeat split; auto.
  - destruct (g_changed g) eqn:C; simpl in W.
    + destruct (index_refuses (final_row g) store).
      * inversion W; subst. exists []. rewrite app_nil_r. repeat split; auto.
      * apply IH in W as [added [E [F L]]]. exists ((g_id g, e_ver (final_row g)) :: added).
        rewrite <- app_assoc in E. simpl in E. repeat split; auto.
        -- constructor.
           ++ exists g. simpl. repeat split; auto.
           ++ eapply Forall_impl; [|exact F]. simpl. intros c [g' [I H]]. exists g'. split; auto.
        -- rewrite L, app_length. simpl. lia.
    + apply IH in W as [added [E [F L]]]. exists added. repeat split; auto.
      eapply Forall_impl; [|exact F]. simpl. intros c [g' [I H]]. exists g'. split; auto.
Qed.

Theorem tx_one_version_step_per_staged_element f dry time s stmt q st ch s' :
  run_statement f dry time s stmt = (OCommitted q st ch, s') ->
  List.length (s_vlog s') = (List.length (s_vlog s) + List.length ch)%nat.
Proof.
  unfold run_statement. destruct (declare _ stmt) as [t1 cs]. destruct (plan f t1 cs) as [t2 ok].
  destruct ok; simpl; [|intros R; inversion R].
  destruct dry; [intros R; inversion R|].
  destruct (key_conflict t2); [intros R; inversion R|].
  destruct (write_loop _ _ _ _ _) as [[[store vl] ch'] wrote] eqn:W.
  destruct wrote; simpl; intros R; inversion R; subst. simpl.
  apply write_loop_versions in W as [added [E [_ L]]]. simpl in E. subst. exact L.
Qed.
