(* C17 — pinned statements only.  Each is closed by [exact] of a lemma proved in Nexus/Proofs.v
   (Nexus/TxProofs.v for the engine model) and followed by Print Assumptions. *)
From Coq Require Import List ZArith Bool.
From Verif Require Import Nexus.Model Nexus.Proofs Nexus.Lock gen.Gen_Nexus.
Import ListNotations.
Open Scope Z_scope.

(* A refused statement and a dry run leave the observable projection (every element row, journal row,
   version row, and the digest of every query / meta answer) exactly as it was; only the counter may move. *)
Theorem C17_refused_or_dry_run_changes_nothing :
  forall b r a, r = Refused \/ r = DryRun -> check_step b r a = true ->
    proj a = proj b /\ s_seq b <= s_seq a.
Proof. exact check_refused_facts. Qed.
Print Assumptions C17_refused_or_dry_run_changes_nothing.

(* What a passed commit step says: one fresh sequence number, every listed element exactly one version up
   (1 when it is new) whatever the number of clauses, everything else untouched, one journal row, one
   version row per change. *)
Theorem C17_commit_step_facts :
  forall b a q st ch, check_step b (Committed q st ch) a = true -> commit_facts b a q st ch.
Proof. exact check_commit_facts. Qed.
Print Assumptions C17_commit_step_facts.

(* Monitor soundness, lifted to histories of any length: if every step passes, the invariant holds at
   every point the history passes through. *)
Theorem C17_history_invariant :
  forall steps s, Inv s -> check_history s steps = true -> Forall Inv (states s steps).
Proof. exact history_inv. Qed.
Print Assumptions C17_history_invariant.

Theorem C17_fresh_space_satisfies_invariant : forall q o, Inv (mkS [] [] [] q o).
Proof. exact Inv_empty. Qed.
Print Assumptions C17_fresh_space_satisfies_invariant.

(* Readable consequences of [Inv], at every point of a checked history that starts from a fresh space. *)

Theorem C17_commit_seqs_strictly_increase :
  forall steps q o s, check_history (mkS [] [] [] q o) steps = true -> In s (states (mkS [] [] [] q o) steps) ->
    sorted_lt (map j_seq (s_journal s)) = true /\ Forall (fun r => j_seq r <= s_seq s) (s_journal s).
Proof.
  intros steps q o s C I.
  pose proof (history_inv steps _ (Inv_empty q o) C) as F. rewrite Forall_forall in F.
  specialize (F _ I). split; [exact (i_jsorted _ F) | exact (i_jbound _ F)].
Qed.
Print Assumptions C17_commit_seqs_strictly_increase.

(* version e = number of commits that changed e = 1 + the commits after the one that created it *)
Theorem C17_version_counts_commits :
  forall steps q o s id, check_history (mkS [] [] [] q o) steps = true -> In s (states (mkS [] [] [] q o) steps) ->
    ver_of (s_elems s) id = nchanged (s_journal s) id.
Proof.
  intros steps q o s id C I.
  pose proof (history_inv steps _ (Inv_empty q o) C) as F. rewrite Forall_forall in F.
  exact (i_ver _ (F _ I) id).
Qed.
Print Assumptions C17_version_counts_commits.

(* one tuple - one proposition; one (type, key) - one concept; and no shell survives *)
Theorem C17_identity_unique_and_no_shell :
  forall steps q o s, check_history (mkS [] [] [] q o) steps = true -> In s (states (mkS [] [] [] q o) steps) ->
    NoDup (map e_id (s_elems s))
    /\ (forall e1 e2, In e1 (s_elems s) -> In e2 (s_elems s) -> e_key e1 <> 0 ->
          e_kind e1 = e_kind e2 -> e_key e1 = e_key e2 -> e1 = e2)
    /\ (forall e, In e (s_elems s) -> e_state e <> PENDING).
Proof. exact history_unique. Qed.
Print Assumptions C17_identity_unique_and_no_shell.

(* one statement - at most one version step per element, exactly one for the listed ones *)
Theorem C17_one_bump_per_statement :
  forall b a q st ch id, check_step b (Committed q st ch) a = true ->
    (In id (map fst ch) -> ver_of (s_elems a) id = ver_of (s_elems b) id + 1)
    /\ (~ In id (map fst ch) -> find_e id (s_elems a) = find_e id (s_elems b)).
Proof. exact one_bump. Qed.
Print Assumptions C17_one_bump_per_statement.

(* "never observed in part by any reader", at lock level: for any number of sessions and any interleaving of
   their steps, a read performed under the read lock sees no half-applied statement, and a statement holding
   the write lock is alone (Nexus/Lock.v; Common/Gate.v models a one-shot retiring gate and does not fit). *)
Theorem C17_readers_never_observe_a_partial_statement :
  forall s0 tr s, linit s0 -> lsteps s0 tr s -> forall b, In (LRead b) tr -> b = false.
Proof. exact readers_never_observe_a_partial_statement. Qed.
Print Assumptions C17_readers_never_observe_a_partial_statement.

Theorem C17_writer_is_alone :
  forall s0 tr s i m, linit s0 -> lsteps s0 tr s -> lat s i (WHeld m) ->
    forall j p, lat s j p -> j <> i -> r_holds p = false /\ w_holds p = false.
Proof. exact writer_is_alone. Qed.
Print Assumptions C17_writer_is_alone.

(* the lock discipline the model assumes is the one nexus.rs has: the guard is taken before, and lives across,
   the whole execution of the command *)
Theorem C17_generated_lock_discipline :
  kml_holds_write_lock_across_execute = true
  /\ kql_holds_read_lock_across_execute = true
  /\ meta_holds_read_lock_across_execute = true.
Proof. repeat split; reflexivity. Qed.
Print Assumptions C17_generated_lock_discipline.

Example C17_nonvacuous :
  let s0 := mkS [] [] [] 0 7 in
  let s1 := mkS [mkE 1000000001 1 1 0 11 0 0; mkE 2000000001 2 1 0 12 99 0]
                [mkJ 1 0 5 [1000000001; 2000000001]]
                [mkV 1000000001 1 1 1 11 0; mkV 2000000001 2 1 1 12 0] 1 8 in
  let s2 := mkS [mkE 1000000001 1 2 1 13 0 0; mkE 2000000001 2 1 0 12 99 0]
                [mkJ 1 0 5 [1000000001; 2000000001]; mkJ 3 0 6 [1000000001]]
                [mkV 1000000001 1 1 1 11 0; mkV 2000000001 2 1 1 12 0; mkV 1000000001 1 2 3 13 0] 3 9 in
  check_history s0 [(Committed 1 0 [(1000000001, 1); (2000000001, 1)], s1);
                    (Refused, mkS (s_elems s1) (s_journal s1) (s_vlog s1) 2 8);
                    (Committed 3 0 [(1000000001, 2)], s2)] = true.
Proof. vm_compute. reflexivity. Qed.
